(* C01 — the concrete resource kinds satisfy the transactional-resource laws; the
   MPCalContext over them is therefore atomic (instances of Proofs.v). *)
From PGV Require Import C01.Model C01.Proofs.
From Coq Require Import Lia.

(* ------------------------------------------------------------------ value equality *)

Section ValInd.
  Variable P : val -> Prop.
  Hypothesis HD : P VD.
  Hypothesis HB : forall b, P (VB b).
  Hypothesis HI : forall z, P (VI z).
  Hypothesis HS : forall s, P (VS s).
  Hypothesis HT : forall xs, Forall P xs -> P (VT xs).
  Hypothesis HR : forall kvs, Forall (fun kv => P (fst kv) /\ P (snd kv)) kvs -> P (VR kvs).

  Fixpoint val_ind' (v : val) : P v :=
    match v with
    | VD => HD
    | VB b => HB b
    | VI z => HI z
    | VS s => HS s
    | VT xs => HT xs ((fix go (l : list val) : Forall P l :=
                         match l with
                         | [] => Forall_nil _
                         | x :: r => Forall_cons x (val_ind' x) (go r)
                         end) xs)
    | VR kvs => HR kvs ((fix go (l : list (val * val)) : Forall (fun kv => P (fst kv) /\ P (snd kv)) l :=
                           match l with
                           | [] => Forall_nil _
                           | (k, v) :: r => Forall_cons (k, v) (conj (val_ind' k) (val_ind' v)) (go r)
                           end) kvs)
    end.
End ValInd.

Lemma val_eqb_true : forall a b, val_eqb a b = true -> a = b.
Proof.
  induction a using val_ind'; intros y E; destruct y; cbn in E; try discriminate; auto.
  - apply Bool.eqb_prop in E. congruence.
  - apply Z.eqb_eq in E. congruence.
  - apply String.eqb_eq in E. congruence.
  - f_equal. revert xs0 E. induction H as [|x xs Hx Hxs IH]; intros [|y ys] E; try discriminate; auto.
    apply andb_prop in E as [E1 E2]. f_equal; auto.
  - f_equal. revert kvs0 E. induction H as [|[k v] xs [Hk Hv] Hxs IH]; intros [|[k' v'] ys] E; try discriminate; auto.
    apply andb_prop in E as [E1 E3]. apply andb_prop in E1 as [E1 E2]. cbn in Hk, Hv.
    f_equal; auto. f_equal; auto.
Qed.

Lemma val_eqb_refl : forall a, val_eqb a a = true.
Proof.
  induction a using val_ind'; cbn; auto.
  - apply Bool.eqb_reflx.
  - apply Z.eqb_refl.
  - apply String.eqb_refl.
  - induction H as [|x xs Hx Hxs IH]; auto. rewrite Hx. exact IH.
  - induction H as [|[k v] xs [Hk Hv] Hxs IH]; auto. cbn in Hk, Hv. rewrite Hk, Hv. exact IH.
Qed.

Lemma val_eqb_eq : forall a b, val_eqb a b = true <-> a = b.
Proof. intros a b; split; [apply val_eqb_true|intros ->; apply val_eqb_refl]. Qed.

Lemma str_eqb_eq : forall a b : string, String.eqb a b = true <-> a = b.
Proof. intros. apply String.eqb_eq. Qed.

(* ------------------------------------------------------------------ generic helpers on laws *)

Lemma sres_eq_refl {O} (oeq : O -> O -> Prop) (Hr : forall o, oeq o o) (x : res (O * val)) : sres_eq oeq x x.
Proof. destruct x as [[o v]| |]; cbn; auto. Qed.

(* sum of two kinds over the same operations *)
Section SumLaws.
  Context {S1 S2 A O1 O2 : Type}.
  Variable I1 : impl S1 A.
  Variable I2 : impl S2 A.
  Variable X1 : absn S1 A O1.
  Variable X2 : absn S2 A O2.
  Hypothesis H1 : laws I1 X1.
  Hypothesis H2 : laws I2 X2.

  Definition sum_abs : absn (S1 + S2) A (O1 + O2) :=
    mkAbs
      (fun s => match s with inl x => inl (x_cur X1 x) | inr y => inr (x_cur X2 y) end)
      (fun s => match s with inl x => inl (x_obs X1 x) | inr y => inr (x_obs X2 y) end)
      (fun s => match s with inl x => x_inv X1 x | inr y => x_inv X2 y end)
      (fun s => match s with inl x => x_qui X1 x | inr y => x_qui X2 y end)
      (fun s => match s with inl x => x_prep X1 x | inr y => x_prep X2 y end)
      (fun o a => match o with
                  | inl x => match x_sstep X1 x a with Ok (x', v) => Ok (inl x', v) | Refuse => Refuse | Crash => Crash end
                  | inr y => match x_sstep X2 y a with Ok (y', v) => Ok (inr y', v) | Refuse => Refuse | Crash => Crash end
                  end)
      (fun a b => match a, b with
                  | inl x, inl x' => x_oeq X1 x x'
                  | inr y, inr y' => x_oeq X2 y y'
                  | _, _ => False
                  end).

  Lemma sum_laws : laws (sum_impl I1 I2) sum_abs.
  Proof.
    constructor.
    - intros [x|y]; cbn; [apply (L_refl _ _ H1)|apply (L_refl _ _ H2)].
    - intros [x|y] [x'|y']; cbn; auto; [apply (L_sym _ _ H1)|apply (L_sym _ _ H2)].
    - intros [x|y] [x'|y'] [x''|y'']; cbn; try contradiction; [apply (L_trans _ _ H1)|apply (L_trans _ _ H2)].
    - intros [x|y]; cbn; [apply (L_qui _ _ H1)|apply (L_qui _ _ H2)].
    - intros [x|y] a s' r Hi Hs; cbn in Hs.
      + destruct (i_step I1 x a) as [x' r0] eqn:E. inversion Hs; subst s' r0; clear Hs.
        destruct (L_step _ _ H1 x a x' r Hi E) as (Hi' & Ho & Hc). cbn. split; auto. split; auto.
        unfold step_ok in *. destruct (x_sstep X1 (x_cur X1 x) a) as [[o' v]| |]; auto.
      + destruct (i_step I2 y a) as [y' r0] eqn:E. inversion Hs; subst s' r0; clear Hs.
        destruct (L_step _ _ H2 y a y' r Hi E) as (Hi' & Ho & Hc). cbn. split; auto. split; auto.
        unfold step_ok in *. destruct (x_sstep X2 (x_cur X2 y) a) as [[o' v]| |]; auto.
    - intros [x|y] s' b Hi Hs; cbn in Hs.
      + destruct (i_pc I1 x) as [x' b0] eqn:E. inversion Hs; subst s' b0; clear Hs.
        apply (L_pc _ _ H1 x x' b Hi E).
      + destruct (i_pc I2 y) as [y' b0] eqn:E. inversion Hs; subst s' b0; clear Hs.
        apply (L_pc _ _ H2 y y' b Hi E).
    - intros [x|y]; cbn; [apply (L_cm _ _ H1)|apply (L_cm _ _ H2)].
    - intros [x|y]; cbn; [apply (L_ab _ _ H1)|apply (L_ab _ _ H2)].
    - intros [x|y] [x'|y'] a H; cbn in H; try contradiction; cbn.
      + pose proof (L_proper _ _ H1 x x' a H) as Hp. unfold sres_eq in *.
        destruct (x_sstep X1 x a) as [[? ?]| |], (x_sstep X1 x' a) as [[? ?]| |]; auto.
      + pose proof (L_proper _ _ H2 y y' a H) as Hp. unfold sres_eq in *.
        destruct (x_sstep X2 y a) as [[? ?]| |], (x_sstep X2 y' a) as [[? ?]| |]; auto.
  Qed.
End SumLaws.

(* a kind whose operations are a partial re-encoding of another kind's *)
Section Retarget.
  Context {S A A' O : Type}.
  Variable I : impl S A.
  Variable X : absn S A O.
  Hypothesis HL : laws I X.
  Variable g : A' -> option A.
  Variable d : A' -> bool.           (* for operations outside the encoding: true = refuse, false = crash *)

  Definition retarget_impl : impl S A' :=
    mkImpl (fun s a' => match g a' with Some a => i_step I s a | None => (s, if d a' then Refuse else Crash) end)
           (i_pc I) (i_cm I) (i_ab I) (i_abp I).

  Definition retarget_abs : absn S A' O :=
    mkAbs (x_cur X) (x_obs X) (x_inv X) (x_qui X) (x_prep X)
          (fun o a' => match g a' with Some a => x_sstep X o a | None => if d a' then Refuse else Crash end)
          (x_oeq X).

  Lemma retarget_laws : laws retarget_impl retarget_abs.
  Proof.
    constructor; cbn.
    - apply (L_refl _ _ HL).
    - apply (L_sym _ _ HL).
    - apply (L_trans _ _ HL).
    - apply (L_qui _ _ HL).
    - intros s a' s' r Hi Hs. destruct (g a') as [a|].
      + apply (L_step _ _ HL s a s' r Hi Hs).
      + inversion Hs; subst s' r. split; auto. split; [apply (L_refl _ _ HL)|].
        destruct (d a'); reflexivity.
    - apply (L_pc _ _ HL).
    - apply (L_cm _ _ HL).
    - apply (L_ab _ _ HL).
    - intros o1 o2 a' H. destruct (g a') as [a|]; [apply (L_proper _ _ HL); auto|].
      destruct (d a'); exact Logic.I.
  Qed.
End Retarget.

(* the laws survive a stronger invariant that every operation preserves *)
Section Strengthen.
  Context {S A O : Type}.
  Variable I : impl S A.
  Variable X : absn S A O.
  Hypothesis HL : laws I X.
  Variable P : S -> Prop.
  Hypothesis P_step : forall s a, P s -> P (fst (i_step I s a)).
  Hypothesis P_pc : forall s, P s -> P (fst (i_pc I s)).
  Hypothesis P_cm : forall s, P s -> P (i_cm I s).
  Hypothesis P_ab : forall s, P s -> P (i_ab I s).

  Definition strengthen_abs : absn S A O :=
    mkAbs (x_cur X) (x_obs X) (fun s => x_inv X s /\ P s) (x_qui X) (x_prep X) (x_sstep X) (x_oeq X).

  Lemma strengthen_laws : laws I strengthen_abs.
  Proof.
    constructor; cbn.
    - apply (L_refl _ _ HL).
    - apply (L_sym _ _ HL).
    - apply (L_trans _ _ HL).
    - intros s [Hi _]. apply (L_qui _ _ HL); auto.
    - intros s a s' r [Hi Hp] Hs. destruct (L_step _ _ HL s a s' r Hi Hs) as (Hi' & Ho & Hc).
      split; auto. split; auto. pose proof (P_step s a Hp) as H. rewrite Hs in H. exact H.
    - intros s s' b [Hi Hp] Hs. destruct (L_pc _ _ HL s s' b Hi Hs) as (Hi' & Ho & Hc).
      split; auto. split; auto. pose proof (P_pc s Hp) as H. rewrite Hs in H. exact H.
    - intros s [Hi Hp] Hpr. destruct (L_cm _ _ HL s Hi Hpr) as (Hi' & Hq & Ho). auto.
    - intros s [Hi Hp] Ha. destruct (L_ab _ _ HL s Hi Ha) as (Hi' & Hq & Ho). auto.
    - apply (L_proper _ _ HL).
  Qed.
End Strengthen.

(* ------------------------------------------------------------------ the leaf kinds *)

(* abstract objects of the leaf kinds *)
Inductive oleaf :=
| OVal (v : val)                               (* a variable *)
| OQueue (q : list val)                        (* pending inputs, oldest first *)
| OCQueue (q : list val)                       (* same, read yields TRUE when empty *)
| OSent (l : list val)                         (* everything delivered so far *)
| OSOut (l : list val) (full : bool)
| ODummy (v : val)
| OFile (fs : option val)                      (* file content *)
| OPersist (v : val) (db : option val)         (* variable + stored copy *)
| OPLog (l : list val) (db : list (Z * val))   (* log + stored entries *)
| OShared (v : val) (other : bool)
| ORelaxed (l : list val) (down : bool)
| OCrdt (v : Z)                                (* grow-only counter *)
| OCell (v : val)                              (* a variable without indexed access *)
| OPlace
| OFD (st : option bool).

Definition oval_step (v : val) (a : act) : res (val * val) :=
  match a with
  | ARead p => match apply_path v p with Some x => Ok (v, x) | None => Crash end
  | AWrite p x => match subst_path v p x with Some n => Ok (n, VD) | None => Crash end
  | ATouch _ => Refuse
  end.

(* the atomic semantics of one operation *)
Definition leaf_sstep (o : oleaf) (a : act) : res (oleaf * val) :=
  match o with
  | OVal v => match oval_step v a with Ok (n, x) => Ok (OVal n, x) | Refuse => Refuse | Crash => Crash end
  | OQueue q =>
      match a with
      | ARead [] => match q with v :: q' => Ok (OQueue q', v) | [] => Refuse end
      | ATouch [] => Refuse
      | _ => Crash
      end
  | OCQueue q =>
      match a with
      | ARead [] => match q with v :: q' => Ok (OCQueue q', v) | [] => Ok (OCQueue [], VB true) end
      | ATouch [] => Refuse
      | _ => Crash
      end
  | OSent l =>
      match a with
      | AWrite [] v => Ok (OSent (l ++ [v]), VD)
      | ATouch [] => Refuse
      | _ => Crash
      end
  | OSOut l full =>
      match a with
      | AWrite [] v => if full then Refuse else Ok (OSOut (l ++ [v]) full, VD)
      | ATouch [] => Refuse
      | _ => Crash
      end
  | ODummy v =>
      match a with
      | ARead _ => Ok (o, v)
      | AWrite _ _ => Ok (o, VD)
      | ATouch _ => Refuse
      end
  | OFile fs =>
      match a with
      | ARead [] => match fs with Some v => Ok (o, v) | None => Crash end
      | AWrite [] v => if is_str v then Ok (OFile (Some v), VD) else Crash
      | ATouch [] => Refuse
      | _ => Crash
      end
  | OPersist v db =>
      match oval_step v a with
      | Ok (n, x) => Ok (OPersist n (match a with AWrite _ _ => Some n | _ => db end), x)
      | Refuse => Refuse
      | Crash => Crash
      end
  | OPLog l db =>
      match a with
      | ARead [] => Ok (o, VT l)
      | ARead [VI i] => match plog_get l i with Some e => Ok (o, e) | None => Crash end
      | AWrite [] v =>
          match plog_write l v with
          | Some (l', ops) => Ok (OPLog l' (fold_left db_apply ops db), VD)
          | None => Crash
          end
      | ATouch [] => Refuse
      | ATouch [VI i] => match plog_get l i with Some _ => Refuse | None => Crash end
      | _ => Crash
      end
  | OShared v other =>
      match a with
      | ATouch [] => Refuse
      | _ => if other then Refuse
             else match oval_step v a with Ok (n, x) => Ok (OShared n other, x) | Refuse => Refuse | Crash => Crash end
      end
  | ORelaxed l down =>
      match a with
      | AWrite [] v => if down then Refuse else Ok (ORelaxed (l ++ [v]) down, VD)
      | ATouch [] => Refuse
      | _ => Crash
      end
  | OCrdt c =>
      match a with
      | ARead [] => Ok (o, VI c)
      | AWrite [] (VI n) => Ok (OCrdt (add32 c n), VD)
      | ATouch [] => Refuse
      | _ => Crash
      end
  | OCell v =>
      match a with
      | ARead [] => Ok (o, v)
      | AWrite [] x => Ok (OCell x, VD)
      | ATouch [] => Refuse
      | _ => Crash
      end
  | OPlace => match a with ATouch [] => Refuse | _ => Crash end
  | OFD st =>
      match a with
      | ARead [] => match st with Some b => Ok (o, VB b) | None => Refuse end
      | ATouch [] => Refuse
      | _ => Crash
      end
  end.

Definition leaf_cur (s : leaf) : oleaf :=
  match s with
  | LLocal v _ => OVal v
  | LIn b _ c => OQueue (b ++ c)
  | LCIn b _ c => OCQueue (b ++ c)
  | LOut buf em => OSent (em ++ buf)
  | LSOut em inf full => OSOut (em ++ inf) full
  | LDummy v => ODummy v
  | LFile p _ fs => OFile (match p with Some v => Some v | None => fs end)
  | LPersist hn v _ db => OPersist v (if hn then Some v else db)
  | LPLog l _ _ ops db => OPLog l (fold_left db_apply ops db)
  | LShared v _ _ other => OShared v other
  | LRelaxed _ sent inf down => ORelaxed (sent ++ inf) down
  | LTcp inCS rbuf delivered => OSent (delivered ++ (if inCS then rbuf else []))
  | LCrdt v _ _ => OCrdt v
  | LTwoPC v _ _ => OCell v
  | LPlace => OPlace
  | LFD st => OFD st
  end.

(* the published (last-commit) view.  For the two kinds that put data on the wire inside
   WriteValue (LSOut, LRelaxed) this is the part delivered by committed sections only; what the
   peer really holds is leaf_delivered below *)
Definition leaf_obs (s : leaf) : oleaf :=
  match s with
  | LLocal _ old => OVal old
  | LIn b bl c => OQueue (bl ++ b ++ c)
  | LCIn b bl c => OCQueue (bl ++ b ++ c)
  | LOut _ em => OSent em
  | LSOut em _ full => OSOut em full
  | LDummy v => ODummy v
  | LFile _ _ fs => OFile fs
  | LPersist _ _ old db => OPersist old db
  | LPLog l oldl hasOld _ db => OPLog (if hasOld then oldl else l) db
  | LShared _ old _ other => OShared old other
  | LRelaxed _ sent _ down => ORelaxed sent down
  | LTcp _ _ delivered => OSent delivered
  | LCrdt v old hasOld => OCrdt (if hasOld then old else v)
  | LTwoPC _ old _ => OCell old
  | LPlace => OPlace
  | LFD st => OFD st
  end.

Definition leaf_inv (s : leaf) : Prop :=
  match s with
  | LFile p c fs => forall x, c = Some x -> p = None /\ fs = Some x
  | LPersist hn v old _ => hn = false -> v = old
  | LPLog _ _ hasOld ops _ => hasOld = false -> ops = []
  | LShared v old hl other => (hl = false -> v = old) /\ (hl = true -> other = false)
  | LRelaxed hs _ inf _ => hs = false -> inf = []
  | LTwoPC v old cs => cs = TNot -> v = old
  | _ => True
  end.

Definition leaf_qui (s : leaf) : Prop :=
  match s with
  | LLocal v old => v = old
  | LIn _ bl _ => bl = []
  | LCIn _ bl _ => bl = []
  | LOut buf _ => buf = []
  | LSOut _ inf _ => inf = []
  | LDummy _ => True
  | LFile p c _ => p = None /\ c = None
  | LPersist hn _ _ _ => hn = false
  | LPLog _ _ hasOld _ _ => hasOld = false
  | LShared _ _ hl _ => hl = false
  | LRelaxed hs _ _ _ => hs = false
  | LTcp inCS _ _ => inCS = false
  | LCrdt _ _ hasOld => hasOld = false
  | LTwoPC _ _ cs => cs = TNot
  | LPlace => True
  | LFD _ => True
  end.

(* Commit of a 2PC variable requires a completed PreCommit (the Go code asserts it) *)
Definition leaf_prep (s : leaf) : Prop :=
  match s with LTwoPC _ _ cs => cs = TPre | _ => True end.

Definition leaf_abs : absn leaf act oleaf :=
  mkAbs leaf_cur leaf_obs leaf_inv leaf_qui leaf_prep leaf_sstep eq.

Ltac inv_pair :=
  repeat match goal with
         | H : (_, _) = (_, _) |- _ => inversion H; subst; clear H
         end.

Lemma local_step_spec v a :
  match oval_step v a with
  | Ok (n, x) => local_step v a = (n, Ok x)
  | Refuse => local_step v a = (v, Refuse)
  | Crash => local_step v a = (v, Crash)
  end.
Proof.
  destruct a as [p|p x|p]; cbn.
  - destruct (apply_path v p); reflexivity.
  - destruct (subst_path v p x); reflexivity.
  - reflexivity.
Qed.

Lemma leaf_L_step : forall s a s' r, leaf_inv s -> leaf_step s a = (s', r) ->
  leaf_inv s' /\ leaf_obs s' = leaf_obs s /\ step_ok eq r (leaf_cur s') (leaf_sstep (leaf_cur s) a).
Proof.
  intros s a s' r Hi Hs. destruct s.
  - (* LLocal *)
    cbn in Hs. pose proof (local_step_spec value a) as Hl.
    cbn [leaf_cur leaf_sstep]. destruct (oval_step value a) as [[n x]| |]; rewrite Hl in Hs; inv_pair; cbn; auto.
  - (* LIn *)
    cbn in Hs. destruct a as [[|i p]|[|i p] x|[|i p]]; inv_pair; cbn; auto.
    destruct buffer as [|v b']; [destruct chan as [|v c']|]; inv_pair; cbn; auto.
    + split; auto. split; auto. now rewrite <- app_assoc.
    + split; auto. split; auto. now rewrite <- app_assoc.
  - (* LCIn *)
    cbn in Hs. destruct a as [[|i p]|[|i p] x|[|i p]]; inv_pair; cbn; auto.
    destruct buffer as [|v b']; [destruct chan as [|v c']|]; inv_pair; cbn; auto.
    + split; auto. split; auto. now rewrite <- app_assoc.
    + split; auto. split; auto. now rewrite <- app_assoc.
  - (* LOut *)
    cbn in Hs. destruct a as [[|i p]|[|i p] x|[|i p]]; inv_pair; cbn; auto.
    split; auto. split; auto. split; auto. now rewrite app_assoc.
  - (* LSOut *)
    cbn in Hs. destruct a as [[|i p]|[|i p] x|[|i p]]; inv_pair; cbn; auto.
    destruct full; inv_pair; cbn; auto.
    split; auto. split; auto. split; auto. now rewrite app_assoc.
  - (* LDummy *)
    cbn in Hs. destruct a; inv_pair; cbn; auto.
  - (* LFile *)
    cbn in Hs. cbn in Hi. destruct a as [[|i p]|[|i p] x|[|i p]]; inv_pair; cbn; auto.
    + destruct pending as [v|].
      * inv_pair. cbn. auto.
      * destruct cached as [v|].
        -- inv_pair. destruct (Hi v eq_refl) as [_ ->]. cbn. auto.
        -- destruct fs as [v|]; inv_pair; cbn; auto.
    + destruct (is_str x) eqn:Ex; inv_pair; cbn.
      * split; [intros y Hy; discriminate|auto].
      * split; [intros y Hy; discriminate|auto].
  - (* LPersist *)
    cbn in Hs. pose proof (local_step_spec value a) as Hl. cbn in Hi.
    cbn [leaf_cur leaf_sstep].
    destruct (oval_step value a) as [[n x]| |] eqn:Eo; rewrite Hl in Hs; inv_pair; cbn.
    + destruct a as [p|p y|p]; cbn in *.
      * destruct (apply_path value p); inversion Eo; subst. auto.
      * split; [discriminate|]. auto.
      * discriminate.
    + destruct a; cbn in *; auto. split; [discriminate|auto].
    + destruct a; cbn in *; auto. split; [discriminate|auto].
  - (* LPLog *)
    cbn in Hs. cbn in Hi.
    destruct a as [[|i [|j p]]|[|i p] x|[|i [|j p]]]; inv_pair; cbn; auto.
    + destruct i; inv_pair; cbn; auto.
      destruct (plog_get lg z); inv_pair; cbn; auto.
    + destruct i; inv_pair; cbn; auto.
    + destruct (plog_write lg x) as [[l' o']|]; inv_pair; cbn.
      * split; [discriminate|]. split; [destruct hasOld; auto|]. split; auto.
        now rewrite fold_left_app.
      * split; [discriminate|]. split; [destruct hasOld; auto|]. auto.
    + destruct i; inv_pair; cbn; auto.
      destruct (plog_get lg z); inv_pair; cbn; auto.
    + destruct i; inv_pair; cbn; auto.
  - (* LShared *)
    cbn in Hs. cbn in Hi. destruct Hi as [Hv Ho].
    assert (Hgen : forall a, (negb hasLock && other = true -> (s', r) = (LShared value oldValue hasLock other, Refuse)) ->
                   (negb hasLock && other = false ->
                    (s', r) = (let '(v', r0) := local_step value a in (LShared v' oldValue true other, r0))) ->
                   (forall p, a <> ATouch p \/ p <> []) \/ True ->
                   leaf_inv s' /\ leaf_obs s' = OShared oldValue other /\
                   step_ok eq r (leaf_cur s')
                     (if other then Refuse
                      else match oval_step value a with Ok (n, x) => Ok (OShared n other, x) | Refuse => Refuse | Crash => Crash end)).
    { intros a0 H1 H2 _. destruct (negb hasLock && other) eqn:E.
      - specialize (H1 eq_refl). inv_pair. apply andb_prop in E as [E1 E2]. subst other.
        cbn. split; auto.
      - specialize (H2 eq_refl).
        assert (other = false).
        { destruct hasLock; cbn in E; auto. }
        subst other. pose proof (local_step_spec value a0) as Hl.
        destruct (oval_step value a0) as [[n x]| |]; rewrite Hl in H2; inv_pair; cbn; auto;
          (split; [split; [discriminate|auto]|auto]). }
    destruct a as [p|p x|[|i p]].
    + apply Hgen; auto; intros E; rewrite E in Hs; auto.
    + apply Hgen; auto; intros E; rewrite E in Hs; auto.
    + inv_pair. cbn. auto.
    + cbn [leaf_cur leaf_sstep]. apply Hgen; auto; intros E; rewrite E in Hs; auto.
  - (* LRelaxed *)
    cbn in Hs. cbn in Hi. destruct a as [[|i p]|[|i p] x|[|i p]]; inv_pair; cbn; auto.
    destruct down; inv_pair; cbn; auto.
    split; [discriminate|]. split; auto. split; auto. now rewrite app_assoc.
  - (* LTcp *)
    cbn in Hs. destruct a as [[|i p]|[|i p] x|[|i p]]; inv_pair; cbn; auto.
    split; auto. split; auto. split; auto. destruct inCS; now rewrite ?app_assoc.
  - (* LCrdt *)
    cbn in Hs. destruct a as [[|i p]|[|i p] x|[|i p]]; inv_pair; cbn; auto.
    destruct x; inv_pair; cbn; auto; destruct hasOld; auto.
  - (* LTwoPC *)
    cbn in Hs. cbn in Hi. destruct a as [[|i p]|[|i p] x|[|i p]]; inv_pair; cbn; auto.
    + split; [destruct cs; cbn; auto; discriminate|auto].
    + split; [destruct cs; cbn; discriminate|auto].
  - (* LPlace *)
    cbn in Hs. destruct a as [[|i p]|[|i p] x|[|i p]]; inv_pair; cbn; auto.
  - (* LFD *)
    cbn in Hs. destruct a as [[|i p]|[|i p] x|[|i p]]; inv_pair; cbn; auto.
    destruct st; inv_pair; cbn; auto.
Qed.

Lemma leaf_laws : laws leaf_impl leaf_abs.
Proof.
  constructor; cbn [x_oeq x_cur x_obs x_inv x_qui x_prep x_sstep leaf_abs i_step i_pc i_cm i_ab i_abp leaf_impl].
  - auto.
  - auto.
  - intros; congruence.
  - (* qui *)
    intros s Hi Hq. destruct s; cbn in *; subst; auto.
    + now rewrite app_nil_r.
    + now rewrite app_nil_r.
    + destruct Hq; subst. reflexivity.
    + rewrite Hi; auto.
    + rewrite (Hi eq_refl). reflexivity.
    + destruct Hi as [Hv _]. rewrite Hv; auto.
    + rewrite (Hi eq_refl). now rewrite app_nil_r.
    + now rewrite app_nil_r.
    + rewrite (Hi eq_refl). reflexivity.
  - apply leaf_L_step.
  - intros s s' b Hi Hs. destruct s; cbn in Hs; inversion Hs; subst; cbn; auto.
    split; [discriminate|auto].
  - (* cm *)
    intros s Hi Hp. destruct s; cbn in *; auto.
    + split; [intros; discriminate|auto].
    + destruct hasOld; cbn; auto. split; auto. split; auto. rewrite (Hi eq_refl). reflexivity.
    + destruct Hi as [Hv Ho]. destruct hasLock; cbn; auto. rewrite (Hv eq_refl). auto.
    + destruct inCS; cbn; auto. split; auto. split; auto. now rewrite app_nil_r.
    + subst cs. cbn. auto.
  - (* ab *)
    intros s Hi Ha. destruct s; cbn in *; try discriminate; auto.
    + split; auto. split; auto. now rewrite <- app_assoc.
    + split; auto. split; auto. now rewrite <- app_assoc.
    + split; auto. intros; discriminate.
    + destruct hasOld; cbn; auto.
    + destruct Hi as [Hv Ho]. destruct hasLock; cbn; auto.
    + destruct hasOld; cbn; auto.
  - intros o1 o2 a ->. apply sres_eq_refl. auto.
Qed.

(* ------------------------------------------------------------------ IncMap / HashMap *)

Definition imap_fam_abs := fam_abs val_eqb leaf_abs.
Definition imap_abs : absn imap act (val -> option oleaf) :=
  retarget_abs imap_fam_abs imap_act is_touch_nil.

Lemma imap_impl_eq : imap_impl = retarget_impl (fam_impl val_eqb leaf_impl) imap_act is_touch_nil.
Proof. reflexivity. Qed.

Lemma imap_laws : laws imap_impl imap_abs.
Proof.
  rewrite imap_impl_eq. apply retarget_laws. apply fam_laws; [apply val_eqb_eq|apply leaf_laws].
Qed.

(* ------------------------------------------------------------------ a top-level resource; the context *)

(* nestedArchetype over a lawful nested system is lawful: the outer resource only forwards *)
Definition nested_abs : absn leaf act oleaf := retarget_abs leaf_abs nested_act (fun _ => false).

Lemma nested_impl_eq : nested_impl = retarget_impl leaf_impl nested_act (fun _ => false).
Proof. reflexivity. Qed.

Lemma nested_laws : laws nested_impl nested_abs.
Proof. rewrite nested_impl_eq. apply retarget_laws. apply leaf_laws. Qed.

(* the same for ANY lawful nested system *)
Lemma nested_laws_any {S O} (I : impl S act) (X : absn S act O) :
  laws I X -> laws (retarget_impl I nested_act (fun _ => false)) (retarget_abs X nested_act (fun _ => false)).
Proof. intros H. apply retarget_laws. exact H. Qed.

Definition node_abs : absn node act (oleaf + ((val -> option oleaf) + oleaf)) :=
  sum_abs leaf_abs (sum_abs imap_abs nested_abs).

Lemma node_laws : laws node_impl node_abs.
Proof. apply sum_laws; [apply leaf_laws|apply sum_laws; [apply imap_laws|apply nested_laws]]. Qed.

Definition ctx_abs := fam_abs String.eqb node_abs.
Definition ctx_spec_run := @spec_run string node act _ String.eqb node_abs.
Definition ctx_spec_sections := @spec_sections string node act _ String.eqb node_abs.
Definition ctx_post := @section_post string node act _ String.eqb node_impl node_abs.

Lemma ctx_section_atomic : forall (c : ctx) p fl pf c' out,
  x_inv ctx_abs c -> x_qui ctx_abs c ->
  ctx_run_section c p fl pf = (c', out) -> ctx_post c p c' out.
Proof.
  intros. eapply section_atomic_gen; eauto; [apply str_eqb_eq|apply node_laws].
Qed.

Lemma ctx_sections_atomic : forall secs (c c' : ctx) outs,
  x_inv ctx_abs c -> x_qui ctx_abs c ->
  ctx_run_sections c secs = (c', outs) ->
  ctx_spec_sections (x_obs ctx_abs c) secs outs /\
  (Forall (fun o => o = Committed \/ o = Aborted) outs -> x_inv ctx_abs c' /\ x_qui ctx_abs c').
Proof.
  intros. eapply sections_atomic_gen; eauto; [apply str_eqb_eq|apply node_laws].
Qed.

Lemma ctx_dirty_empty : forall (c : ctx) p fl pf c' out,
  x_inv ctx_abs c -> x_qui ctx_abs c ->
  ctx_run_section c p fl pf = (c', out) -> out = Committed \/ out = Aborted -> fdirty c' = [].
Proof.
  intros. eapply dirty_empty_after with (X := node_abs); eauto; [apply str_eqb_eq|apply node_laws].
Qed.

Lemma leaf_pc_true : forall l, snd (leaf_pc l) = true.
Proof. destruct l; reflexivity. Qed.

Lemma node_pc_true : forall s, snd (i_pc node_impl s) = true.
Proof.
  intros [l|[m|l]]; cbn.
  - destruct (leaf_pc l) eqn:E. cbn. pose proof (leaf_pc_true l) as H. now rewrite E in H.
  - unfold fam_pc. cbn. apply forallb_forall. intros k _. destruct (fres m k); auto. cbn. apply leaf_pc_true.
  - destruct (leaf_pc l) eqn:E. cbn. pose proof (leaf_pc_true l) as H. now rewrite E in H.
Qed.

Lemma ctx_abort_only_if_blocked : forall (c : ctx) p fl pf c',
  x_inv ctx_abs c -> x_qui ctx_abs c ->
  no_faults fl -> (forall k, pf k = false) ->
  ctx_run_section c p fl pf = (c', Aborted) ->
  ctx_spec_run (x_obs ctx_abs c) p = Refuse.
Proof.
  intros. eapply abort_only_if_blocked with (I := node_impl); eauto;
    [apply str_eqb_eq|apply node_laws|apply node_pc_true].
Qed.

(* ------------------------------------------------------------------ transactional kinds never panic in Abort *)

Definition leaf_tx (s : leaf) : Prop :=
  match s with LSOut _ _ _ => False | LRelaxed _ _ _ _ => False | LPlace => False | _ => True end.

Lemma leaf_tx_step : forall s a, leaf_tx s -> leaf_tx (fst (leaf_step s a)).
Proof.
  intros s a H. destruct s; try contradiction; cbn.
  - destruct (local_step value a); exact Logic.I.
  - destruct a as [[|? ?]|[|? ?] ?|[|? ?]]; cbn; auto. destruct buffer; [destruct chan|]; exact Logic.I.
  - destruct a as [[|? ?]|[|? ?] ?|[|? ?]]; cbn; auto. destruct buffer; [destruct chan|]; exact Logic.I.
  - destruct a as [[|? ?]|[|? ?] ?|[|? ?]]; cbn; auto.
  - destruct a; exact Logic.I.
  - destruct a as [[|? ?]|[|? ?] ?|[|? ?]]; cbn; auto.
    + destruct pending; [exact Logic.I|]. destruct cached; [exact Logic.I|]. destruct fs; exact Logic.I.
    + destruct (is_str v); exact Logic.I.
  - destruct (local_step value a); exact Logic.I.
  - destruct a as [[|i [|? ?]]|[|? ?] ?|[|i [|? ?]]]; cbn; auto.
    + destruct i; cbn; auto. destruct (plog_get lg z); exact Logic.I.
    + destruct i; exact Logic.I.
    + destruct (plog_write lg v) as [[? ?]|]; exact Logic.I.
    + destruct i; cbn; auto. destruct (plog_get lg z); exact Logic.I.
    + destruct i; exact Logic.I.
  - destruct a as [p|p x|[|i p]]; cbn; auto; destruct (negb hasLock && other); cbn; auto.
    + destruct (apply_path value p); exact Logic.I.
    + destruct (subst_path value p x); exact Logic.I.
  - destruct a as [[|? ?]|[|? ?] ?|[|? ?]]; cbn; auto.
  - destruct a as [[|? ?]|[|? ?] x|[|? ?]]; cbn; auto. destruct x; exact Logic.I.
  - destruct a as [[|? ?]|[|? ?] ?|[|? ?]]; cbn; auto.
  - destruct a as [[|? ?]|[|? ?] ?|[|? ?]]; cbn; auto. destruct st; exact Logic.I.
Qed.

Definition leaf_abs_tx : absn leaf act oleaf := strengthen_abs leaf_abs leaf_tx.

Lemma leaf_laws_tx : laws leaf_impl leaf_abs_tx.
Proof.
  apply strengthen_laws.
  - apply leaf_laws.
  - apply leaf_tx_step.
  - intros s H. destruct s; try contradiction; cbn; auto.
  - intros s H. destruct s; try contradiction; cbn; auto.
    + destruct hasOld; exact Logic.I.
    + destruct hasLock; exact Logic.I.
    + destruct inCS; exact Logic.I.
    + destruct cs; exact Logic.I.
  - intros s H. destruct s; try contradiction; cbn; auto.
    + destruct hasOld; exact Logic.I.
    + destruct hasLock; exact Logic.I.
    + destruct hasOld; exact Logic.I.
Qed.

Definition imap_abs_tx : absn imap act (val -> option oleaf) :=
  retarget_abs (fam_abs val_eqb leaf_abs_tx) imap_act is_touch_nil.

Lemma imap_laws_tx : laws imap_impl imap_abs_tx.
Proof.
  rewrite imap_impl_eq. apply retarget_laws. apply fam_laws; [apply val_eqb_eq|apply leaf_laws_tx].
Qed.

Definition nested_abs_tx : absn leaf act oleaf := retarget_abs leaf_abs_tx nested_act (fun _ => false).
Lemma nested_laws_tx : laws nested_impl nested_abs_tx.
Proof. rewrite nested_impl_eq. apply retarget_laws. apply leaf_laws_tx. Qed.

Definition node_abs_tx := sum_abs leaf_abs_tx (sum_abs imap_abs_tx nested_abs_tx).
Lemma node_laws_tx : laws node_impl node_abs_tx.
Proof. apply sum_laws; [apply leaf_laws_tx|apply sum_laws; [apply imap_laws_tx|apply nested_laws_tx]]. Qed.

Definition ctx_abs_tx := fam_abs String.eqb node_abs_tx.

Lemma leaf_tx_abp : forall s, leaf_tx s -> leaf_abp s = false.
Proof. intros s H; destruct s; try contradiction; reflexivity. Qed.

Lemma fam_inv_abp {K S A O} (keqb : K -> K -> bool) (I : impl S A) (X : absn S A O) :
  (forall s, x_inv X s -> i_abp I s = false) ->
  forall f, x_inv (fam_abs keqb X) f -> fam_abp I f = false.
Proof.
  intros Hnp f [Hi _]. unfold fam_abp. destruct (existsb _ (fdirty f)) eqn:E; auto.
  apply existsb_exists in E as (k & _ & Hk). destruct (fres f k) as [s|] eqn:Es; [|discriminate].
  rewrite (Hnp s (Hi k s Es)) in Hk. discriminate.
Qed.

Lemma node_tx_abp : forall s, x_inv node_abs_tx s -> i_abp node_impl s = false.
Proof.
  intros [l|[m|l]] H; cbn in *.
  - apply leaf_tx_abp. tauto.
  - apply (fam_inv_abp val_eqb leaf_impl leaf_abs_tx); auto. intros s [_ Hs]. apply leaf_tx_abp; auto.
  - apply leaf_tx_abp. tauto.
Qed.

Lemma ctx_tx_never_panics : forall (c : ctx) p fl pf c' out,
  x_inv ctx_abs_tx c -> x_qui ctx_abs_tx c ->
  ctx_run_section c p fl pf = (c', out) -> out <> AbortPanicked.
Proof.
  intros c p fl pf c' out Hi Hq Hr Ho. subst out.
  pose proof (section_atomic_gen String.eqb str_eqb_eq node_impl node_abs_tx node_laws_tx touch_of
                c p fl pf c' AbortPanicked Hi Hq Hr) as H.
  cbn [section_post] in H. destruct H as (Hi' & _ & Hp).
  rewrite (fam_inv_abp String.eqb node_impl node_abs_tx node_tx_abp c' Hi') in Hp. discriminate.
Qed.

(* ------------------------------------------------------------------ what the peer really holds *)

Definition leaf_real (s : leaf) : oleaf :=
  match s with
  | LSOut em inf full => OSOut (em ++ inf) full
  | LRelaxed _ sent inf down => ORelaxed (sent ++ inf) down
  | _ => leaf_obs s
  end.

Lemma leaf_real_qui : forall s, leaf_inv s -> leaf_qui s -> leaf_real s = leaf_obs s.
Proof.
  intros s Hi Hq. destruct s; cbn in *; auto.
  - subst. now rewrite app_nil_r.
  - subst. rewrite (Hi eq_refl). now rewrite app_nil_r.
Qed.

Lemma leaf_real_tx : forall s, leaf_tx s -> leaf_real s = leaf_obs s.
Proof. intros s H; destruct s; try contradiction; reflexivity. Qed.

(* ------------------------------------------------------------------ initial contexts satisfy the hypotheses *)

Lemma mk_ctx_ok {O} (X : absn node act O) rs :
  Forall (fun hn => x_inv X (snd hn) /\ x_qui X (snd hn)) rs ->
  x_inv (fam_abs String.eqb X) (mk_ctx rs) /\ x_qui (fam_abs String.eqb X) (mk_ctx rs).
Proof.
  intros H. split; [|reflexivity]. cbn.
  induction H as [|[h n] rs [Hi Hq] Hrs IH]; cbn.
  - split; intros; discriminate.
  - destruct IH as [IH1 IH2]. split; intros k s; destruct (String.eqb k h).
    + intros E; inversion E; subst; auto.
    + apply IH1.
    + intros E _; inversion E; subst; auto.
    + apply IH2.
Qed.

Lemma mk_incmap_ok fill :
  (forall k, leaf_inv (fill k) /\ leaf_qui (fill k)) ->
  x_inv node_abs (mk_incmap fill) /\ x_qui node_abs (mk_incmap fill).
Proof.
  intros H. split; [|reflexivity]. cbn. split; [intros k s E|intros k s E _]; inversion E; subst; apply H.
Qed.

Lemma mk_incmap_ok_tx fill :
  (forall k, leaf_inv (fill k) /\ leaf_qui (fill k) /\ leaf_tx (fill k)) ->
  x_inv node_abs_tx (mk_incmap fill) /\ x_qui node_abs_tx (mk_incmap fill).
Proof.
  intros H. split; [|reflexivity]. cbn.
  split; [intros k s E|intros k s E _]; inversion E; subst; destruct (H k) as (? & ? & ?); auto.
Qed.

(* ------------------------------------------------------------------ the unconditional statement and its fate *)

Definition full_statement_on (inv qui : ctx -> Prop) : Prop :=
  forall (c : ctx) p fl pf c' out,
    inv c -> qui c ->
    ctx_run_section c p fl pf = (c', out) ->
    out = Aborted \/ out = AbortPanicked ->
    forall h l l', fres c h = Some (inl l) -> fres c' h = Some (inl l') -> leaf_real l' = leaf_real l.

Definition pc_res : string * node := (".pc"%string, NLeaf (LLocal (VS "A.l") (VS "A.l"))).

Definition sout_ctx : ctx := mk_ctx [pc_res; ("o"%string, NLeaf (LSOut [] [] false))].
Definition relaxed_ctx : ctx := mk_ctx [pc_res; ("o"%string, NLeaf (LRelaxed false [] [] false))].
Definition send_then_fail : prog string act :=
  attempt_prog [SWrite "o" [] (VI 1); SAwait false].

Lemma full_refuted_sout : ~ full_statement_on (x_inv ctx_abs) (x_qui ctx_abs).
Proof.
  intros H.
  pose (r := ctx_run_section sout_ctx send_then_fail [] (fun _ => false)).
  assert (Hok : x_inv ctx_abs sout_ctx /\ x_qui ctx_abs sout_ctx).
  { apply mk_ctx_ok. repeat constructor. }
  destruct Hok as [Hi Hq].
  specialize (H sout_ctx send_then_fail [] (fun _ => false) (fst r) (snd r) Hi Hq (surjective_pairing r)).
  assert (Ho : snd r = Aborted \/ snd r = AbortPanicked) by (right; vm_compute; reflexivity).
  specialize (H Ho "o"%string (LSOut [] [] false) (LSOut [] [VI 1] false)).
  assert (E : OSOut [VI 1] false = OSOut [] false) by (apply H; vm_compute; reflexivity).
  discriminate E.
Qed.

Lemma full_refuted_relaxed : ~ full_statement_on (x_inv ctx_abs) (x_qui ctx_abs).
Proof.
  intros H.
  pose (r := ctx_run_section relaxed_ctx send_then_fail [] (fun _ => false)).
  assert (Hok : x_inv ctx_abs relaxed_ctx /\ x_qui ctx_abs relaxed_ctx).
  { apply mk_ctx_ok. repeat constructor. }
  destruct Hok as [Hi Hq].
  specialize (H relaxed_ctx send_then_fail [] (fun _ => false) (fst r) (snd r) Hi Hq (surjective_pairing r)).
  assert (Ho : snd r = Aborted \/ snd r = AbortPanicked) by (right; vm_compute; reflexivity).
  specialize (H Ho "o"%string (LRelaxed false [] [] false) (LRelaxed true [] [VI 1] false)).
  assert (E : ORelaxed [VI 1] false = ORelaxed [] false) by (apply H; vm_compute; reflexivity).
  discriminate E.
Qed.

Lemma full_tx : full_statement_on (x_inv ctx_abs_tx) (x_qui ctx_abs_tx).
Proof.
  intros c p fl pf c' out Hi Hq Hr Ho h l l' El El'.
  pose proof (ctx_tx_never_panics c p fl pf c' out Hi Hq Hr) as Hnp.
  destruct Ho as [-> | ->]; [|congruence].
  pose proof (section_atomic_gen String.eqb str_eqb_eq node_impl node_abs_tx node_laws_tx touch_of
                c p fl pf c' Aborted Hi Hq Hr) as H.
  cbn [section_post] in H. destruct H as (Hi' & _ & Hob).
  specialize (Hob h). cbn in Hob. rewrite El, El' in Hob. cbn in Hob.
  destruct Hi as [Hi _]. destruct Hi' as [Hi' _].
  specialize (Hi h _ El). specialize (Hi' h _ El'). cbn in Hi, Hi'.
  rewrite !leaf_real_tx by tauto. exact Hob.
Qed.

(* ------------------------------------------------------------------ the non-vacuity context *)

Definition ex_ctx : ctx :=
  mk_ctx [pc_res;
          ("x", NLeaf (LLocal (VR [(VS "a", VI 1); (VS "b", VI 2)]) (VR [(VS "a", VI 1); (VS "b", VI 2)])));
          ("in", NLeaf (LIn [] [] [VI 10; VI 11]));
          ("out", NLeaf (LOut [] []));
          ("fs", mk_filesystem [(VS "f", VS "old")])]%string.

Definition ex_ops : list sop :=
  [SRead "in" []; SWriteLast "x" [VS "b"]; SWrite "out" [] (VI 5); SWrite "fs" [VS "f"] (VS "new");
   SRead "fs" [VS "f"]]%string.

Lemma ex_ctx_ok : x_inv ctx_abs ex_ctx /\ x_qui ctx_abs ex_ctx.
Proof.
  apply mk_ctx_ok. unfold mk_filesystem.
  repeat (apply Forall_cons;
          [cbn [snd]; first [apply mk_incmap_ok; intros k; cbn; split; [intros; discriminate|auto]
                            | cbn; auto] |]).
  apply Forall_nil.
Qed.

Lemma ex_ctx_ok_tx : x_inv ctx_abs_tx ex_ctx /\ x_qui ctx_abs_tx ex_ctx.
Proof.
  apply mk_ctx_ok. unfold mk_filesystem.
  repeat (apply Forall_cons;
          [cbn [snd]; first [apply mk_incmap_ok_tx; intros k; cbn; split; [intros; discriminate|auto]
                            | cbn; auto] |]).
  apply Forall_nil.
Qed.
