(* C09 — the checker decides the definition of linearizability (soundness and completeness), for every history. *)
From PGV Require Import C09.Model.
From Coq Require Import Lia.

(* ---------- the definition ---------- *)
(* a sequential order (a list of operations) respects real time if no later element finished before an earlier one was invoked *)
Fixpoint rt_ok (order : list op) : Prop :=
  match order with
  | [] => True
  | a :: r => (forall b, In b r -> precedes b a = false) /\ rt_ok r
  end.
(* running the order on the sequential store from m gives every completed operation the response it received *)
Fixpoint legal (m : kv) (order : list op) : Prop :=
  match order with
  | [] => True
  | o :: r => response_ok o (apply_op o m) = true /\ legal (apply_op o m) r
  end.
(* linearizable from store m: some order of a subset of the operations containing every completed one
   (pending operations may or may not take effect) respects real time and is legal *)
Definition lin_spec_from (ops : list op) (m : kv) : Prop :=
  exists order, NoDup order /\ incl order ops /\
                (forall o, In o ops -> completed o = true -> In o order) /\
                rt_ok order /\ legal m order.
Definition lin_spec (h : list hevent) : Prop := lin_spec_from (ops_of h) [].

(* ---------- well-formed operation lists ---------- *)
Record wf (ops : list op) : Prop := {
  wf_nodup : NoDup ops;
  wf_id : forall a b, In a ops -> In b ops -> op_eqb a b = true -> a = b;
  wf_resp : forall a p r, In a ops -> o_resp a = Some (p, r) -> o_inv a < p
}.

Lemma op_eqb_refl a : op_eqb a a = true.
Proof. unfold op_eqb. now rewrite !Nat.eqb_refl. Qed.

Lemma In_remove_op a o l : In o (remove_op a l) -> In o l.
Proof.
  induction l as [|b r IH]; cbn; auto. destruct (op_eqb a b); cbn; intuition.
Qed.

Lemma remove_op_keeps a o l : In o l -> op_eqb a o = false -> In o (remove_op a l).
Proof.
  induction l as [|b r IH]; cbn; auto. intros [->|H] E.
  - rewrite E. now left.
  - destruct (op_eqb a b); [auto | right; auto].
Qed.

Lemma remove_op_not_in a l : wf l -> In a l -> ~ In a (remove_op a l).
Proof.
  intros W. induction l as [|b r IH]; cbn; auto. intros Ha.
  destruct (op_eqb a b) eqn:E.
  - assert (a = b). { apply (wf_id _ W); cbn; auto. } subst.
    pose proof (wf_nodup _ W) as N. inversion N; auto.
  - destruct Ha as [->|Ha]; [rewrite op_eqb_refl in E; discriminate|].
    intros [->|Hin]; [rewrite op_eqb_refl in E; discriminate|].
    revert Hin. apply IH; auto.
    destruct W as [N I R]. constructor.
    + inversion N; auto.
    + intros x y Hx Hy. apply I; cbn; auto.
    + intros x p q Hx. apply R; cbn; auto.
Qed.

Lemma wf_remove a l : wf l -> wf (remove_op a l).
Proof.
  intros [N I R]. constructor.
  - clear I R. induction l as [|b r IH]; cbn; [constructor|]. inversion N; subst.
    destruct (op_eqb a b); auto. constructor; auto. intros H. apply In_remove_op in H. auto.
  - intros x y Hx Hy. apply I; eapply In_remove_op; eauto.
  - intros x p q Hx. apply R. eapply In_remove_op; eauto.
Qed.

Lemma remove_op_length a l : In a l -> List.length l = S (List.length (remove_op a l)).
Proof.
  induction l as [|b r IH]; cbn; [tauto|]. intros [->|H].
  - now rewrite op_eqb_refl.
  - destruct (op_eqb a b); cbn; auto.
Qed.

(* ---------- soundness ---------- *)
Lemma search_sound f : forall rem m, wf rem -> search f rem m = true -> lin_spec_from rem m.
Proof.
  induction f as [|f IH]; cbn; intros rem m W H; [discriminate|].
  destruct (forallb (fun o => negb (completed o)) rem) eqn:E.
  - exists []. repeat split; cbn; auto; try constructor.
    + intros o [].
    + intros o Ho Hc. rewrite forallb_forall in E. specialize (E o Ho). rewrite Hc in E. discriminate.
  - apply existsb_exists in H as (o & Ho & H).
    apply andb_prop in H as [H Hs]. apply andb_prop in H as [Hmin Hresp].
    destruct (IH _ _ (wf_remove o rem W) Hs) as (order & N & Inc & Cmp & Rt & Leg).
    exists (o :: order). repeat split.
    + constructor; auto. intros Hin. apply Inc in Hin. revert Hin. now apply remove_op_not_in.
    + intros x [<-|Hx]; auto. eapply In_remove_op; eauto.
    + intros x Hx Hc. destruct (op_eqb o x) eqn:Ex.
      * left. apply (wf_id _ W); auto.
      * right. apply Cmp; auto. apply remove_op_keeps; auto.
    + intros b Hb. unfold minimal in Hmin. rewrite forallb_forall in Hmin.
      apply Inc, In_remove_op in Hb. specialize (Hmin b Hb). now apply negb_true_iff in Hmin.
    + exact Rt.
    + exact Hresp.
    + exact Leg.
Qed.

(* ---------- completeness ---------- *)
Lemma search_complete : forall order rem m f,
  wf rem -> NoDup order -> incl order rem ->
  (forall o, In o rem -> completed o = true -> In o order) ->
  rt_ok order -> legal m order -> List.length rem < f -> search f rem m = true.
Proof.
  induction order as [|a r IH]; intros rem m f W N Inc Cmp Rt Leg Hf.
  - destruct f; [lia|]. cbn.
    assert (forallb (fun o => negb (completed o)) rem = true) as ->; auto.
    apply forallb_forall. intros o Ho. destruct (completed o) eqn:Ec; auto. destruct (Cmp o Ho Ec).
  - destruct f; [lia|]. cbn.
    destruct (forallb (fun o => negb (completed o)) rem) eqn:E; auto.
    apply existsb_exists. exists a. assert (Ha : In a rem) by (apply Inc; cbn; auto).
    split; auto. cbn in Rt, Leg. destruct Rt as [Rt1 Rt2]. destruct Leg as [L1 L2].
    inversion N as [|? ? Na Nr]; subst.
    apply andb_true_intro; split; [apply andb_true_intro; split|]; auto.
    + unfold minimal. apply forallb_forall. intros o Ho. apply negb_true_iff.
      unfold precedes. destruct (o_resp o) as [[p q]|] eqn:Er; auto.
      assert (Hc : completed o = true) by (unfold completed; now rewrite Er).
      destruct (Cmp o Ho Hc) as [<-|Hin].
      * pose proof (wf_resp _ W _ _ _ Ha Er). apply Nat.ltb_ge. lia.
      * specialize (Rt1 o Hin). unfold precedes in Rt1. now rewrite Er in Rt1.
    + apply IH; auto.
      * now apply wf_remove.
      * intros x Hx. apply remove_op_keeps; [apply Inc; cbn; auto|].
        destruct (op_eqb a x) eqn:Ex; auto.
        assert (a = x) by (apply (wf_id _ W); auto; apply Inc; cbn; auto). subst. contradiction.
      * intros o Ho Hc. pose proof (In_remove_op _ _ _ Ho) as Ho'.
        destruct (Cmp o Ho' Hc) as [<-|]; auto. exfalso. revert Ho. now apply remove_op_not_in.
      * rewrite (remove_op_length a rem Ha) in Hf. lia.
Qed.

(* ---------- the operations of a history are well formed ---------- *)
Lemma find_resp_pos c i h pos p r : find_resp c i h pos = Some (p, r) -> pos <= p.
Proof.
  revert pos; induction h as [|e rest IH]; cbn; intros pos H; [discriminate|].
  destruct e.
  - apply IH in H. lia.
  - destruct ((c =? c0) && (i =? idx)).
    + injection H as <- _. lia.
    + apply IH in H. lia.
Qed.

Lemma ops_from_inv h pos o : In o (ops_from h pos) -> pos <= o_inv o.
Proof.
  revert pos; induction h as [|e rest IH]; cbn; intros pos H; [tauto|].
  destruct e.
  - destruct H as [<-|H]; cbn; [lia|]. apply IH in H. lia.
  - apply IH in H. lia.
Qed.

Lemma ops_from_wf h pos : wf (ops_from h pos).
Proof.
  revert pos; induction h as [|e rest IH]; intros pos; cbn.
  - constructor; [constructor | intros ? ? [] | intros ? ? ? []].
  - destruct e; auto. specialize (IH (S pos)). destruct IH as [N I R]. constructor.
    + constructor; auto. intros H. apply ops_from_inv in H. cbn in H. lia.
    + intros a b [<-|Ha] [<-|Hb] E; auto.
      * apply ops_from_inv in Hb. unfold op_eqb in E. cbn in E.
        apply andb_prop in E as [_ E]. apply Nat.eqb_eq in E. lia.
      * apply ops_from_inv in Ha. unfold op_eqb in E. cbn in E.
        apply andb_prop in E as [_ E]. apply Nat.eqb_eq in E. lia.
    + intros a p q [<-|Ha] Hr; [|eauto]. cbn in *. apply find_resp_pos in Hr. lia.
Qed.

(* ---------- the checker decides the definition ---------- *)
Theorem linearizable_sound_lemma h : linearizable h = true -> lin_spec h.
Proof. unfold linearizable, lin_spec. apply search_sound. apply ops_from_wf. Qed.

Theorem linearizable_complete_lemma h : lin_spec h -> linearizable h = true.
Proof.
  unfold linearizable, lin_spec. intros (order & N & Inc & Cmp & Rt & Leg).
  eapply search_complete; eauto. apply ops_from_wf.
Qed.
