(* C09 — the checker decides the definition of linearizability (soundness and completeness), for every history. *)
From PGV Require Import C09.Model.
From Coq Require Import Lia.

(* ---------- the definition ---------- *)
(* a sequential order (a list of operations) respects real time if no later element finished before an earlier one was invoked *)
Fixpoint rt_ok (order : list op) : Prop :=
  match order with
  | [] => True
  | a :: r => (forall b, In b r -> precedes b a = false) /\ rt_ok r
  end.
(* running the order on the sequential store from m gives every completed operation the response it received *)
Fixpoint legal (m : kv) (order : list op) : Prop :=
  match order with
  | [] => True
  | o :: r => response_ok o (apply_op o m) = true /\ legal (apply_op o m) r
  end.
(* linearizable from store m: some order of a subset of the operations containing every completed one
   (pending operations may or may not take effect) respects real time and is legal *)
Definition lin_spec_from (ops : list op) (m : kv) : Prop :=
  exists order, NoDup order /\ incl order ops /\
                (forall o, In o ops -> completed o = true -> In o order) /\
                rt_ok order /\ legal m order.
Definition lin_spec (h : list hevent) : Prop := lin_spec_from (ops_of h) [].

(* ---------- well-formed operation lists ---------- *)
Record wf (ops : list op) : Prop := {
  wf_nodup : NoDup ops;
  wf_id : forall a b, In a ops -> In b ops -> op_eqb a b = true -> a = b;
  wf_resp : forall a p r, In a ops -> o_resp a = Some (p, r) -> o_inv a < p
}.

Lemma op_eqb_refl a : op_eqb a a = true.
Proof. unfold op_eqb. now rewrite !Nat.eqb_refl. Qed.

Lemma In_remove_op a o l : In o (remove_op a l) -> In o l.
Proof.
  induction l as [|b r IH]; cbn; auto. destruct (op_eqb a b); cbn; intuition.
Qed.

Lemma remove_op_keeps a o l : In o l -> op_eqb a o = false -> In o (remove_op a l).
Proof.
  induction l as [|b r IH]; cbn; auto. intros [->|H] E.
  - rewrite E. now left.
  - destruct (op_eqb a b); [auto | right; auto].
Qed.

Lemma remove_op_not_in a l : wf l -> In a l -> ~ In a (remove_op a l).
Proof.
  intros W. induction l as [|b r IH]; cbn; auto. intros Ha.
  destruct (op_eqb a b) eqn:E.
  - assert (a = b). { apply (wf_id _ W); cbn; auto. } subst.
    pose proof (wf_nodup _ W) as N. inversion N; auto.
  - destruct Ha as [->|Ha]; [rewrite op_eqb_refl in E; discriminate|].
    intros [->|Hin]; [rewrite op_eqb_refl in E; discriminate|].
    revert Hin. apply IH; auto.
    destruct W as [N I R]. constructor.
    + inversion N; auto.
    + intros x y Hx Hy. apply I; cbn; auto.
    + intros x p q Hx. apply R; cbn; auto.
Qed.

Lemma wf_remove a l : wf l -> wf (remove_op a l).
Proof.
  intros [N I R]. constructor.
  - clear I R. induction l as [|b r IH]; cbn; [constructor|]. inversion N; subst.
    destruct (op_eqb a b); auto. constructor; auto. intros H. apply In_remove_op in H. auto.
  - intros x y Hx Hy. apply I; eapply In_remove_op; eauto.
  - intros x p q Hx. apply R. eapply In_remove_op; eauto.
Qed.

Lemma remove_op_length a l : In a l -> List.length l = S (List.length (remove_op a l)).
Proof.
  induction l as [|b r IH]; cbn; [tauto|]. intros [->|H].
  - now rewrite op_eqb_refl.
  - destruct (op_eqb a b); cbn; auto.
Qed.

(* ---------- soundness ---------- *)
Lemma search_sound f : forall rem m, wf rem -> search f rem m = true -> lin_spec_from rem m.
Proof.
  induction f as [|f IH]; cbn; intros rem m W H; [discriminate|].
  destruct (forallb (fun o => negb (completed o)) rem) eqn:E.
  - exists []. repeat split; cbn; auto; try constructor.
    + intros o [].
    + intros o Ho Hc. rewrite forallb_forall in E. specialize (E o Ho). rewrite Hc in E. discriminate.
  - apply existsb_exists in H as (o & Ho & H).
    apply andb_prop in H as [H Hs]. apply andb_prop in H as [Hmin Hresp].
    destruct (IH _ _ (wf_remove o rem W) Hs) as (order & N & Inc & Cmp & Rt & Leg).
    exists (o :: order). repeat split.
    + constructor; auto. intros Hin. apply Inc in Hin. revert Hin. now apply remove_op_not_in.
    + intros x [<-|Hx]; auto. eapply In_remove_op; eauto.
    + intros x Hx Hc. destruct (op_eqb o x) eqn:Ex.
      * left. apply (wf_id _ W); auto.
      * right. apply Cmp; auto. apply remove_op_keeps; auto.
    + intros b Hb. unfold minimal in Hmin. rewrite forallb_forall in Hmin.
      apply Inc, In_remove_op in Hb. specialize (Hmin b Hb). now apply negb_true_iff in Hmin.
    + exact Rt.
    + exact Hresp.
    + exact Leg.
Qed.

(* ---------- completeness ---------- *)
Lemma search_complete : forall order rem m f,
  wf rem -> NoDup order -> incl order rem ->
  (forall o, In o rem -> completed o = true -> In o order) ->
  rt_ok order -> legal m order -> List.length rem < f -> search f rem m = true.
Proof.
  induction order as [|a r IH]; intros rem m f W N Inc Cmp Rt Leg Hf.
  - destruct f; [lia|]. cbn.
    assert (forallb (fun o => negb (completed o)) rem = true) as ->; auto.
    apply forallb_forall. intros o Ho. destruct (completed o) eqn:Ec; auto. destruct (Cmp o Ho Ec).
  - destruct f; [lia|]. cbn.
    destruct (forallb (fun o => negb (completed o)) rem) eqn:E; auto.
    apply existsb_exists. exists a. assert (Ha : In a rem) by (apply Inc; cbn; auto).
    split; auto. cbn in Rt, Leg. destruct Rt as [Rt1 Rt2]. destruct Leg as [L1 L2].
    inversion N as [|? ? Na Nr]; subst.
    apply andb_true_intro; split; [apply andb_true_intro; split|]; auto.
    + unfold minimal. apply forallb_forall. intros o Ho. apply negb_true_iff.
      unfold precedes. destruct (o_resp o) as [[p q]|] eqn:Er; auto.
      assert (Hc : completed o = true) by (unfold completed; now rewrite Er).
      destruct (Cmp o Ho Hc) as [<-|Hin].
      * pose proof (wf_resp _ W _ _ _ Ha Er). apply Nat.ltb_ge. lia.
      * specialize (Rt1 o Hin). unfold precedes in Rt1. now rewrite Er in Rt1.
    + apply IH; auto.
      * now apply wf_remove.
      * intros x Hx. apply remove_op_keeps; [apply Inc; cbn; auto|].
        destruct (op_eqb a x) eqn:Ex; auto.
        assert (a = x) by (apply (wf_id _ W); auto; apply Inc; cbn; auto). subst. contradiction.
      * intros o Ho Hc. pose proof (In_remove_op _ _ _ Ho) as Ho'.
        destruct (Cmp o Ho' Hc) as [<-|]; auto. exfalso. revert Ho. now apply remove_op_not_in.
      * rewrite (remove_op_length a rem Ha) in Hf. lia.
Qed.

(* ---------- the operations of a history are well formed ---------- *)
Lemma find_resp_pos c i h pos p r : find_resp c i h pos = Some (p, r) -> pos <= p.
Proof.
  revert pos; induction h as [|e rest IH]; cbn; intros pos H; [discriminate|].
  destruct e.
  - apply IH in H. lia.
  - destruct ((c =? c0) && (i =? idx)).
    + injection H as <- _. lia.
    + apply IH in H. lia.
Qed.

Lemma ops_from_inv h pos o : In o (ops_from h pos) -> pos <= o_inv o.
Proof.
  revert pos; induction h as [|e rest IH]; cbn; intros pos H; [tauto|].
  destruct e.
  - destruct H as [<-|H]; cbn; [lia|]. apply IH in H. lia.
  - apply IH in H. lia.
Qed.

Lemma ops_from_wf h pos : wf (ops_from h pos).
Proof.
  revert pos; induction h as [|e rest IH]; intros pos; cbn.
  - constructor; [constructor | intros ? ? [] | intros ? ? ? []].
  - destruct e; auto. specialize (IH (S pos)). destruct IH as [N I R]. constructor.
    + constructor; auto. intros H. apply ops_from_inv in H. cbn in H. lia.
    + intros a b [<-|Ha] [<-|Hb] E; auto.
      * apply ops_from_inv in Hb. unfold op_eqb in E. cbn in E.
        apply andb_prop in E as [_ E]. apply Nat.eqb_eq in E. lia.
      * apply ops_from_inv in Ha. unfold op_eqb in E. cbn in E.
        apply andb_prop in E as [_ E]. apply Nat.eqb_eq in E. lia.
    + intros a p q [<-|Ha] Hr; [|eauto]. cbn in *. apply find_resp_pos in Hr. lia.
Qed.

(* ---------- one step of the definition ---------- *)
Lemma lin_pending rem m : forallb (fun o => negb (completed o)) rem = true -> lin_spec_from rem m.
Proof.
  intros E. exists []. repeat split; cbn; auto; try constructor.
  - intros o [].
  - intros o Ho Hc. rewrite forallb_forall in E. specialize (E o Ho). rewrite Hc in E. discriminate.
Qed.

Lemma lin_build rem m o : wf rem -> In o rem -> minimal o rem = true -> response_ok o (apply_op o m) = true ->
  lin_spec_from (remove_op o rem) (apply_op o m) -> lin_spec_from rem m.
Proof.
  intros W Ho Hmin Hresp (order & N & Inc & Cmp & Rt & Leg).
  exists (o :: order). repeat split.
  - constructor; auto. intros Hin. apply Inc in Hin. revert Hin. now apply remove_op_not_in.
  - intros x [<-|Hx]; auto. eapply In_remove_op; eauto.
  - intros x Hx Hc. destruct (op_eqb o x) eqn:Ex.
    + left. apply (wf_id _ W); auto.
    + right. apply Cmp; auto. apply remove_op_keeps; auto.
  - intros b Hb. unfold minimal in Hmin. rewrite forallb_forall in Hmin.
    apply Inc, In_remove_op in Hb. specialize (Hmin b Hb). now apply negb_true_iff in Hmin.
  - exact Rt.
  - exact Hresp.
  - exact Leg.
Qed.

Lemma lin_step rem m : wf rem -> lin_spec_from rem m -> forallb (fun o => negb (completed o)) rem = false ->
  exists o, In o rem /\ minimal o rem = true /\ response_ok o (apply_op o m) = true /\
            lin_spec_from (remove_op o rem) (apply_op o m).
Proof.
  intros W (order & N & Inc & Cmp & Rt & Leg) E.
  destruct order as [|a r].
  - exfalso. assert (forallb (fun o => negb (completed o)) rem = true); [|congruence].
    apply forallb_forall. intros o Ho. destruct (completed o) eqn:Ec; auto. destruct (Cmp o Ho Ec).
  - exists a. assert (Ha : In a rem) by (apply Inc; cbn; auto).
    cbn in Rt, Leg. destruct Rt as [Rt1 Rt2]. destruct Leg as [L1 L2].
    inversion N as [|? ? Na Nr]; subst. repeat split; auto.
    + unfold minimal. apply forallb_forall. intros o Ho. apply negb_true_iff.
      unfold precedes. destruct (o_resp o) as [[p q]|] eqn:Er; auto.
      assert (Hc : completed o = true) by (unfold completed; now rewrite Er).
      destruct (Cmp o Ho Hc) as [<-|Hin].
      * pose proof (wf_resp _ W _ _ _ Ha Er). apply Nat.ltb_ge. lia.
      * specialize (Rt1 o Hin). unfold precedes in Rt1. now rewrite Er in Rt1.
    + exists r. repeat split; auto.
      * intros x Hx. apply remove_op_keeps; [apply Inc; cbn; auto|].
        destruct (op_eqb a x) eqn:Ex; auto.
        assert (a = x) by (apply (wf_id _ W); auto; apply Inc; cbn; auto). subst. contradiction.
      * intros o Ho Hc. pose proof (In_remove_op _ _ _ Ho) as Ho'.
        destruct (Cmp o Ho' Hc) as [<-|]; auto. exfalso. revert Ho. now apply remove_op_not_in.
Qed.

(* ---------- boolean equalities used by the memo ---------- *)
Lemma list_eqb_eq {A} (eqb : A -> A -> bool) (l1 l2 : list A) :
  (forall x y, eqb x y = true -> x = y) -> list_eqb eqb l1 l2 = true -> l1 = l2.
Proof.
  intros He. revert l2; induction l1 as [|x r IH]; destruct l2 as [|y r2]; cbn; try discriminate; auto.
  intros H. apply andb_prop in H as [H1 H2]. f_equal; auto.
Qed.
Lemma ctype_eqb_eq a b : ctype_eqb a b = true -> a = b.
Proof. destruct a, b; cbn; congruence. Qed.
Lemma request_eqb_eq a b : request_eqb a b = true -> a = b.
Proof.
  destruct a, b. unfold request_eqb. cbn. intros H.
  apply andb_prop in H as [H H3]. apply andb_prop in H as [H1 H2].
  apply ctype_eqb_eq in H1. apply Nat.eqb_eq in H2, H3. congruence.
Qed.
Lemma resp_eqb_eq a b : resp_eqb a b = true -> a = b.
Proof.
  destruct a as [[[t1 k1] v1] o1], b as [[[t2 k2] v2] o2]. cbn. intros H.
  apply andb_prop in H as [H H4]. apply andb_prop in H as [H H3]. apply andb_prop in H as [H1 H2].
  apply ctype_eqb_eq in H1. apply Nat.eqb_eq in H2, H3. apply Bool.eqb_prop in H4. congruence.
Qed.
Lemma op_full_eqb_eq a b : op_full_eqb a b = true -> a = b.
Proof.
  destruct a as [c1 i1 q1 n1 r1], b as [c2 i2 q2 n2 r2]. unfold op_full_eqb. cbn. intros H.
  apply andb_prop in H as [H H5]. apply andb_prop in H as [H H4]. apply andb_prop in H as [H H3].
  apply andb_prop in H as [H1 H2]. apply Nat.eqb_eq in H1, H2, H4. apply request_eqb_eq in H3. subst.
  f_equal. destruct r1 as [[p r]|], r2 as [[q r']|]; cbn in H5; try discriminate; auto.
  apply andb_prop in H5 as [Ha Hb]. apply Nat.eqb_eq in Ha. apply resp_eqb_eq in Hb. congruence.
Qed.
Lemma lcfg_eqb_eq a b : lcfg_eqb a b = true -> a = b.
Proof.
  destruct a as [r1 m1], b as [r2 m2]. unfold lcfg_eqb, kv_eqb. cbn. intros H. apply andb_prop in H as [H1 H2].
  apply list_eqb_eq in H1; [|apply op_full_eqb_eq].
  apply list_eqb_eq in H2.
  - congruence.
  - intros [x1 x2] [y1 y2]. cbn. intros E. apply andb_prop in E as [E1 E2]. apply Nat.eqb_eq in E1, E2. congruence.
Qed.

(* ---------- the memoised search ---------- *)
Definition failed_ok (failed : list lcfg) : Prop := forall c, In c failed -> ~ lin_spec_from (fst c) (snd c).

Definition res_ok (rem : list op) (m : kv) (res : bool * list lcfg) : Prop :=
  failed_ok (snd res) /\ (fst res = true -> lin_spec_from rem m) /\ (fst res = false -> ~ lin_spec_from rem m).

Lemma try_all_ok rec rem m :
  wf rem -> forallb (fun o => negb (completed o)) rem = false ->
  (forall o failed, In o rem -> failed_ok failed -> res_ok (remove_op o rem) (apply_op o m) (rec (remove_op o rem) (apply_op o m) failed)) ->
  forall cands pre failed, rem = pre ++ cands -> failed_ok failed ->
    (forall o, In o pre -> minimal o rem = true -> response_ok o (apply_op o m) = true ->
               ~ lin_spec_from (remove_op o rem) (apply_op o m)) ->
    res_ok rem m (try_all rec rem m cands failed).
Proof.
  intros W E Hrec. induction cands as [|o cs IH]; intros pre failed Hsplit Hf Hpre; cbn.
  - rewrite app_nil_r in Hsplit. subst pre. repeat split; cbn; try discriminate.
    + intros c [<-|Hc]; cbn; auto.
      intros L. destruct (lin_step _ _ W L E) as (o & Ho & A & B & C). exact (Hpre o Ho A B C).
    + intros _ L. destruct (lin_step _ _ W L E) as (o & Ho & A & B & C). exact (Hpre o Ho A B C).
  - assert (Ho : In o rem) by (rewrite Hsplit; apply in_or_app; right; cbn; auto).
    assert (Hsplit' : rem = (pre ++ [o]) ++ cs) by (rewrite <- app_assoc; exact Hsplit).
    destruct (minimal o rem && response_ok o (apply_op o m)) eqn:Ec.
    + apply andb_prop in Ec as [Ea Eb].
      specialize (Hrec o failed Ho Hf). destruct (rec (remove_op o rem) (apply_op o m) failed) as [r failed'].
      destruct Hrec as (F' & Ht & Hfalse). cbn in *. destruct r.
      * repeat split; cbn; auto; try discriminate. intros _. eapply lin_build; eauto.
      * apply (IH (pre ++ [o]) failed' Hsplit' F').
        intros x Hx. apply in_app_iff in Hx as [Hx|[<-|[]]]; auto.
    + apply (IH (pre ++ [o]) failed Hsplit' Hf).
      intros x Hx A B. apply in_app_iff in Hx as [Hx|[<-|[]]]; auto.
      rewrite A, B in Ec. discriminate.
Qed.

Lemma dfs_ok f : forall rem m failed, wf rem -> List.length rem < f -> failed_ok failed -> res_ok rem m (dfs f rem m failed).
Proof.
  induction f as [|f IH]; intros rem m failed W Hl Hf; [lia|]. cbn.
  destruct (forallb (fun o => negb (completed o)) rem) eqn:E.
  - repeat split; cbn; auto; try discriminate. intros _. now apply lin_pending.
  - destruct (existsb (lcfg_eqb (rem, m)) failed) eqn:Em.
    + repeat split; cbn; auto; try discriminate. intros _.
      apply existsb_exists in Em as (c & Hc & Heq). apply lcfg_eqb_eq in Heq. subst c. exact (Hf _ Hc).
    + eapply (try_all_ok (dfs f) rem m W E) with (pre := []); auto.
      intros o failed0 Ho Hf0. apply IH; auto.
      * now apply wf_remove.
      * rewrite (remove_op_length o rem Ho) in Hl. lia.
Qed.

(* ---------- the checker decides the definition ---------- *)
Lemma dfs_top h : res_ok (ops_of h) [] (dfs (S (List.length (ops_of h))) (ops_of h) [] []).
Proof. apply dfs_ok; [apply ops_from_wf | lia | intros c []]. Qed.

Theorem linearizable_sound_lemma h : linearizable h = true -> lin_spec h.
Proof. unfold linearizable, lin_spec. intros H. now apply (dfs_top h). Qed.

Theorem linearizable_complete_lemma h : lin_spec h -> linearizable h = true.
Proof.
  unfold linearizable, lin_spec. intros L. destruct (dfs_top h) as (_ & _ & Hf).
  destruct (fst (dfs (S (List.length (ops_of h))) (ops_of h) [] [])); auto. exfalso. exact (Hf eq_refl L).
Qed.

(* the plain search without memo decides the same thing *)
Theorem search_decides h : search (S (List.length (ops_of h))) (ops_of h) [] = linearizable h.
Proof.
  destruct (linearizable h) eqn:E.
  - apply linearizable_sound_lemma in E. destruct E as (order & N & Inc & Cmp & Rt & Leg).
    eapply search_complete; eauto. apply ops_from_wf.
  - destruct (search (S (List.length (ops_of h))) (ops_of h) []) eqn:Es; auto.
    apply search_sound in Es; [|apply ops_from_wf]. apply linearizable_complete_lemma in Es. congruence.
Qed.
