(* C09 — histories of the Raft KV clients, the sequential key-value specification, and an executable
   linearizability checker (Wing-Gong search with fuel). Model only: no proofs here.
   A history is what the clients' environment sees in an execution of C08.Model: reads of reqCh (HInv: client c issues its
   idx-th request) and writes of respCh (HResp: the acknowledged response), oldest first. *)
From PGV Require Export C08.Model.

Record op := mkOp {
  o_client : nat; o_idx : nat; o_req : request;
  o_inv : nat;                                   (* position of the invocation in the history *)
  o_resp : option (nat * (ctype * nat * nat * bool))   (* position and content (type, key, value, ok) of the response *)
}.

Fixpoint find_resp (c i : nat) (h : list hevent) (pos : nat) : option (nat * (ctype * nat * nat * bool)) :=
  match h with
  | [] => None
  | HResp c' i' t k v ok :: r => if (c =? c') && (i =? i') then Some (pos, (t, k, v, ok)) else find_resp c i r (S pos)
  | _ :: r => find_resp c i r (S pos)
  end.

Fixpoint ops_from (h : list hevent) (pos : nat) : list op :=
  match h with
  | [] => []
  | HInv c i r :: rest => mkOp c i r pos (find_resp c i rest (S pos)) :: ops_from rest (S pos)
  | _ :: rest => ops_from rest (S pos)
  end.
Definition ops_of (h : list hevent) : list op := ops_from h 0.

Definition completed (o : op) : bool := match o_resp o with Some _ => true | None => false end.

(* real time: a finished before b was invoked *)
Definition precedes (a b : op) : bool :=
  match o_resp a with Some (p, _) => p <? o_inv b | None => false end.

(* sequential specification: one map key -> value (C08.Model.sm_put / sm_get); Nil = 0 *)
Definition kv := list (nat * nat).
Definition apply_op (o : op) (m : kv) : kv :=
  match r_type (o_req o) with CPut => sm_put (r_key (o_req o)) (r_val (o_req o)) m | CGet => m end.
(* the response the sequential store gives to o in state m (after applying o) *)
Definition spec_response (o : op) (m : kv) : ctype * nat * nat * bool :=
  match r_type (o_req o) with
  | CPut => (CPut, r_key (o_req o), r_val (o_req o), true)
  | CGet => match sm_get (r_key (o_req o)) m with
            | Some v => (CGet, r_key (o_req o), v, true)
            | None => (CGet, r_key (o_req o), 0, false)
            end
  end.
Definition resp_eqb (a b : ctype * nat * nat * bool) : bool :=
  let '(t1, k1, v1, ok1) := a in let '(t2, k2, v2, ok2) := b in
  ctype_eqb t1 t2 && (k1 =? k2) && (v1 =? v2) && Bool.eqb ok1 ok2.
Definition response_ok (o : op) (m : kv) : bool :=
  match o_resp o with Some (_, r) => resp_eqb r (spec_response o m) | None => true end.

Definition request_eqb (a b : request) : bool :=
  ctype_eqb (r_type a) (r_type b) && (r_key a =? r_key b) && (r_val a =? r_val b).
Definition op_eqb (a b : op) : bool := (o_client a =? o_client b) && (o_idx a =? o_idx b) && (o_inv a =? o_inv b).
Fixpoint remove_op (a : op) (l : list op) : list op :=
  match l with [] => [] | b :: r => if op_eqb a b then r else b :: remove_op a r end.

(* o may be linearized next: no remaining operation finished before o was invoked *)
Definition minimal (o : op) (rem : list op) : bool := forallb (fun o' => negb (precedes o' o)) rem.

Fixpoint search (fuel : nat) (rem : list op) (m : kv) : bool :=
  match fuel with
  | 0 => false
  | S f =>
      if forallb (fun o => negb (completed o)) rem then true      (* only pending operations left: they need not take effect *)
      else existsb (fun o => minimal o rem && response_ok o (apply_op o m) && search f (remove_op o rem) (apply_op o m)) rem
  end.

(* The same search with a memo of configurations (remaining operations, store) already shown to fail; this is the checker.
   (Plain `search` is exponential in the number of overlapping operations when it has to fail; it is kept as the reference.) *)
Definition lcfg := (list op * kv)%type.
Definition resp_opt_eqb (a b : option (nat * (ctype * nat * nat * bool))) : bool :=
  match a, b with
  | Some (p, r), Some (q, r') => (p =? q) && resp_eqb r r'
  | None, None => true
  | _, _ => false
  end.
Definition op_full_eqb (a b : op) : bool :=
  (o_client a =? o_client b) && (o_idx a =? o_idx b) && request_eqb (o_req a) (o_req b) && (o_inv a =? o_inv b)
  && resp_opt_eqb (o_resp a) (o_resp b).
Fixpoint list_eqb {A} (eqb : A -> A -> bool) (l1 l2 : list A) : bool :=
  match l1, l2 with
  | [], [] => true
  | x :: r1, y :: r2 => eqb x y && list_eqb eqb r1 r2
  | _, _ => false
  end.
Definition kv_eqb (a b : kv) : bool := list_eqb (fun x y => (fst x =? fst y) && (snd x =? snd y)) a b.
Definition lcfg_eqb (a b : lcfg) : bool := list_eqb op_full_eqb (fst a) (fst b) && kv_eqb (snd a) (snd b).

(* try the candidates one after the other, threading the memo *)
Fixpoint try_all (rec : list op -> kv -> list lcfg -> bool * list lcfg) (rem : list op) (m : kv)
         (cands : list op) (failed : list lcfg) : bool * list lcfg :=
  match cands with
  | [] => (false, (rem, m) :: failed)
  | o :: cs =>
      if minimal o rem && response_ok o (apply_op o m) then
        let (r, failed') := rec (remove_op o rem) (apply_op o m) failed in
        if r then (true, failed') else try_all rec rem m cs failed'
      else try_all rec rem m cs failed
  end.

Fixpoint dfs (fuel : nat) (rem : list op) (m : kv) (failed : list lcfg) : bool * list lcfg :=
  match fuel with
  | 0 => (false, failed)
  | S f =>
      if forallb (fun o => negb (completed o)) rem then (true, failed)
      else if existsb (lcfg_eqb (rem, m)) failed then (false, failed)
      else try_all (dfs f) rem m rem failed
  end.

Definition linearizable (h : list hevent) : bool := let ops := ops_of h in fst (dfs (S (List.length ops)) ops [] []).

(* history of a state of the Raft model (hist is kept newest first) *)
Definition history (s : state) : list hevent := rev (hist s).

(* ---------- correspondence helper: run a checked schedule (C08.Model.check_case), compare the history with the one the
   implementation's clients saw, and run the checker on it. Result code: 4*tie_ok + 2*history_equal + linearizable *)
Definition hist_digest (h : list hevent) : list N := flat_map d_hevent h.
Definition c09_case (cfg : config) (steps : list (event * nat * N * option (list N))) (obs : list hevent) : nat :=
  let tie := match check_case cfg steps with None => 4 | Some _ => 0 end in
  let s := run cfg (init cfg) (map (fun x => fst (fst (fst x))) steps) in
  let heq := if list_eq_dec N.eq_dec (hist_digest (history s)) (hist_digest obs) then 2 else 0 in
  tie + heq + (if linearizable obs then 1 else 0).
