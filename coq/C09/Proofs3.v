(* C09 — executions in which no client request is applied twice are linearizable (in log order). *)
From PGV Require Import C08.Model C08.Proofs1 C08.Proofs2 C08.Proofs3 C08.Proofs4 C08.Proofs5 C08.Proofs6.
From PGV Require Import C09.Model C09.Proofs C09.Proofs2.
From Coq Require Import Lia.

Definition cmd_of_req (idx : nat) (r : request) : cmd :=
  mkCmd idx (r_type r) (r_key r) (match r_type r with CPut => r_val r | CGet => 0 end).

(* ---------- what a client label does ---------- *)
Inductive cstep_shape (cfg : config) (s s' : state) : Prop :=
| CS_other (Hcli : cli s' = cli s) (Hhist : hist s' = hist s)
    (Hnocrq : forall d cm c d', In (CRQ cm c d') (net s' d) -> In (CRQ cm c d') (net s d))
| CS_loop (c : nat) (r : request)
    (Hpc : cl_pc (cli s c) = CL)
    (Hcli : cli s' = upd (cli s) c (mkClient SND (cl_leader (cli s c)) (Some r) (cl_reqidx (cli s c) + 1)))
    (Hhist : hist s' = HInv c (cl_reqidx (cli s c) + 1) r :: hist s)
    (Hnet : net s' = net s) (Hsrv : srv s' = srv s)
| CS_snd (c : nat) (r : request) (ld : nat)
    (Hpc : cl_pc (cli s c) = SND) (Hreq : cl_req (cli s c) = Some r)
    (Hcli : cli s' = upd (cli s) c (mkClient RCV ld (cl_req (cli s c)) (cl_reqidx (cli s c))))
    (Hhist : hist s' = hist s) (Hsrv : srv s' = srv s)
    (Hnet : net s' = net s \/ net s' = upd (net s) ld (net s ld ++ [CRQ (cmd_of_req (cl_reqidx (cli s c)) r) c ld]))
| CS_rcv (c k : nat) (m : msg) (pc' : cpc) (ld' : nat)
    (Hpc : cl_pc (cli s c) = RCV)
    (Hnth : nth_error (net s c) k = Some m)
    (Hnet : net s' = upd (net s) c (remove_nth k (net s c))) (Hsrv : srv s' = srv s)
    (Hcli : cli s' = cli s \/ cli s' = upd (cli s) c (mkClient pc' ld' (cl_req (cli s c)) (cl_reqidx (cli s c))))
    (Hhist : hist s' = hist s \/
             exists t key v ok hint a, m = CRP t true (cl_reqidx (cli s c)) key v ok hint a c /\
                                       hist s' = HResp c (cl_reqidx (cli s c)) t key v ok :: hist s)
| CS_timeout (c : nat)
    (Hpc : cl_pc (cli s c) = RCV)
    (Hcli : cli s' = upd (cli s) c (mkClient SND 0 (cl_req (cli s c)) (cl_reqidx (cli s c))))
    (Hhist : hist s' = hist s) (Hnet : net s' = net s) (Hsrv : srv s' = srv s).

Lemma finish_cli cfg s i r br fdv s' : finish cfg s i r br fdv = Commit s' -> cli s' = cli s.
Proof.
  destruct r as [sv' out ltr| | | |]; cbn; try discriminate.
  destruct out as [[[md d] m]|]; [destruct md|]; unfold send, net_write; intros H.
  - destruct br as [|[|br]]; try discriminate.
    + destr_in H; try discriminate. injection H as <-. destruct ltr; reflexivity.
    + destruct fdv; try discriminate. injection H as <-. destruct ltr; reflexivity.
  - destr_in H; try discriminate. injection H as <-. destruct ltr; reflexivity.
  - injection H as <-. destruct ltr; reflexivity.
Qed.

Lemma core_out_not_crq cfg i sv f l sv' md d cm c d' ltr :
  server_core cfg i sv f l = HR sv' (Some (md, d, CRQ cm c d')) ltr -> False.
Proof.
  intros H. destruct l; unfold_core H; repeat (destr_in H; try discriminate H); inversion H.
Qed.

Lemma finish_nocrq cfg s i l br fdv s' :
  finish cfg s i (server_core cfg i (srv s i) (check_fail cfg s i) l) br fdv = Commit s' ->
  forall d cm c d', In (CRQ cm c d') (net s' d) -> In (CRQ cm c d') (net s d).
Proof.
  destruct (server_core cfg i (srv s i) (check_fail cfg s i) l) as [sv' out ltr| | | |] eqn:Hc; cbn; try discriminate.
  assert (Happ : forall d d0 m cm c d' md, In (CRQ cm c d') (upd (net s) d0 (net s d0 ++ [m]) d) -> out = Some (md, d0, m) ->
                 In (CRQ cm c d') (net s d)).
  { intros d d0 m cm c d' md Hin ->. unfold upd in Hin. destruct (d =? d0) eqn:Ed; auto.
    apply Nat.eqb_eq in Ed. subst d0. apply in_app_iff in Hin as [Hin|[E|[]]]; auto.
    exfalso. subst m. eapply core_out_not_crq; eauto. }
  destruct out as [[[md d0] m]|]; [destruct md|]; unfold send, net_write; intros H d cm c d' Hin.
  - destruct br as [|[|br]]; try discriminate.
    + destr_in H; try discriminate. injection H as <-. destruct ltr; cbn in Hin; eapply Happ; eauto.
    + destruct fdv; try discriminate. injection H as <-. destruct ltr; exact Hin.
  - destr_in H; try discriminate. injection H as <-. destruct ltr; cbn in Hin; eapply Happ; eauto.
  - injection H as <-. destruct ltr; exact Hin.
Qed.

Lemma cstep_shape_of cfg s ev s' : step cfg s ev = Commit s' -> cstep_shape cfg s s'.
Proof.
  intros H. pose proof H as H0. destruct ev; cbn [step] in H;
    try (destruct (is_server cfg i); [|discriminate]);
    try (destruct (is_client cfg c); [|discriminate]).
  - unfold server_loop in H. repeat (destr_in H; try discriminate); injection H as <-; apply CS_other; try reflexivity;
      intros d cm c d' Hin; cbn in Hin; unfold upd in Hin; (destruct (d =? i) eqn:Ed; auto; apply Nat.eqb_eq in Ed; subst d;
      apply In_remove_nth in Hin; congruence).
  - apply CS_other; [eapply finish_cli; eauto | eapply finish_hist; eauto | eapply finish_nocrq; eauto].
  - unfold server_step in H. destr_in H; try discriminate. apply CS_other; [eapply finish_cli; eauto | eapply finish_hist; eauto | eapply finish_nocrq; eauto].
  - apply CS_other; [eapply finish_cli; eauto | eapply finish_hist; eauto | eapply finish_nocrq; eauto].
  - apply CS_other; [eapply finish_cli; eauto | eapply finish_hist; eauto | eapply finish_nocrq; eauto].
  - apply CS_other; [eapply finish_cli; eauto | eapply finish_hist; eauto | eapply finish_nocrq; eauto].
  - apply CS_other; [eapply finish_cli; eauto | eapply finish_hist; eauto | eapply finish_nocrq; eauto].
  - apply CS_other; [eapply finish_cli; eauto | eapply finish_hist; eauto | eapply finish_nocrq; eauto].
  - apply CS_other; [eapply finish_cli; eauto | eapply finish_hist; eauto | eapply finish_nocrq; eauto].
  - (* clientLoop *) unfold client_loop in H. destruct (cl_pc (cli s c)) eqn:Hpc; try discriminate. injection H as <-.
    eapply CS_loop; eauto; reflexivity.
  - (* sndReq *) unfold client_snd in H. destruct (cl_pc (cli s c)) eqn:Hpc; try discriminate.
    destruct (cl_req (cli s c)) as [r|] eqn:Hreq; try discriminate.
    destr_in H; [destr_in H; discriminate|].
    set (ld := if cl_leader (cli s c) =? 0 then srvpick else cl_leader (cli s c)) in *.
    unfold send, net_write in H. destruct br as [|[|br]]; try discriminate.
    + match type of H with (match (if ?b then _ else _) with _ => _ end) = _ => destruct b end; try discriminate.
      injection H as <-. apply (CS_snd cfg s _ c r ld); auto; try reflexivity;
        try (cbn; now rewrite Hreq); try (right; reflexivity).
    + destruct fdv; try discriminate. injection H as <-. apply (CS_snd cfg s _ c r ld); auto; try reflexivity;
        try (cbn; now rewrite Hreq).
  - (* rcvResp *) unfold client_rcv in H. destruct (cl_pc (cli s c)) eqn:Hpc; try discriminate.
    destruct (cl_req (cli s c)) as [r|] eqn:Hreq; try discriminate.
    destruct (negb (enabled s c)); try discriminate.
    destruct (nth_error (net s c) k) as [m|] eqn:Hn; [|destruct (net s c); discriminate].
    destruct (negb (deliverable cfg (net s c) k)); try discriminate.
    destruct (negb (msg_dest m =? c)) eqn:Hd; try discriminate.
    apply negb_false_iff, Nat.eqb_eq in Hd.
    destruct m; try discriminate. cbn in Hd. subst mdest.
    destruct (negb (ridx =? cl_reqidx (cli s c))) eqn:Hi.
    + injection H as <-. eapply (CS_rcv _ _ _ c k _ CL 0); eauto.
    + apply negb_false_iff, Nat.eqb_eq in Hi. subst ridx.
      destruct (negb (ctype_eqb mtype (r_type r))); try discriminate.
      destruct (negb msuccess) eqn:Hs.
      * injection H as <-. eapply (CS_rcv _ _ _ c k _ SND mleaderHint); eauto. right. cbn. rewrite Hreq. reflexivity.
      * apply negb_false_iff in Hs. subst msuccess. destr_in H; try discriminate. injection H as <-.
        eapply (CS_rcv _ _ _ c k _ CL mleaderHint); eauto.
        -- right. cbn. rewrite Hreq. reflexivity.
        -- right. eexists _, _, _, _, _, _. split; reflexivity.
  - unfold client_timeout in H. destruct (cl_pc (cli s c)) eqn:Hpc; try discriminate.
    repeat (destr_in H; try discriminate); injection H as <-; eapply CS_timeout; eauto.
  - unfold crash in H. destr_in H; try discriminate. injection H as <-. apply CS_other; try reflexivity; auto.
  - unfold fd_update in H. destr_in H; try discriminate. injection H as <-. apply CS_other; try reflexivity; auto.
Qed.

(* ---------- every log entry comes from an invocation ---------- *)
Definition invoked (h : list hevent) (c : nat) (cm : cmd) : Prop :=
  exists r, In (HInv c (c_idx cm) r) h /\ cm = cmd_of_req (c_idx cm) r.
Definition msg_invoked (h : list hevent) (m : msg) : Prop :=
  match m with
  | CRQ cm c _ => invoked h c cm
  | APQ _ _ _ es _ _ _ => forall e, In e es -> invoked h (e_client e) (e_cmd e)
  | _ => True
  end.
Definition inv_keys (h : list hevent) : list (nat * nat) :=
  flat_map (fun ev => match ev with HInv c i _ => [(c, i)] | _ => [] end) h.

Record jinv (cfg : config) (s : state) : Prop := {
  J0 : forall c, cl_pc (cli s c) <> CL ->
         exists r, cl_req (cli s c) = Some r /\ In (HInv c (cl_reqidx (cli s c)) r) (hist s);
  J1l : forall i e, In e (s_log (srv s i)) -> invoked (hist s) (e_client e) (e_cmd e);
  J1n : forall d m, In m (net s d) -> msg_invoked (hist s) m;
  J1m : forall i m, s_m (srv s i) = Some m -> msg_invoked (hist s) m;
  J2a : forall c idx r, In (HInv c idx r) (hist s) -> idx <= cl_reqidx (cli s c);
  J2b : NoDup (inv_keys (hist s))
}.

Lemma core_log_src cfg i sv f l sv' out ltr :
  server_core cfg i sv f l = HR sv' out ltr ->
  s_log sv' = s_log sv \/
  (exists c j d, s_m sv = Some (CRQ c j d) /\ s_log sv' = s_log sv ++ [mkEntry (s_term sv) c j]) \/
  (exists mt prev prevT es mc j d, s_m sv = Some (APQ mt prev prevT es mc j d) /\ s_log sv' = firstn prev (s_log sv) ++ es).
Proof.
  intros H. destruct l; core_cases H; ut_cases; cbn in *; auto.
  all: try (right; left; eexists _, _, _; split; reflexivity).
  all: right; right; eexists _, _, _, _, _, _, _; split; reflexivity.
Qed.

Lemma invoked_mono h h' c cm : incl h h' -> invoked h c cm -> invoked h' c cm.
Proof. intros Hi (r & A & B). exists r. split; auto. Qed.
Lemma msg_invoked_mono h h' m : incl h h' -> msg_invoked h m -> msg_invoked h' m.
Proof.
  intros Hi. destruct m; cbn; auto.
  - intros H e He. eapply invoked_mono; eauto.
  - apply invoked_mono; auto.
Qed.

Lemma In_inv_keys h c i : In (c, i) (inv_keys h) <-> exists r, In (HInv c i r) h.
Proof.
  unfold inv_keys. rewrite in_flat_map. split.
  - intros (ev & Hev & Hin). destruct ev; cbn in Hin; [|tauto]. destruct Hin as [[= -> ->]|[]]. eauto.
  - intros (r & Hr). exists (HInv c i r). split; auto. cbn. auto.
Qed.

Lemma In_firstn {A} n (l : list A) x : In x (firstn n l) -> In x l.
Proof. revert l; induction n as [|n IH]; intros l H; destruct l; cbn in *; try tauto. destruct H; auto. Qed.

Lemma jinv_step cfg s ev s' : jinv cfg s -> step cfg s ev = Commit s' -> jinv cfg s'.
Proof.
  intros IJ Hs. pose proof (cstep_shape_of _ _ _ _ Hs) as Sh.
  assert (Hinc : incl (hist s) (hist s')).
  { destruct Sh; try (rewrite Hhist; apply incl_refl); try (rewrite Hhist; apply incl_tl, incl_refl).
    destruct Hhist as [E|(t & key & v & ok & hint & a & _ & E)]; rewrite E; [apply incl_refl | apply incl_tl, incl_refl]. }
  assert (Hinv : forall c idx r, In (HInv c idx r) (hist s') ->
                 In (HInv c idx r) (hist s) \/ (cl_pc (cli s c) = CL /\ idx = cl_reqidx (cli s c) + 1 /\
                   cli s' c = mkClient SND (cl_leader (cli s c)) (Some r) idx /\ hist s' = HInv c idx r :: hist s)).
  { intros c idx r Hin. destruct Sh; try (rewrite Hhist in Hin; auto; fail).
    - rewrite Hhist in Hin. destruct Hin as [[= <- <- <-]|Hin]; auto. right. rewrite Hcli, upd_same. auto.
    - destruct Hhist as [E|(t & key & v & ok & hint & a & _ & E)]; rewrite E in Hin; auto.
      destruct Hin as [Hin|Hin]; [discriminate|auto]. }
  assert (Hcl : forall c, cli s' c = cli s c \/
                 (cl_req (cli s' c) = cl_req (cli s c) /\ cl_reqidx (cli s' c) = cl_reqidx (cli s c) /\ cl_pc (cli s c) <> CL) \/
                 (cl_pc (cli s c) = CL /\ exists r, cli s' c = mkClient SND (cl_leader (cli s c)) (Some r) (cl_reqidx (cli s c) + 1) /\
                    hist s' = HInv c (cl_reqidx (cli s c) + 1) r :: hist s)).
  { intros c. destruct Sh; try (rewrite Hcli; auto; fail).
    - rewrite Hcli. unfold upd. destruct (c =? c0) eqn:E; auto. apply Nat.eqb_eq in E. subst. right. right. eauto.
    - rewrite Hcli. unfold upd. destruct (c =? c0) eqn:E; auto. apply Nat.eqb_eq in E. subst. right. left. cbn. rewrite Hpc. repeat split; auto. discriminate.
    - destruct Hcli as [-> | ->]; auto. unfold upd. destruct (c =? c0) eqn:E; auto. apply Nat.eqb_eq in E. subst. right. left. cbn. rewrite Hpc. repeat split; auto. discriminate.
    - rewrite Hcli. unfold upd. destruct (c =? c0) eqn:E; auto. apply Nat.eqb_eq in E. subst. right. left. cbn. rewrite Hpc. repeat split; auto. discriminate. }
  constructor.
  - (* J0 *) intros c Hpc. destruct (Hcl c) as [E|[(A & B & C)|(A & r & B & C)]].
    + rewrite E in *. destruct (J0 _ _ IJ c Hpc) as (r & R1 & R2). exists r. split; auto.
    + destruct (J0 _ _ IJ c C) as (r & R1 & R2). exists r. rewrite A, B. split; auto.
    + exists r. rewrite B, C. cbn. split; auto.
  - (* J1l *) intros i e Hin.
    assert (Hold : In e (s_log (srv s i)) -> invoked (hist s') (e_client e) (e_cmd e)).
    { intros Ho. eapply invoked_mono; eauto. eapply J1l; eauto. }
    destruct (step_srv_cases _ _ _ _ Hs i) as [E|[(l & out & ltr & _ & Hc)|(m & E)]].
    + rewrite E in Hin. auto.
    + destruct (core_log_src _ _ _ _ _ _ _ _ Hc) as [E|[(c & j & d & Hm & E)|(mt & prev & prevT & es & mc & j & d & Hm & E)]];
        rewrite E in Hin; auto.
      * apply in_app_iff in Hin as [Hin|[<-|[]]]; auto. cbn.
        eapply invoked_mono; eauto. apply (J1m _ _ IJ _ _ Hm).
      * apply in_app_iff in Hin as [Hin|Hin].
        -- apply Hold. eapply In_firstn; eauto.
        -- eapply invoked_mono; eauto. apply (J1m _ _ IJ _ _ Hm). exact Hin.
    + rewrite E in Hin. cbn in Hin. auto.
  - (* J1n *) intros d m Hin.
    assert (Hold : In m (net s d) -> msg_invoked (hist s') m).
    { intros Ho. eapply msg_invoked_mono; eauto. eapply J1n; eauto. }
    destruct m; try exact Logic.I.
    + (* AppendEntries: its entries are a suffix of the leader's log *)
      destruct (net_in_cases _ _ _ _ Hs _ _ Hin) as [Ho|[Hsent|(c & cm & E)]]; auto; [|discriminate].
      destruct Hsent as (i & l & md & ltr & Hi & Hc & _).
      destruct (core_apq_out _ _ _ _ _ _ _ _ _ _ _ _ _ _ _ _ Hc) as (_ & _ & _ & _ & _ & -> & _).
      intros e He. eapply invoked_mono; eauto. apply (J1l _ _ IJ i). clear -He.
      revert He. generalize (s_log (srv s i)). induction mprevLogIndex as [|n IH]; intros l0 He; cbn in He; auto.
      destruct l0; cbn in *; [tauto|]. right. auto.
    + (* client request *)
      destruct Sh.
      * apply Hold. eapply Hnocrq; eauto.
      * rewrite Hnet in Hin. auto.
      * destruct Hnet as [Hn|Hn]; rewrite Hn in Hin; auto.
        unfold upd in Hin. destruct (d =? ld) eqn:Ed; auto. apply in_app_iff in Hin as [Hin|[Hin|[]]]; [apply Nat.eqb_eq in Ed; subst; auto|].
        injection Hin as <- <- <-. cbn.
        assert (Hne : cl_pc (cli s c) <> CL) by (rewrite Hpc; discriminate).
        destruct (J0 _ _ IJ c Hne) as (r0 & R1 & R2). assert (r0 = r) by congruence. subst r0.
        exists r. cbn. split; auto.
      * rewrite Hnet in Hin. unfold upd in Hin. destruct (d =? c) eqn:Ed; auto.
        apply In_remove_nth in Hin. apply Nat.eqb_eq in Ed. subst. auto.
      * rewrite Hnet in Hin. auto.
  - (* J1m *) intros i m Hm.
    destruct (role_term_log_cases _ _ _ _ i Hs) as [(_ & _ & _ & _ & C)|[(m0 & _ & _ & _ & _ & C & Hin)|(l & out & ltr & Hi & Hc)]].
    + rewrite C in Hm. eapply msg_invoked_mono; eauto. eapply J1m; eauto.
    + rewrite C in Hm. injection Hm as <-. eapply msg_invoked_mono; eauto. eapply J1n; eauto.
    + rewrite (core_m_stable _ _ _ _ _ _ _ _ Hc) in Hm. eapply msg_invoked_mono; eauto. eapply J1m; eauto.
  - (* J2a *) intros c idx r Hin.
    assert (Hri : cl_reqidx (cli s c) <= cl_reqidx (cli s' c)).
    { destruct (Hcl c) as [E|[(_ & B & _)|(_ & r0 & B & _)]]; [rewrite E; lia | lia | rewrite B; cbn; lia]. }
    destruct (Hinv _ _ _ Hin) as [Ho|(A & B & C & D)].
    + pose proof (J2a _ _ IJ _ _ _ Ho). lia.
    + rewrite C. cbn. lia.
  - (* J2b *)
    assert (Hsame : inv_keys (hist s') = inv_keys (hist s) -> NoDup (inv_keys (hist s'))).
    { intros E. rewrite E. apply (J2b _ _ IJ). }
    destruct Sh; try (apply Hsame; now rewrite Hhist).
    + rewrite Hhist. cbn. constructor; [|apply (J2b _ _ IJ)].
      intros Hk. apply In_inv_keys in Hk as (r0 & Hr0). pose proof (J2a _ _ IJ _ _ _ Hr0). lia.
    + destruct Hhist as [E|(t & key & v & ok & hint & a & _ & E)]; apply Hsame; rewrite E; reflexivity.
Qed.

Lemma jinv_init cfg : jinv cfg (init cfg).
Proof. constructor; cbn; try tauto; try congruence; try constructor. Qed.

Lemma reachable_jinv cfg s : reachable cfg s -> jinv cfg s.
Proof. induction 1; [apply jinv_init | eapply jinv_step; eauto]. Qed.


(* ---------- responses are computed from the committed prefix ---------- *)
(* what the implementation answers for `key` after applying the prefix L (whose last entry is the request) *)
Definition impl_response (L : list entry) (key : nat) : nat * bool :=
  let smd := apply_all L in
  if mem key (snd smd) then (match sm_get key (fst smd) with Some v => v | None => 0 end, true) else (0, false).

Definition resp_ok (cfg : config) (s : state) (c idx : nat) (t : ctype) (key v : nat) (ok : bool) : Prop :=
  exists i p e, is_server cfg i = true /\ 1 <= p /\ p <= s_commit (srv s i) /\ log_at (s_log (srv s i)) p = Some e /\
    e_client e = c /\ c_idx (e_cmd e) = idx /\ c_type (e_cmd e) = t /\ c_key (e_cmd e) = key /\
    (v, ok) = impl_response (firstn p (s_log (srv s i))) key.

Definition crp_ok (cfg : config) (s : state) (m : msg) : Prop :=
  match m with
  | CRP t true idx key v ok _ _ dst => resp_ok cfg s dst idx t key v ok
  | _ => True
  end.

Record rinv (cfg : config) (s : state) : Prop := {
  R1 : forall d m, In m (net s d) -> crp_ok cfg s m;
  R2 : forall c idx t key v ok, In (HResp c idx t key v ok) (hist s) -> resp_ok cfg s c idx t key v ok;
  R3 : forall h2 h1 c idx t key v ok, hist s = h2 ++ HResp c idx t key v ok :: h1 ->
         exists i p, is_server cfg i = true /\ 1 <= p /\ p <= s_commit (srv s i) /\
           (exists e, log_at (s_log (srv s i)) p = Some e /\ e_client e = c /\ c_idx (e_cmd e) = idx) /\
           forall q e', 1 <= q -> q <= p -> log_at (s_log (srv s i)) q = Some e' -> In (e_client e', c_idx (e_cmd e')) (inv_keys h1)
}.

Lemma log_at_firstn l p q : 1 <= q -> q <= p -> log_at (firstn p l) q = log_at l q.
Proof. intros H1 H2. destruct q; [lia|]. cbn. apply nth_error_firstn_lt. lia. Qed.

Lemma one_step_stable cfg s ev s' i p :
  cfg_fifo cfg = true -> reachable cfg s -> step cfg s ev = Commit s' -> p <= s_commit (srv s i) ->
  firstn p (s_log (srv s' i)) = firstn p (s_log (srv s i)) /\ p <= s_commit (srv s' i).
Proof.
  intros Hf Hr Hs Hp. pose proof (commit_monotone_step _ _ _ _ i Hs) as Hm.
  assert (Hst : steps cfg s s') by (econstructor; [constructor|eauto]).
  destruct (committed_firstn_stable cfg s s' Hf Hr Hst i i p Hp) as [E _]; [lia|]. split; auto. lia.
Qed.

Lemma resp_ok_keep cfg s ev s' c idx t key v ok :
  cfg_fifo cfg = true -> reachable cfg s -> step cfg s ev = Commit s' ->
  resp_ok cfg s c idx t key v ok -> resp_ok cfg s' c idx t key v ok.
Proof.
  intros Hf Hr Hs (i & p & e & Hi & H1 & Hp & Hl & A & B & C & D & E).
  destruct (one_step_stable cfg s ev s' i p Hf Hr Hs Hp) as [Ef Hp'].
  exists i, p, e. repeat split; auto.
  - rewrite <- (log_at_firstn _ p p) by lia. rewrite Ef. rewrite log_at_firstn by lia. exact Hl.
  - now rewrite Ef.
Qed.

Lemma core_crp_val cfg i sv f l sv' md d t idx key v ok hint src dst ltr :
  server_core cfg i sv f l = HR sv' (Some (md, d, CRP t true idx key v ok hint src dst)) ltr ->
  exists e, log_at (s_log sv) (s_commit sv + 1) = Some e /\ s_commit sv' = s_commit sv + 1 /\ s_log sv' = s_log sv /\
            e_client e = dst /\ c_idx (e_cmd e) = idx /\ c_type (e_cmd e) = t /\ c_key (e_cmd e) = key /\
            (v, ok) = (let smd := apply_entry e (s_sm sv, s_smdom sv) in
                       if mem key (snd smd) then (match sm_get key (fst smd) with Some x => x | None => 0 end, true) else (0, false)).
Proof.
  intros H. destruct l; unfold_core H; repeat (destr_in H; try discriminate H); inversion H; subst; clear H.
  all: exists e; split; [reflexivity|]; cbn; repeat split; auto.
  all: match goal with Hm : mem _ _ = _ |- _ => rewrite Hm end; try reflexivity.
  all: match goal with Hg : sm_get _ _ = Some _ |- _ => rewrite Hg end; reflexivity.
Qed.

Lemma rinv_step cfg s ev s' :
  cfg_fifo cfg = true -> reachable cfg s -> rinv cfg s -> step cfg s ev = Commit s' -> rinv cfg s'.
Proof.
  intros Hf Hr IR Hs.
  pose proof (reachable_jinv _ _ Hr) as IJ.
  destruct (reachable_areach _ _ Hr) as (g & a & Ha). pose proof (areach_cinv _ _ _ _ Hf Ha) as IC.
  assert (HR1 : forall d m, In m (net s' d) -> crp_ok cfg s' m).
  { intros d m Hin. destruct (net_in_cases _ _ _ _ Hs _ _ Hin) as [Ho|[Hsent|(c & cm & ->)]]; [| |exact Logic.I].
    - pose proof (R1 _ _ IR _ _ Ho) as Hc. destruct m; auto. destruct msuccess; auto. cbn in *. eapply resp_ok_keep; eauto.
    - destruct Hsent as (i & l & md & ltr & Hi & Hc & _). destruct m; try exact Logic.I. destruct msuccess; try exact Logic.I.
      destruct (core_crp_val _ _ _ _ _ _ _ _ _ _ _ _ _ _ _ _ _ Hc) as (e & Hl & Hcm & Hlog & A & B & C & D & E).
      cbn. exists i, (s_commit (srv s i) + 1), e. rewrite Hlog. repeat split; auto; try lia.
      rewrite E. unfold impl_response. rewrite (firstn_succ_nth _ _ _ Hl), apply_all_app. cbn [fold_left].
      rewrite <- (D1 _ _ _ _ IC i). reflexivity. }
  constructor; auto.
  - intros c idx t key v ok Hin.
    destruct (hist_step_cases _ _ _ _ Hs) as [E|[(c0 & i0 & r0 & E)|(c0 & i0 & t0 & k0 & v0 & ok0 & hint & a0 & E & Hnet)]];
      rewrite E in Hin.
    + eapply resp_ok_keep; eauto. eapply R2; eauto.
    + destruct Hin as [Hin|Hin]; [discriminate|]. eapply resp_ok_keep; eauto. eapply R2; eauto.
    + destruct Hin as [Hin|Hin]; [|eapply resp_ok_keep; eauto; eapply R2; eauto].
      injection Hin as -> -> -> -> -> ->. pose proof (R1 _ _ IR _ _ Hnet) as Hc. cbn in Hc. eapply resp_ok_keep; eauto.
  - intros h2 h1 c idx t key v ok Hsplit.
    assert (Hkeep : forall h1', (exists i p, is_server cfg i = true /\ 1 <= p /\ p <= s_commit (srv s i) /\
           (exists e, log_at (s_log (srv s i)) p = Some e /\ e_client e = c /\ c_idx (e_cmd e) = idx) /\
           forall q e', 1 <= q -> q <= p -> log_at (s_log (srv s i)) q = Some e' -> In (e_client e', c_idx (e_cmd e')) (inv_keys h1')) ->
         exists i p, is_server cfg i = true /\ 1 <= p /\ p <= s_commit (srv s' i) /\
           (exists e, log_at (s_log (srv s' i)) p = Some e /\ e_client e = c /\ c_idx (e_cmd e) = idx) /\
           forall q e', 1 <= q -> q <= p -> log_at (s_log (srv s' i)) q = Some e' -> In (e_client e', c_idx (e_cmd e')) (inv_keys h1')).
    { intros h1' (i & p & Hi & H1 & Hp & (e & Hl & A & B) & Hall).
      destruct (one_step_stable cfg s ev s' i p Hf Hr Hs Hp) as [Ef Hp'].
      assert (Hla : forall q, 1 <= q -> q <= p -> log_at (s_log (srv s' i)) q = log_at (s_log (srv s i)) q).
      { intros q Q1 Q2. rewrite <- (log_at_firstn _ p q) by lia. rewrite Ef. apply log_at_firstn; lia. }
      exists i, p. repeat split; auto.
      - exists e. rewrite Hla by lia. auto.
      - intros q e' Q1 Q2 Hq. rewrite Hla in Hq by lia. eauto. }
    destruct (hist_step_cases _ _ _ _ Hs) as [E|[(c0 & i0 & r0 & E)|(c0 & i0 & t0 & k0 & v0 & ok0 & hint & a0 & E & Hnet)]];
      rewrite E in Hsplit.
    + apply Hkeep. eapply R3; eauto.
    + destruct h2 as [|x h2']; [discriminate|]. injection Hsplit as _ Hsplit. apply Hkeep. eapply R3; eauto.
    + destruct h2 as [|x h2'].
      * cbn in Hsplit. injection Hsplit as E1 E2 E3 E4 E5 E6 E7. subst. apply Hkeep.
        pose proof (R1 _ _ IR _ _ Hnet) as Hc. cbn in Hc.
        destruct Hc as (i & p & e & Hi & H1 & Hp & Hl & A & B & _).
        exists i, p. repeat split; auto; [exists e; auto|].
        intros q e' Q1 Q2 Hq. apply In_inv_keys.
        assert (Hin : In e' (s_log (srv s i))). { destruct q; [lia|]. cbn in Hq. eapply nth_error_In; eauto. }
        destruct (J1l _ _ IJ i e' Hin) as (r & Hrr & _). eauto.
      * injection Hsplit as _ Hsplit. apply Hkeep. eapply R3; eauto.
Qed.

Lemma rinv_init cfg : rinv cfg (init cfg).
Proof.
  constructor; cbn; try tauto. intros h2 h1 c idx t key v ok Hs. destruct h2; discriminate.
Qed.

Lemma reachable_rinv cfg s : cfg_fifo cfg = true -> reachable cfg s -> rinv cfg s.
Proof. intros Hf. induction 1; [apply rinv_init | eapply rinv_step; eauto]. Qed.

(* ---------- operations of a history, by position ---------- *)
Lemma find_resp_spec c i h pos p t key v ok :
  find_resp c i h pos = Some (p, (t, key, v, ok)) ->
  exists k, p = pos + k /\ nth_error h k = Some (HResp c i t key v ok).
Proof.
  revert pos; induction h as [|e rest IH]; cbn; intros pos H; [discriminate|].
  destruct e.
  - destruct (IH _ H) as (k & -> & Hk). exists (S k). split; [lia|exact Hk].
  - destruct ((c =? c0) && (i =? idx)) eqn:E.
    + injection H as <- <- <- <- <-. apply andb_prop in E as [E1 E2]. apply Nat.eqb_eq in E1, E2. subst.
      exists 0. split; [lia|reflexivity].
    + destruct (IH _ H) as (k & -> & Hk). exists (S k). split; [lia|exact Hk].
Qed.

Lemma ops_from_spec h pos o :
  In o (ops_from h pos) <->
  exists k c i r, nth_error h k = Some (HInv c i r) /\
                  o = mkOp c i r (pos + k) (find_resp c i (skipn (S k) h) (pos + S k)).
Proof.
  revert pos; induction h as [|e rest IH]; intros pos; cbn [ops_from].
  - split; [intros [] | intros (k & c & i & r & H & _); destruct k; discriminate].
  - destruct e.
    + cbn [In]. rewrite IH. split.
      * intros [<-|(k & c0 & i0 & r0 & Hn & ->)].
        -- exists 0, c, idx, r. split; [reflexivity|]. cbn. f_equal; try lia. f_equal. lia.
        -- exists (S k), c0, i0, r0. split; [exact Hn|]. cbn [skipn]. f_equal; try lia. f_equal. lia.
      * intros (k & c0 & i0 & r0 & Hn & ->). destruct k.
        -- left. cbn in Hn. injection Hn as <- <- <-. cbn. f_equal; try lia. f_equal. lia.
        -- right. exists k, c0, i0, r0. split; [exact Hn|]. cbn [skipn]. f_equal; try lia. f_equal. lia.
    + rewrite IH. split.
      * intros (k & c0 & i0 & r0 & Hn & ->). exists (S k), c0, i0, r0. split; [exact Hn|]. cbn [skipn]. f_equal; try lia. f_equal. lia.
      * intros (k & c0 & i0 & r0 & Hn & ->). destruct k; [discriminate|].
        exists k, c0, i0, r0. split; [exact Hn|]. cbn [skipn]. f_equal; try lia. f_equal. lia.
Qed.

Lemma ops_inv h o : In o (ops_of h) -> nth_error h (o_inv o) = Some (HInv (o_client o) (o_idx o) (o_req o)).
Proof. unfold ops_of. intros H. apply ops_from_spec in H as (k & c & i & r & Hn & ->). cbn. exact Hn. Qed.

Lemma nth_error_skipn {A} n (l : list A) k : nth_error (skipn n l) k = nth_error l (n + k).
Proof. revert l; induction n as [|n IH]; intros l; cbn; auto. destruct l; cbn; auto. now destruct k. Qed.

Lemma ops_resp h o p t key v ok : In o (ops_of h) -> o_resp o = Some (p, (t, key, v, ok)) ->
  nth_error h p = Some (HResp (o_client o) (o_idx o) t key v ok) /\ o_inv o < p.
Proof.
  unfold ops_of. intros H Hr. apply ops_from_spec in H as (k & c & i & r & Hn & ->).
  cbn [o_resp o_inv o_client o_idx o_req] in *.
  apply find_resp_spec in Hr as (k' & -> & Hk). rewrite nth_error_skipn in Hk. split; [|lia].
  replace (0 + S k + k') with (S k + k') by lia. exact Hk.
Qed.

Lemma ops_of_inv h c i r : In (HInv c i r) h -> exists o, In o (ops_of h) /\ o_client o = c /\ o_idx o = i /\ o_req o = r.
Proof.
  intros H. apply In_nth_error in H as [k Hk]. eexists. split.
  - apply ops_from_spec. exists k, c, i, r. split; [exact Hk|reflexivity].
  - cbn. auto.
Qed.

Lemma inv_key_pos h : NoDup (inv_keys h) ->
  forall k1 k2 c i r1 r2, nth_error h k1 = Some (HInv c i r1) -> nth_error h k2 = Some (HInv c i r2) -> k1 = k2.
Proof.
  induction h as [|e rest IH]; intros N k1 k2 c i r1 r2 H1 H2; [destruct k1; discriminate|].
  assert (Nr : NoDup (inv_keys rest)).
  { destruct e; cbn in N; [inversion N; auto | exact N]. }
  assert (Hnot : forall k r, e = HInv c i r -> nth_error rest k <> Some (HInv c i r1) /\ nth_error rest k <> Some (HInv c i r2)).
  { intros k r ->. cbn in N. inversion N as [|? ? Hni _]; subst.
    split; intros Hk; apply Hni, In_inv_keys; eexists; eapply nth_error_In; eauto. }
  destruct k1, k2; cbn in *; auto.
  - exfalso. injection H1 as ->. destruct (Hnot k2 r1 eq_refl) as [_ X]. auto.
  - exfalso. injection H2 as ->. destruct (Hnot k1 r2 eq_refl) as [X _]. auto.
  - f_equal. eapply IH; eauto.
Qed.

Lemma ops_unique h o o' : NoDup (inv_keys h) -> In o (ops_of h) -> In o' (ops_of h) ->
  o_client o = o_client o' -> o_idx o = o_idx o' -> o = o'.
Proof.
  unfold ops_of. intros N H H' Ec Ei.
  apply ops_from_spec in H as (k & c & i & r & Hn & ->). apply ops_from_spec in H' as (k' & c' & i' & r' & Hn' & ->).
  cbn in *. subst c' i'. assert (k = k') by (eapply inv_key_pos; eauto). subst k'. rewrite Hn in Hn'. injection Hn' as <-. reflexivity.
Qed.

Lemma inv_keys_app h1 h2 : inv_keys (h1 ++ h2) = inv_keys h1 ++ inv_keys h2.
Proof. unfold inv_keys. apply flat_map_app. Qed.
Lemma inv_keys_rev h : inv_keys (rev h) = rev (inv_keys h).
Proof.
  induction h as [|e r IH]; cbn; auto. rewrite inv_keys_app, IH. destruct e; cbn; auto. now rewrite app_nil_r.
Qed.

(* ---------- the store computed by the servers and the sequential specification ---------- *)
Lemma sm_get_put_other k k' v l : k' <> k -> sm_get k' (sm_put k v l) = sm_get k' l.
Proof.
  intros Hne. induction l as [|[k0 v0] r IH]; cbn.
  - destruct (k' =? k) eqn:E; auto. apply Nat.eqb_eq in E. congruence.
  - destruct (k <? k0) eqn:E1; cbn.
    + destruct (k' =? k) eqn:E; auto. apply Nat.eqb_eq in E. congruence.
    + destruct (k =? k0) eqn:E2; cbn.
      * apply Nat.eqb_eq in E2. subst k0. destruct (k' =? k) eqn:E; auto. apply Nat.eqb_eq in E. congruence.
      * destruct (k' =? k0); auto.
Qed.

Lemma mem_ins_iff k' k l : mem k' (ins k l) = true <-> k' = k \/ mem k' l = true.
Proof.
  unfold mem. rewrite !existsb_exists. split.
  - intros (x & Hx & E). apply Nat.eqb_eq in E. subst x. apply In_ins in Hx as [->|Hx]; auto.
    right. exists k'. split; auto. apply Nat.eqb_refl.
  - intros [->|(x & Hx & E)].
    + exists k. split; [apply In_ins; auto | apply Nat.eqb_refl].
    + apply Nat.eqb_eq in E. subst x. exists k'. split; [apply In_ins; auto | apply Nat.eqb_refl].
Qed.

Definition dom_ok (smd : list (nat * nat) * list nat) : Prop :=
  forall k, mem k (snd smd) = true <-> exists v, sm_get k (fst smd) = Some v.

Lemma dom_ok_apply e smd : dom_ok smd -> dom_ok (apply_entry e smd).
Proof.
  intros H k. unfold apply_entry. destruct (c_type (e_cmd e)); [|apply H]. cbn [fst snd].
  rewrite mem_ins_iff. destruct (Nat.eq_dec k (c_key (e_cmd e))) as [->|Hne].
  - rewrite sm_get_put. split; eauto.
  - rewrite sm_get_put_other by auto. rewrite (H k). split; [intros [?|?]; [congruence|auto] | auto].
Qed.

Lemma dom_ok_all l : dom_ok (apply_all l).
Proof.
  unfold apply_all. assert (G : forall acc, dom_ok acc -> dom_ok (fold_left (fun acc e => apply_entry e acc) l acc)).
  { induction l as [|e r IH]; cbn; auto. intros acc Ha. apply IH. now apply dom_ok_apply. }
  apply G. intros k. cbn. split; [discriminate | intros [v Hv]; discriminate].
Qed.

Definition match_cmd (o : op) (e : entry) : Prop :=
  o_client o = e_client e /\ o_idx o = c_idx (e_cmd e) /\ e_cmd e = cmd_of_req (o_idx o) (o_req o).

Lemma apply_op_entry o e m d : match_cmd o e -> apply_op o m = fst (apply_entry e (m, d)).
Proof.
  intros (_ & _ & E). unfold apply_op, apply_entry. rewrite E. cbn. destruct (r_type (o_req o)); reflexivity.
Qed.

(* the recorded response of a completed operation is what the sequential store answers *)
Lemma response_matches o e pre t key v ok :
  match_cmd o e -> c_type (e_cmd e) = t -> c_key (e_cmd e) = key ->
  (v, ok) = impl_response (pre ++ [e]) key ->
  resp_eqb (t, key, v, ok) (spec_response o (fst (apply_all (pre ++ [e])))) = true.
Proof.
  intros M Ht Hk Hr. destruct M as (_ & _ & E). rewrite E in Ht, Hk. cbn in Ht, Hk.
  unfold impl_response in Hr. rewrite apply_all_app in *. cbn [fold_left] in *.
  pose proof (dom_ok_all pre) as Dp. destruct (apply_all pre) as [m d] eqn:Ep.
  unfold spec_response. unfold apply_entry in *. rewrite E in *. cbn [e_cmd cmd_of_req c_type c_key c_val] in *.
  destruct (r_type (o_req o)) eqn:Ety; cbn [fst snd] in *; subst t key.
  - (* Put *) assert (Hm : mem (r_key (o_req o)) (ins (r_key (o_req o)) d) = true) by (apply mem_ins_iff; auto).
    rewrite Hm, sm_get_put in Hr. injection Hr as -> ->. cbn. now rewrite !Nat.eqb_refl.
  - (* Get *) destruct (mem (r_key (o_req o)) d) eqn:Hm.
    + apply (Dp (r_key (o_req o))) in Hm as [v' Hv']. cbn in Hv'. rewrite Hv' in *. injection Hr as -> ->.
      cbn. now rewrite !Nat.eqb_refl.
    + destruct (sm_get (r_key (o_req o)) m) as [v'|] eqn:Hv'.
      * exfalso. assert (mem (r_key (o_req o)) d = true) by (apply (Dp (r_key (o_req o))); eauto). congruence.
      * injection Hr as -> ->. cbn. now rewrite !Nat.eqb_refl.
Qed.

(* ---------- assembling the linearization: operations in the order of the applied log ---------- *)
Definition no_dup_applied (cfg : config) (s : state) : Prop :=
  forall i p q e1 e2, is_server cfg i = true -> 1 <= p -> 1 <= q ->
    p <= s_commit (srv s i) -> q <= s_commit (srv s i) ->
    log_at (s_log (srv s i)) p = Some e1 -> log_at (s_log (srv s i)) q = Some e2 ->
    e_client e1 = e_client e2 -> c_idx (e_cmd e1) = c_idx (e_cmd e2) -> p = q.

Lemma Forall2_nth_l {A B} (P : A -> B -> Prop) l1 l2 k a :
  Forall2 P l1 l2 -> nth_error l1 k = Some a -> exists b, nth_error l2 k = Some b /\ P a b.
Proof.
  intros F. revert k. induction F; intros k Hk; destruct k; cbn in *; try discriminate.
  - injection Hk as <-. eauto.
  - eauto.
Qed.
Lemma Forall2_nth_r {A B} (P : A -> B -> Prop) l1 l2 k b :
  Forall2 P l1 l2 -> nth_error l2 k = Some b -> exists a, nth_error l1 k = Some a /\ P a b.
Proof.
  intros F. revert k. induction F; intros k Hk; destruct k; cbn in *; try discriminate.
  - injection Hk as <-. eauto.
  - eauto.
Qed.
Lemma Forall2_exists {A B} (P : A -> B -> Prop) (l2 : list B) :
  (forall b, In b l2 -> exists a, P a b) -> exists l1, Forall2 P l1 l2.
Proof.
  induction l2 as [|b r IH]; intros H; [exists []; constructor|].
  destruct (H b (or_introl eq_refl)) as [a Ha]. destruct IH as [l1 Hl]; [intros x Hx; apply H; now right|].
  exists (a :: l1). now constructor.
Qed.

Lemma max_commit_in s (l : list nat) : l <> [] ->
  exists i, In i l /\ forall j, In j l -> s_commit (srv s j) <= s_commit (srv s i).
Proof.
  induction l as [|x r IH]; [congruence|]. intros _. destruct r as [|y r'].
  - exists x. split; [now left|]. intros j [<-|[]]. lia.
  - destruct IH as (i & Hi & Hmax); [discriminate|].
    destruct (Nat.le_gt_cases (s_commit (srv s x)) (s_commit (srv s i))).
    + exists i. split; [now right|]. intros j [<-|Hj]; auto.
    + exists x. split; [now left|]. intros j [<-|Hj]; [lia|]. specialize (Hmax j Hj). lia.
Qed.

Lemma rev_nth_split {A} (l : list A) k x : nth_error (rev l) k = Some x ->
  exists h2 h1, l = h2 ++ x :: h1 /\ List.length h1 = k.
Proof.
  intros H. apply nth_error_split in H as (l1 & l2 & E & Hl).
  exists (rev l2), (rev l1). split.
  - rewrite <- (rev_involutive l), E, rev_app_distr. cbn. now rewrite <- app_assoc.
  - now rewrite rev_length.
Qed.

Lemma split_rev_pos {A} (h2 h1 : list A) x y : In y h1 ->
  exists k, k < List.length h1 /\ nth_error (rev (h2 ++ x :: h1)) k = Some y.
Proof.
  intros Hy. rewrite rev_app_distr. cbn. rewrite <- app_assoc. apply in_rev in Hy. apply In_nth_error in Hy as [k Hk].
  exists k. pose proof (nth_error_lt _ _ _ Hk) as Hl. rewrite rev_length in Hl. split; auto.
  rewrite nth_error_app1 by (rewrite rev_length; lia). exact Hk.
Qed.

Lemma rt_ok_pairs (order : list op) :
  (forall pa pb a b, pa < pb -> nth_error order pa = Some a -> nth_error order pb = Some b -> precedes b a = false) ->
  rt_ok order.
Proof.
  induction order as [|a r IH]; intros H; cbn; auto. split.
  - intros b Hb. apply In_nth_error in Hb as [k Hk]. apply (H 0 (S k) a b); auto. lia.
  - apply IH. intros pa pb x y Hlt Hx Hy. apply (H (S pa) (S pb)); auto. lia.
Qed.

Section Final.
  Variables (cfg : config) (s : state).
  Hypothesis Hf : cfg_fifo cfg = true.
  Hypothesis Hr : reachable cfg s.
  Hypothesis ND : no_dup_applied cfg s.

  Let h := history s.
  Let ops := ops_of h.

  Lemma agree i j p : p <= s_commit (srv s i) -> p <= s_commit (srv s j) ->
    firstn p (s_log (srv s i)) = firstn p (s_log (srv s j)) /\ p <= List.length (s_log (srv s i)).
  Proof.
    intros Hi Hj. destruct (committed_firstn_stable cfg s s Hf Hr (steps_refl cfg s) j i p Hj Hi) as [E _].
    destruct (committed_firstn_stable cfg s s Hf Hr (steps_refl cfg s) i i p Hi Hi) as [_ L]. split; auto.
  Qed.

  Lemma hist_keys : NoDup (inv_keys h).
  Proof. unfold h, history. rewrite inv_keys_rev. apply NoDup_rev. apply (J2b _ _ (reachable_jinv _ _ Hr)). Qed.

  Lemma in_h x : In x h <-> In x (hist s).
  Proof. unfold h, history. symmetry. apply in_rev. Qed.

  (* no server: nothing is ever acknowledged *)
  Lemma lin_no_server : cfg_n cfg = 0 -> lin_spec h.
  Proof.
    intros Hn. unfold lin_spec. apply lin_pending. apply forallb_forall. intros o Ho.
    destruct (completed o) eqn:Ec; auto. exfalso. unfold completed in Ec.
    destruct (o_resp o) as [[p [[[t key] v] ok]]|] eqn:Er; [|discriminate].
    destruct (ops_resp _ _ _ _ _ _ _ Ho Er) as [Hn' _]. apply nth_error_In, in_h in Hn'.
    destruct (R2 _ _ (reachable_rinv _ _ Hf Hr) _ _ _ _ _ _ Hn') as (i & _ & _ & Hi & _).
    unfold is_server in Hi. rewrite Hn in Hi. apply andb_prop in Hi as [A B]. apply Nat.leb_le in A, B. lia.
  Qed.

  Section WithMax.
    Variable i0 : nat.
    Hypothesis Hi0 : is_server cfg i0 = true.
    Hypothesis Hmax : forall j, is_server cfg j = true -> s_commit (srv s j) <= s_commit (srv s i0).
    Let c0 := s_commit (srv s i0).
    Let CL := firstn c0 (s_log (srv s i0)).

    Lemma CL_len : List.length CL = c0.
    Proof. unfold CL. rewrite firstn_length. destruct (agree i0 i0 c0 (le_n _) (le_n _)) as [_ L]. fold c0 in L. lia. Qed.

    Lemma CL_at i p : is_server cfg i = true -> 1 <= p -> p <= s_commit (srv s i) -> log_at (s_log (srv s i)) p = log_at CL p.
    Proof.
      intros Hi H1 Hp. pose proof (Hmax i Hi) as Hm. fold c0 in Hm.
      destruct (agree i i0 p Hp) as [E _]; [fold c0; lia|].
      unfold CL. rewrite log_at_firstn by lia.
      rewrite <- (log_at_firstn (s_log (srv s i)) p p) by lia. rewrite E. apply log_at_firstn; lia.
    Qed.

    Lemma CL_unique p q e1 e2 : 1 <= p -> 1 <= q -> log_at CL p = Some e1 -> log_at CL q = Some e2 ->
      e_client e1 = e_client e2 -> c_idx (e_cmd e1) = c_idx (e_cmd e2) -> p = q.
    Proof.
      intros P1 Q1 Hp Hq A B.
      assert (Pl : p <= c0). { destruct p; [lia|]. cbn in Hp. apply nth_error_lt in Hp. rewrite CL_len in Hp. lia. }
      assert (Ql : q <= c0). { destruct q; [lia|]. cbn in Hq. apply nth_error_lt in Hq. rewrite CL_len in Hq. lia. }
      rewrite <- (CL_at i0 p Hi0 P1 Pl) in Hp. rewrite <- (CL_at i0 q Hi0 Q1 Ql) in Hq.
      eapply (ND i0 p q e1 e2); eauto.
    Qed.

    Definition match_op (o : op) (e : entry) : Prop := In o ops /\ match_cmd o e.

    Lemma order_exists : exists order, Forall2 match_op order CL.
    Proof.
      apply Forall2_exists. intros e He. unfold CL in He. apply In_firstn in He.
      destruct (J1l _ _ (reachable_jinv _ _ Hr) i0 e He) as (r & Hin & Ecmd).
      apply in_h in Hin. destruct (ops_of_inv _ _ _ _ Hin) as (o & Ho & A & B & C).
      exists o. split; auto. unfold match_cmd. rewrite A, B, C. auto.
    Qed.

    Variable order : list op.
    Hypothesis Hord : Forall2 match_op order CL.

    Lemma order_at k o : nth_error order k = Some o -> exists e, log_at CL (S k) = Some e /\ In o ops /\ match_cmd o e.
    Proof. intros Hk. destruct (Forall2_nth_l _ _ _ _ _ Hord Hk) as (e & He & Ho & Hm). exists e. auto. Qed.

    Lemma order_of_entry p e : 1 <= p -> log_at CL p = Some e -> exists o, nth_error order (p - 1) = Some o /\ In o ops /\ match_cmd o e.
    Proof.
      intros P1 Hp. destruct p; [lia|]. cbn in Hp. replace (S p - 1) with p by lia.
      destruct (Forall2_nth_r _ _ _ _ _ Hord Hp) as (o & Ho & Hin & Hm). exists o. auto.
    Qed.

    (* a response in the history belongs to the operation at the position of its entry in the applied log *)
    Lemma resp_position c idx t key v ok : In (HResp c idx t key v ok) (hist s) ->
      exists p e, 1 <= p /\ log_at CL p = Some e /\ e_client e = c /\ c_idx (e_cmd e) = idx /\ c_type (e_cmd e) = t /\
                  c_key (e_cmd e) = key /\ (v, ok) = impl_response (firstn p CL) key.
    Proof.
      intros Hin. destruct (R2 _ _ (reachable_rinv _ _ Hf Hr) _ _ _ _ _ _ Hin) as (i & p & e & Hi & P1 & Pl & Hl & A & B & C & D & E).
      exists p, e. rewrite <- (CL_at i p Hi P1 Pl). repeat split; auto.
      rewrite E. f_equal. pose proof (Hmax i Hi) as Hm. fold c0 in Hm.
      destruct (agree i i0 p Pl) as [Eg _]; [fold c0; lia|]. rewrite Eg. unfold CL. rewrite firstn_firstn. f_equal. lia.
    Qed.

    Lemma order_nodup : NoDup order.
    Proof.
      apply NoDup_nth_error. intros k1 k2 Hk1 Heq.
      destruct (nth_error order k1) as [o|] eqn:E1; [|apply nth_error_None in E1; lia]. symmetry in Heq.
      destruct (order_at _ _ E1) as (e1 & L1 & _ & (A1 & B1 & _)). destruct (order_at _ _ Heq) as (e2 & L2 & _ & (A2 & B2 & _)).
      assert (S k1 = S k2); [|lia]. eapply CL_unique; eauto; try lia; congruence.
    Qed.

    Lemma order_complete o : In o ops -> completed o = true -> In o order.
    Proof.
      intros Ho Hc. unfold completed in Hc. destruct (o_resp o) as [[p [[[t key] v] ok]]|] eqn:Er; [|discriminate].
      destruct (ops_resp _ _ _ _ _ _ _ Ho Er) as [Hn _]. apply nth_error_In, in_h in Hn.
      destruct (resp_position _ _ _ _ _ _ Hn) as (q & e & Q1 & Hq & A & B & _).
      destruct (order_of_entry q e Q1 Hq) as (o' & Ho' & Hin' & (A' & B' & _)).
      assert (o' = o) by (apply (ops_unique h); auto; [apply hist_keys | congruence | congruence]). subst o'.
      eapply nth_error_In; eauto.
    Qed.

    Lemma order_rt : rt_ok order.
    Proof.
      apply rt_ok_pairs. intros pa pb a b Hlt Ha Hb.
      destruct (precedes b a) eqn:Hp; auto. exfalso. unfold precedes in Hp.
      destruct (o_resp b) as [[rb [[[t key] v] ok]]|] eqn:Er; [|discriminate]. apply Nat.ltb_lt in Hp.
      destruct (order_at _ _ Ha) as (ea & La & Hina & (Aa & Ba & _)).
      destruct (order_at _ _ Hb) as (eb & Lb & Hinb & (Ab & Bb & _)).
      destruct (ops_resp _ _ _ _ _ _ _ Hinb Er) as [Hn _].
      unfold h, history in Hn. apply rev_nth_split in Hn as (h2 & h1 & Hsplit & Hlen).
      destruct (R3 _ _ (reachable_rinv _ _ Hf Hr) _ _ _ _ _ _ _ _ Hsplit) as (i & p & Hi & P1 & Pl & (e & Hl & Ac & Ai) & Hall).
      rewrite (CL_at i p Hi P1 Pl) in Hl.
      assert (p = S pb) by (eapply CL_unique; eauto; try lia; congruence). subst p.
      assert (Hqa : log_at (s_log (srv s i)) (S pa) = Some ea) by (rewrite (CL_at i (S pa) Hi); auto; lia).
      pose proof (Hall (S pa) ea ltac:(lia) ltac:(lia) Hqa) as Hk. apply In_inv_keys in Hk as (r' & Hr').
      destruct (split_rev_pos h2 h1 (HResp (o_client b) (o_idx b) t key v ok) _ Hr') as (k & Hk & Hnk).
      rewrite <- Hsplit in Hnk. fold (history s) in Hnk. fold h in Hnk.
      pose proof (ops_inv _ _ Hina) as Hia. rewrite Aa, Ba in Hia.
      assert (o_inv a = k) by (eapply (inv_key_pos h hist_keys); eauto). lia.
    Qed.

    Lemma order_legal_aux : forall pre suf ord, CL = pre ++ suf -> Forall2 match_op ord suf -> legal (fst (apply_all pre)) ord.
    Proof.
      intros pre suf. revert pre. induction suf as [|e suf' IH]; intros pre ord Hcl F;
        inversion F as [|x e0 ord' suf0 Hxe Hrest]; subst; cbn; auto.
      destruct Hxe as [Hin Hm].
      assert (Eap : apply_op x (fst (apply_all pre)) = fst (apply_all (pre ++ [e]))).
      { rewrite apply_all_app. cbn [fold_left]. destruct (apply_all pre) as [m d]. apply apply_op_entry. exact Hm. }
      rewrite Eap. split.
      - unfold response_ok. destruct (o_resp x) as [[rp [[[t key] v] ok]]|] eqn:Er; auto.
        destruct (ops_resp _ _ _ _ _ _ _ Hin Er) as [Hn _]. apply nth_error_In, in_h in Hn.
        destruct (resp_position _ _ _ _ _ _ Hn) as (q & e' & Q1 & Hq & A & B & C & D & E).
        assert (Hpe : log_at CL (S (List.length pre)) = Some e).
        { cbn. rewrite Hcl. rewrite nth_error_app2 by lia. now rewrite Nat.sub_diag. }
        destruct Hm as (A' & B' & C').
        assert (q = S (List.length pre)) by (eapply CL_unique; eauto; try lia; congruence). subst q.
        assert (e' = e) by congruence. subst e'.
        assert (Efn : firstn (S (List.length pre)) CL = pre ++ [e]).
        { rewrite Hcl. replace (S (List.length pre)) with (List.length pre + 1) by lia.
          rewrite firstn_app_2. reflexivity. }
        rewrite Efn in E. apply (response_matches x e pre t key v ok); auto. repeat split; auto.
      - apply (IH (pre ++ [e])); auto. rewrite <- app_assoc. exact Hcl.
    Qed.

    Lemma lin_with_max : lin_spec h.
    Proof.
      unfold lin_spec. fold ops. exists order. repeat split.
      - apply order_nodup.
      - intros o Ho. apply In_nth_error in Ho as [k Hk]. destruct (order_at _ _ Hk) as (e & _ & Hin & _). exact Hin.
      - apply order_complete.
      - apply order_rt.
      - apply (order_legal_aux [] CL order); auto.
    Qed.
  End WithMax.

  Theorem linearizable_without_retry_lemma : lin_spec h.
  Proof.
    destruct (Nat.eq_dec (cfg_n cfg) 0) as [Hn|Hn]; [now apply lin_no_server|].
    destruct (max_commit_in s (servers cfg)) as (i0 & Hi0 & Hmax).
    { unfold servers. destruct (cfg_n cfg); [congruence|discriminate]. }
    apply in_servers in Hi0.
    assert (Hmax' : forall j, is_server cfg j = true -> s_commit (srv s j) <= s_commit (srv s i0)).
    { intros j Hj. apply Hmax. now apply in_servers. }
    destruct (order_exists i0) as [order Hord].
    exact (lin_with_max i0 Hi0 Hmax' order Hord).
  Qed.
End Final.

(* a decidable form of the hypothesis, for concrete executions *)
Fixpoint keys_nodup_b (l : list (nat * nat)) : bool :=
  match l with
  | [] => true
  | (c, i) :: r => negb (existsb (fun x => (fst x =? c) && (snd x =? i)) r) && keys_nodup_b r
  end.
Definition no_dup_applied_b (cfg : config) (s : state) : bool :=
  forallb (fun i => (s_commit (srv s i) <=? List.length (s_log (srv s i))) &&
                    keys_nodup_b (map (fun e => (e_client e, c_idx (e_cmd e))) (firstn (s_commit (srv s i)) (s_log (srv s i)))))
          (servers cfg).

Lemma keys_nodup_b_spec l : keys_nodup_b l = true ->
  forall p q x y, nth_error l p = Some x -> nth_error l q = Some y -> x = y -> p = q.
Proof.
  induction l as [|[c i] r IH]; intros Hb p q x y Hp Hq E; [destruct p; discriminate|].
  cbn in Hb. apply andb_prop in Hb as [H1 H2]. apply negb_true_iff in H1.
  assert (Hno : forall k z, nth_error r k = Some z -> z <> (c, i)).
  { intros k z Hk ->. assert (existsb (fun x => (fst x =? c) && (snd x =? i)) r = true); [|congruence].
    apply existsb_exists. exists (c, i). split; [eapply nth_error_In; eauto|]. cbn. now rewrite !Nat.eqb_refl. }
  destruct p, q; cbn in *; auto.
  - exfalso. injection Hp as <-. subst y. exact (Hno _ _ Hq eq_refl).
  - exfalso. injection Hq as <-. subst x. exact (Hno _ _ Hp eq_refl).
  - f_equal. eapply IH; eauto.
Qed.

Lemma no_dup_applied_b_sound cfg s : no_dup_applied_b cfg s = true -> no_dup_applied cfg s.
Proof.
  unfold no_dup_applied_b. rewrite forallb_forall. intros Hb i p q e1 e2 Hi P1 Q1 Pl Ql Hp Hq A B.
  specialize (Hb i (proj2 (in_servers cfg i) Hi)). apply andb_prop in Hb as [Hlen Hk]. apply Nat.leb_le in Hlen.
  destruct p as [|p']; [lia|]. destruct q as [|q']; [lia|]. cbn in Hp, Hq. f_equal.
  eapply (keys_nodup_b_spec _ Hk p' q' (e_client e1, c_idx (e_cmd e1)) (e_client e2, c_idx (e_cmd e2))).
  - rewrite nth_error_map, nth_error_firstn_lt by lia. now rewrite Hp.
  - rewrite nth_error_map, nth_error_firstn_lt by lia. now rewrite Hq.
  - congruence.
Qed.
