(* C09 — an acknowledged Put is never lost: the entry that produced the response stays at its index in the log of every
   server that has committed that index, forever (per-link FIFO network; any crashes, leader changes, retries). *)
From PGV Require Import C08.Model C08.Proofs1 C08.Proofs2 C08.Proofs3 C08.Proofs4 C08.Proofs5 C08.Proofs6.
From PGV Require Import C09.Model.
From Coq Require Import Lia.

Definition applied (cfg : config) (s : state) (p : nat) (e : entry) : Prop :=
  exists i, is_server cfg i = true /\ 1 <= p /\ p <= s_commit (srv s i) /\ log_at (s_log (srv s i)) p = Some e.

Definition resp_matches (e : entry) (c idx : nat) (t : ctype) (key v : nat) (ok : bool) : Prop :=
  e_client e = c /\ c_idx (e_cmd e) = idx /\ c_type (e_cmd e) = t /\ c_key (e_cmd e) = key /\
  (t = CPut -> c_val (e_cmd e) = v /\ ok = true).

Definition crp_inv (cfg : config) (s : state) (m : msg) : Prop :=
  match m with
  | CRP t true idx key v ok _ _ dst => exists p e, applied cfg s p e /\ resp_matches e dst idx t key v ok
  | _ => True
  end.

Record ninv (cfg : config) (s : state) : Prop := {
  N1 : forall d m, In m (net s d) -> crp_inv cfg s m;
  N2 : forall c idx t key v ok, In (HResp c idx t key v ok) (hist s) ->
         exists p e, applied cfg s p e /\ resp_matches e c idx t key v ok
}.

Lemma sm_get_put k v l : sm_get k (sm_put k v l) = Some v.
Proof.
  induction l as [|[k' v'] r IH]; cbn; [now rewrite Nat.eqb_refl|].
  destruct (k <? k') eqn:E1; cbn; [now rewrite Nat.eqb_refl|].
  destruct (k =? k') eqn:E2; cbn; [now rewrite Nat.eqb_refl|]. now rewrite E2.
Qed.
Lemma mem_ins k l : mem k (ins k l) = true.
Proof.
  unfold mem. apply existsb_exists. exists k. split; [apply In_ins; auto | apply Nat.eqb_refl].
Qed.

Lemma core_crp_out cfg i sv f l sv' md d t idx key v ok hint src dst ltr :
  server_core cfg i sv f l = HR sv' (Some (md, d, CRP t true idx key v ok hint src dst)) ltr ->
  exists e, log_at (s_log sv) (s_commit sv + 1) = Some e /\ s_commit sv' = s_commit sv + 1 /\ s_log sv' = s_log sv /\
            resp_matches e dst idx t key v ok.
Proof.
  intros H. destruct l; unfold_core H; repeat (destr_in H; try discriminate H); inversion H; subst; clear H.
  all: exists e; split; [reflexivity|]; cbn; split; [reflexivity|]; split; [reflexivity|].
  all: unfold resp_matches; repeat split; auto.
  all: unfold apply_entry in *;
       match goal with Hp : c_type (e_cmd ?e) = CPut |- _ => rewrite Hp in *; cbn in * end.
  all: try (rewrite sm_get_put in *; congruence).
  all: exfalso; pose proof (mem_ins (c_key (e_cmd e)) (s_smdom sv)) as Hmem; unfold mem in Hmem; congruence.
Qed.

Lemma finish_hist cfg s i r br fdv s' : finish cfg s i r br fdv = Commit s' -> hist s' = hist s.
Proof.
  destruct r as [sv' out ltr| | | |]; cbn; try discriminate.
  destruct out as [[[md d] m]|]; [destruct md|]; unfold send, net_write; intros H.
  - destruct br as [|[|br]]; try discriminate.
    + destr_in H; try discriminate. injection H as <-. destruct ltr; reflexivity.
    + destruct fdv; try discriminate. injection H as <-. destruct ltr; reflexivity.
  - destr_in H; try discriminate. injection H as <-. destruct ltr; reflexivity.
  - injection H as <-. destruct ltr; reflexivity.
Qed.

Lemma hist_step_cases cfg s ev s' : step cfg s ev = Commit s' ->
  hist s' = hist s \/ (exists c idx r, hist s' = HInv c idx r :: hist s) \/
  (exists c idx t key v ok hint a, hist s' = HResp c idx t key v ok :: hist s /\
                                    In (CRP t true idx key v ok hint a c) (net s c)).
Proof.
  intros H. destruct ev; cbn [step] in H;
    try (destruct (is_server cfg i); [|discriminate]);
    try (destruct (is_client cfg c); [|discriminate]).
  - left. unfold server_loop in H. repeat (destr_in H; try discriminate); injection H as <-; reflexivity.
  - left. eapply finish_hist; eauto.
  - left. unfold server_step in H. destr_in H; try discriminate. eapply finish_hist; eauto.
  - left. eapply finish_hist; eauto.
  - left. eapply finish_hist; eauto.
  - left. eapply finish_hist; eauto.
  - left. eapply finish_hist; eauto.
  - left. eapply finish_hist; eauto.
  - left. eapply finish_hist; eauto.
  - (* clientLoop *) unfold client_loop in H.
    destr_in H; try discriminate. injection H as <-. right. left. cbn. eauto.
  - (* sndReq *) unfold client_snd, send, net_write in H.
    repeat (destr_in H; try discriminate); injection H as <-; auto.
  - (* rcvResp *) unfold client_rcv in H.
    destruct (cl_pc (cli s c)); try discriminate. destruct (cl_req (cli s c)); try discriminate.
    destruct (negb (enabled s c)); try discriminate.
    destruct (nth_error (net s c) k) as [m|] eqn:Hn; [|destruct (net s c); discriminate].
    destruct (negb (deliverable cfg (net s c) k)); try discriminate.
    destruct (negb (msg_dest m =? c)) eqn:Hd; try discriminate.
    destruct m; try discriminate. repeat (destr_in H; try discriminate); injection H as <-; auto.
    right. right. apply negb_false_iff, Nat.eqb_eq in Hd. cbn in Hd. subst.
    destruct msuccess; [|discriminate].
    eexists _, _, _, _, _, _, _, _. split; [reflexivity|]. eapply nth_error_In; eauto.
  - unfold client_timeout in H. repeat (destr_in H; try discriminate); injection H as <-; auto.
  - unfold crash in H. destr_in H; try discriminate. injection H as <-. auto.
  - unfold fd_update in H. destr_in H; try discriminate. injection H as <-. auto.
Qed.

Lemma applied_keep cfg s ev s' p e :
  cfg_fifo cfg = true -> reachable cfg s -> step cfg s ev = Commit s' -> applied cfg s p e -> applied cfg s' p e.
Proof.
  intros Hf Hr Hs (i & Hi & H1 & Hp & Hl). exists i.
  pose proof (commit_monotone_step _ _ _ _ i Hs) as Hm.
  assert (Hst : steps cfg s s') by (econstructor; [constructor|eauto]).
  destruct (committed_stable_lemma cfg s s' Hf Hr Hst i i p H1 Hp) as [E _]; [lia|].
  repeat split; auto; [lia|]. now rewrite E.
Qed.

Lemma crp_inv_keep cfg s ev s' m :
  cfg_fifo cfg = true -> reachable cfg s -> step cfg s ev = Commit s' -> crp_inv cfg s m -> crp_inv cfg s' m.
Proof.
  intros Hf Hr Hs. destruct m; auto. destruct msuccess; auto. cbn.
  intros (p & e & Ha & Hm). exists p, e. split; auto. eapply applied_keep; eauto.
Qed.

Lemma ninv_step cfg s ev s' :
  cfg_fifo cfg = true -> reachable cfg s -> ninv cfg s -> step cfg s ev = Commit s' -> ninv cfg s'.
Proof.
  intros Hf Hr IN Hs. constructor.
  - intros d m Hin. destruct (net_in_cases _ _ _ _ Hs _ _ Hin) as [Ho|[Hsent|(c & cm & ->)]]; [| |exact Logic.I].
    + eapply crp_inv_keep; eauto. eapply N1; eauto.
    + destruct Hsent as (i & l & md & ltr & Hi & Hc & _). destruct m; try exact Logic.I. destruct msuccess; try exact Logic.I.
      destruct (core_crp_out _ _ _ _ _ _ _ _ _ _ _ _ _ _ _ _ _ Hc) as (e & Hl & Hcm & Hlog & Hmt).
      cbn. exists (s_commit (srv s i) + 1), e. split; auto.
      exists i. repeat split; auto; try lia. now rewrite Hlog.
  - intros c idx t key v ok Hin.
    assert (Hold : In (HResp c idx t key v ok) (hist s) -> exists p e, applied cfg s' p e /\ resp_matches e c idx t key v ok).
    { intros Ho. destruct (N2 _ _ IN _ _ _ _ _ _ Ho) as (p & e & Ha & Hm). exists p, e. split; auto. eapply applied_keep; eauto. }
    destruct (hist_step_cases _ _ _ _ Hs) as [E|[(c0 & i0 & r0 & E)|(c0 & i0 & t0 & k0 & v0 & ok0 & hint & a0 & E & Hnet)]];
      rewrite E in Hin; auto.
    + destruct Hin as [Hin|Hin]; [discriminate|auto].
    + destruct Hin as [Hin|Hin]; auto. injection Hin as -> -> -> -> -> ->.
      pose proof (N1 _ _ IN _ _ Hnet) as Hc. cbn in Hc. destruct Hc as (p & e & Ha & Hm).
      exists p, e. split; auto. eapply applied_keep; eauto.
Qed.

Lemma ninv_init cfg : ninv cfg (init cfg).
Proof. constructor; cbn; tauto. Qed.

Lemma reachable_ninv cfg s : cfg_fifo cfg = true -> reachable cfg s -> ninv cfg s.
Proof. intros Hf. induction 1; [apply ninv_init | eapply ninv_step; eauto]. Qed.

(* An acknowledged Put(key,v) of client c (its idx-th request): the log entry that produced the acknowledgement is applied at
   some index p now, and at every later point of the execution every server that has committed index p holds exactly that entry there. *)
Theorem acknowledged_put_never_lost_lemma cfg s1 c idx key v ok :
  cfg_fifo cfg = true -> reachable cfg s1 -> In (HResp c idx CPut key v ok) (hist s1) ->
  exists p e, e_client e = c /\ e_cmd e = mkCmd idx CPut key v /\ ok = true /\ applied cfg s1 p e /\
    forall s2, steps cfg s1 s2 -> forall j, p <= s_commit (srv s2 j) -> log_at (s_log (srv s2 j)) p = Some e.
Proof.
  intros Hf Hr Hin. destruct (N2 _ _ (reachable_ninv _ _ Hf Hr) _ _ _ _ _ _ Hin) as (p & e & Ha & (M1 & M2 & M3 & M4 & M5)).
  destruct (M5 eq_refl) as [M6 ->].
  exists p, e. repeat split; auto.
  - destruct e as [et [ci ct ck cv] ec]. cbn in *. congruence.
  - intros s2 Hs j Hj. destruct Ha as (i & Hi & H1 & Hp & Hl).
    destruct (committed_stable_lemma cfg s1 s2 Hf Hr Hs i j p H1 Hp Hj) as [E _]. now rewrite E.
Qed.
