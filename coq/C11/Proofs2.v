(* C11 — the invariant is inductive: part 1 (structure, proposer and acceptor state, version evidence). *)
From PGV Require Import C11.Model C11.Proofs0 C11.Proofs1.
From Coq Require Import Lia ZifyNat ZifyBool.

(* ---------- how a transition changes the state ---------- *)
Lemma step_eff tr s e s' : step (cfg tr) s e = Some s' ->
  exists f, effect_of (cfg tr) s e = Some f /\ s' = apply_eff s f.
Proof. unfold step. destruct (effect_of (cfg tr) s e) as [f|]; intros H; inversion H; eauto. Qed.

Lemma nnodes_apply s f : nnodes (apply_eff s f) = nnodes s.
Proof. unfold nnodes, apply_eff. cbn. destruct (f_upd f) as [[i x]|]; auto. apply length_upd. Qed.

Lemma get_apply_none s f j : f_upd f = None -> get (apply_eff s f) j = get s j.
Proof. unfold get, apply_eff. cbn. intros ->. reflexivity. Qed.

Lemma get_apply_some s f i x j y : f_upd f = Some (i, x) -> get (apply_eff s f) j = Some y ->
  (j = i /\ y = x /\ i < nnodes s) \/ (j <> i /\ get s j = Some y).
Proof.
  unfold get, apply_eff, nnodes. cbn. intros -> H.
  apply nth_error_upd in H. destruct H as [(-> & -> & Hl)|(Hn & H)]; auto.
Qed.

Lemma get_apply_same s f i x : f_upd f = Some (i, x) -> i < nnodes s -> get (apply_eff s f) i = Some x.
Proof. unfold get, apply_eff, nnodes. cbn. intros -> H. apply nth_error_upd_eq; auto. Qed.

Lemma get_apply_other s f i x j : f_upd f = Some (i, x) -> j <> i -> get (apply_eff s f) j = get s j.
Proof. unfold get, apply_eff. cbn. intros -> H. apply nth_error_upd_neq; auto. Qed.

Lemma get_lt s i x : get s i = Some x -> i < nnodes s.
Proof. unfold get, nnodes. intros H. apply nth_error_Some. congruence. Qed.

Lemma lookup_req_in s i q m : lookup_req s i q = Some m -> In m (g_sent s) /\ r_from m = i.
Proof.
  unfold lookup_req, reqs_of. intros H. apply nth_error_In in H. apply filter_In in H as [H1 H2].
  apply Nat.eqb_eq in H2. auto.
Qed.

Lemma lookup_rep_in s m j r p : lookup_rep s m j r = Some p -> In p (g_replies s) /\ p_req p = m /\ p_from p = j.
Proof.
  unfold lookup_rep, reps_of. intros H. apply nth_error_In in H. apply filter_In in H as [H1 H2].
  apply andb_true_iff in H2 as [H2 H3]. apply req_eqb_eq in H2. apply Nat.eqb_eq in H3. auto.
Qed.

(* case analysis of effect_of: one goal per branch of the code *)
Ltac eff_cases Ef :=
  repeat (match type of Ef with
          | match ?c with _ => _ end = Some _ =>
              let E := fresh "E" in destruct c eqn:E; try discriminate Ef
          | (if ?c then _ else _) = Some _ =>
              let E := fresh "E" in destruct c eqn:E; try discriminate Ef
          end; cbn beta iota in Ef);
  match type of Ef with Some _ = Some _ => inversion Ef; subst; clear Ef | _ => idtac end.

Lemma committed_mono s f k v : committed s k v -> committed (apply_eff s f) k v.
Proof. intros (c & H & ?). exists c. split; auto. cbn. apply in_or_app; auto. Qed.

Lemma voter_mono s f m j : voter s m j -> voter (apply_eff s f) m j.
Proof. intros (p & H & ?). exists p. split; auto. cbn. apply in_or_app; auto. Qed.

Lemma dead_mono s f m : dead s m -> dead (apply_eff s f) m.
Proof. intros (a & H & ?). exists a. split; auto. cbn. apply in_or_app; auto. Qed.

Lemma dead_same_sent s f m : f_sent f = [] -> dead (apply_eff s f) m -> dead s m.
Proof. intros Hs (a & H & ?). exists a. split; auto. cbn in H. rewrite Hs, app_nil_r in H. auto. Qed.

Lemma voter_same_rep s f m j : f_rep f = [] -> voter (apply_eff s f) m j -> voter s m j.
Proof. intros Hs (p & H & ?). exists p. split; auto. cbn in H. rewrite Hs, app_nil_r in H. auto. Qed.

(* ---------- initial state ---------- *)
Lemma get_init n z i x : get (init_state n z) i = Some x -> x = init_node z.
Proof.
  unfold get, init_state. cbn. intros H. apply nth_error_In in H. apply repeat_spec in H. auto.
Qed.

Lemma inv_init n z : Inv (init_state n z).
Proof.
  constructor; cbn; try (intros; contradiction); try reflexivity.
  - intros i x H. apply get_init in H. subst. exact I.
  - intros i x H. apply get_init in H. subst. cbn. discriminate.
  - intros i x H. apply get_init in H. subst. cbn. discriminate.
  - intros i x H. apply get_init in H. subst. cbn. reflexivity.
  - intros i x H. apply get_init in H. subst. cbn. reflexivity.
  - intros i x w y H1 H2. apply get_init in H1, H2. subst. cbn. lia.
  - intros i x H. apply get_init in H. subst. cbn. lia.
Qed.

(* ---------- monotone quantities of a node ---------- *)
Definition nmono (x y : node) : Prop :=
  (n_clock x <= n_clock y)%Z /\ n_ver x <= n_ver y /\ a_ver (n_acc x) <= a_ver (n_acc y) /\
  forall w, (stime_of w (n_stimes x) <= stime_of w (n_stimes y))%Z.

Lemma nmono_refl x : nmono x x.
Proof. unfold nmono. repeat split; try lia. Qed.

Lemma learn_node_mono x p : nmono x (learn_node x p).
Proof.
  unfold learn_node, learns. destruct (negb (p_acc p) && (n_ver x <? p_ver p)) eqn:E; [|apply nmono_refl].
  unfold nmono. rewrite accept_new_clock, accept_new_ver, accept_new_acc, accept_new_stimes.
  repeat split; lia.
Qed.

Ltac step_inv Hstep f Ef :=
  destruct (step_eff _ _ _ _ Hstep) as (f & Ef & ->).

Lemma step_get_back tr s e s' j y : step (cfg tr) s e = Some s' -> get s' j = Some y -> exists x, get s j = Some x.
Proof.
  intros Hstep Hg. assert (j < nnodes s').
  { eapply get_lt; eauto. }
  step_inv Hstep f Ef. rewrite nnodes_apply in H. unfold get, nnodes in *.
  destruct (nth_error (g_nodes s) j) eqn:E; eauto. apply nth_error_None in E. lia.
Qed.

Lemma step_nmono tr s e s' j x y : step (cfg tr) s e = Some s' ->
  get s j = Some x -> get s' j = Some y -> nmono x y.
Proof.
  intros Hstep Hx Hy. step_inv Hstep f Ef.
  destruct (f_upd f) as [[i x']|] eqn:Eu.
  2:{ rewrite get_apply_none in Hy by auto. assert (x = y) by congruence. subst. apply nmono_refl. }
  destruct (get_apply_some _ _ _ _ _ _ Eu Hy) as [(-> & -> & Hl)|(Hn & Hy')].
  2:{ assert (x = y) by congruence. subst. apply nmono_refl. }
  clear Hy.
  destruct e; cbn [effect_of] in Ef; eff_cases Ef; cbn in Eu; inversion Eu; subst;
    try (match goal with H : get s _ = Some ?n |- _ => rewrite H in Hx; inversion Hx; subst end);
    try (unfold nmono; cbn; repeat split; lia).
  - (* read *) unfold enter_cs. destruct (n_cs x); apply nmono_refl || (unfold nmono; cbn; repeat split; lia).
  - unfold enter_cs. cbn. destruct (n_cs x); (unfold nmono; cbn; repeat split; lia).
  - destruct (n_cs x); unfold nmono; cbn; repeat split; lia.
  - (* deliver *)
    match goal with H : receive _ _ _ _ _ = _ |- _ => apply receive_out in H; [|apply transported_same] end.
    match goal with H : recv_out _ _ _ _ _ _ _ |- _ =>
      pose proof (recv_frame _ _ _ _ _ _ _ H) as (_ & _ & Hc & _);
      pose proof (recv_ver_mono _ _ _ _ _ _ _ H);
      pose proof (recv_promise_mono _ _ _ _ _ _ _ (transported_same _ _ _) H);
      pose proof (fun w => recv_stime_mono _ _ _ _ _ _ _ w (transported_same _ _ _) H) end.
    unfold nmono. repeat split; auto; lia.
  - (* reply *)
    match goal with H : lookup_rep _ _ _ _ = Some ?p |- _ => pose proof (learn_node_mono x p) as (h1 & h2 & h3 & h4) end.
    unfold nmono. cbn. repeat split; auto.
Qed.

(* ---------- the transitions of the repaired protocol, one constructor per branch of the code ---------- *)
Definition same_reply (p p' : reply) : Prop :=
  p_from p' = p_from p /\ p_req p' = p_req p /\ p_acc p' = p_acc p /\ p_ver p' = p_ver p /\
  p_val p' = p_val p /\ p_real p' = p_real p.

Inductive trans (tr : transport) (s : state) : effect -> Prop :=
| T_noop : trans tr s eff0
| T_read i x :
    get s i = Some x -> n_op x = OpNone -> n_preok x = false -> perm_failed (n_cs x) = false ->
    trans tr s (eff_node i (enter_cs x))
| T_write i x z :
    get s i = Some x -> n_op x = OpNone -> n_preok x = false -> perm_failed (n_cs x) = false ->
    trans tr s (mkEff (Some (i, enter_cs (set_val z (g_nextptr s) x))) [] [] [] [] 1 false)
| T_precall i x :
    get s i = Some x -> n_op x = OpNone -> n_preok x = false ->
    trans tr s (eff_node i (set_op (OpSleep (n_ver x)) x))
| T_prewake_abort i x iv :
    get s i = Some x -> n_op x = OpSleep iv ->
    trans tr s (eff_node i (set_op OpNone x))
| T_prewake i x iv t :
    get s i = Some x -> n_op x = OpSleep iv -> n_tpc x = false -> perm_failed (n_cs x) = false ->
    (n_clock x < t)%Z ->
    trans tr s (eff_send i (set_clock t (set_op (OpPre (mk_pre i x t) [] [])
                                 (set_cs InPre (match n_cs x with NotCS => set_secver (n_ver x) x | _ => x end))))
                       (mk_pre i x t))
| T_deliver i j m x x' p p' inst :
    In m (g_sent s) -> r_from m = i -> get s j = Some x -> i <> j ->
    recv_out j m (transported (cfg tr) s m) x x' p inst -> same_reply p p' ->
    trans tr s (mkEff (Some (j, x')) [] [p'] (if inst then [(j, r_ver m, r_val m)] else []) [] 3 false)
| T_reply i j m x p :
    In m (g_sent s) -> r_from m = i -> get s i = Some x ->
    In p (g_replies s) -> p_req p = m -> p_from p = j ->
    trans tr s (mkEff (Some (i, set_op (count_reply m j (p_acc p) (n_op (learn_node x p))) (learn_node x p)))
                      [] [] (learn_inst i x p) [] 0
                      (match r_type m with RPre => false | _ => negb (p_acc p) && (p_ver p <? r_ver m) end))
| T_timeout i j m x :
    In m (g_sent s) -> r_from m = i -> get s i = Some x -> i <> j -> j < nnodes s ->
    trans tr s (eff_node i (set_op (count_timeout m j (n_ver x) (n_op x)) x))
| T_prefinish_fail i x m yes no t :
    get s i = Some x -> n_op x = OpPre m yes no -> (n_clock x < t)%Z ->
    trans tr s (eff_send i (set_clock t (set_op (OpAbort (mk_abort i x t) (n_ver x) [] true) x)) (mk_abort i x t))
| T_prefinish_ok i x m yes no :
    get s i = Some x -> n_op x = OpPre m yes no -> required (nnodes s) <= List.length yes ->
    n_cs x <> AcceptedNew -> a_ver (n_acc x) <= r_ver m ->
    trans tr s (mkEff (Some (i, set_preok true (set_op OpNone (set_cs HasPre (set_att 0 x))))) [] [] [] [m] 0
                      (negb (cs_eqb (n_cs x) InPre)))
| T_abortfinish_pre i x m ov acks :
    get s i = Some x -> n_op x = OpAbort m ov acks true ->
    trans tr s (eff_node i (set_op OpNone (set_att (n_att x + 1) (set_cs FailedPre x))))
| T_abortfinish_app i x m ov acks :
    get s i = Some x -> n_op x = OpAbort m ov acks false ->
    trans tr s (eff_node i (set_op OpNone (set_cs NotCS x)))
| T_abort_rollback i x t :
    get s i = Some x -> n_op x = OpNone -> n_cs x = HasPre -> (n_clock x < t)%Z ->
    trans tr s (eff_send i (set_clock t (set_op (OpAbort (mk_abort i x t) (n_ver x) [] false)
                                          (set_preok false (set_val (n_old x) (n_optr x) x))))
                       (mk_abort i x t))
| T_abort_plain i x :
    get s i = Some x -> n_op x = OpNone -> n_cs x <> HasPre ->
    trans tr s (eff_node i (set_cs NotCS (set_preok false (set_val (n_old x) (n_optr x) x))))
| T_commit i x t :
    get s i = Some x -> n_op x = OpNone -> n_preok x = true -> (n_clock x < t)%Z ->
    trans tr s (mkEff (Some (i, set_clock t (set_op (OpCommit (mk_commit i x t) (n_ver x) []) x)))
                      [mk_commit i x t] [] [] [] 0 (negb (cs_eqb (n_cs x) HasPre && negb (n_tpc x))))
| T_commitfinish_install i x m acks :
    get s i = Some x -> n_op x = OpCommit m (n_ver x) acks ->
    trans tr s (mkEff (Some (i, set_install (n_ver x + 1) (n_val x) (n_vptr x)
                                  (set_preok false (set_op OpNone (set_cs NotCS x)))))
                      [] [] [(i, n_ver x + 1, n_val x)] [] 0 false)
| T_commitfinish_skip i x m ov acks :
    get s i = Some x -> n_op x = OpCommit m ov acks -> n_ver x <> ov ->
    trans tr s (eff_node i (set_preok false (set_op OpNone (set_cs NotCS x)))).

Lemma effect_trans tr s e f : effect_of (cfg tr) s e = Some f -> trans tr s f.
Proof.
  intros Ef. destruct e; cbn [effect_of] in Ef.
  - eff_cases Ef; [apply T_noop | eapply T_read; eauto].
  - eff_cases Ef; [apply T_noop | eapply T_write; eauto].
  - eff_cases Ef. eapply T_precall; eauto.
  - eff_cases Ef; [eapply T_prewake_abort; eauto|].
    apply orb_false_iff in E1 as [E1 E3]. apply orb_false_iff in E1 as [E1 E4].
    eapply T_prewake; eauto. lia.
  - destruct (lookup_req s i q) as [m|] eqn:E1; [|discriminate].
    destruct (get s j) as [x|] eqn:E2; [|discriminate].
    destruct (Nat.eqb i j) eqn:E3; [discriminate|].
    destruct (receive (cfg tr) j m (transported (cfg tr) s m) x) as [[x' p] inst] eqn:E4.
    inversion Ef; subst; clear Ef.
    apply lookup_req_in in E1 as [? ?]. apply Nat.eqb_neq in E3.
    apply receive_out in E4; [|apply transported_same].
    eapply T_deliver; eauto. unfold same_reply. cbn. destruct tr; cbn; auto 10.
  - eff_cases Ef. apply lookup_req_in in E as [? ?]. apply lookup_rep_in in E1 as (? & ? & ?).
    eapply T_reply; eauto.
  - eff_cases Ef. apply lookup_req_in in E as [? ?]. apply orb_false_iff in E1 as [E1 E3].
    apply Nat.eqb_neq in E1. apply negb_false_iff in E3. eapply T_timeout; eauto. lia.
  - eff_cases Ef.
    + eapply T_prefinish_fail; eauto. lia.
    + apply orb_false_iff in E2 as [E2 E4]. apply orb_false_iff in E2 as [E2 E5].
      cbn [ru_promise c_rules cfg repaired_rules andb] in E4. eapply T_prefinish_ok; eauto; try lia.
      intros Hc. rewrite Hc in E5. discriminate.
  - eff_cases Ef; [eapply T_abortfinish_pre; eauto | eapply T_abortfinish_app; eauto].
  - eff_cases Ef; try (eapply T_abort_plain; eauto; congruence).
    eapply T_abort_rollback; eauto. lia.
  - eff_cases Ef. eapply T_commit; eauto. lia.
  - eff_cases Ef.
    + apply Nat.eqb_eq in E2. subst. eapply T_commitfinish_install; eauto.
    + apply Nat.eqb_neq in E2. eapply T_commitfinish_skip; eauto.
Qed.

Ltac step_trans Hstep f Ht :=
  let Ef := fresh "Ef" in
  destruct (step_eff _ _ _ _ Hstep) as (f & Ef & ->); pose proof (effect_trans _ _ _ _ Ef) as Ht.

(* a looked-up node of the new state is the updated one or an untouched one *)
Ltac upd_cases Hy :=
  match type of Hy with
  | get (apply_eff ?s ?f) ?j = Some ?y =>
      let Hl := fresh "Hl" in let Hn := fresh "Hn" in let Hj := fresh "Hj" in
      first [ rewrite (get_apply_none s f j eq_refl) in Hy
            | destruct (get_apply_some s f _ _ j y eq_refl Hy) as [(Hj & -> & Hl)|(Hn & Hy')];
              [clear Hy; first [subst j | rewrite Hj in * ] | clear Hy] ]
  end.

Lemma op_ok_apply s f i x : op_ok s i x -> op_ok (apply_eff s f) i x.
Proof.
  unfold op_ok. destruct (n_op x); auto.
  - intros (h1 & h2 & h3 & h4 & h5 & h6 & h7 & h8). repeat split; auto using voter_mono. cbn. apply in_or_app; auto.
  - intros (h1 & h2 & h3 & h4 & h5). repeat split; auto. cbn. apply in_or_app; auto.
  - intros (h1 & h2 & h3 & h4 & h5 & h6). repeat split; auto. cbn. apply in_or_app; auto.
Qed.

Section Preservation.
Variables (tr : transport) (s s' : state) (e : event).
Hypothesis I : Inv s.
Hypothesis Hstep : step (cfg tr) s e = Some s'.

Lemma nn_eq : nnodes s' = nnodes s.
Proof. destruct (step_eff _ _ _ _ Hstep) as (f & Ef & ->). apply nnodes_apply. Qed.

Lemma sent_mono m : In m (g_sent s) -> In m (g_sent s').
Proof. destruct (step_eff _ _ _ _ Hstep) as (f & Ef & ->). cbn. intros. apply in_or_app; auto. Qed.

Lemma replies_mono p : In p (g_replies s) -> In p (g_replies s').
Proof. destruct (step_eff _ _ _ _ Hstep) as (f & Ef & ->). cbn. intros. apply in_or_app; auto. Qed.

Lemma won_mono m : In m (g_won s) -> In m (g_won s').
Proof. destruct (step_eff _ _ _ _ Hstep) as (f & Ef & ->). cbn. intros. apply in_or_app; auto. Qed.

Lemma committed_step k v : committed s k v -> committed s' k v.
Proof. destruct (step_eff _ _ _ _ Hstep) as (f & Ef & ->). apply committed_mono. Qed.

Lemma voter_step m j : voter s m j -> voter s' m j.
Proof. destruct (step_eff _ _ _ _ Hstep) as (f & Ef & ->). apply voter_mono. Qed.

Lemma dead_step m : dead s m -> dead s' m.
Proof. destruct (step_eff _ _ _ _ Hstep) as (f & Ef & ->). apply dead_mono. Qed.

(* a request that is new in this step: its sender is the updated node, with a later clock *)
Lemma new_sent m : In m (g_sent s') -> ~ In m (g_sent s) ->
  exists x y, get s (r_from m) = Some x /\ get s' (r_from m) = Some y /\
              (n_clock x < r_time m)%Z /\ n_clock y = r_time m /\ r_ver m = n_ver x + 1 /\
              g_sent s' = g_sent s ++ [m] /\ g_replies s' = g_replies s.
Proof.
  intros Hin Hnot. step_trans Hstep f Ht. cbn in Hin. apply in_app_or in Hin as [Hin|Hin]; [contradiction|].
  destruct Ht; cbn in Hin; try contradiction; destruct Hin as [<-|[]]; cbn [r_from mk_pre mk_abort mk_commit];
    match goal with H : get s ?i = Some ?x |- _ =>
      exists x; eexists; split; [exact H|]; split; [apply get_apply_same; [reflexivity|eapply get_lt; eauto]|] end;
    cbn; repeat split; auto; apply app_nil_r.
Qed.

Lemma pres_IA1 m : In m (g_sent s') ->
  r_from m < nnodes s' /\ 1 <= r_ver m /\ forall x, get s' (r_from m) = Some x -> (r_time m <= n_clock x)%Z.
Proof.
  intros Hin. rewrite nn_eq.
  destruct (in_dec req_eq_dec m (g_sent s)) as [Hold|Hnew].
  - destruct (IA1 s I m Hold) as (h1 & h2 & h3). repeat split; auto.
    intros y Hy. destruct (step_get_back _ _ _ _ _ _ Hstep Hy) as (x & Hx).
    pose proof (step_nmono _ _ _ _ _ _ _ Hstep Hx Hy) as (hc & _). specialize (h3 x Hx). lia.
  - destruct (new_sent m Hin Hnew) as (x & y & Hx & Hy & h1 & h2 & h3 & _).
    repeat split; [eapply get_lt; eauto | lia |]. intros y' Hy'. assert (y' = y) by congruence. subst. lia.
Qed.

Lemma pres_IA2 m m' : In m (g_sent s') -> In m' (g_sent s') ->
  r_from m = r_from m' -> r_time m = r_time m' -> m = m'.
Proof.
  intros H1 H2 Hf Ht.
  destruct (in_dec req_eq_dec m (g_sent s)) as [O1|N1]; destruct (in_dec req_eq_dec m' (g_sent s)) as [O2|N2].
  - eapply (IA2 s I); eauto.
  - destruct (new_sent m' H2 N2) as (x & y & Hx & Hy & h1 & h2 & h3 & _).
    destruct (IA1 s I m O1) as (_ & _ & h). rewrite Hf in h. specialize (h x Hx). lia.
  - destruct (new_sent m H1 N1) as (x & y & Hx & Hy & h1 & h2 & h3 & _).
    destruct (IA1 s I m' O2) as (_ & _ & h). rewrite <- Hf in h. specialize (h x Hx). lia.
  - destruct (new_sent m H1 N1) as (x & y & Hx & Hy & h1 & h2 & h3 & h4 & _).
    rewrite h4 in H2. apply in_app_or in H2 as [H2|[H2|[]]]; [contradiction|auto].
Qed.

(* a reply that is new in this step was produced by a delivery *)
Lemma new_reply p' : In p' (g_replies s') -> ~ In p' (g_replies s) ->
  exists i j m x x' p inst,
    In m (g_sent s) /\ r_from m = i /\ get s j = Some x /\ i <> j /\
    recv_out j m (transported (cfg tr) s m) x x' p inst /\ same_reply p p' /\
    get s' j = Some x' /\ g_sent s' = g_sent s /\ g_replies s' = g_replies s ++ [p'] /\
    g_won s' = g_won s /\ (forall l, l <> j -> get s' l = get s l).
Proof.
  intros Hin Hnot. step_trans Hstep f Ht. cbn in Hin. apply in_app_or in Hin as [Hin|Hin]; [contradiction|].
  destruct Ht; cbn in Hin; try contradiction. destruct Hin as [<-|[]].
  exists i, j, m, x, x', p, inst.
  do 6 (split; [solve [auto]|]).
  split. { apply get_apply_same; [reflexivity|eapply get_lt; eauto]. }
  split. { cbn. apply app_nil_r. }
  split. { reflexivity. }
  split. { cbn. apply app_nil_r. }
  intros l Hl. apply (get_apply_other _ _ j x'); auto.
Qed.

Lemma pres_IA3 p : In p (g_replies s') ->
  In (p_req p) (g_sent s') /\ p_from p < nnodes s' /\ p_from p <> r_from (p_req p).
Proof.
  intros Hin. rewrite nn_eq.
  destruct (in_dec (fun a b : reply => ltac:(decide equality; try apply Z.eq_dec; try apply Nat.eq_dec; try apply Bool.bool_dec; apply req_eq_dec)) p (g_replies s)) as [Hold|Hnew].
  - destruct (IA3 s I p Hold) as (h1 & h2 & h3). repeat split; auto. apply sent_mono; auto.
  - destruct (new_reply p Hin Hnew) as (i & j & m & x & x' & p0 & inst & h1 & h2 & h3 & h4 & h5 & (e1 & e2 & _) & _).
    pose proof (recv_frame _ _ _ _ _ _ _ h5) as (_ & _ & _ & f1 & f2).
    rewrite e1, e2, f1, f2. repeat split; auto; [apply sent_mono; auto | eapply get_lt; eauto | congruence].
Qed.

Lemma pres_IA4 m : In m (g_won s') -> In m (g_sent s') /\ r_type m = RPre.
Proof.
  intros Hin. step_trans Hstep f Ht. cbn in Hin. apply in_app_or in Hin as [Hin|Hin].
  - destruct (IA4 s I m Hin). split; auto. cbn. apply in_or_app; auto.
  - destruct Ht; cbn in Hin; try contradiction. destruct Hin as [<-|[]].
    pose proof (IB1 s I i x H) as Hop. unfold op_ok in Hop. rewrite H0 in Hop.
    destruct Hop as (h1 & h2 & _). split; auto. cbn. apply in_or_app; auto.
Qed.

Lemma pres_IA5 p y : In p (g_replies s') -> p_real p = false -> get s' (r_from (p_req p)) = Some y ->
  (r_time (p_req p) < n_clock y)%Z.
Proof.
  intros Hin Hr Hy.
  destruct (step_get_back _ _ _ _ _ _ Hstep Hy) as (x & Hx).
  pose proof (step_nmono _ _ _ _ _ _ _ Hstep Hx Hy) as (hc & _).
  destruct (in_dec (fun a b : reply => ltac:(decide equality; try apply Z.eq_dec; try apply Nat.eq_dec; try apply Bool.bool_dec; apply req_eq_dec)) p (g_replies s)) as [Hold|Hnew].
  - pose proof (IA5 s I p x Hold Hr Hx). lia.
  - destruct (new_reply p Hin Hnew) as (i & j & m & xj & x' & p0 & inst & h1 & h2 & h3 & h4 & h5 & (e1 & e2 & _ & _ & _ & e6) & _).
    pose proof (recv_frame _ _ _ _ _ _ _ h5) as (_ & _ & _ & f1 & f2).
    rewrite e2, f1 in *. rewrite e6 in Hr.
    pose proof (recv_real_false _ _ _ _ _ _ _ h5 Hr).
    pose proof (IC4 s I j xj (r_from m) x h3 Hx). lia.
Qed.

Lemma op_ok_mono i x : op_ok s i x -> op_ok s' i x.
Proof.
  unfold op_ok. destruct (n_op x); auto.
  - intros (h1 & h2 & h3 & h4 & h5 & h6 & h7 & h8). repeat split; auto using sent_mono, voter_step.
  - intros (h1 & h2 & h3 & h4 & h5). repeat split; auto using sent_mono.
  - intros (h1 & h2 & h3 & h4 & h5 & h6). repeat split; auto using sent_mono.
Qed.

(* the current pre-commit of a proposer is its latest request, so it is not dead *)
Lemma current_not_dead i x m : get s i = Some x -> In m (g_sent s) -> r_from m = i -> r_time m = n_clock x -> ~ dead s m.
Proof.
  intros Hx Hin Hf Ht (a & Ha & _ & Hfa & _ & Hlt).
  destruct (IA1 s I a Ha) as (_ & _ & h). rewrite Hfa, Hf in h. specialize (h x Hx). lia.
Qed.

Lemma dead_step_inv m : dead s' m -> dead s m \/
  exists a, In a (g_sent s') /\ ~ In a (g_sent s) /\ r_type a = RAbort /\ r_from a = r_from m /\
            r_ver a = r_ver m /\ (r_time m < r_time a)%Z.
Proof.
  intros (a & Ha & h1 & h2 & h3 & h4).
  destruct (in_dec req_eq_dec a (g_sent s)) as [Hold|Hnew].
  - left. exists a. auto.
  - right. exists a. auto 10.
Qed.

(* evidence that version k is decided contradicts a proposer still holding an uncommitted win of k *)
Lemma decided_contra i x m k v :
  get s i = Some x -> n_op x = OpNone \/ (exists yes no m', n_op x = OpPre m' yes no) ->
  In m (g_won s) -> ~ dead s m -> r_from m = i -> r_ver m = n_ver x + 1 ->
  committed s k v -> n_ver x + 1 <= k -> False.
Proof.
  intros Hx Hop Hw Hnd Hf Hv Hc Hk.
  destruct (committed_down s I k v Hc (n_ver x + 1)) as (v' & (c & c1 & c2 & c3 & c4)); [lia|].
  destruct (IE6 s I c c1 c2) as (m' & w1 & w2 & w3 & w4 & w5).
  assert (m' = m) by (eapply (IE5 s I); eauto; congruence). subst m'.
  assert (Hfc : r_from c = i) by congruence.
  rewrite <- Hfc in Hx. destruct (IE8 s I c x c1 c2 Hx) as [h|(ov & acks & h)]; [lia|].
  destruct Hop as [Hop|(yes & no & m' & Hop)]; congruence.
Qed.

Lemma pres_IB1 i y : get s' i = Some y -> op_ok s' i y.
Proof.
  intros Hy. pose proof Hstep as Hstep0. step_trans Hstep f Ht.
  assert (Hmono : forall x, get s i = Some x -> op_ok (apply_eff s f) i x).
  { intros x Hx. apply op_ok_apply. apply (IB1 s I); auto. }
  destruct Ht.
  - (* noop *) rewrite get_apply_none in Hy by reflexivity. auto.
  - upd_cases Hy; [|solve [auto]]. unfold op_ok. unfold enter_cs. destruct (n_cs x); cbn; rewrite H0; exact Logic.I.
  - upd_cases Hy; [|solve [auto]]. unfold op_ok. unfold enter_cs. cbn. destruct (n_cs x); cbn; rewrite H0; exact Logic.I.
  - upd_cases Hy; [|solve [auto]]. unfold op_ok. cbn. auto.
  - upd_cases Hy; [|solve [auto]]. unfold op_ok. cbn. auto.
  - (* prewake *)
    upd_cases Hy; [|solve [auto]]. unfold op_ok. cbn [n_op set_clock set_op].
    pose proof (IB1 s I i0 x H) as Hop. unfold op_ok in Hop. rewrite H0 in Hop.
    split. { cbn. apply in_or_app. right. left. reflexivity. }
    split. { reflexivity. } split. { reflexivity. } split. { reflexivity. }
    split. { destruct (n_cs x); cbn; auto. }
    split. { constructor. } split. { intros j []. }
    left. destruct (n_cs x); cbn; auto.
  - (* deliver *)
    upd_cases Hy; [|solve [auto]].
    pose proof (IB1 s I j x H1) as Hop. unfold op_ok in *.
    pose proof (recv_frame _ _ _ _ _ _ _ H3) as (f1 & f2 & f3 & _).
    rewrite f1, f2, f3. destruct (n_op x) eqn:Eop; auto.
    + destruct Hop as (h1 & h2 & h3 & h4 & h5 & h6 & h7 & h8).
      repeat split; auto. { cbn. apply in_or_app; auto. } { intros. apply voter_mono; auto. }
      destruct inst.
      * destruct (recv_inst _ _ _ _ _ _ _ H3 eq_refl) as (i1 & i2 & i3 & i4).
        destruct (recv_cs _ _ _ _ _ _ _ H3) as [Hc|(_ & Hc & _)].
        { destruct h8 as [(c1 & c2 & c3)|(c1 & c2)]; [|right; split; [congruence|lia]].
          exfalso. unfold accept_new in *. inversion H3; subst; try discriminate.
          match goal with Hq : n_cs (accept_new _ _ _ _) = _ |- _ => rewrite accept_new_cs in Hq; cbn in Hq; rewrite c1 in Hq; discriminate end. }
        right. split; auto. destruct h8 as [(c1 & c2 & c3)|(c1 & c2)]; lia.
      * destruct (recv_noinst _ _ _ _ _ _ _ H3 eq_refl) as (n1 & n2 & n3 & n4). rewrite n1, n3, n4. auto.
    + destruct Hop as (h1 & h2 & h3 & h4 & h5). repeat split; auto. cbn. apply in_or_app; auto.
    + destruct Hop as (h1 & h2 & h3 & h4 & h5 & h6). repeat split; auto. { cbn. apply in_or_app; auto. }
      destruct inst.
      * destruct (recv_inst _ _ _ _ _ _ _ H3 eq_refl) as (i1 & i2 & i3 & i4).
        right. destruct h6 as [(c1 & _)|c1]; lia.
      * destruct (recv_noinst _ _ _ _ _ _ _ H3 eq_refl) as (n1 & n2 & n3 & n4).
        destruct h6 as [(c1 & c2 & c3 & c4)|c1]; [left|right; lia].
        rewrite n1, n3, n4. repeat split; auto.
        eapply recv_tpc_stays_false; eauto. rewrite c2. reflexivity.
  - (* reply *)
    upd_cases Hy; [|solve [auto]].
    pose proof (IB1 s I i0 x H1) as Hop. unfold op_ok in *. cbn [n_op set_op n_preok n_clock n_cs n_ver n_val n_tpc].
    assert (Hlc : learns x p = true -> n_cs (learn_node x p) = AcceptedNew \/ n_cs x = NotCS).
    { intros Hl'. unfold learn_node. rewrite Hl', accept_new_cs. destruct (n_cs x); auto. }
    assert (Hv : learns x p = true -> n_ver x < n_ver (learn_node x p)).
    { intros Hl'. unfold learn_node. rewrite Hl', accept_new_ver. unfold learns in Hl'. lia. }
    assert (Hnl : learns x p = false -> learn_node x p = x).
    { intros Hl'. unfold learn_node. rewrite Hl'. reflexivity. }
    assert (Hfr : n_op (learn_node x p) = n_op x /\ n_preok (learn_node x p) = n_preok x /\
                  n_clock (learn_node x p) = n_clock x).
    { unfold learn_node. destruct (learns x p); rewrite ?accept_new_op, ?accept_new_preok, ?accept_new_clock; auto. }
    destruct Hfr as (f1 & f2 & f3). rewrite f1.
    destruct (n_op x) eqn:Eop; cbn [count_reply]; auto.
    + rewrite f2. auto.
    + destruct Hop as (h1 & h2 & h3 & h4 & h5 & h6 & h7 & h8).
      assert (Hcs : (n_cs (learn_node x p) = InPre /\ n_ver (learn_node x p) + 1 = r_ver m0 /\ r_val m0 = n_val (learn_node x p)) \/
                    (n_cs (learn_node x p) = AcceptedNew /\ r_ver m0 <= n_ver (learn_node x p))).
      { destruct (learns x p) eqn:El.
        - right. destruct (Hlc eq_refl) as [Hc|Hc]; [|destruct h8 as [(c1 & _)|(c1 & _)]; congruence].
          split; auto. specialize (Hv eq_refl). destruct h8 as [(c1 & c2 & c3)|(c1 & c2)]; lia.
        - rewrite (Hnl eq_refl). auto. }
      destruct (req_eqb m0 m && negb (mem j yes) && negb (mem j no)) eqn:Ec.
      * apply andb_true_iff in Ec as [Ec Ec3]. apply andb_true_iff in Ec as [Ec1 Ec2].
        apply req_eqb_eq in Ec1. subst m0. apply negb_true_iff in Ec2. apply mem_false in Ec2.
        destruct (p_acc p) eqn:Ea; cbn [n_op set_op]; rewrite ?f2, ?f3.
        -- repeat split; auto. { cbn. apply in_or_app; auto. } { constructor; auto. }
           intros j' [<-|Hj']; [|apply voter_mono; auto].
           apply voter_mono. exists p. repeat split; auto.
           destruct (p_real p) eqn:Er; auto. exfalso.
           pose proof (IA5 s I p x H2 Er). rewrite H3, H0 in H5. specialize (H5 H1). lia.
        -- repeat split; auto. { cbn. apply in_or_app; auto. } intros; apply voter_mono; auto.
      * cbn [n_op set_op]. rewrite ?f2, ?f3. repeat split; auto. { cbn. apply in_or_app; auto. } intros; apply voter_mono; auto.
    + destruct Hop as (h1 & h2 & h3 & h4 & h5).
      destruct (req_eqb m0 m && negb (mem j acks)); cbn [n_op set_op]; rewrite ?f2, ?f3; repeat split; auto; cbn; apply in_or_app; auto.
    + destruct Hop as (h1 & h2 & h3 & h4 & h5 & h6).
      assert (Hcs : (n_ver (learn_node x p) = ov /\ n_cs (learn_node x p) = HasPre /\ n_tpc (learn_node x p) = false /\
                     r_val m0 = n_val (learn_node x p)) \/ ov < n_ver (learn_node x p)).
      { destruct (learns x p) eqn:El.
        - right. specialize (Hv eq_refl). destruct h6 as [(c1 & _)|c1]; lia.
        - rewrite (Hnl eq_refl). auto. }
      destruct (req_eqb m0 m && negb (mem j acks)); cbn [n_op set_op]; rewrite ?f2; repeat split; auto; cbn; apply in_or_app; auto.
  - (* timeout *)
    upd_cases Hy; [|solve [auto]].
    pose proof (IB1 s I i0 x H1) as Hop. apply (op_ok_apply s (eff_node i0 (set_op (count_timeout m j (n_ver x) (n_op x)) x))) in Hop. unfold op_ok in *. cbn [n_op set_op n_preok n_clock n_cs n_ver n_val n_tpc].
    destruct (n_op x) eqn:Eop; cbn [count_timeout]; auto.
    + destruct (req_eqb m0 m && negb (mem j yes) && negb (mem j no)); auto.
    + destruct (req_eqb m0 m && negb (mem j acks) && negb (Nat.eqb (n_ver x) ov)); auto.
    + destruct (req_eqb m0 m && negb (mem j acks) && negb (Nat.eqb (n_ver x) ov)); auto.
  - (* prefinish fail *)
    upd_cases Hy; [|solve [auto]].
    pose proof (IB1 s I i0 x H) as Hop. unfold op_ok in *. rewrite H0 in Hop. cbn.
    destruct Hop as (h1 & h2 & h3 & h4 & h5 & _). repeat split; auto. apply in_or_app. right. left. reflexivity.
  - upd_cases Hy; [|solve [auto]]. unfold op_ok. cbn. exact Logic.I.
  - upd_cases Hy; [|solve [auto]]. unfold op_ok. cbn. exact Logic.I.
  - upd_cases Hy; [|solve [auto]]. unfold op_ok. cbn. exact Logic.I.
  - upd_cases Hy; [|solve [auto]]. unfold op_ok. cbn. repeat split; auto. apply in_or_app. right. left. reflexivity.
  - upd_cases Hy; [|solve [auto]]. unfold op_ok. cbn. rewrite H0. exact Logic.I.
  - (* commit *)
    upd_cases Hy; [|solve [auto]]. unfold op_ok. cbn.
    destruct (IB5 s I i0 x H H1 H0) as (c1 & c2 & _).
    repeat split; auto. { apply in_or_app. right. left. reflexivity. }
  - upd_cases Hy; [|solve [auto]]. unfold op_ok. cbn. exact Logic.I.
  - upd_cases Hy; [|solve [auto]]. unfold op_ok. cbn. exact Logic.I.
Qed.

(* how the acceptor-side fields of a node can change in one step *)
Lemma acc_change i x y : get s i = Some x -> get s' i = Some y ->
  (n_ver y = n_ver x /\ n_old y = n_old x /\ n_tpc y = n_tpc x /\ n_acc y = n_acc x /\ n_stimes y = n_stimes x)
  \/ (exists m p inst, In m (g_sent s) /\ r_from m <> i /\ recv_out i m (transported (cfg tr) s m) x y p inst)
  \/ (exists p, In p (g_replies s) /\ p_acc p = false /\ n_ver x < p_ver p /\ r_from (p_req p) = i /\
                n_ver y = p_ver p /\ n_old y = p_val p /\ n_acc y = n_acc x /\ n_stimes y = n_stimes x /\
                n_tpc y = n_tpc x && negb (a_ver (n_acc x) <=? p_ver p))
  \/ (exists m acks, n_op x = OpCommit m (n_ver x) acks /\ n_ver y = n_ver x + 1 /\ n_old y = n_val x /\
                     n_acc y = n_acc x /\ n_stimes y = n_stimes x /\ n_tpc y = n_tpc x).
Proof.
  intros Hx Hy. step_trans Hstep f Ht.
  destruct Ht; try (rewrite get_apply_none in Hy by reflexivity; left; assert (y = x) by congruence; subst; auto 10);
    (upd_cases Hy; [|left; assert (y = x) by congruence; subst; auto 10]);
    match goal with H : get s _ = Some ?n |- _ => rewrite H in Hx; inversion Hx; subst end;
    try (left; unfold enter_cs; cbn; destruct (n_cs x); cbn; auto 10; fail).
  - (* deliver *) right. left. exists m, p, inst. repeat split; auto.
  - (* reply *)
    unfold learn_node. destruct (learns x p) eqn:El; [|left; cbn; auto 10].
    right. right. left. exists p. unfold learns in El. apply andb_true_iff in El as [E1 E2].
    cbn. rewrite accept_new_ver, accept_new_old, accept_new_acc, accept_new_stimes, accept_new_tpc.
    repeat split; auto; try lia; try (apply negb_true_iff; auto); try congruence.
  - (* own commit *) right. right. right. exists m, acks. cbn. auto 10.
Qed.

Lemma pres_IC1 i y : get s' i = Some y -> n_tpc y = true -> a_set (n_acc y) = true /\ n_ver y < a_ver (n_acc y).
Proof.
  intros Hy Ht. destruct (step_get_back _ _ _ _ _ _ Hstep Hy) as (x & Hx).
  pose proof (IC1 s I i x Hx) as Hp.
  destruct (acc_change i x y Hx Hy) as [(h1 & h2 & h3 & h4 & h5)|[(m & p & inst & h1 & h2 & h3)|[(p & h1 & h2 & h3 & h4 & h5 & h6 & h7 & h8 & h9)|(m & acks & h1 & h2 & h3 & h4 & h5 & h6)]]].
  - rewrite h1, h4. apply Hp. congruence.
  - destruct (recv_tpc _ _ _ _ _ _ _ h3 Ht) as [(t1 & t2 & t3)|(t1 & t2 & t3)].
    + rewrite t2. destruct (Hp t1). split; auto. destruct t3; lia.
    + rewrite t1. cbn. destruct (transported_same (cfg tr) s m) as (_ & _ & _ & ev & _). split; auto. lia.
  - rewrite h9 in Ht. apply andb_true_iff in Ht as [t1 t2]. destruct (Hp t1). rewrite h7, h5. split; auto.
    apply negb_true_iff in t2. lia.
  - exfalso. pose proof (IB1 s I i x Hx) as Hop. unfold op_ok in Hop. rewrite h1 in Hop.
    destruct Hop as (_ & _ & _ & _ & _ & [(_ & _ & c & _)|c]); [congruence|lia].
Qed.

Lemma pres_IC2 i y : get s' i = Some y ->
  if a_set (n_acc y)
  then exists m, In m (g_sent s') /\ r_type m = RPre /\ a_from (n_acc y) = r_from m /\ a_ver (n_acc y) = r_ver m
  else a_ver (n_acc y) = 0.
Proof.
  intros Hy. destruct (step_get_back _ _ _ _ _ _ Hstep Hy) as (x & Hx).
  pose proof (IC2 s I i x Hx) as Hp.
  assert (Hsame : n_acc y = n_acc x ->
    if a_set (n_acc y)
    then exists m, In m (g_sent s') /\ r_type m = RPre /\ a_from (n_acc y) = r_from m /\ a_ver (n_acc y) = r_ver m
    else a_ver (n_acc y) = 0).
  { intros ->. destruct (a_set (n_acc x)); auto. destruct Hp as (m & h1 & h2). exists m. split; auto. apply sent_mono; auto. }
  destruct (acc_change i x y Hx Hy) as [(h1 & h2 & h3 & h4 & h5)|[(m & p & inst & h1 & h2 & h3)|[(p & h1 & h2 & h3 & h4 & h5 & h6 & h7 & h8 & h9)|(m & acks & h1 & h2 & h3 & h4 & h5 & h6)]]]; try (apply Hsame; assumption).
  destruct (recv_acc _ _ _ _ _ _ _ h3) as [ea|(ea & ea2)]; [apply Hsame; assumption|].
  rewrite ea. cbn. destruct (transported_same (cfg tr) s m) as (_ & _ & e3 & e4 & _).
  exists m. repeat split; auto. apply sent_mono; auto.
Qed.

Lemma pres_IC4 i y w yw : get s' i = Some y -> get s' w = Some yw -> (stime_of w (n_stimes y) <= n_clock yw)%Z.
Proof.
  intros Hy Hw. destruct (step_get_back _ _ _ _ _ _ Hstep Hy) as (x & Hx).
  destruct (step_get_back _ _ _ _ _ _ Hstep Hw) as (xw & Hxw).
  pose proof (step_nmono _ _ _ _ _ _ _ Hstep Hxw Hw) as (hc & _).
  pose proof (IC4 s I i x w xw Hx Hxw) as Hp.
  destruct (acc_change i x y Hx Hy) as [(h1 & h2 & h3 & h4 & h5)|[(m & p & inst & h1 & h2 & h3)|[(p & h1 & h2 & h3 & h4 & h5 & h6 & h7 & h8 & h9)|(m & acks & h1 & h2 & h3 & h4 & h5 & h6)]]];
    try (rewrite h5; lia); try (rewrite h8; lia).
  destruct (recv_stime _ _ _ _ _ _ _ w (transported_same _ _ _) h3) as [->|(-> & -> & _)]; [lia|].
  destruct (IA1 s I m h1) as (_ & _ & h). specialize (h xw Hxw). lia.
Qed.

End Preservation.
