(* C11 — aborted proposals are released: from a state in which every accepted pre-commit belongs to a proposer that
   is rolling back, delivering the Aborts (once each, answered) leads to a released state. *)
From PGV Require Import C11.Model C11.Proofs0 C11.Proofs1 C11.Proofs2 C11.Proofs3 C11.Proofs4 C11.Proofs5 C11.ProofsL.
From Coq Require Import Lia ZifyNat ZifyBool.

Definition rolling (x : node) : Prop := exists a ov acks fp, n_op x = OpAbort a ov acks fp.

(* every replica is idle or rolling back, and every accepted pre-commit is held for a proposer that is rolling
   back the attempt of that version *)
Definition draining (s : state) : Prop :=
  forall i x, get s i = Some x ->
    (n_op x = OpNone \/ rolling x) /\
    (n_op x = OpNone -> n_preok x = false /\ n_cs x <> InPre /\ n_cs x <> HasPre) /\
    (n_tpc x = true -> exists w xw a ov acks fp,
        get s w = Some xw /\ n_op xw = OpAbort a ov acks fp /\ holds_lock x w (r_ver a)).

(* ---------- a replica never holds a pre-commit of its own ---------- *)
Definition no_self (s : state) : Prop :=
  forall i x, get s i = Some x -> a_set (n_acc x) = true -> a_from (n_acc x) <> i.

Lemma no_self_init n z : no_self (init_state n z).
Proof. intros i x H. apply get_init in H. subst. cbn. discriminate. Qed.

Lemma no_self_step tr s e s' : no_self s -> step (cfg tr) s e = Some s' -> no_self s'.
Proof.
  intros NS Hstep i y Hy Hs. destruct (step_get_back _ _ _ _ _ _ Hstep Hy) as (x & Hx).
  destruct (acc_change tr s s' e Hstep i x y Hx Hy) as [(h1 & h2 & h3 & h4 & h5)|[(m & p & inst & h1 & h2 & h3)|[(p & h1 & h2 & h3 & h4 & h5 & h6 & h7 & h8 & h9)|(m & acks & h1 & h2 & h3 & h4 & h5 & h6)]]].
  - rewrite h4 in *. apply (NS i x Hx Hs).
  - destruct (recv_acc _ _ _ _ _ _ _ h3) as [ea|(ea & _)].
    + rewrite ea in *. apply (NS i x Hx Hs).
    + rewrite ea. cbn. destruct (transported_same (cfg tr) s m) as (_ & _ & ef & _). congruence.
  - rewrite h7 in *. apply (NS i x Hx Hs).
  - rewrite h4 in *. apply (NS i x Hx Hs).
Qed.

Lemma no_self_reach tr n z s : reachable tr n z s -> no_self s.
Proof.
  intros (es & H). revert H. generalize (no_self_init n z). generalize (init_state n z).
  induction es as [|e r IH]; intros s0 I0 Hr; cbn in Hr.
  - inversion Hr; subst; auto.
  - destruct (step (cfg tr) s0 e) as [s1|] eqn:Es; [|discriminate].
    eapply IH; [|eauto]. eapply no_self_step; eauto.
Qed.

(* ---------- what one delivery of an Abort does ---------- *)
(* relation between a node before and after steps that only deliver Aborts to it / let it consume replies *)
Definition arel (x y : node) : Prop :=
  n_preok y = n_preok x /\ (n_tpc y = true -> n_tpc x = true /\ n_acc y = n_acc x).

Lemma arel_refl x : arel x x.
Proof. unfold arel. auto. Qed.

Lemma arel_trans x y w : arel x y -> arel y w -> arel x w.
Proof.
  unfold arel. intros (a1 & a2) (b1 & b2). split; [congruence|].
  intros H. destruct (b2 H) as (c1 & c2). destruct (a2 c1) as (d1 & d2). split; auto. congruence.
Qed.

Lemma recv_abort j m a x x' p inst : recv_out j m a x x' p inst -> r_type m = RAbort ->
  (stime_of (r_from m) (n_stimes x) <= r_time m)%Z -> (n_tpc x = true -> n_ver x < a_ver (n_acc x)) ->
  n_op x' = n_op x /\ n_cs x' = n_cs x /\ arel x x' /\ ~ holds_lock x' (r_from m) (r_ver m).
Proof.
  intros Hout Ht Hst Hic.
  destruct Hout; sxs; cbn; try lia; try congruence; unfold arel, holds_lock; cbn.
  - repeat split; auto. intros (l1 & l2 & l3 & l4). specialize (Hic l1). lia.
  - repeat split; auto.
  - repeat split; auto; try discriminate. intros (l1 & _). discriminate.
Qed.

Lemma learn_node_rel x p : n_op (learn_node x p) = n_op x /\ arel x (learn_node x p) /\ n_clock (learn_node x p) = n_clock x.
Proof.
  unfold learn_node. destruct (learns x p); [|auto using arel_refl].
  rewrite accept_new_op, accept_new_clock. split; auto. split; auto.
  unfold arel. rewrite accept_new_preok, accept_new_tpc, accept_new_acc. split; auto.
  intros H. apply andb_true_iff in H as [H _]. auto.
Qed.

(* the proposer's handler consuming any reply to its current Abort *)
Lemma step_reply_abort tr s i q j r a p xi ov acks fp :
  lookup_req s i q = Some a -> get s i = Some xi -> lookup_rep s a j r = Some p ->
  r_type a = RAbort -> n_op xi = OpAbort a ov acks fp ->
  exists f, step (cfg tr) s (EReply i q j r) = Some (apply_eff s f) /\
    f_upd f = Some (i, set_op (if mem j acks then OpAbort a ov acks fp else OpAbort a ov (j :: acks) fp) (learn_node xi p)) /\
    f_sent f = [] /\ f_rep f = [].
Proof.
  intros Hl Hx Hp Ht Hop. unfold step. cbn [effect_of]. rewrite Hl, Hx, Hp.
  destruct (learn_node_rel xi p) as (Ho & _). rewrite Ho, Hop. cbn [count_reply]. rewrite req_eqb_refl. cbn [andb].
  eexists. split; [reflexivity|]. cbn [f_upd f_sent f_rep]. destruct (mem j acks); auto.
Qed.

Lemma lookup_req_exists s m : In m (g_sent s) -> exists q, lookup_req s (r_from m) q = Some m.
Proof.
  intros H. unfold lookup_req, reqs_of. apply In_nth_error. apply filter_In. split; auto. apply Nat.eqb_refl.
Qed.

Section Drain.
Variables (tr : transport) (n : nat) (z : Z).

(* what the other replicas look like after a round relative to before *)
Definition node_rel (x y : node) : Prop := n_op y = n_op x /\ n_cs y = n_cs x /\ arel x y.

Lemma node_rel_refl x : node_rel x x.
Proof. unfold node_rel. auto using arel_refl. Qed.

Lemma node_rel_trans x y w : node_rel x y -> node_rel y w -> node_rel x w.
Proof. unfold node_rel. intros (a1 & a2 & a3) (b1 & b2 & b3). split; [congruence|]. split; [congruence|]. eapply arel_trans; eauto. Qed.

(* the Abort a of proposer w is delivered to every replica of the list and answered *)
Lemma phase_aborts w q a ov fp : r_type a = RAbort -> r_from a = w ->
  forall R s xw acks, reachable tr n z s ->
  lookup_req s w q = Some a -> get s w = Some xw -> n_op xw = OpAbort a ov acks fp ->
  NoDup R -> (forall j, In j R -> j <> w /\ j < n) ->
  exists es s' xw' acks', run (cfg tr) s es = Some s' /\ reachable tr n z s' /\
    lookup_req s' w q = Some a /\ get s' w = Some xw' /\ n_op xw' = OpAbort a ov acks' fp /\ arel xw xw' /\
    (forall j, In j R -> In j acks') /\ (forall j, In j acks -> In j acks') /\
    (forall j x, j <> w -> get s j = Some x -> exists y, get s' j = Some y /\ node_rel x y /\
                 (In j R -> ~ holds_lock y w (r_ver a))).
Proof.
  intros Ht Hf R. induction R as [|j R IH]; intros s xw acks Hr Hl Hx Hop Hnd HR.
  - exists [], s, xw, acks. cbn. repeat split; auto using arel_refl.
    + intros j [].
    + intros j x _ Hj. exists x. split; auto. split; [apply node_rel_refl|]. intros [].
  - inversion Hnd as [|? ? Hnj HndR]; subst.
    destruct (HR j (or_introl eq_refl)) as (Hjw & Hjn).
    pose proof (reachable_inv _ _ _ _ Hr) as I.
    pose proof (reachable_nnodes _ _ _ _ Hr) as Hnn.
    destruct (nth_error (g_nodes s) j) as [xj|] eqn:Hxj; [|apply nth_error_None in Hxj; unfold nnodes in Hnn; lia].
    pose proof (IB1 s I _ xw Hx) as Hok. unfold op_ok in Hok. rewrite Hop in Hok.
    destruct Hok as (o1 & o2 & o3 & o4 & o5).
    pose proof (IC4 s I j xj _ xw Hxj Hx) as Hst. rewrite <- o5 in Hst.
    assert (Hij : r_from a <> j) by congruence.
    destruct (step_deliver tr s (r_from a) q j a xj Hl Hxj Hij) as (x' & p & inst & p' & Hout & Hsr & Hs1).
    assert (Hic : n_tpc xj = true -> n_ver xj < a_ver (n_acc xj)) by (intros h; apply (IC1 s I j xj Hxj h)).
    destruct (recv_abort _ _ _ _ _ _ _ Hout Ht Hst Hic) as (a1 & a2 & a3 & a4).
    pose proof (recv_frame _ _ _ _ _ _ _ Hout) as (_ & _ & _ & f1 & f2).
    destruct Hsr as (e1 & e2 & _).
    set (s1 := apply_eff s (mkEff (Some (j, x')) [] [p'] (if inst then [(j, r_ver a, r_val a)] else []) [] 3 false)) in *.
    assert (Hr1 : reachable tr n z s1) by (eapply reachable_step; eauto).
    assert (Hx1 : get s1 (r_from a) = Some xw).
    { unfold s1. rewrite (get_apply_other _ _ j x') by (cbn; auto). auto. }
    assert (Hl1 : lookup_req s1 (r_from a) q = Some a) by (apply lookup_req_keep; auto).
    assert (Hp1 : lookup_rep s1 a j (List.length (reps_of s a j)) = Some p').
    { unfold lookup_rep, s1. rewrite reps_of_app. cbn [f_rep filter].
      rewrite e2, f1, e1, f2, req_eqb_refl, Nat.eqb_refl. cbn. apply nth_error_snoc. }
    destruct (step_reply_abort tr s1 (r_from a) q j _ a p' xw ov acks fp Hl1 Hx1 Hp1 Ht Hop) as (f & Hs2 & Fu & Fs & Fr).
    set (acks2 := if mem j acks then acks else j :: acks).
    set (xw2 := set_op (if mem j acks then OpAbort a ov acks fp else OpAbort a ov (j :: acks) fp) (learn_node xw p')) in *.
    set (s2 := apply_eff s1 f) in *.
    assert (Hr2 : reachable tr n z s2) by (eapply reachable_step; eauto).
    assert (Hx2 : get s2 (r_from a) = Some xw2).
    { unfold s2. apply (get_apply_same _ _ _ _ Fu). eapply get_lt; eauto. }
    assert (Hl2 : lookup_req s2 (r_from a) q = Some a) by (apply lookup_req_keep; auto).
    assert (Hop2 : n_op xw2 = OpAbort a ov acks2 fp).
    { unfold xw2, acks2. cbn. destruct (mem j acks); reflexivity. }
    assert (Hg2 : forall l, l <> r_from a -> l <> j -> get s2 l = get s l).
    { intros l h1 h2. unfold s2. rewrite (get_apply_other _ _ _ _ _ Fu) by auto.
      unfold s1. rewrite (get_apply_other _ _ j x') by (cbn; auto). reflexivity. }
    assert (Hj2 : get s2 j = Some x').
    { unfold s2. rewrite (get_apply_other _ _ _ _ _ Fu) by auto.
      unfold s1. apply get_apply_same; [reflexivity|]. eapply get_lt; eauto. }
    destruct (IH s2 xw2 acks2 Hr2 Hl2 Hx2 Hop2 HndR) as (es & s' & xw' & acks' & Hrun & Hr' & Hl' & Hx' & Hop' & Hrel' & HR' & Hinc' & Hoth').
    { intros l Hlin. apply HR. right. auto. }
    exists (EDeliver (r_from a) q j :: EReply (r_from a) q j (List.length (reps_of s a j)) :: es), s', xw', acks'.
    split. { cbn [run]. rewrite Hs1. fold s1. rewrite Hs2. fold s2. exact Hrun. }
    split; auto. split; auto. split; auto. split; auto.
    split. { eapply arel_trans; [|exact Hrel']. destruct (learn_node_rel xw p') as (_ & h & _).
             unfold xw2. unfold arel in *. cbn. exact h. }
    assert (Hjin : In j acks2).
    { unfold acks2. destruct (mem j acks) eqn:E; [apply mem_In; auto|left; auto]. }
    split. { intros l [<-|Hlin]; auto. }
    split. { intros l Hlin. apply Hinc'. unfold acks2. destruct (mem j acks); auto. right. auto. }
    intros l x Hlw Hlx. destruct (Nat.eq_dec l j) as [->|Hlj].
    + assert (x = xj) by (unfold get in Hlx; congruence). subst x.
      destruct (Hoth' j x' Hlw Hj2) as (y & g1 & g2 & g3). exists y. split; auto.
      split. { eapply node_rel_trans; [|exact g2]. unfold node_rel. auto. }
      intros _. destruct g2 as (_ & _ & (_ & gt)). intros (l1 & l2 & l3 & l4).
      destruct (gt l1) as (t1 & t2). apply a4. unfold holds_lock. rewrite <- t2. auto.
    + assert (Hl2x : get s2 l = Some x) by (rewrite Hg2; auto).
      destruct (Hoth' l x Hlw Hl2x) as (y & g1 & g2 & g3). exists y. split; auto. split; auto.
      intros [->|Hlin]; [congruence|auto].
Qed.

Lemma required_le1 : 1 <= n -> required n <= n - 1.
Proof.
  intros H. destruct (Nat.eq_dec n 1) as [->|Hn]; [cbn; lia|]. apply required_le. lia.
Qed.

(* one proposer finishes its rollback: its Abort reaches every other replica, is answered, the broadcast ends *)
Lemma abort_round s w xw a ov acks fp : reachable tr n z s ->
  get s w = Some xw -> n_op xw = OpAbort a ov acks fp ->
  exists es s' xw', run (cfg tr) s es = Some s' /\ reachable tr n z s' /\
    get s' w = Some xw' /\ n_op xw' = OpNone /\ n_preok xw' = false /\ n_cs xw' <> InPre /\ n_cs xw' <> HasPre /\
    (n_tpc xw' = true -> n_tpc xw = true /\ n_acc xw' = n_acc xw) /\
    (forall j x, j <> w -> get s j = Some x -> exists y, get s' j = Some y /\ node_rel x y /\
                 ~ holds_lock y w (r_ver a)).
Proof.
  intros Hr Hx Hop. pose proof (reachable_inv _ _ _ _ Hr) as I.
  pose proof (reachable_nnodes _ _ _ _ Hr) as Hnn.
  pose proof (get_lt _ _ _ Hx) as Hw. rewrite Hnn in Hw.
  pose proof (IB1 s I _ xw Hx) as Hok. unfold op_ok in Hok. rewrite Hop in Hok.
  destruct Hok as (o1 & o2 & o3 & o4 & o5).
  destruct (lookup_req_exists s a o1) as (q & Hl). rewrite o3 in Hl.
  destruct (phase_aborts w q a ov fp o2 o3 (others n w) s xw acks Hr Hl Hx Hop (others_nodup n w))
    as (es & s1 & xw1 & acks1 & Hrun & Hr1 & Hl1 & Hx1 & Hop1 & Hrel1 & HR1 & Hinc1 & Hoth1).
  { intros j Hj. apply others_spec in Hj. tauto. }
  (* the broadcast has its acknowledgements *)
  assert (Hlen : required (nnodes s1) <= List.length acks1).
  { rewrite (reachable_nnodes _ _ _ _ Hr1).
    assert (List.length (others n w) <= List.length acks1).
    { apply NoDup_incl_length; [apply others_nodup|]. intros j Hj. auto. }
    rewrite others_length in H by auto. pose proof (required_le1 ltac:(lia)). lia. }
  set (xw2 := if fp then set_op OpNone (set_att (n_att xw1 + 1) (set_cs FailedPre xw1))
              else set_op OpNone (set_cs NotCS xw1)).
  set (s2 := apply_eff s1 (eff_node w xw2)).
  assert (Hs2 : step (cfg tr) s1 (EAbortFinish w) = Some s2).
  { unfold step. cbn [effect_of]. rewrite Hx1, Hop1.
    assert (Hb : required (nnodes s1) <=? List.length acks1 = true) by (apply Nat.leb_le; auto).
    rewrite Hb. unfold s2, xw2. destruct fp; reflexivity. }
  assert (Hr2 : reachable tr n z s2) by (eapply reachable_step; eauto).
  assert (Hx2 : get s2 w = Some xw2) by (apply get_apply_same; [reflexivity|eapply get_lt; eauto]).
  destruct Hrel1 as (p1 & p2).
  exists (es ++ [EAbortFinish w]), s2, xw2.
  split. { rewrite run_app, Hrun. cbn [run]. rewrite Hs2. reflexivity. }
  split; auto. split; auto.
  split. { unfold xw2. destruct fp; reflexivity. }
  split. { unfold xw2. destruct fp; cbn; congruence. }
  split. { unfold xw2. destruct fp; cbn; discriminate. }
  split. { unfold xw2. destruct fp; cbn; discriminate. }
  split. { unfold xw2. destruct fp; cbn; exact p2. }
  intros j x Hj Hjx. destruct (Hoth1 j x Hj Hjx) as (y & g1 & g2 & g3).
  exists y. split. { unfold s2. rewrite (get_apply_other _ _ w xw2) by (cbn; auto). auto. }
  split; auto. apply g3. apply others_spec. split; auto.
  rewrite <- Hnn. eapply get_lt; eauto.
Qed.

Lemma released_of_draining s : draining s -> (forall i x, get s i = Some x -> ~ rolling x) -> released s.
Proof.
  intros D Hno i x Hx. destruct (D i x Hx) as ([Ho|Hro] & d2 & d3); [|exfalso; eapply Hno; eauto].
  destruct (d2 Ho) as (e1 & e2 & e3). repeat split; auto.
  destruct (n_tpc x) eqn:Et; auto. exfalso.
  destruct (d3 eq_refl) as (w & xw & a & ov & acks & fp & g1 & g2 & _).
  apply (Hno w xw g1). unfold rolling. eauto.
Qed.

Lemma drain_list L : forall s, reachable tr n z s -> draining s -> NoDup L ->
  (forall i x, get s i = Some x -> rolling x -> In i L) ->
  exists es s', run (cfg tr) s es = Some s' /\ reachable tr n z s' /\ released s'.
Proof.
  induction L as [|w L IH]; intros s Hr D Hnd HL.
  - exists [], s. split; [reflexivity|]. split; auto. apply released_of_draining; auto;
    try (intros i x Hx Hro; apply (HL i x Hx Hro)).
  - inversion Hnd as [|? ? Hnw HndL]; subst.
    destruct (get s w) as [xw|] eqn:Hxw.
    2:{ apply (IH s Hr D HndL). intros i x Hx Hro. destruct (HL i x Hx Hro) as [<-|h]; auto. congruence. }
    destruct (n_op xw) eqn:Hop;
      try (apply (IH s Hr D HndL); intros i x Hx Hro; destruct (HL i x Hx Hro) as [<-|h]; auto;
           assert (x = xw) by congruence; subst x; destruct Hro as (a0 & ov0 & ac0 & fp0 & h0); congruence).
    rename m into a. rename frompre into fp.
    destruct (abort_round s w xw a ov acks fp Hr Hxw Hop)
      as (es & s1 & xw1 & Hrun & Hr1 & Hx1 & o1 & o2 & o3 & o4 & o5 & Hoth).
    pose proof (reachable_nnodes _ _ _ _ Hr) as Hnn. pose proof (reachable_nnodes _ _ _ _ Hr1) as Hnn1.
    pose proof (no_self_reach _ _ _ _ Hr) as NS.
    (* every node of the new state comes from one of the old state *)
    assert (Hback : forall i y, i <> w -> get s1 i = Some y -> exists x, get s i = Some x /\ node_rel x y /\
                                ~ holds_lock y w (r_ver a)).
    { intros i y Hi Hy. pose proof (get_lt _ _ _ Hy) as Hlt. rewrite Hnn1, <- Hnn in Hlt.
      destruct (nth_error (g_nodes s) i) as [x|] eqn:Ex; [|apply nth_error_None in Ex; unfold nnodes in Hlt; lia].
      destruct (Hoth i x Hi Ex) as (y' & g1 & g2 & g3). assert (y' = y) by congruence. subst. eauto. }
    assert (D1 : draining s1).
    { intros i y Hy. destruct (Nat.eq_dec i w) as [->|Hi].
      - assert (y = xw1) by congruence. subst y. split; auto. split; auto.
        intros Ht. destruct (o5 Ht) as (t1 & t2).
        destruct (D w xw Hxw) as (_ & _ & d3). destruct (d3 t1) as (w0 & xw0 & a0 & ov0 & ac0 & fp0 & g1 & g2 & g3).
        assert (Hw0 : w0 <> w). { destruct g3 as (_ & l2 & l3 & _). intros ->. apply (NS w xw Hxw l2). auto. }
        destruct (Hoth w0 xw0 Hw0 g1) as (y0 & h1 & (h2 & _) & _).
        exists w0, y0, a0, ov0, ac0, fp0. split; auto. split; [congruence|].
        unfold holds_lock in *. rewrite t2. tauto.
      - destruct (Hback i y Hi Hy) as (x & Hx & (r1 & r2 & r3 & r4) & Hnl).
        destruct (D i x Hx) as (d1 & d2 & d3).
        split. { destruct d1 as [d1|(a0 & ov0 & ac0 & fp0 & d1)]; [left; congruence|right; exists a0, ov0, ac0, fp0; congruence]. }
        split. { intros Ho. rewrite r1 in Ho. destruct (d2 Ho) as (e1 & e2 & e3). rewrite r2, r3. auto. }
        intros Ht. destruct (r4 Ht) as (t1 & t2).
        destruct (d3 t1) as (w0 & xw0 & a0 & ov0 & ac0 & fp0 & g1 & g2 & g3).
        destruct (Nat.eq_dec w0 w) as [->|Hw0].
        + exfalso. assert (xw0 = xw) by congruence. subst xw0. rewrite Hop in g2. inversion g2; subst.
          apply Hnl. unfold holds_lock in *. rewrite t2. tauto.
        + destruct (Hoth w0 xw0 Hw0 g1) as (y0 & h1 & (h2 & _) & _).
          exists w0, y0, a0, ov0, ac0, fp0. split; auto. split; [congruence|].
          unfold holds_lock in *. rewrite t2. tauto. }
    destruct (IH s1 Hr1 D1 HndL) as (es2 & s2 & Hrun2 & Hr2 & Hrel2).
    { intros i y Hy Hro. destruct (Nat.eq_dec i w) as [->|Hi].
      - assert (y = xw1) by congruence. subst. destruct Hro as (a0 & ov0 & ac0 & fp0 & h0). congruence.
      - destruct (Hback i y Hi Hy) as (x & Hx & (r1 & _) & _).
        assert (Hrox : rolling x). { destruct Hro as (a0 & ov0 & ac0 & fp0 & h0). exists a0, ov0, ac0, fp0. congruence. }
        destruct (HL i x Hx Hrox) as [<-|h]; auto. congruence. }
    exists (es ++ es2), s2. split; auto. rewrite run_app, Hrun. auto.
Qed.

(* aborts_drain: from a draining state the rollbacks complete and leave every replica released *)
Lemma aborts_drain_lemma s : reachable tr n z s -> draining s ->
  exists es s', run (cfg tr) s es = Some s' /\ reachable tr n z s' /\ released s'.
Proof.
  intros Hr D. apply (drain_list (seq 0 n) s Hr D (seq_NoDup n 0)).
  intros i x Hx _. apply in_seq. pose proof (get_lt _ _ _ Hx). rewrite (reachable_nnodes _ _ _ _ Hr) in H. lia.
Qed.

Lemma max_version (l : list node) : l <> [] ->
  exists i x, nth_error l i = Some x /\ forall j y, nth_error l j = Some y -> n_ver y <= n_ver x.
Proof.
  induction l as [|a r IH]; [congruence|]. intros _. destruct r as [|b r'].
  - exists 0, a. split; auto. intros [|j] y H; cbn in H; [inversion H; subst; auto|destruct j; discriminate].
  - destruct IH as (i & x & Hi & Hmax); [discriminate|].
    destruct (Nat.le_gt_cases (n_ver x) (n_ver a)) as [Hle|Hgt].
    + exists 0, a. split; auto. intros [|j] y H; cbn in H; [inversion H; subst; auto|].
      specialize (Hmax j y H). lia.
    + exists (S i), x. split; auto. intros [|j] y H; cbn in H; [inversion H; subst; lia|]. apply (Hmax j y H).
Qed.

(* aborted proposals are released and a contender then commits: one continuation from any draining state *)
Lemma drain_progress_lemma s v : reachable tr n z s -> 2 <= n -> draining s ->
  exists es s' k, run (cfg tr) s es = Some s' /\
    (forall j x, get s j = Some x -> n_ver x < k) /\
    (forall j y, get s' j = Some y -> n_ver y = k /\ n_old y = v).
Proof.
  intros Hr Hn D. destruct (aborts_drain_lemma s Hr D) as (es1 & s1 & Hrun1 & Hr1 & Hrel1).
  pose proof (reachable_nnodes _ _ _ _ Hr1) as Hnn1.
  destruct (max_version (g_nodes s1)) as (i & xi & Hi & Hmax).
  { intros He. unfold nnodes in Hnn1. rewrite He in Hnn1. cbn in Hnn1. lia. }
  destruct (progress_lemma tr n z s1 i xi v Hr1 Hn Hrel1 Hi Hmax) as (es2 & s2 & Hrun2 & Hall).
  exists (es1 ++ es2), s2, (n_ver xi + 1). split. { rewrite run_app, Hrun1. auto. }
  split; auto. intros j x Hx.
  pose proof (get_lt _ _ _ Hx) as Hlt. rewrite (reachable_nnodes _ _ _ _ Hr), <- Hnn1 in Hlt.
  destruct (nth_error (g_nodes s1) j) as [y|] eqn:Ey; [|apply nth_error_None in Ey; unfold nnodes in Hlt; lia].
  pose proof (version_monotone_lemma tr es1 s s1 j x y Hrun1 Hx Ey). specialize (Hmax j y Ey). lia.
Qed.

End Drain.
