(* C11 — executable model of distsys/resources/twopc.go (two-phase-commit replicated variable).
   Model only: no proofs here.

   n nodes, each both proposer and acceptor.  Every mutex-protected region of twopc.go is one
   atomic transition.  The network is the set of all requests ever sent (g_sent) and all replies ever
   produced (g_replies): a request may be delivered to any other node at any later time, any number of
   times, or never (delay, duplication, loss); a proposer may consume any produced reply for a pending
   slot, or a timeout.  External inputs are event arguments: the value written, time.Now().UnixNano()
   at makePreCommit/makeAbort/makeCommit (must increase per node: assumption recorded in notes), which
   message is delivered / which reply returned.

   `rules` selects the code version that is modelled:
     ru_equal      Sender/Value compared with Equal and senderTimes found with Equal  (fix 8fb21428);
                   false = Go `==` on tla.Value, i.e. identity of the implementation pointer
     ru_filter_all stale-message filter on every transport (fix f44e10ca); false = only on RPC
     ru_promise    a replica does not vote below a version it already voted for, an Abort releases only a
                   pre-commit of its own version, a proposer that voted for a later version cannot win
   `transport`: Local passes the request by reference (pointers preserved), Rpc re-allocates every
   tla.Value of a delivered request/reply (fresh pointers). *)
From Coq Require Export List ZArith Bool Arith.
Export ListNotations.

Inductive rtype := RPre | RCommit | RAbort.
Inductive cs := InCS | AcceptedNew | NotCS | InPre | HasPre | FailedPre.

Record request := mkReq {
  r_type : rtype; r_val : Z; r_vptr : nat; r_from : nat; r_sptr : nat; r_ver : nat; r_time : Z }.

(* acceptedPreCommit; a_set = false is the zero TwoPCRequest (Sender = tla.Value{}) *)
Record accepted := mkAcc {
  a_set : bool; a_from : nat; a_sptr : nat; a_val : Z; a_vptr : nat; a_ver : nat; a_time : Z }.

Record reply := mkRep {
  p_from : nat; p_req : request; p_acc : bool; p_ver : nat; p_val : Z; p_vptr : nat;
  p_real : bool (* ghost: false when the stale-message filter answered without processing *) }.

Record rules := mkRules { ru_equal : bool; ru_filter_all : bool; ru_promise : bool }.
Inductive transport := Local | Rpc.
Record config := mkCfg { c_rules : rules; c_tr : transport }.

Definition pinned_rules := mkRules false false false.
Definition repaired_rules := mkRules true true true.

Inductive op :=
| OpNone
| OpSleep (iv : nat)                                              (* PreCommit called, backing off *)
| OpPre (m : request) (yes no : list nat)                         (* pre-commit broadcast *)
| OpAbort (m : request) (ov : nat) (acks : list nat) (frompre : bool)  (* rollback broadcast *)
| OpCommit (m : request) (ov : nat) (acks : list nat).

Record node := mkNode {
  n_val : Z; n_vptr : nat; n_old : Z; n_optr : nat; n_ver : nat; n_cs : cs; n_tpc : bool;
  n_acc : accepted; n_att : nat; n_stimes : list (nat * nat * Z);
  n_op : op; n_preok : bool; n_clock : Z; n_secver : nat }.

Record state := mkState {
  g_nodes : list node; g_sent : list request; g_replies : list reply; g_nextptr : nat;
  g_installed : list (nat * nat * Z);   (* ghost: (node, version, value) of every install *)
  g_won : list request;                 (* ghost: pre-commit requests whose broadcast succeeded *)
  g_panic : bool }.

(* ---------- decidable equalities ---------- *)
Definition rtype_eqb (a b : rtype) : bool :=
  match a, b with RPre, RPre | RCommit, RCommit | RAbort, RAbort => true | _, _ => false end.
Definition cs_eqb (a b : cs) : bool :=
  match a, b with InCS, InCS | AcceptedNew, AcceptedNew | NotCS, NotCS | InPre, InPre
                | HasPre, HasPre | FailedPre, FailedPre => true | _, _ => false end.
Definition req_eqb (a b : request) : bool :=
  rtype_eqb (r_type a) (r_type b) && Z.eqb (r_val a) (r_val b) && Nat.eqb (r_vptr a) (r_vptr b) &&
  Nat.eqb (r_from a) (r_from b) && Nat.eqb (r_sptr a) (r_sptr b) && Nat.eqb (r_ver a) (r_ver b) &&
  Z.eqb (r_time a) (r_time b).
Definition mem (x : nat) (l : list nat) : bool := existsb (Nat.eqb x) l.

(* ---------- setters ---------- *)
Definition set_cs (c : cs) (x : node) : node :=
  mkNode (n_val x) (n_vptr x) (n_old x) (n_optr x) (n_ver x) c (n_tpc x) (n_acc x) (n_att x) (n_stimes x)
         (n_op x) (n_preok x) (n_clock x) (n_secver x).
Definition set_tpc (b : bool) (x : node) : node :=
  mkNode (n_val x) (n_vptr x) (n_old x) (n_optr x) (n_ver x) (n_cs x) b (n_acc x) (n_att x) (n_stimes x)
         (n_op x) (n_preok x) (n_clock x) (n_secver x).
Definition set_acc (a : accepted) (x : node) : node :=
  mkNode (n_val x) (n_vptr x) (n_old x) (n_optr x) (n_ver x) (n_cs x) (n_tpc x) a (n_att x) (n_stimes x)
         (n_op x) (n_preok x) (n_clock x) (n_secver x).
Definition set_att (k : nat) (x : node) : node :=
  mkNode (n_val x) (n_vptr x) (n_old x) (n_optr x) (n_ver x) (n_cs x) (n_tpc x) (n_acc x) k (n_stimes x)
         (n_op x) (n_preok x) (n_clock x) (n_secver x).
Definition set_stimes (l : list (nat * nat * Z)) (x : node) : node :=
  mkNode (n_val x) (n_vptr x) (n_old x) (n_optr x) (n_ver x) (n_cs x) (n_tpc x) (n_acc x) (n_att x) l
         (n_op x) (n_preok x) (n_clock x) (n_secver x).
Definition set_op (o : op) (x : node) : node :=
  mkNode (n_val x) (n_vptr x) (n_old x) (n_optr x) (n_ver x) (n_cs x) (n_tpc x) (n_acc x) (n_att x) (n_stimes x)
         o (n_preok x) (n_clock x) (n_secver x).
Definition set_preok (b : bool) (x : node) : node :=
  mkNode (n_val x) (n_vptr x) (n_old x) (n_optr x) (n_ver x) (n_cs x) (n_tpc x) (n_acc x) (n_att x) (n_stimes x)
         (n_op x) b (n_clock x) (n_secver x).
Definition set_clock (t : Z) (x : node) : node :=
  mkNode (n_val x) (n_vptr x) (n_old x) (n_optr x) (n_ver x) (n_cs x) (n_tpc x) (n_acc x) (n_att x) (n_stimes x)
         (n_op x) (n_preok x) t (n_secver x).
Definition set_secver (k : nat) (x : node) : node :=
  mkNode (n_val x) (n_vptr x) (n_old x) (n_optr x) (n_ver x) (n_cs x) (n_tpc x) (n_acc x) (n_att x) (n_stimes x)
         (n_op x) (n_preok x) (n_clock x) k.
Definition set_val (z : Z) (p : nat) (x : node) : node :=
  mkNode z p (n_old x) (n_optr x) (n_ver x) (n_cs x) (n_tpc x) (n_acc x) (n_att x) (n_stimes x)
         (n_op x) (n_preok x) (n_clock x) (n_secver x).
(* version := k, value := oldValue := z *)
Definition set_install (k : nat) (z : Z) (p : nat) (x : node) : node :=
  mkNode z p z p k (n_cs x) (n_tpc x) (n_acc x) (n_att x) (n_stimes x)
         (n_op x) (n_preok x) (n_clock x) (n_secver x).

Fixpoint upd {A} (l : list A) (i : nat) (x : A) : list A :=
  match l, i with
  | [], _ => []
  | _ :: r, O => x :: r
  | y :: r, S i' => y :: upd r i' x
  end.

Definition set_node (s : state) (i : nat) (x : node) : state :=
  mkState (upd (g_nodes s) i x) (g_sent s) (g_replies s) (g_nextptr s) (g_installed s) (g_won s) (g_panic s).
Definition add_sent (m : request) (s : state) : state :=
  mkState (g_nodes s) (g_sent s ++ [m]) (g_replies s) (g_nextptr s) (g_installed s) (g_won s) (g_panic s).
Definition add_reply (p : reply) (s : state) : state :=
  mkState (g_nodes s) (g_sent s) (g_replies s ++ [p]) (g_nextptr s) (g_installed s) (g_won s) (g_panic s).
Definition bump_ptr (k : nat) (s : state) : state :=
  mkState (g_nodes s) (g_sent s) (g_replies s) (g_nextptr s + k) (g_installed s) (g_won s) (g_panic s).
Definition add_installed (e : nat * nat * Z) (s : state) : state :=
  mkState (g_nodes s) (g_sent s) (g_replies s) (g_nextptr s) (g_installed s ++ [e]) (g_won s) (g_panic s).
Definition set_panic (s : state) : state :=
  mkState (g_nodes s) (g_sent s) (g_replies s) (g_nextptr s) (g_installed s) (g_won s) true.
Definition add_won (m : request) (s : state) : state :=
  mkState (g_nodes s) (g_sent s) (g_replies s) (g_nextptr s) (g_installed s) (g_won s ++ [m]) (g_panic s).

(* ---------- the code ---------- *)

(* CriticalSectionState.canAcceptPreCommit *)
Definition can_accept (c : cs) : bool :=
  match c with InCS | NotCS | FailedPre | AcceptedNew => true | InPre | HasPre => false end.

(* criticalSectionPermanentlyFailed *)
Definition perm_failed (c : cs) : bool :=
  match c with AcceptedNew | FailedPre => true | _ => false end.

(* broadcast: number of positive responses needed among len(replicas) = n-1 *)
Definition required (n : nat) : nat :=
  let r := n - 1 in if Nat.even r then r / 2 else r / 2 + 1.

(* acceptNewValue(value, version); the caller guarantees version > res.version *)
Definition accept_new (z : Z) (p : nat) (k : nat) (x : node) : node :=
  let x1 := set_att 0 (set_install k z p x) in
  let x2 := if n_tpc x1 && (a_ver (n_acc x1) <=? k) then set_tpc false x1 else x1 in
  match n_cs x2 with NotCS => x2 | _ => set_cs AcceptedNew x2 end.

(* Sender comparison: Equal, or Go == (same dynamic pointer) *)
Definition sender_eq (ru : rules) (a : accepted) (m : request) : bool :=
  a_set a && Nat.eqb (a_from a) (r_from m) && (ru_equal ru || Nat.eqb (a_sptr a) (r_sptr m)).
Definition value_eq (ru : rules) (a : accepted) (m : request) : bool :=
  if ru_equal ru then Z.eqb (a_val a) (r_val m) else Nat.eqb (a_vptr a) (r_vptr m).

Definition acc_of (m : request) : accepted :=
  mkAcc true (r_from m) (r_sptr m) (r_val m) (r_vptr m) (r_ver m) (r_time m).
Definition acc_zero : accepted := mkAcc false 0 0 0 0 0 0.

(* senderTimes: lookup / store under the key semantics of the rules *)
Definition st_match (ru : rules) (m : request) (e : nat * nat * Z) : bool :=
  let '(f, p, _) := e in Nat.eqb f (r_from m) && (ru_equal ru || Nat.eqb p (r_sptr m)).
Fixpoint st_get (ru : rules) (m : request) (l : list (nat * nat * Z)) : Z :=
  match l with
  | [] => 0%Z
  | e :: r => if st_match ru m e then snd e else st_get ru m r
  end.
Fixpoint st_set (ru : rules) (m : request) (l : list (nat * nat * Z)) : list (nat * nat * Z) :=
  match l with
  | [] => [(r_from m, r_sptr m, r_time m)]
  | e :: r => if st_match ru m e then (fst e, r_time m) :: r else e :: st_set ru m r
  end.

Definition rep_accept (j : nat) (m : request) (real : bool) : reply := mkRep j m true 0 0 0 real.
Definition rep_reject (j : nat) (m : request) (x : node) : reply :=
  mkRep j m false (n_ver x) (n_old x) (n_optr x) true.

(* receiveInternal / receiveLocked on node x (index j), request as seen by the receiver `a`,
   original request `m` (for the reply record). Returns new node, reply, installed? *)
Definition receive_locked (ru : rules) (j : nat) (m a : request) (x : node) : node * reply * bool :=
  if r_ver a <? n_ver x + 1 then (x, rep_reject j m x, false)
  else
    match r_type a with
    | RPre =>
        let acc := n_acc x in
        if n_tpc x && Nat.eqb (a_ver acc) (r_ver a) && sender_eq ru acc a && value_eq ru acc a
        then (x, rep_accept j m true, false)
        else if can_accept (n_cs x) &&
                ((negb (n_tpc x) && (negb (ru_promise ru) || (a_ver acc <=? r_ver a)))
                 || (a_ver acc <? r_ver a)
                 || (Nat.eqb (a_ver acc) (r_ver a) && sender_eq ru acc a))
        then (set_acc (acc_of a) (set_tpc true x), rep_accept j m true, false)
        else (x, rep_reject j m x, false)
    | RCommit => (accept_new (r_val a) (r_vptr a) (r_ver a) x, rep_accept j m true, true)
    | RAbort =>
        let acc := n_acc x in
        if negb (sender_eq ru acc a) then (x, rep_accept j m true, false)
        else if negb (n_tpc x) then (x, rep_accept j m true, false)
        else if ru_promise ru && negb (Nat.eqb (a_ver acc) (r_ver a)) then (x, rep_accept j m true, false)
        else (set_tpc false x, rep_accept j m true, false)
    end.

Definition filter_on (c : config) : bool :=
  ru_filter_all (c_rules c) || match c_tr c with Rpc => true | Local => false end.

(* TwoPCReceiver.Receive / receive: stale-message filter, then receiveLocked *)
Definition receive (c : config) (j : nat) (m a : request) (x : node) : node * reply * bool :=
  let ru := c_rules c in
  if filter_on c then
    if Z.ltb (r_time a) (st_get ru a (n_stimes x)) then (x, rep_accept j m false, false)
    else receive_locked ru j m a (set_stimes (st_set ru a (n_stimes x)) x)
  else receive_locked ru j m a x.

(* what the receiver sees of request m *)
Definition transported (c : config) (s : state) (m : request) : request :=
  match c_tr c with
  | Local => m
  | Rpc => mkReq (r_type m) (r_val m) (g_nextptr s + 1) (r_from m) (g_nextptr s) (r_ver m) (r_time m)
  end.

Inductive event :=
| ERead (i : nat)
| EWrite (i : nat) (z : Z)
| EPreCall (i : nat)
| EPreWake (i : nat) (t : Z)
| EDeliver (i q j : nat)            (* q-th request created by node i, delivered to j *)
| EReply (i q j r : nat)            (* r-th reply of j to that request, consumed by i's handler *)
| ETimeout (i q j : nat)            (* the send of that request to j fails *)
| EPreFinish (i : nat) (t : Z)
| EAbortFinish (i : nat)
| EAbort (i : nat) (t : Z)
| ECommit (i : nat) (t : Z)
| ECommitFinish (i : nat).

Definition reqs_of (s : state) (i : nat) : list request :=
  filter (fun m => Nat.eqb (r_from m) i) (g_sent s).
Definition lookup_req (s : state) (i q : nat) : option request := nth_error (reqs_of s i) q.
Definition reps_of (s : state) (m : request) (j : nat) : list reply :=
  filter (fun p => req_eqb (p_req p) m && Nat.eqb (p_from p) j) (g_replies s).
Definition lookup_rep (s : state) (m : request) (j r : nat) : option reply := nth_error (reps_of s m j) r.

Definition nnodes (s : state) : nat := List.length (g_nodes s).
Definition get (s : state) (i : nat) : option node := nth_error (g_nodes s) i.

(* start of a section *)
Definition enter_cs (x : node) : node :=
  match n_cs x with NotCS => set_secver (n_ver x) (set_cs InCS x) | _ => x end.

Definition mk_abort (i : nat) (x : node) (t : Z) : request := mkReq RAbort 0 0 i i (n_ver x + 1) t.
Definition mk_pre (i : nat) (x : node) (t : Z) : request := mkReq RPre (n_val x) (n_vptr x) i i (n_ver x + 1) t.
Definition mk_commit (i : nat) (x : node) (t : Z) : request := mkReq RCommit (n_val x) (n_vptr x) i i (n_ver x + 1) t.

(* what one transition does: at most one node changes; requests/replies/ghosts are appended *)
Record effect := mkEff {
  f_upd : option (nat * node); f_sent : list request; f_rep : list reply;
  f_inst : list (nat * nat * Z); f_won : list request; f_ptr : nat; f_panic : bool }.
Definition eff0 : effect := mkEff None [] [] [] [] 0 false.
Definition eff_node (i : nat) (x : node) : effect := mkEff (Some (i, x)) [] [] [] [] 0 false.
Definition eff_send (i : nat) (x : node) (m : request) : effect := mkEff (Some (i, x)) [m] [] [] [] 0 false.

Definition apply_eff (s : state) (f : effect) : state :=
  mkState (match f_upd f with Some (i, x) => upd (g_nodes s) i x | None => g_nodes s end)
          (g_sent s ++ f_sent f) (g_replies s ++ f_rep f) (g_nextptr s + f_ptr f)
          (g_installed s ++ f_inst f) (g_won s ++ f_won f) (g_panic s || f_panic f).

(* a reject reply carrying a newer (version, value) is adopted *)
Definition learns (x : node) (p : reply) : bool := negb (p_acc p) && (n_ver x <? p_ver p).
Definition learn_node (x : node) (p : reply) : node :=
  if learns x p then accept_new (p_val p) (p_vptr p) (p_ver p) x else x.
Definition learn_inst (i : nat) (x : node) (p : reply) : list (nat * nat * Z) :=
  if learns x p then [(i, p_ver p, p_val p)] else [].

(* the response handler of proposer i for the slot (m, j) *)
Definition count_reply (m : request) (j : nat) (acc : bool) (o : op) : op :=
  match o with
  | OpPre m' yes no =>
      if req_eqb m' m && negb (mem j yes) && negb (mem j no)
      then (if acc then OpPre m' (j :: yes) no else OpPre m' yes (j :: no)) else o
  | OpAbort m' ov acks fp => if req_eqb m' m && negb (mem j acks) then OpAbort m' ov (j :: acks) fp else o
  | OpCommit m' ov acks => if req_eqb m' m && negb (mem j acks) then OpCommit m' ov (j :: acks) else o
  | _ => o
  end.

(* a failed send: a pre-commit slot counts as a refusal; an abort/commit slot is retried while the
   proposer's version is unchanged and given up (counted as done) otherwise *)
Definition count_timeout (m : request) (j : nat) (ver : nat) (o : op) : op :=
  match o with
  | OpPre m' yes no =>
      if req_eqb m' m && negb (mem j yes) && negb (mem j no) then OpPre m' yes (j :: no) else o
  | OpAbort m' ov acks fp =>
      if req_eqb m' m && negb (mem j acks) && negb (Nat.eqb ver ov) then OpAbort m' ov (j :: acks) fp else o
  | OpCommit m' ov acks =>
      if req_eqb m' m && negb (mem j acks) && negb (Nat.eqb ver ov) then OpCommit m' ov (j :: acks) else o
  | _ => o
  end.

Definition effect_of (c : config) (s : state) (e : event) : option effect :=
  let n := nnodes s in
  match e with
  | ERead i =>
      match get s i with
      | Some x =>
          match n_op x with
          | OpNone => if n_preok x then None else
                      if perm_failed (n_cs x) then Some eff0 else Some (eff_node i (enter_cs x))
          | _ => None
          end
      | None => None
      end
  | EWrite i z =>
      match get s i with
      | Some x =>
          match n_op x with
          | OpNone => if n_preok x then None else
                      if perm_failed (n_cs x) then Some eff0
                      else Some (mkEff (Some (i, enter_cs (set_val z (g_nextptr s) x))) [] [] [] [] 1 false)
          | _ => None
          end
      | None => None
      end
  | EPreCall i =>
      match get s i with
      | Some x =>
          match n_op x with
          | OpNone => if n_preok x then None else Some (eff_node i (set_op (OpSleep (n_ver x)) x))
          | _ => None
          end
      | None => None
      end
  | EPreWake i t =>
      match get s i with
      | Some x =>
          match n_op x with
          | OpSleep iv =>
              if negb (Nat.eqb (n_ver x) iv) || n_tpc x || perm_failed (n_cs x)
              then Some (eff_node i (set_op OpNone x))
              else if Z.ltb (n_clock x) t then
                let x0 := match n_cs x with NotCS => set_secver (n_ver x) x | _ => x end in
                let m := mk_pre i x t in
                Some (eff_send i (set_clock t (set_op (OpPre m [] []) (set_cs InPre x0))) m)
              else None
          | _ => None
          end
      | None => None
      end
  | EDeliver i q j =>
      match lookup_req s i q, get s j with
      | Some m, Some x =>
          if Nat.eqb i j then None else
          let a := transported c s m in
          let '(x', p, inst) := receive c j m a x in
          let p' := match c_tr c with
                    | Local => p
                    | Rpc => mkRep (p_from p) (p_req p) (p_acc p) (p_ver p) (p_val p) (g_nextptr s + 2) (p_real p)
                    end in
          Some (mkEff (Some (j, x')) [] [p'] (if inst then [(j, r_ver m, r_val m)] else []) [] 3 false)
      | _, _ => None
      end
  | EReply i q j r =>
      match lookup_req s i q, get s i with
      | Some m, Some x =>
          match lookup_rep s m j r with
          | Some p =>
              let x1 := learn_node x p in
              (* broadcastAbortOrCommit: assert(reply.Version > originalVersion) on a reject *)
              let pn := match r_type m with
                        | RPre => false
                        | _ => negb (p_acc p) && (p_ver p <? r_ver m)
                        end in
              Some (mkEff (Some (i, set_op (count_reply m j (p_acc p) (n_op x1)) x1)) [] []
                          (learn_inst i x p) [] 0 pn)
          | None => None
          end
      | _, _ => None
      end
  | ETimeout i q j =>
      match lookup_req s i q, get s i with
      | Some m, Some x =>
          if Nat.eqb i j || negb (j <? n) then None
          else Some (eff_node i (set_op (count_timeout m j (n_ver x) (n_op x)) x))
      | _, _ => None
      end
  | EPreFinish i t =>
      match get s i with
      | Some x =>
          match n_op x with
          | OpPre m yes no =>
              let req := required n in
              let success := req <=? List.length yes in
              if success || ((n - 1) - List.length no <? req) then
                if negb success || cs_eqb (n_cs x) AcceptedNew
                   || (ru_promise (c_rules c) && (r_ver m <? a_ver (n_acc x)))
                then
                  if Z.ltb (n_clock x) t then
                    let a := mk_abort i x t in
                    Some (eff_send i (set_clock t (set_op (OpAbort a (n_ver x) [] true) x)) a)
                  else None
                else
                  Some (mkEff (Some (i, set_preok true (set_op OpNone (set_cs HasPre (set_att 0 x)))))
                              [] [] [] [m] 0 (negb (cs_eqb (n_cs x) InPre)))
              else None
          | _ => None
          end
      | None => None
      end
  | EAbortFinish i =>
      match get s i with
      | Some x =>
          match n_op x with
          | OpAbort m ov acks fp =>
              if required n <=? List.length acks then
                if fp then Some (eff_node i (set_op OpNone (set_att (n_att x + 1) (set_cs FailedPre x))))
                else Some (eff_node i (set_op OpNone (set_cs NotCS x)))
              else None
          | _ => None
          end
      | None => None
      end
  | EAbort i t =>
      match get s i with
      | Some x =>
          match n_op x with
          | OpNone =>
              let x1 := set_preok false (set_val (n_old x) (n_optr x) x) in
              match n_cs x with
              | HasPre =>
                  if Z.ltb (n_clock x) t then
                    let a := mk_abort i x t in
                    Some (eff_send i (set_clock t (set_op (OpAbort a (n_ver x) [] false) x1)) a)
                  else None
              | _ => Some (eff_node i (set_cs NotCS x1))
              end
          | _ => None
          end
      | None => None
      end
  | ECommit i t =>
      match get s i with
      | Some x =>
          match n_op x with
          | OpNone =>
              if n_preok x then
                if Z.ltb (n_clock x) t then
                  let m := mk_commit i x t in
                  Some (mkEff (Some (i, set_clock t (set_op (OpCommit m (n_ver x) []) x))) [m] [] [] [] 0
                              (negb (cs_eqb (n_cs x) HasPre && negb (n_tpc x))))
                else None
              else None
          | _ => None
          end
      | None => None
      end
  | ECommitFinish i =>
      match get s i with
      | Some x =>
          match n_op x with
          | OpCommit m ov acks =>
              if required n <=? List.length acks then
                let x1 := set_preok false (set_op OpNone (set_cs NotCS x)) in
                if Nat.eqb (n_ver x) ov
                then Some (mkEff (Some (i, set_install (n_ver x + 1) (n_val x) (n_vptr x) x1)) [] []
                                 [(i, n_ver x + 1, n_val x)] [] 0 false)
                else Some (eff_node i x1)
              else None
          | _ => None
          end
      | None => None
      end
  end.

Definition step (c : config) (s : state) (e : event) : option state :=
  match effect_of c s e with Some f => Some (apply_eff s f) | None => None end.

Definition init_node (z : Z) : node :=
  mkNode z 0 z 0 0 NotCS false acc_zero 0 [] OpNone false 0 0.
Definition init_state (n : nat) (z : Z) : state :=
  mkState (repeat (init_node z) n) [] [] (S n) [] [] false.

Fixpoint run (c : config) (s : state) (es : list event) : option state :=
  match es with
  | [] => Some s
  | e :: r => match step c s e with Some s' => run c s' r | None => None end
  end.

(* ---------- projected observables, for the correspondence check ---------- *)
Definition cs_code (c : cs) : nat :=
  match c with InCS => 0 | AcceptedNew => 1 | NotCS => 2 | InPre => 3 | HasPre => 4 | FailedPre => 5 end.

Fixpoint ins_pair (e : nat * Z) (l : list (nat * Z)) : list (nat * Z) :=
  match l with
  | [] => [e]
  | h :: r => if (fst e <? fst h) || (Nat.eqb (fst e) (fst h) && Z.leb (snd e) (snd h))
              then e :: l else h :: ins_pair e r
  end.
Definition sort_pairs (l : list (nat * Z)) : list (nat * Z) := fold_right ins_pair [] l.

(* (value, oldValue, version, cs, accepted?, acc set?, acc from, acc version, acc value, acc time, attempts, senderTimes) *)
Definition snap := (Z * Z * nat * nat * bool * bool * nat * nat * Z * Z * nat * list (nat * Z))%type.
Definition snap_of (x : node) : snap :=
  (n_val x, n_old x, n_ver x, cs_code (n_cs x), n_tpc x, a_set (n_acc x), a_from (n_acc x), a_ver (n_acc x),
   a_val (n_acc x), a_time (n_acc x), n_att x,
   sort_pairs (map (fun e => (fst (fst e), snd e)) (n_stimes x))).

Definition snap_eqb (a b : snap) : bool :=
  let '(v1, o1, k1, c1, t1, s1, f1, av1, az1, at1, n1, l1) := a in
  let '(v2, o2, k2, c2, t2, s2, f2, av2, az2, at2, n2, l2) := b in
  Z.eqb v1 v2 && Z.eqb o1 o2 && Nat.eqb k1 k2 && Nat.eqb c1 c2 && Bool.eqb t1 t2 && Bool.eqb s1 s2 &&
  (negb s1 || (Nat.eqb f1 f2 && Nat.eqb av1 av2 && Z.eqb az1 az2 && Z.eqb at1 at2)) && Nat.eqb n1 n2 &&
  (fix eqs (x y : list (nat * Z)) : bool :=
     match x, y with
     | [], [] => true
     | (a1, b1) :: x', (a2, b2) :: y' => Nat.eqb a1 a2 && Z.eqb b1 b2 && eqs x' y'
     | _, _ => false
     end) l1 l2.

Fixpoint snaps_eqb (a b : list snap) : bool :=
  match a, b with
  | [], [] => true
  | x :: a', y :: b' => snap_eqb x y && snaps_eqb a' b'
  | _, _ => false
  end.

(* what a harness step observed besides the node states *)
Inductive expect :=
| XNone
| XNoReq                                              (* no request was sent in this step *)
| XReq (ty : rtype) (ver : nat) (val : Z) (t : Z)     (* the last request sent must be this one *)
| XReply (acc : bool) (ver : nat) (val : Z)           (* the last reply produced must be this one *)
| XRead (ok : bool) (val : Z).                        (* ReadValue / WriteValue result *)

Definition last {A} (l : list A) : option A := nth_error (rev l) 0.

Definition expect_ok (s0 s : state) (es : list event) (x : expect) : bool :=
  match x with
  | XNone => true
  | XNoReq => Nat.eqb (List.length (g_sent s)) (List.length (g_sent s0))
  | XReq ty ver val t =>
      match last (g_sent s) with
      | Some m => rtype_eqb (r_type m) ty && Nat.eqb (r_ver m) ver && Z.eqb (r_time m) t &&
                  (match ty with RAbort => true | _ => Z.eqb (r_val m) val end) &&
                  Nat.eqb (List.length (g_sent s)) (S (List.length (g_sent s0)))
      | None => false
      end
  | XReply a ver val =>
      match last (g_replies s) with
      | Some p => Bool.eqb (p_acc p) a && Nat.eqb (p_ver p) ver && (p_acc p || Z.eqb (p_val p) val)
      | None => false
      end
  | XRead ok val =>
      match es with
      | ERead i :: _ =>
          match get s0 i with
          | Some x0 => Bool.eqb ok (negb (perm_failed (n_cs x0))) && (negb ok || Z.eqb (n_val x0) val)
          | None => false
          end
      | EWrite i _ :: _ =>
          match get s0 i with
          | Some x0 => Bool.eqb ok (negb (perm_failed (n_cs x0)))
          | None => false
          end
      | _ => false
      end
  end.

(* a harness step = the model events it corresponds to, what was observed, and the observed state of every
   node whose observed state changed in this step (the others must be unchanged in the model too) *)
Definition hstep := (list event * expect * list (nat * snap))%type.

Fixpoint obs_ok (j : nat) (old new : list node) (obs : list (nat * snap)) : bool :=
  match old, new with
  | [], [] => true
  | a :: old', b :: new' =>
      (match find (fun e => Nat.eqb (fst e) j) obs with
       | Some e => snap_eqb (snap_of b) (snd e)
       | None => snap_eqb (snap_of a) (snap_of b)
       end) && obs_ok (S j) old' new' obs
  | _, _ => false
  end.

(* index of the first harness step on which the model disagrees (or is not enabled) *)
Fixpoint check_from (c : config) (s : state) (k : nat) (tr : list hstep) : option nat :=
  match tr with
  | [] => None
  | (es, x, obs) :: rest =>
      match run c s es with
      | Some s' =>
          if obs_ok 0 (g_nodes s) (g_nodes s') obs && expect_ok s s' es x && negb (g_panic s')
          then check_from c s' (S k) rest else Some k
      | None => Some k
      end
  end.

Definition check_case (c : config) (n : nat) (z : Z) (tr : list hstep) : option nat :=
  check_from c (init_state n z) 0 tr.

Fixpoint mismatches_from (i : nat) (cases : list (config * nat * Z * list hstep)) : list (nat * nat) :=
  match cases with
  | [] => []
  | (c, n, z, tr) :: rest =>
      let m := mismatches_from (S i) rest in
      match check_case c n z tr with Some k => (i, k) :: m | None => m end
  end.
