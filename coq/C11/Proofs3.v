(* C11 — the invariant is inductive: part 2 (acceptor/critical-section state, version evidence, IB5). *)
From PGV Require Import C11.Model C11.Proofs0 C11.Proofs1 C11.Proofs2.
From Coq Require Import Lia ZifyNat ZifyBool.

Section Preservation.
Variables (tr : transport) (s s' : state) (e : event).
Hypothesis I : Inv s.
Hypothesis Hstep : step (cfg tr) s e = Some s'.

Local Notation sent_mono' := (sent_mono tr s s' e Hstep).
Local Notation replies_mono' := (replies_mono tr s s' e Hstep).
Local Notation won_mono' := (won_mono tr s s' e Hstep).
Local Notation committed_step' := (committed_step tr s s' e Hstep).
Local Notation voter_step' := (voter_step tr s s' e Hstep).
Local Notation dead_step' := (dead_step tr s s' e Hstep).
Local Notation get_back' := (fun j y => step_get_back tr s e s' j y Hstep).
Local Notation acc_change' := (acc_change tr s s' e Hstep).

Lemma pres_IC3 i y : get s' i = Some y -> n_cs y = InPre \/ n_cs y = HasPre -> n_tpc y = false.
Proof.
  intros Hy Hc. step_trans Hstep f Ht.
  assert (Hold : forall x, get s i = Some x -> n_cs x = n_cs y -> n_tpc x = n_tpc y -> n_tpc y = false).
  { intros x Hx E1 E2. rewrite <- E2. apply (IC3 s I i x Hx). rewrite E1. auto. }
  destruct Ht; try (rewrite get_apply_none in Hy by reflexivity; eapply Hold; eauto; fail);
    (upd_cases Hy; [|eapply Hold; eauto; fail]).
  - unfold enter_cs in *. destruct (n_cs x) eqn:Ec; cbn in *; rewrite ?Ec in Hc; first [destruct Hc; discriminate | apply (IC3 s I _ x H); rewrite Ec; auto].
  - unfold enter_cs in *. cbn in *. destruct (n_cs x) eqn:Ec; cbn in *; rewrite ?Ec in Hc; first [destruct Hc; discriminate | apply (IC3 s I _ x H); rewrite Ec; auto].
  - cbn in *. apply (IC3 s I _ x H); auto.
  - cbn in *. apply (IC3 s I _ x H); auto.
  - cbn in *. destruct (n_cs x); cbn; auto.
  - (* deliver *)
    destruct (recv_cs _ _ _ _ _ _ _ H3) as [E|(_ & E & _)]; [|rewrite E in Hc; destruct Hc; discriminate].
    eapply recv_tpc_stays_false; eauto.
    + apply (IC3 s I _ x H1). rewrite <- E. auto.
    + rewrite <- E. destruct Hc as [-> | ->]; reflexivity.
  - (* reply *)
    cbn in *. unfold learn_node in *. destruct (learns x p) eqn:El.
    + rewrite accept_new_cs in Hc. destruct (n_cs x); destruct Hc; discriminate.
    + apply (IC3 s I _ x H1); auto.
  - cbn in *. apply (IC3 s I _ x H1); auto.
  - cbn in *. apply (IC3 s I _ x H); auto.
  - (* prefinish ok *)
    cbn in *. pose proof (IB1 s I _ x H) as Hop. unfold op_ok in Hop. rewrite H0 in Hop.
    destruct Hop as (_ & _ & _ & _ & _ & _ & _ & [(c1 & _)|(c1 & _)]); [|congruence].
    apply (IC3 s I _ x H); auto.
  - cbn in *. destruct Hc; discriminate.
  - cbn in *. destruct Hc; discriminate.
  - cbn in *. apply (IC3 s I _ x H); auto.
  - cbn in *. destruct Hc; discriminate.
  - cbn in *. apply (IC3 s I _ x H); auto.
  - cbn in *. destruct Hc; discriminate.
  - cbn in *. destruct Hc; discriminate.
Qed.

Lemma pres_ID1 i y : get s' i = Some y -> 1 <= n_ver y -> committed s' (n_ver y) (n_old y).
Proof.
  intros Hy Hv. destruct (get_back' _ _ Hy) as (x & Hx).
  destruct (acc_change' i x y Hx Hy) as [(h1 & h2 & h3 & h4 & h5)|[(m & p & inst & h1 & h2 & h3)|[(p & h1 & h2 & h3 & h4 & h5 & h6 & h7 & h8 & h9)|(m & acks & h1 & h2 & h3 & h4 & h5 & h6)]]].
  - rewrite h1, h2. apply committed_step'. apply (ID1 s I i x Hx). lia.
  - destruct inst.
    + destruct (recv_inst _ _ _ _ _ _ _ h3 eq_refl) as (i1 & i2 & i3 & i4). rewrite i2, i3.
      apply committed_step'. exists m. auto.
    + destruct (recv_noinst _ _ _ _ _ _ _ h3 eq_refl) as (n1 & n2 & _). rewrite n1, n2.
      apply committed_step'. apply (ID1 s I i x Hx). lia.
  - rewrite h5, h6. apply committed_step'. apply (ID3 s I p h1 h2). lia.
  - rewrite h2, h3. apply committed_step'.
    pose proof (IB1 s I i x Hx) as Hop. unfold op_ok in Hop. rewrite h1 in Hop.
    destruct Hop as (c1 & c2 & c3 & c4 & c5 & [(d1 & d2 & d3 & d4)|d]); [|lia].
    exists m. repeat split; auto; lia.
Qed.

Lemma pres_ID2 m : In m (g_sent s') -> 2 <= r_ver m -> exists v, committed s' (r_ver m - 1) v.
Proof.
  intros Hin Hv. destruct (in_dec req_eq_dec m (g_sent s)) as [Hold|Hnew].
  - destruct (ID2 s I m Hold Hv) as (v & Hc). exists v. apply committed_step'; auto.
  - destruct (new_sent tr s s' e Hstep m Hin Hnew) as (x & y & Hx & Hy & h1 & h2 & h3 & _).
    exists (n_old x). rewrite h3. replace (n_ver x + 1 - 1) with (n_ver x) by lia.
    apply committed_step'. apply (ID1 s I _ x Hx). lia.
Qed.

Lemma pres_ID3 p : In p (g_replies s') -> p_acc p = false -> 1 <= p_ver p -> committed s' (p_ver p) (p_val p).
Proof.
  intros Hin Ha Hv.
  destruct (in_dec (fun a b : reply => ltac:(decide equality; try apply Z.eq_dec; try apply Nat.eq_dec; try apply Bool.bool_dec; apply req_eq_dec)) p (g_replies s)) as [Hold|Hnew].
  - apply committed_step'. apply (ID3 s I p Hold Ha Hv).
  - destruct (new_reply tr s s' e Hstep p Hin Hnew) as (i & j & m & x & x' & p0 & inst & h1 & h2 & h3 & h4 & h5 & (e1 & e2 & e3 & e4 & e5 & e6) & _).
    rewrite e3 in Ha. destruct (recv_reject _ _ _ _ _ _ _ h5 Ha) as (r1 & r2 & _).
    rewrite e4, e5, r1, r2. apply committed_step'. apply (ID1 s I j x h3). lia.
Qed.

Lemma pres_ID4 i k v : In (i, k, v) (g_installed s') -> 1 <= k /\ committed s' k v.
Proof.
  intros Hin. step_trans Hstep f Ht. cbn in Hin. apply in_app_or in Hin as [Hin|Hin].
  - destruct (ID4 s I i k v Hin). split; auto; apply committed_mono; auto.
  - destruct Ht; cbn in Hin; try contradiction.
    + destruct inst; [|contradiction]. destruct Hin as [Hq|[]]. inversion Hq; subst.
      destruct (recv_inst _ _ _ _ _ _ _ H3 eq_refl) as (i1 & i2 & i3 & i4).
      split; [lia|]. apply committed_mono. exists m. auto.
    + unfold learn_inst in Hin. destruct (learns x p) eqn:El; [|contradiction].
      destruct Hin as [Hq|[]]. inversion Hq; subst. unfold learns in El. apply andb_true_iff in El as [E1 E2].
      apply negb_true_iff in E1. split; [lia|]. apply committed_mono. apply (ID3 s I p H2 E1). lia.
    + destruct Hin as [Hq|[]]. inversion Hq; subst. split; [lia|].
      pose proof (IB1 s I _ x H) as Hop. unfold op_ok in Hop. rewrite H0 in Hop.
      destruct Hop as (c1 & c2 & c3 & c4 & c5 & [(d1 & d2 & d3 & d4)|d]); [|lia].
      exists m. repeat split; auto; try lia; try (cbn; apply in_or_app; auto).
Qed.

(* what the sender was doing when it created a request in this step *)
Lemma new_sent_kind m x y : In m (g_sent s') -> ~ In m (g_sent s) ->
  get s (r_from m) = Some x -> get s' (r_from m) = Some y ->
  match r_type m with
  | RPre => (exists iv, n_op x = OpSleep iv) /\ n_op y = OpPre m [] [] /\ n_tpc x = false /\ r_val m = n_val x /\
            n_acc y = n_acc x /\ n_ver y = n_ver x
  | RAbort => (n_op x = OpNone /\ n_cs x = HasPre) \/ (exists m0 yes no, n_op x = OpPre m0 yes no)
  | RCommit => n_op x = OpNone /\ n_preok x = true /\ n_op y = OpCommit m (n_ver x) [] /\ r_val m = n_val x
  end /\ g_won s' = g_won s /\ (forall l, l <> r_from m -> get s' l = get s l).
Proof.
  intros Hin Hnot Hx Hy. step_trans Hstep f Ht. cbn in Hin. apply in_app_or in Hin as [Hin|Hin]; [contradiction|].
  destruct Ht; cbn in Hin; try contradiction; destruct Hin as [<-|[]]; cbn [r_from r_type mk_pre mk_abort mk_commit] in *;
    (match type of Hy with get (apply_eff ?s0 ?f0) ?j0 = _ => rewrite (get_apply_same s0 f0 j0 _ eq_refl) in Hy by (eapply get_lt; eauto) end);
    inversion Hy; subst y; clear Hy;
    match goal with H : get s ?i = Some ?n |- _ => rewrite H in Hx; inversion Hx; subst end;
    (split; [|split; [cbn; apply app_nil_r | intros l Hl; eapply get_apply_other; [reflexivity|auto]]]).
  - cbn. repeat split; eauto; destruct (n_cs x); reflexivity.
  - right. eauto.
  - left. auto.
  - cbn. auto.
Qed.

Lemma pres_IE8 c y : In c (g_sent s') -> r_type c = RCommit -> get s' (r_from c) = Some y ->
  r_ver c <= n_ver y \/ exists ov acks, n_op y = OpCommit c ov acks.
Proof.
  intros Hin Hty Hy. destruct (get_back' _ _ Hy) as (x & Hx).
  destruct (in_dec req_eq_dec c (g_sent s)) as [Hold|Hnew].
  2:{ pose proof (new_sent_kind c x y Hin Hnew Hx Hy) as (Hk & _). rewrite Hty in Hk.
      destruct Hk as (_ & _ & Ho & _). right. eauto. }
  pose proof (step_nmono _ _ _ _ _ _ _ Hstep Hx Hy) as (_ & hv & _).
  destruct (IE8 s I c x Hold Hty Hx) as [h|(ov & acks & Hop)]; [left; lia|].
  pose proof (IB1 s I _ x Hx) as Hok. unfold op_ok in Hok. rewrite Hop in Hok.
  destruct Hok as (o1 & o2 & o3 & o4 & o5 & o6).
  step_trans Hstep f Ht.
  destruct Ht; try (rewrite get_apply_none in Hy by reflexivity; assert (y = x) by congruence; subst; right; eauto; fail);
    (upd_cases Hy; [|assert (y = x) by congruence; subst; right; eauto]);
    match goal with H : get s _ = Some ?n |- _ => rewrite H in Hx; inversion Hx; subst end; try congruence.
  - (* deliver *) pose proof (recv_frame _ _ _ _ _ _ _ H3) as (f1 & _). right. rewrite f1. eauto.
  - (* reply *)
    right. cbn [n_op set_op].
    assert (Hfo : n_op (learn_node x p) = n_op x).
    { unfold learn_node. destruct (learns x p); rewrite ?accept_new_op; auto. }
    rewrite Hfo, Hop. cbn [count_reply]. destruct (req_eqb c (p_req p) && negb (mem (p_from p) acks)); eauto.
  - right. cbn [n_op set_op]. rewrite Hop. cbn [count_timeout].
    destruct (req_eqb c m && negb (mem j acks) && negb (Nat.eqb (n_ver x) ov)); eauto.
  - (* install *) left. cbn. rewrite Hop in H0. inversion H0; subst. lia.
  - left. cbn. rewrite Hop in H0. inversion H0; subst. destruct o6 as [(d1 & _)|d]; [congruence|lia].
Qed.

Lemma pres_IE2 m : In m (g_won s') ->
  exists l, NoDup l /\ required (nnodes s') <= List.length l /\ forall j, In j l -> voter s' m j.
Proof.
  intros Hin. rewrite (nn_eq _ _ _ _ Hstep).
  assert (Hold : In m (g_won s) -> exists l, NoDup l /\ required (nnodes s) <= List.length l /\ forall j, In j l -> voter s' m j).
  { intros Ho. destruct (IE2 s I m Ho) as (l & l1 & l2 & l3). exists l. repeat split; auto. intros j Hj. apply voter_step'. auto. }
  step_trans Hstep f Ht. cbn in Hin. apply in_app_or in Hin as [Hin|Hin]; auto.
  destruct Ht; cbn in Hin; try contradiction. destruct Hin as [<-|[]].
  pose proof (IB1 s I _ x H) as Hok. unfold op_ok in Hok. rewrite H0 in Hok.
  destruct Hok as (o1 & o2 & o3 & o4 & o5 & o6 & o7 & o8).
  exists yes. repeat split; auto. intros j Hj. apply voter_mono. auto.
Qed.

(* a request of the same proposer and version that is new in this step *)
Lemma not_dead_back m : ~ dead s' m -> ~ dead s m.
Proof. intros H Hd. apply H. apply dead_step'. auto. Qed.

Lemma pres_IE6 c : In c (g_sent s') -> r_type c = RCommit ->
  exists m, In m (g_won s') /\ ~ dead s' m /\ r_from m = r_from c /\ r_ver m = r_ver c /\ r_val m = r_val c.
Proof.
  intros Hin Hty. destruct (in_dec req_eq_dec c (g_sent s)) as [Hold|Hnew].
  - destruct (IE6 s I c Hold Hty) as (m & w1 & w2 & w3 & w4 & w5).
    exists m. repeat split; auto; [apply won_mono'; auto|].
    intros Hd. destruct (dead_step_inv s s' m Hd) as [?|(a & a1 & a2 & a3 & a4 & a5 & a6)]; [contradiction|].
    destruct (new_sent tr s s' e Hstep a a1 a2) as (x & y & Hx & Hy & n1 & n2 & n3 & _).
    pose proof (new_sent_kind a x y a1 a2 Hx Hy) as (Hk & _). rewrite a3 in Hk.
    assert (Hxc : get s (r_from c) = Some x) by congruence.
    destruct (IE8 s I c x Hold Hty Hxc) as [h|(ov & acks & Hop)]; [lia|].
    destruct Hk as [(k1 & _)|(m0 & yes & no & k1)]; congruence.
  - destruct (new_sent tr s s' e Hstep c Hin Hnew) as (x & y & Hx & Hy & n1 & n2 & n3 & n4 & _).
    pose proof (new_sent_kind c x y Hin Hnew Hx Hy) as (Hk & Hw & _). rewrite Hty in Hk.
    destruct Hk as (k1 & k2 & k3 & k4).
    destruct (IB5 s I _ x Hx k2 k1) as (_ & _ & m & w1 & w2 & w3 & w4 & w5).
    exists m. split; [rewrite Hw; auto|]. split; [|repeat split; auto; try congruence; lia].
    intros (a & a1 & a2 & a3 & a4 & a5). rewrite n4 in a1. apply in_app_or in a1 as [a1|[<-|[]]]; [|congruence].
    apply w2. exists a. auto.
Qed.

Lemma pres_IE4 m y : In m (g_sent s') -> r_type m = RPre -> ~ dead s' m -> get s' (r_from m) = Some y ->
  n_ver y < r_ver m -> (exists yes no, n_op y = OpPre m yes no) \/ In m (g_won s').
Proof.
  intros Hin Hty Hnd Hy Hv. destruct (get_back' _ _ Hy) as (x & Hx).
  destruct (in_dec req_eq_dec m (g_sent s)) as [Hold|Hnew].
  2:{ pose proof (new_sent_kind m x y Hin Hnew Hx Hy) as (Hk & _). rewrite Hty in Hk.
      destruct Hk as (_ & k & _). left. eauto. }
  pose proof (step_nmono _ _ _ _ _ _ _ Hstep Hx Hy) as (_ & hv & _).
  destruct (IE4 s I m x Hold Hty (not_dead_back m Hnd) Hx) as [(yes & no & Hop)|Hw]; [lia| |right; apply won_mono'; auto].
  pose proof (IB1 s I _ x Hx) as Hok. unfold op_ok in Hok. rewrite Hop in Hok.
  destruct Hok as (o1 & o2 & o3 & o4 & o5 & o6 & o7 & o8).
  step_trans Hstep f Ht.
  destruct Ht; try (rewrite get_apply_none in Hy by reflexivity; assert (y = x) by congruence; subst; left; eauto; fail);
    (upd_cases Hy; [|assert (y = x) by congruence; subst; left; eauto]);
    match goal with H : get s _ = Some ?n |- _ => rewrite H in Hx; inversion Hx; subst end; try congruence.
  - pose proof (recv_frame _ _ _ _ _ _ _ H3) as (f1 & _). left. rewrite f1. eauto.
  - left. cbn [n_op set_op].
    assert (Hfo : n_op (learn_node x p) = n_op x).
    { unfold learn_node. destruct (learns x p); rewrite ?accept_new_op; auto. }
    rewrite Hfo, Hop. cbn [count_reply].
    destruct (req_eqb m (p_req p) && negb (mem (p_from p) yes) && negb (mem (p_from p) no)); [destruct (p_acc p)|]; eauto.
  - left. cbn [n_op set_op]. rewrite Hop. cbn [count_timeout].
    destruct (req_eqb m m0 && negb (mem j yes) && negb (mem j no)); eauto.
  - (* prefinish fail: the rollback kills m *)
    exfalso. assert (Em : m0 = m) by congruence. subst m0. apply Hnd.
    exists (mk_abort (r_from m) x t). cbn. repeat split; auto.
    + apply in_or_app. right. left. reflexivity.
    + cbn in Hv. destruct o8 as [(c1 & c2 & c3)|(c1 & c2)]; lia.
    + lia.
  - right. assert (Em : m0 = m) by congruence. subst m0. cbn. apply in_or_app. right. left. reflexivity.
Qed.

Lemma pres_IE7 m y : In m (g_won s') -> ~ dead s' m -> get s' (r_from m) = Some y ->
  (exists c, In c (g_sent s') /\ r_type c = RCommit /\ r_from c = r_from m /\ r_ver c = r_ver m) \/
  (n_preok y = true /\ n_op y = OpNone /\ n_ver y + 1 = r_ver m /\ r_val m = n_val y).
Proof.
  intros Hw Hnd Hy. destruct (get_back' _ _ Hy) as (x & Hx).
  pose proof (not_dead_back m Hnd) as Hnd0.
  step_trans Hstep f Ht.
  assert (Hold : In m (g_won s) -> y = x ->
    (exists c, In c (g_sent (apply_eff s f)) /\ r_type c = RCommit /\ r_from c = r_from m /\ r_ver c = r_ver m) \/
    (n_preok y = true /\ n_op y = OpNone /\ n_ver y + 1 = r_ver m /\ r_val m = n_val y)).
  { intros Ho ->. destruct (IE7 s I m x Ho Hnd0 Hx) as [(c & c1 & c2)|h]; [left|right; auto].
    exists c. split; auto. cbn. apply in_or_app; auto. }
  cbn in Hw. apply in_app_or in Hw as [Hw|Hw].
  2:{ (* the win happens in this step *)
      destruct Ht; cbn in Hw; try contradiction. destruct Hw as [<-|[]].
      pose proof (IB1 s I _ x0 H) as Hok. unfold op_ok in Hok. rewrite H0 in Hok.
      destruct Hok as (o1 & o2 & o3 & o4 & o5 & o6 & o7 & o8).
      rewrite o3 in Hy. match type of Hy with get (apply_eff ?s0 ?f0) ?j0 = _ => rewrite (get_apply_same s0 f0 j0 _ eq_refl) in Hy by (eapply get_lt; eauto) end.
      inversion Hy; subst y. right. cbn. destruct o8 as [(c1 & c2 & c3)|(c1 & c2)]; [auto|congruence]. }
  destruct (IE7 s I m x Hw Hnd0 Hx) as [(c & c1 & c2)|(p1 & p2 & p3 & p4)].
  { left. exists c. split; auto. cbn. apply in_or_app; auto. }
  destruct (IB5 s I _ x Hx p1 p2) as (b1 & b2 & mw & w1 & w2 & w3 & w4 & w5).
  assert (mw = m) by (eapply (IE5 s I); eauto; lia). subst mw.
  destruct Ht; try (rewrite get_apply_none in Hy by reflexivity; apply Hold; auto; congruence);
    (upd_cases Hy; [|apply Hold; auto; congruence]);
    match goal with H : get s _ = Some ?n |- _ => rewrite H in Hx; inversion Hx; subst end; try congruence.
  - (* deliver *)
    pose proof (recv_frame _ _ _ _ _ _ _ H3) as (f1 & f2 & _). right. rewrite f1, f2.
    destruct inst.
    + exfalso. destruct (recv_inst _ _ _ _ _ _ _ H3 eq_refl) as (i1 & i2 & i3 & i4).
      eapply (decided_contra s I _ x m (r_ver m0) (r_val m0));
        [eassumption | left; auto | auto | auto | congruence | lia | exists m0; auto | lia].
    + destruct (recv_noinst _ _ _ _ _ _ _ H3 eq_refl) as (n1 & n2 & n3 & n4). rewrite n1, n3. auto.
  - (* reply *)
    right. cbn [n_op set_op n_preok n_ver n_val].
    unfold learn_node. destruct (learns x p) eqn:El.
    + exfalso. unfold learns in El. apply andb_true_iff in El as [E1 E2]. apply negb_true_iff in E1.
      eapply (decided_contra s I _ x m (p_ver p) (p_val p));
        [eassumption | left; auto | auto | auto | congruence | lia | apply (ID3 s I p H2 E1); lia | lia].
    + rewrite p2. cbn. auto.
  - right. cbn [n_op set_op n_preok n_ver n_val]. rewrite p2. cbn. auto.
  - (* app abort with rollback kills m *)
    exfalso. apply Hnd. exists (mk_abort (r_from m) x t). cbn. repeat split; auto; try lia.
    + apply in_or_app. right. left. reflexivity.
    + destruct (IA1 s I m (proj1 (IA4 s I m Hw))) as (_ & _ & h). specialize (h x H). lia.
  - (* commit *)
    left. exists (mk_commit (r_from m) x t). cbn. repeat split; auto; try lia. apply in_or_app. right. left. reflexivity.
Qed.

Lemma pres_IE1 m j y : In m (g_sent s') -> r_type m = RPre -> ~ dead s' m -> voter s' m j -> get s' j = Some y ->
  closed y (r_from m) (r_ver m) /\ (r_time m <= stime_of (r_from m) (n_stimes y))%Z.
Proof.
  intros Hin Hty Hnd (p & p1 & p2 & p3 & p4 & p5) Hy.
  destruct (get_back' _ _ Hy) as (x & Hx).
  destruct (in_dec (fun a b : reply => ltac:(decide equality; try apply Z.eq_dec; try apply Nat.eq_dec; try apply Bool.bool_dec; apply req_eq_dec)) p (g_replies s)) as [Hold|Hnew].
  - (* an old vote *)
    assert (Hv : voter s m j) by (exists p; auto).
    assert (Hm : In m (g_sent s)) by (rewrite <- p2; apply (IA3 s I p Hold)).
    destruct (IE1 s I m j x Hm Hty (not_dead_back m Hnd) Hv Hx) as (Hc & Ht).
    destruct (acc_change' j x y Hx Hy) as [(h1 & h2 & h3 & h4 & h5)|[(m2 & q & inst & h1 & h2 & h3)|[(q & h1 & h2 & h3 & h4 & h5 & h6 & h7 & h8 & h9)|(m2 & acks & h1 & h2 & h3 & h4 & h5 & h6)]]].
    + split; [|rewrite h5; auto]. unfold closed, holds_lock in *. rewrite h1, h3, h4. auto.
    + pose proof (recv_stime_mono _ _ _ _ _ _ _ (r_from m) (transported_same _ _ _) h3).
      split; [|lia].
      destruct (recv_closed _ _ _ _ _ _ _ _ _ (transported_same _ _ _) h3 Hc) as [?|(k1 & k2 & k3 & k4)]; auto.
      exfalso. apply (not_dead_back m Hnd). exists m2. repeat split; auto.
      assert (r_time m <> r_time m2).
      { intros Heq. assert (m = m2) by (eapply (IA2 s I); eauto). subst. congruence. }
      lia.
    + split; [|rewrite h8; auto]. unfold closed, holds_lock in *. rewrite h5, h7, h9.
      destruct Hc as [Hc|[Hc|(c1 & c2 & c3 & c4)]]; [left; lia | right; left; auto |].
      destruct (a_ver (n_acc x) <=? p_ver q) eqn:E; [left; lia|]. right. right. rewrite c1. auto.
    + split; [|rewrite h5; auto]. unfold closed, holds_lock in *. rewrite h2, h4, h6.
      destruct Hc as [Hc|[Hc|Hc]]; [left; lia | right; left; auto | right; right; auto].
  - (* the vote is cast in this step *)
    destruct (new_reply tr s s' e Hstep p p1 Hnew) as (i & j0 & m0 & x0 & x' & q & inst & h1 & h2 & h3 & h4 & h5 & (e1 & e2 & e3 & e4 & e5 & e6) & h6 & _).
    pose proof (recv_frame _ _ _ _ _ _ _ h5) as (_ & _ & _ & f1 & f2).
    assert (Em : m0 = m) by congruence. assert (Ej : j0 = j) by congruence. rewrite Em, Ej in *.
    assert (Ex : x' = y) by congruence. rewrite Ex in *.
    rewrite e3 in p4. rewrite e6 in p5.
    destruct (recv_vote _ _ _ _ _ _ _ (transported_same _ _ _) h5 Hty p4 p5) as (v1 & _).
    split; auto. rewrite (recv_real_true _ _ _ _ _ _ _ (transported_same _ _ _) h5 p5). lia.
Qed.

Lemma pres_IA6 p : In p (g_replies s') -> p_acc p = false -> r_type (p_req p) = RPre \/ r_ver (p_req p) <= p_ver p.
Proof.
  intros Hin Ha.
  destruct (in_dec (fun a b : reply => ltac:(decide equality; try apply Z.eq_dec; try apply Nat.eq_dec; try apply Bool.bool_dec; apply req_eq_dec)) p (g_replies s)) as [Hold|Hnew].
  - apply (IA6 s I p Hold Ha).
  - destruct (new_reply tr s s' e Hstep p Hin Hnew) as (i & j & m & x & x' & q & inst & h1 & h2 & h3 & h4 & h5 & (e1 & e2 & e3 & e4 & e5 & e6) & _).
    pose proof (recv_frame _ _ _ _ _ _ _ h5) as (_ & _ & _ & f1 & f2).
    rewrite e2, e4, f1. rewrite e3 in Ha. clear e1 e2 e3 e4 e5 e6 f1 f2.
    destruct h5; sxs; cbn in *; try discriminate.
    + right. lia.
    + left. auto.
Qed.

End Preservation.
