(* C11 — transport independence: under the repaired rules nothing depends on pointer identities. *)
From PGV Require Import C11.Model C11.Proofs0 C11.Proofs1 C11.Proofs2 C11.Proofs3 C11.Proofs4.
From Coq Require Import Lia ZifyNat ZifyBool.

Definition erase_req (m : request) : request :=
  mkReq (r_type m) (r_val m) 0 (r_from m) 0 (r_ver m) (r_time m).
Definition erase_acc (a : accepted) : accepted :=
  mkAcc (a_set a) (a_from a) 0 (a_val a) 0 (a_ver a) (a_time a).
Definition erase_rep (p : reply) : reply :=
  mkRep (p_from p) (erase_req (p_req p)) (p_acc p) (p_ver p) (p_val p) 0 (p_real p).
Definition erase_op (o : op) : op :=
  match o with
  | OpPre m y n => OpPre (erase_req m) y n
  | OpAbort a ov acks fp => OpAbort (erase_req a) ov acks fp
  | OpCommit c ov acks => OpCommit (erase_req c) ov acks
  | _ => o
  end.
Definition erase_st (e : nat * nat * Z) : nat * nat * Z := (fst (fst e), 0, snd e).
Definition erase_node (x : node) : node :=
  mkNode (n_val x) 0 (n_old x) 0 (n_ver x) (n_cs x) (n_tpc x) (erase_acc (n_acc x)) (n_att x)
         (map erase_st (n_stimes x)) (erase_op (n_op x)) (n_preok x) (n_clock x) (n_secver x).
Definition erase (s : state) : state :=
  mkState (map erase_node (g_nodes s)) (map erase_req (g_sent s)) (map erase_rep (g_replies s)) 0
          (g_installed s) (map erase_req (g_won s)) (g_panic s).
Definition erase_eff (f : effect) : effect :=
  mkEff (match f_upd f with Some (i, x) => Some (i, erase_node x) | None => None end)
        (map erase_req (f_sent f)) (map erase_rep (f_rep f)) (f_inst f) (map erase_req (f_won f)) 0 (f_panic f).

Lemma erase_req_idem m : erase_req (erase_req m) = erase_req m.
Proof. reflexivity. Qed.
Lemma erase_rep_idem p : erase_rep (erase_rep p) = erase_rep p.
Proof. reflexivity. Qed.
Lemma erase_op_idem o : erase_op (erase_op o) = erase_op o.
Proof. destruct o; reflexivity. Qed.
Lemma erase_node_idem x : erase_node (erase_node x) = erase_node x.
Proof.
  unfold erase_node. cbn. rewrite erase_op_idem, map_map. f_equal.
Qed.
Lemma erase_idem s : erase (erase s) = erase s.
Proof.
  unfold erase. cbn. rewrite !map_map. f_equal; apply map_ext; intros;
    auto using erase_node_idem, erase_req_idem, erase_rep_idem.
Qed.

Lemma map_upd {A B} (g : A -> B) l i x : map g (upd l i x) = upd (map g l) i (g x).
Proof. revert i. induction l as [|y r IH]; intros [|i]; cbn; auto. rewrite IH. reflexivity. Qed.

Lemma erase_apply s f : erase (apply_eff s f) = erase (apply_eff (erase s) (erase_eff f)).
Proof.
  unfold erase, apply_eff, erase_eff. cbn.
  rewrite !map_app, !map_map.
  assert (Hn : map erase_node (match f_upd f with Some (i, x) => upd (g_nodes s) i x | None => g_nodes s end) =
               map erase_node (match match f_upd f with Some (i, x) => Some (i, erase_node x) | None => None end with
                                | Some (i, x) => upd (map erase_node (g_nodes s)) i x
                                | None => map erase_node (g_nodes s) end)).
  { destruct (f_upd f) as [[i x]|].
    - rewrite !map_upd, map_map, erase_node_idem. f_equal. apply map_ext. intros. symmetry. apply erase_node_idem.
    - rewrite map_map. apply map_ext. intros. symmetry. apply erase_node_idem. }
  rewrite Hn. f_equal.
Qed.

(* ---------- the erased state answers look-ups with the erased answers ---------- *)
Lemma get_erase s i : get (erase s) i = option_map erase_node (get s i).
Proof. unfold get, erase. cbn. apply nth_error_map. Qed.

Lemma nnodes_erase s : nnodes (erase s) = nnodes s.
Proof. unfold nnodes, erase. cbn. apply map_length. Qed.

Lemma filter_map_comm {A B} (g : A -> B) (P : B -> bool) (Q : A -> bool) l :
  (forall a, In a l -> P (g a) = Q a) -> filter P (map g l) = map g (filter Q l).
Proof.
  induction l as [|a r IH]; intros H; cbn; auto.
  rewrite H by (cbn; auto). destruct (Q a); cbn; rewrite IH; auto; intros; apply H; cbn; auto.
Qed.

Lemma lookup_req_erase s i q : lookup_req (erase s) i q = option_map erase_req (lookup_req s i q).
Proof.
  unfold lookup_req, reqs_of, erase. cbn.
  rewrite (filter_map_comm erase_req _ (fun m => Nat.eqb (r_from m) i)) by reflexivity.
  apply nth_error_map.
Qed.

Lemma erase_req_inj s : Inv s -> forall m m', In m (g_sent s) -> In m' (g_sent s) -> erase_req m = erase_req m' -> m = m'.
Proof.
  intros I m m' H1 H2 He. apply (IA2 s I m m' H1 H2); inversion He; auto.
Qed.

Lemma req_eqb_erase s : Inv s -> forall m m', In m (g_sent s) -> In m' (g_sent s) ->
  req_eqb (erase_req m) (erase_req m') = req_eqb m m'.
Proof.
  intros I m m' H1 H2. destruct (req_eqb m m') eqn:E.
  - apply req_eqb_eq in E. subst. apply req_eqb_refl.
  - destruct (req_eqb (erase_req m) (erase_req m')) eqn:E2; auto.
    apply req_eqb_eq in E2. apply (erase_req_inj s I) in E2; auto. subst. rewrite req_eqb_refl in E. discriminate.
Qed.

Lemma lookup_rep_erase s m j r : Inv s -> In m (g_sent s) ->
  lookup_rep (erase s) (erase_req m) j r = option_map erase_rep (lookup_rep s m j r).
Proof.
  intros I Hm. unfold lookup_rep, reps_of, erase. cbn.
  rewrite (filter_map_comm erase_rep _ (fun p => req_eqb (p_req p) m && Nat.eqb (p_from p) j)).
  - apply nth_error_map.
  - intros p Hp. cbn. rewrite (req_eqb_erase s I); auto. apply (IA3 s I p Hp).
Qed.

(* ---------- node operations commute with erasure ---------- *)
Lemma stime_of_erase w l : stime_of w (map erase_st l) = stime_of w l.
Proof. induction l as [|[[f p] t] r IH]; cbn; auto. rewrite IH. reflexivity. Qed.

Lemma st_set_erase a l :
  map erase_st (st_set repaired_rules a l) = st_set repaired_rules (erase_req a) (map erase_st l).
Proof.
  induction l as [|[[f p] t] r IH]; cbn; auto.
  rewrite !andb_true_r. destruct (Nat.eqb f (r_from a)); cbn; auto. rewrite IH. reflexivity.
Qed.

Lemma accept_new_erase z p k x : erase_node (accept_new z p k x) = accept_new z 0 k (erase_node x).
Proof.
  unfold accept_new. cbn.
  destruct (n_tpc x && (a_ver (n_acc x) <=? k)); cbn; destruct (n_cs x); reflexivity.
Qed.

Lemma learn_node_erase x p : erase_node (learn_node x p) = learn_node (erase_node x) (erase_rep p).
Proof.
  unfold learn_node, learns. cbn [p_acc p_ver erase_rep n_ver erase_node p_val p_vptr].
  destruct (negb (p_acc p) && (n_ver x <? p_ver p)); auto.
  apply accept_new_erase.
Qed.

Lemma erase_req_same a m : same_content a m -> erase_req a = erase_req m.
Proof. intros (h1 & h2 & h3 & h4 & h5). unfold erase_req. rewrite h1, h2, h3, h4, h5. reflexivity. Qed.

Lemma erase_set_stimes l x : erase_node (set_stimes l x) = set_stimes (map erase_st l) (erase_node x).
Proof. reflexivity. Qed.
Lemma erase_set_tpc b x : erase_node (set_tpc b x) = set_tpc b (erase_node x).
Proof. reflexivity. Qed.
Lemma erase_set_acc a x : erase_node (set_acc a x) = set_acc (erase_acc a) (erase_node x).
Proof. reflexivity. Qed.
Lemma erase_acc_of a : erase_acc (acc_of a) = acc_of (erase_req a).
Proof. reflexivity. Qed.
Lemma erase_rep_accept j m r : erase_rep (rep_accept j m r) = rep_accept j (erase_req m) r.
Proof. reflexivity. Qed.
Lemma erase_rep_reject j m x : erase_rep (rep_reject j m x) = rep_reject j (erase_req m) (erase_node x).
Proof. reflexivity. Qed.

Lemma receive_erase tr j m a x x' p inst : same_content a m ->
  receive (cfg tr) j m a x = (x', p, inst) ->
  receive (cfg Local) j (erase_req m) (erase_req m) (erase_node x) = (erase_node x', erase_rep p, inst).
Proof.
  intros Hs E. pose proof (erase_req_same a m Hs) as Ea. destruct Hs as (h1 & h2 & h3 & h4 & h5).
  unfold receive in *. rewrite !filter_on_cfg in *. cbn [c_rules cfg] in *.
  rewrite !st_get_rep in *. cbn [n_stimes erase_node r_from r_time erase_req]. rewrite stime_of_erase.
  rewrite h3, h5 in E.
  assert (Hst : map erase_st (st_set repaired_rules a (n_stimes x)) =
                st_set repaired_rules (erase_req m) (map erase_st (n_stimes x))).
  { rewrite st_set_erase, Ea. reflexivity. }
  Ltac leaf E Hst Ea :=
    inversion E; subst;
    repeat (rewrite erase_set_tpc || rewrite erase_set_acc || rewrite accept_new_erase || rewrite erase_set_stimes ||
            rewrite erase_acc_of || rewrite erase_rep_accept || rewrite erase_rep_reject || rewrite Hst || rewrite Ea);
    reflexivity.
  destruct (Z.ltb (r_time m) (stime_of (r_from m) (n_stimes x))).
  { leaf E Hst Ea. }
  unfold receive_locked in *. cbn [n_ver erase_node set_stimes r_ver r_type erase_req n_tpc n_acc n_cs] in *.
  rewrite h4, h1 in E.
  destruct (r_ver m <? n_ver x + 1).
  { leaf E Hst Ea. }
  destruct (r_type m).
  - rewrite !sender_eq_rep, !value_eq_rep in *.
    cbn [a_set a_from a_val a_ver erase_acc r_from r_val erase_req ru_promise repaired_rules] in *.
    rewrite h3, h2 in E.
    destruct (n_tpc x && Nat.eqb (a_ver (n_acc x)) (r_ver m) && (a_set (n_acc x) && Nat.eqb (a_from (n_acc x)) (r_from m))
              && Z.eqb (a_val (n_acc x)) (r_val m)).
    { leaf E Hst Ea. }
    destruct (can_accept (n_cs x) &&
              (negb (n_tpc x) && (negb true || (a_ver (n_acc x) <=? r_ver m)) || (a_ver (n_acc x) <? r_ver m)
               || Nat.eqb (a_ver (n_acc x)) (r_ver m) && (a_set (n_acc x) && Nat.eqb (a_from (n_acc x)) (r_from m)))).
    + leaf E Hst Ea.
    + leaf E Hst Ea.
  - inversion E; subst. rewrite accept_new_erase, erase_set_stimes, erase_rep_accept, Hst, h2. reflexivity.
  - rewrite !sender_eq_rep in *. cbn [a_set a_from a_ver erase_acc r_from erase_req ru_promise repaired_rules] in *.
    rewrite h3 in E.
    destruct (negb (a_set (n_acc x) && Nat.eqb (a_from (n_acc x)) (r_from m))).
    { leaf E Hst Ea. }
    destruct (negb (n_tpc x)).
    { leaf E Hst Ea. }
    destruct (true && negb (Nat.eqb (a_ver (n_acc x)) (r_ver m))); leaf E Hst Ea.
Qed.

Lemma op_req_in s i x : Inv s -> get s i = Some x ->
  match n_op x with
  | OpPre m _ _ => In m (g_sent s)
  | OpAbort m _ _ _ => In m (g_sent s)
  | OpCommit m _ _ => In m (g_sent s)
  | _ => True
  end.
Proof.
  intros I Hx. pose proof (IB1 s I i x Hx) as Hok. unfold op_ok in Hok.
  destruct (n_op x); auto; apply Hok.
Qed.

Lemma count_reply_erase s i x m j b o : Inv s -> get s i = Some x -> In m (g_sent s) -> o = n_op x ->
  erase_op (count_reply m j b o) = count_reply (erase_req m) j b (erase_op o).
Proof.
  intros I Hx Hm ->. pose proof (op_req_in s i x I Hx) as Hin.
  destruct (n_op x); cbn; auto; rewrite (req_eqb_erase s I) by auto.
  - destruct (req_eqb m0 m && negb (mem j yes) && negb (mem j no)); [destruct b|]; reflexivity.
  - destruct (req_eqb m0 m && negb (mem j acks)); reflexivity.
  - destruct (req_eqb m0 m && negb (mem j acks)); reflexivity.
Qed.

Lemma count_timeout_erase s i x m j v : Inv s -> get s i = Some x -> In m (g_sent s) ->
  erase_op (count_timeout m j v (n_op x)) = count_timeout (erase_req m) j v (erase_op (n_op x)).
Proof.
  intros I Hx Hm. pose proof (op_req_in s i x I Hx) as Hin.
  destruct (n_op x); cbn; auto; rewrite (req_eqb_erase s I) by auto.
  - destruct (req_eqb m0 m && negb (mem j yes) && negb (mem j no)); reflexivity.
  - destruct (req_eqb m0 m && negb (mem j acks) && negb (Nat.eqb v ov)); reflexivity.
  - destruct (req_eqb m0 m && negb (mem j acks) && negb (Nat.eqb v ov)); reflexivity.
Qed.

Lemma enter_cs_erase x : erase_node (enter_cs x) = enter_cs (erase_node x).
Proof. unfold enter_cs. cbn. destruct (n_cs x); reflexivity. Qed.

Lemma learn_inst_erase i x p : learn_inst i (erase_node x) (erase_rep p) = learn_inst i x p.
Proof. reflexivity. Qed.

Lemma erase_set_cs c x : erase_node (set_cs c x) = set_cs c (erase_node x). Proof. reflexivity. Qed.
Lemma erase_set_op o x : erase_node (set_op o x) = set_op (erase_op o) (erase_node x). Proof. reflexivity. Qed.
Lemma erase_set_preok b x : erase_node (set_preok b x) = set_preok b (erase_node x). Proof. reflexivity. Qed.
Lemma erase_set_clock t x : erase_node (set_clock t x) = set_clock t (erase_node x). Proof. reflexivity. Qed.
Lemma erase_set_att k x : erase_node (set_att k x) = set_att k (erase_node x). Proof. reflexivity. Qed.
Lemma erase_set_secver k x : erase_node (set_secver k x) = set_secver k (erase_node x). Proof. reflexivity. Qed.
Lemma erase_set_val z p x : erase_node (set_val z p x) = set_val z 0 (erase_node x). Proof. reflexivity. Qed.
Lemma erase_set_install k z p x : erase_node (set_install k z p x) = set_install k z 0 (erase_node x). Proof. reflexivity. Qed.
Lemma erase_mk_pre i x t : erase_req (mk_pre i x t) = erase_req (mk_pre i (erase_node x) t). Proof. reflexivity. Qed.
Lemma erase_mk_abort i x t : erase_req (mk_abort i x t) = erase_req (mk_abort i (erase_node x) t). Proof. reflexivity. Qed.
Lemma erase_mk_commit i x t : erase_req (mk_commit i x t) = erase_req (mk_commit i (erase_node x) t). Proof. reflexivity. Qed.

Ltac enorm :=
  unfold erase_eff, eff_node, eff_send;
  cbn [f_upd f_sent f_rep f_inst f_won f_ptr f_panic map];
  repeat (rewrite erase_set_cs || rewrite erase_set_op || rewrite erase_set_preok || rewrite erase_set_clock ||
          rewrite erase_set_att || rewrite erase_set_secver || rewrite erase_set_val || rewrite erase_set_install ||
          rewrite enter_cs_erase || rewrite erase_node_idem || rewrite erase_op_idem);
  cbn [erase_op n_ver n_val n_old n_att n_cs n_tpc n_acc n_optr n_vptr erase_node erase_req mk_pre mk_abort mk_commit
       r_type r_val r_vptr r_from r_sptr r_ver r_time].

Ltac sc := cbn [option_map n_op n_preok n_cs n_ver n_clock n_tpc n_acc n_val n_old a_ver erase_node erase_op erase_acc r_ver erase_req c_rules cfg ru_promise repaired_rules andb].
Ltac simple_case x i s :=
  destruct (get s i) as [x|]; cbn [option_map]; auto; sc;
  destruct (n_op x); cbn [option_map erase_op]; auto; sc;
  repeat (match goal with |- context[if ?c then _ else _] => destruct c end; cbn [option_map]; auto);
  try (destruct (n_cs x); cbn [option_map]; auto;
       repeat (match goal with |- context[if ?c then _ else _] => destruct c end; cbn [option_map]; auto));
  f_equal; enorm; reflexivity.

(* the erased effect of a transition is the effect of the same event on the erased state *)
Lemma effect_erase tr s e : Inv s ->
  option_map erase_eff (effect_of (cfg tr) s e) = option_map erase_eff (effect_of (cfg Local) (erase s) e).
Proof.
  intros I. destruct e; cbn [effect_of]; rewrite ?get_erase, ?nnodes_erase, ?lookup_req_erase.
  - (* read *)
    destruct (get s i) as [x|]; cbn; auto. destruct (n_op x); cbn; auto.
    destruct (n_preok x); cbn; auto. destruct (perm_failed (n_cs x)); cbn; auto.
    enorm. reflexivity.
  - destruct (get s i) as [x|]; cbn; auto. destruct (n_op x); cbn; auto.
    destruct (n_preok x); cbn; auto. destruct (perm_failed (n_cs x)); cbn; auto.
    enorm. reflexivity.
  - destruct (get s i) as [x|]; cbn; auto. destruct (n_op x); cbn; auto.
    destruct (n_preok x); cbn; auto. enorm. reflexivity.
  - destruct (get s i) as [x|]; cbn; auto. destruct (n_op x); cbn; auto.
    destruct (negb (Nat.eqb (n_ver x) iv) || n_tpc x || perm_failed (n_cs x)); cbn; auto; [enorm; reflexivity|].
    destruct (Z.ltb (n_clock x) t); cbn; auto.
    enorm. destruct (n_cs x); enorm; reflexivity.
  - (* deliver *)
    destruct (lookup_req s i q) as [m|] eqn:El; cbn [option_map]; auto.
    destruct (get s j) as [x|] eqn:Ex; cbn [option_map]; auto.
    destruct (Nat.eqb i j); auto.
    destruct (receive (cfg tr) j m (transported (cfg tr) s m) x) as [[x' p] inst] eqn:Er.
    pose proof (receive_erase tr j m _ x x' p inst (transported_same _ _ _) Er) as Hr.
    cbn [transported c_tr cfg]. rewrite Hr. cbn [option_map]. f_equal.
    unfold erase_eff. cbn [f_upd f_sent f_rep f_inst f_won f_ptr f_panic map].
    rewrite erase_node_idem. destruct tr; cbn; reflexivity.
  - (* reply *)
    destruct (lookup_req s i q) as [m|] eqn:El; cbn; auto.
    destruct (get s i) as [x|] eqn:Ex; cbn; auto.
    apply lookup_req_in in El as [Hm Hf].
    rewrite (lookup_rep_erase s m j r I Hm).
    destruct (lookup_rep s m j r) as [p|] eqn:Ep; cbn; auto.
    unfold erase_eff. cbn [f_upd f_sent f_rep f_inst f_won f_ptr f_panic map].
    rewrite <- learn_node_erase.
    assert (Hop : n_op (learn_node x p) = n_op x).
    { unfold learn_node. destruct (learns x p); rewrite ?accept_new_op; auto. }
    assert (Ho2 : n_op (erase_node (learn_node x p)) = erase_op (n_op x)) by (cbn; rewrite Hop; reflexivity).
    rewrite Ho2, Hop.
    rewrite <- (count_reply_erase s i x m j (p_acc p) (n_op x) I Ex Hm eq_refl).
    cbn [p_acc erase_rep r_type erase_req p_ver r_ver].
    f_equal. f_equal.
    rewrite !erase_set_op, erase_node_idem, erase_op_idem. reflexivity.
  - (* timeout *)
    destruct (lookup_req s i q) as [m|] eqn:El; cbn [option_map]; auto.
    destruct (get s i) as [x|] eqn:Ex; cbn [option_map]; auto.
    apply lookup_req_in in El as [Hm Hf].
    destruct (Nat.eqb i j || negb (j <? nnodes s)); cbn [option_map]; auto. f_equal.
    unfold erase_eff, eff_node. cbn [f_upd f_sent f_rep f_inst f_won f_ptr f_panic map option_map].
    cbn [n_ver n_op erase_node].
    rewrite <- (count_timeout_erase s i x m j (n_ver x) I Ex Hm).
    rewrite !erase_set_op, erase_node_idem, erase_op_idem. reflexivity.
  - (* prefinish *) simple_case x i s.
  - simple_case x i s.
  - simple_case x i s.
  - simple_case x i s.
  - simple_case x i s.
Qed.

Lemma step_erase tr s e : Inv s ->
  option_map erase (step (cfg tr) s e) = option_map erase (step (cfg Local) (erase s) e).
Proof.
  intros I. unfold step. pose proof (effect_erase tr s e I) as H.
  destruct (effect_of (cfg tr) s e) as [f|]; destruct (effect_of (cfg Local) (erase s) e) as [g|]; cbn [option_map] in *; try discriminate; auto.
  assert (Hfg : erase_eff f = erase_eff g) by congruence. f_equal.
  rewrite (erase_apply s f), (erase_apply (erase s) g), erase_idem, Hfg. reflexivity.
Qed.

Lemma run_erase tr1 tr2 es : forall s1 s2, Inv s1 -> Inv s2 -> erase s1 = erase s2 ->
  option_map erase (run (cfg tr1) s1 es) = option_map erase (run (cfg tr2) s2 es).
Proof.
  induction es as [|e r IH]; intros s1 s2 I1 I2 He; cbn.
  - f_equal. auto.
  - pose proof (step_erase tr1 s1 e I1) as H1. pose proof (step_erase tr2 s2 e I2) as H2.
    rewrite He in H1. rewrite <- H2 in H1.
    destruct (step (cfg tr1) s1 e) as [a|] eqn:E1; destruct (step (cfg tr2) s2 e) as [b|] eqn:E2; cbn [option_map] in H1; try discriminate; auto.
    assert (Hab : erase a = erase b) by congruence.
    apply IH; auto; [eapply (inv_step tr1 s1 a e) | eapply (inv_step tr2 s2 b e)]; eauto.
Qed.

Lemma transport_lemma n z es :
  option_map erase (run (cfg Local) (init_state n z) es) = option_map erase (run (cfg Rpc) (init_state n z) es).
Proof. apply run_erase; auto using inv_init. Qed.
