(* C11 — basic lemmas about the model: lists, equalities, the acceptor (receive) under the repaired rules. *)
From PGV Require Import C11.Model.
From Coq Require Import Lia ZifyNat ZifyBool.

Lemma nth_error_upd_eq {A} (l : list A) i x : i < List.length l -> nth_error (upd l i x) i = Some x.
Proof. revert i. induction l as [|y r IH]; intros [|i] H; cbn in *; try lia; auto. apply IH. lia. Qed.

Lemma nth_error_upd_neq {A} (l : list A) i j x : i <> j -> nth_error (upd l i x) j = nth_error l j.
Proof. revert i j. induction l as [|y r IH]; intros [|i] [|j] H; cbn; auto; try congruence. Qed.

Lemma length_upd {A} (l : list A) i x : List.length (upd l i x) = List.length l.
Proof. revert i. induction l as [|y r IH]; intros [|i]; cbn; auto. Qed.

Lemma nth_error_upd {A} (l : list A) i j x y :
  nth_error (upd l i x) j = Some y -> (i = j /\ y = x /\ i < List.length l) \/ (i <> j /\ nth_error l j = Some y).
Proof.
  intros H. destruct (Nat.eq_dec i j) as [->|Hn].
  - assert (Hl : j < List.length (upd l j x)) by (apply nth_error_Some; congruence).
    rewrite length_upd in Hl.
    rewrite nth_error_upd_eq in H by auto. left. split; [auto|split; [congruence|auto]].
  - right. split; auto. rewrite nth_error_upd_neq in H; auto.
Qed.

Lemma rtype_eqb_eq a b : rtype_eqb a b = true <-> a = b.
Proof. destruct a, b; cbn; split; intros; congruence. Qed.

Lemma cs_eqb_eq a b : cs_eqb a b = true <-> a = b.
Proof. destruct a, b; cbn; split; intros; congruence. Qed.

Lemma req_eqb_eq a b : req_eqb a b = true <-> a = b.
Proof.
  unfold req_eqb. split.
  - intros H. repeat (apply andb_true_iff in H; destruct H as [H ?]).
    apply rtype_eqb_eq in H. apply Z.eqb_eq in H0, H5. apply Nat.eqb_eq in H1, H2, H3, H4.
    destruct a, b; cbn in *; subst; reflexivity.
  - intros ->. rewrite !andb_true_iff. repeat split; try apply Nat.eqb_refl; try apply Z.eqb_refl.
    apply rtype_eqb_eq; reflexivity.
Qed.

Lemma req_eqb_refl a : req_eqb a a = true.
Proof. apply req_eqb_eq; reflexivity. Qed.

Lemma mem_In x l : mem x l = true <-> In x l.
Proof.
  unfold mem. rewrite existsb_exists. split.
  - intros (y & Hy & He). apply Nat.eqb_eq in He. subst; auto.
  - intros H. exists x. split; auto. apply Nat.eqb_refl.
Qed.

Lemma mem_false x l : mem x l = false <-> ~ In x l.
Proof. rewrite <- mem_In. destruct (mem x l); split; intros; congruence. Qed.

(* ---------- configuration of the repaired code ---------- *)
Definition cfg (tr : transport) : config := mkCfg repaired_rules tr.

Lemma filter_on_cfg tr : filter_on (cfg tr) = true.
Proof. reflexivity. Qed.

(* senderTimes under Equal keys: one entry per sender *)
Fixpoint stime_of (w : nat) (l : list (nat * nat * Z)) : Z :=
  match l with
  | [] => 0%Z
  | (f, _, t) :: r => if Nat.eqb f w then t else stime_of w r
  end.

Lemma st_get_rep m l : st_get repaired_rules m l = stime_of (r_from m) l.
Proof.
  induction l as [|[[f p] t] r IH]; cbn; auto.
  rewrite andb_true_r. destruct (Nat.eqb f (r_from m)); auto.
Qed.

Lemma stime_of_st_set m l w :
  stime_of w (st_set repaired_rules m l) = if Nat.eqb (r_from m) w then r_time m else stime_of w l.
Proof.
  induction l as [|[[f p] t] r IH]; cbn.
  - destruct (Nat.eqb (r_from m) w); auto.
  - rewrite andb_true_r.
    destruct (Nat.eqb f (r_from m)) eqn:E1; cbn.
    + apply Nat.eqb_eq in E1. subst f. destruct (Nat.eqb (r_from m) w); auto.
    + rewrite IH. destruct (Nat.eqb f w) eqn:E2; auto.
      apply Nat.eqb_eq in E2. subst f. rewrite Nat.eqb_sym in E1. rewrite E1. reflexivity.
Qed.

(* ---------- projections through the setters ---------- *)
Lemma sender_eq_rep a m : sender_eq repaired_rules a m = a_set a && Nat.eqb (a_from a) (r_from m).
Proof. unfold sender_eq. cbn. rewrite andb_true_r. reflexivity. Qed.

Lemma value_eq_rep a m : value_eq repaired_rules a m = Z.eqb (a_val a) (r_val m).
Proof. reflexivity. Qed.

(* the request as the receiver sees it differs from the original only in pointers *)
Definition same_content (a m : request) : Prop :=
  r_type a = r_type m /\ r_val a = r_val m /\ r_from a = r_from m /\ r_ver a = r_ver m /\ r_time a = r_time m.

Lemma transported_same c s m : same_content (transported c s m) m.
Proof. unfold transported, same_content. destruct (c_tr c); cbn; auto 10. Qed.

(* accept_new: effect on the fields *)
Ltac an_tac x := unfold accept_new; cbn; destruct (n_tpc x && _); cbn; destruct (n_cs x) eqn:Ecs; cbn; rewrite ?Ecs; cbn; reflexivity.
Lemma accept_new_ver z p k x : n_ver (accept_new z p k x) = k.
Proof. an_tac x. Qed.
Lemma accept_new_old z p k x : n_old (accept_new z p k x) = z.
Proof. an_tac x. Qed.
Lemma accept_new_val z p k x : n_val (accept_new z p k x) = z.
Proof. an_tac x. Qed.
Lemma accept_new_acc z p k x : n_acc (accept_new z p k x) = n_acc x.
Proof. an_tac x. Qed.
Lemma accept_new_stimes z p k x : n_stimes (accept_new z p k x) = n_stimes x.
Proof. an_tac x. Qed.
Lemma accept_new_op z p k x : n_op (accept_new z p k x) = n_op x.
Proof. an_tac x. Qed.
Lemma accept_new_preok z p k x : n_preok (accept_new z p k x) = n_preok x.
Proof. an_tac x. Qed.
Lemma accept_new_clock z p k x : n_clock (accept_new z p k x) = n_clock x.
Proof. an_tac x. Qed.
Lemma accept_new_secver z p k x : n_secver (accept_new z p k x) = n_secver x.
Proof. an_tac x. Qed.
Lemma accept_new_tpc z p k x :
  n_tpc (accept_new z p k x) = n_tpc x && negb (a_ver (n_acc x) <=? k).
Proof.
  unfold accept_new. cbn. destruct (n_tpc x) eqn:E; cbn.
  - destruct (a_ver (n_acc x) <=? k); cbn; destruct (n_cs x); cbn; auto.
  - destruct (n_cs x); cbn; auto.
Qed.
Lemma accept_new_cs z p k x :
  n_cs (accept_new z p k x) = match n_cs x with NotCS => NotCS | _ => AcceptedNew end.
Proof. an_tac x. Qed.

(* ---------- the acceptor under the repaired rules: all outcomes of one delivery ---------- *)
Definition promise_ok (x : node) (W k : nat) : bool :=
  (negb (n_tpc x) && (a_ver (n_acc x) <=? k)) || (a_ver (n_acc x) <? k)
  || (Nat.eqb (a_ver (n_acc x)) k && (a_set (n_acc x) && Nat.eqb (a_from (n_acc x)) W)).

Definition holds_lock (x : node) (W k : nat) : Prop :=
  n_tpc x = true /\ a_set (n_acc x) = true /\ a_from (n_acc x) = W /\ a_ver (n_acc x) = k.

Inductive recv_out (j : nat) (m a : request) (x : node) : node -> reply -> bool -> Prop :=
| RO_filtered :
    (r_time m < stime_of (r_from m) (n_stimes x))%Z ->
    recv_out j m a x x (rep_accept j m false) false
| RO_low xs :
    xs = set_stimes (st_set repaired_rules a (n_stimes x)) x ->
    (stime_of (r_from m) (n_stimes x) <= r_time m)%Z ->
    r_ver m < n_ver x + 1 ->
    recv_out j m a x xs (rep_reject j m xs) false
| RO_re xs :
    xs = set_stimes (st_set repaired_rules a (n_stimes x)) x ->
    (stime_of (r_from m) (n_stimes x) <= r_time m)%Z ->
    n_ver x + 1 <= r_ver m -> r_type m = RPre ->
    holds_lock x (r_from m) (r_ver m) -> a_val (n_acc x) = r_val m ->
    recv_out j m a x xs (rep_accept j m true) false
| RO_acc xs :
    xs = set_stimes (st_set repaired_rules a (n_stimes x)) x ->
    (stime_of (r_from m) (n_stimes x) <= r_time m)%Z ->
    n_ver x + 1 <= r_ver m -> r_type m = RPre ->
    can_accept (n_cs x) = true -> promise_ok x (r_from m) (r_ver m) = true ->
    recv_out j m a x (set_acc (acc_of a) (set_tpc true xs)) (rep_accept j m true) false
| RO_rej xs :
    xs = set_stimes (st_set repaired_rules a (n_stimes x)) x ->
    (stime_of (r_from m) (n_stimes x) <= r_time m)%Z ->
    n_ver x + 1 <= r_ver m -> r_type m = RPre ->
    can_accept (n_cs x) && promise_ok x (r_from m) (r_ver m) = false ->
    ~ (holds_lock x (r_from m) (r_ver m) /\ a_val (n_acc x) = r_val m) ->
    recv_out j m a x xs (rep_reject j m xs) false
| RO_commit xs :
    xs = set_stimes (st_set repaired_rules a (n_stimes x)) x ->
    (stime_of (r_from m) (n_stimes x) <= r_time m)%Z ->
    n_ver x + 1 <= r_ver m -> r_type m = RCommit ->
    recv_out j m a x (accept_new (r_val m) (r_vptr a) (r_ver m) xs) (rep_accept j m true) true
| RO_abort_keep xs :
    xs = set_stimes (st_set repaired_rules a (n_stimes x)) x ->
    (stime_of (r_from m) (n_stimes x) <= r_time m)%Z ->
    n_ver x + 1 <= r_ver m -> r_type m = RAbort ->
    ~ holds_lock x (r_from m) (r_ver m) ->
    recv_out j m a x xs (rep_accept j m true) false
| RO_abort_release xs :
    xs = set_stimes (st_set repaired_rules a (n_stimes x)) x ->
    (stime_of (r_from m) (n_stimes x) <= r_time m)%Z ->
    n_ver x + 1 <= r_ver m -> r_type m = RAbort ->
    holds_lock x (r_from m) (r_ver m) ->
    recv_out j m a x (set_tpc false xs) (rep_accept j m true) false.

Lemma receive_out tr j m a x x' p inst :
  same_content a m -> receive (cfg tr) j m a x = (x', p, inst) -> recv_out j m a x x' p inst.
Proof.
  intros (Hty & Hval & Hfrom & Hver & Htime) H.
  unfold receive in H. rewrite filter_on_cfg in H. cbn [c_rules cfg] in H.
  rewrite st_get_rep, Hfrom, Htime in H.
  destruct (Z.ltb (r_time m) (stime_of (r_from m) (n_stimes x))) eqn:Ef.
  { inversion H; subst. apply RO_filtered. lia. }
  assert (Hst : (stime_of (r_from m) (n_stimes x) <= r_time m)%Z) by lia.
  remember (set_stimes (st_set repaired_rules a (n_stimes x)) x) as xs eqn:Hxs.
  unfold receive_locked in H. rewrite Hver, Hty in H.
  assert (Hv : n_ver xs = n_ver x) by (subst xs; reflexivity).
  assert (Ht : n_tpc xs = n_tpc x) by (subst xs; reflexivity).
  assert (Ha : n_acc xs = n_acc x) by (subst xs; reflexivity).
  assert (Hc : n_cs xs = n_cs x) by (subst xs; reflexivity).
  rewrite Hv, Ht, Ha, Hc in H.
  destruct (r_ver m <? n_ver x + 1) eqn:El.
  { inversion H; subst x' p inst. eapply RO_low; eauto. lia. }
  assert (n_ver x + 1 <= r_ver m) by lia.
  destruct (r_type m) eqn:Et.
  - (* RPre *)
    rewrite sender_eq_rep, value_eq_rep, Hfrom, Hval in H. cbn [ru_promise repaired_rules negb orb] in H.
    destruct (n_tpc x && Nat.eqb (a_ver (n_acc x)) (r_ver m) && (a_set (n_acc x) && Nat.eqb (a_from (n_acc x)) (r_from m))
              && Z.eqb (a_val (n_acc x)) (r_val m)) eqn:E1.
    + inversion H; subst x' p inst.
      repeat (apply andb_true_iff in E1; destruct E1 as [E1 ?]).
      match goal with Hx : a_set _ && _ = true |- _ => apply andb_true_iff in Hx as [? ?] end.
      eapply RO_re; eauto; [|lia]. unfold holds_lock. repeat split; auto; try (apply Nat.eqb_eq; auto).
    + assert (Hnl : ~ (holds_lock x (r_from m) (r_ver m) /\ a_val (n_acc x) = r_val m)).
      { intros ((h1 & h2 & h3 & h4) & h5). rewrite h1, h2, h3, h4, h5, !Nat.eqb_refl, Z.eqb_refl in E1. discriminate. }
      fold (promise_ok x (r_from m) (r_ver m)) in H.
      destruct (can_accept (n_cs x) && promise_ok x (r_from m) (r_ver m)) eqn:E2.
      * inversion H; subst x' p inst. apply andb_true_iff in E2 as [? ?]. eapply RO_acc; eauto.
      * inversion H; subst x' p inst. eapply RO_rej; eauto.
  - inversion H; subst x' p inst. rewrite Hval. eapply RO_commit; eauto.
  - rewrite sender_eq_rep, Hfrom in H. cbn [ru_promise repaired_rules andb] in H.
    destruct (negb (a_set (n_acc x) && Nat.eqb (a_from (n_acc x)) (r_from m))) eqn:E1.
    { inversion H; subst x' p inst. eapply RO_abort_keep; eauto. intros (h1 & h2 & h3 & h4).
      rewrite h2, h3, Nat.eqb_refl in E1. discriminate. }
    destruct (negb (n_tpc x)) eqn:E2.
    { inversion H; subst x' p inst. eapply RO_abort_keep; eauto. intros (h1 & h2 & h3 & h4).
      rewrite h1 in E2. discriminate. }
    destruct (negb (Nat.eqb (a_ver (n_acc x)) (r_ver m))) eqn:E3.
    { inversion H; subst x' p inst. eapply RO_abort_keep; eauto. intros (h1 & h2 & h3 & h4).
      rewrite h4, Nat.eqb_refl in E3. discriminate. }
    inversion H; subst x' p inst. eapply RO_abort_release; eauto.
    apply negb_false_iff in E1, E2, E3. apply andb_true_iff in E1 as [? E1].
    apply Nat.eqb_eq in E1, E3. repeat split; auto.
Qed.

Lemma req_eq_dec (a b : request) : {a = b} + {a <> b}.
Proof.
  destruct (req_eqb a b) eqn:E.
  - left. apply req_eqb_eq; auto.
  - right. intros H. apply req_eqb_eq in H. congruence.
Qed.
