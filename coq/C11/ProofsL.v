(* C11 — progress: from a released state a contender at the highest version can run a whole section to commit.
   The continuation is constructed explicitly: only fresh messages are used, each delivered once and answered. *)
From PGV Require Import C11.Model C11.Proofs0 C11.Proofs1 C11.Proofs2 C11.Proofs3 C11.Proofs4 C11.Proofs5.
From Coq Require Import Lia ZifyNat ZifyBool.

(* no operation in flight, no accepted pre-commit held: what the replicas look like once aborted proposals
   have been released *)
Definition released (s : state) : Prop :=
  forall i x, get s i = Some x ->
    n_op x = OpNone /\ n_preok x = false /\ n_tpc x = false /\ n_cs x <> InPre /\ n_cs x <> HasPre.

(* ---------- what one delivery does to a willing acceptor ---------- *)
Lemma recv_accepts j m a x x' p inst : recv_out j m a x x' p inst -> same_content a m ->
  r_type m = RPre -> (stime_of (r_from m) (n_stimes x) <= r_time m)%Z -> n_ver x + 1 <= r_ver m ->
  n_tpc x = false -> can_accept (n_cs x) = true -> a_ver (n_acc x) <= r_ver m ->
  p_acc p = true /\ p_real p = true /\ inst = false /\ n_ver x' = n_ver x /\ n_op x' = n_op x /\ n_preok x' = n_preok x.
Proof.
  intros Hout Hs Ht Hst Hv Htp Hca Hpr.
  destruct Hout; sxs; cbn; try lia; try congruence; auto 10.
  exfalso.
    match goal with Hq : can_accept _ && promise_ok _ _ _ = false |- _ =>
      unfold promise_ok in Hq; rewrite Hca, Htp in Hq; cbn [negb andb orb] in Hq;
      assert (Hle : a_ver (n_acc x) <=? r_ver m = true) by (apply Nat.leb_le; auto); rewrite Hle in Hq; discriminate end.
Qed.

Lemma recv_commits j m a x x' p inst : recv_out j m a x x' p inst ->
  r_type m = RCommit -> (stime_of (r_from m) (n_stimes x) <= r_time m)%Z -> n_ver x + 1 <= r_ver m ->
  p_acc p = true /\ inst = true /\ n_ver x' = r_ver m /\ n_old x' = r_val m /\ n_op x' = n_op x /\ n_preok x' = n_preok x.
Proof.
  intros Hout Ht Hst Hv.
  destruct Hout; sxs; cbn; try lia; try congruence.
  rewrite accept_new_ver, accept_new_old, accept_new_op, accept_new_preok. auto 10.
Qed.

(* ---------- one step, computed ---------- *)
Definition frame (s s' : state) (i : nat) : Prop :=
  (forall l, l <> i -> get s' l = get s l) /\ nnodes s' = nnodes s.

Lemma frame_apply s f i x : f_upd f = Some (i, x) -> frame s (apply_eff s f) i.
Proof.
  intros H. split; [|apply nnodes_apply]. intros l Hl. eapply get_apply_other; eauto.
Qed.

Lemma step_deliver tr s i q j m x : lookup_req s i q = Some m -> get s j = Some x -> i <> j ->
  exists x' p inst p', recv_out j m (transported (cfg tr) s m) x x' p inst /\ same_reply p p' /\
    step (cfg tr) s (EDeliver i q j) =
      Some (apply_eff s (mkEff (Some (j, x')) [] [p'] (if inst then [(j, r_ver m, r_val m)] else []) [] 3 false)).
Proof.
  intros Hl Hx Hne. unfold step. cbn [effect_of]. rewrite Hl, Hx.
  destruct (Nat.eqb i j) eqn:E; [apply Nat.eqb_eq in E; congruence|].
  destruct (receive (cfg tr) j m (transported (cfg tr) s m) x) as [[x' p] inst] eqn:Er.
  apply receive_out in Er; [|apply transported_same].
  exists x', p, inst. eexists. split; [eauto|]. split; [|reflexivity].
  unfold same_reply. destruct tr; cbn; auto 10.
Qed.

Lemma reps_of_app s f m j :
  reps_of (apply_eff s f) m j = reps_of s m j ++ filter (fun p => req_eqb (p_req p) m && Nat.eqb (p_from p) j) (f_rep f).
Proof. unfold reps_of. cbn. apply filter_app. Qed.

Lemma reqs_of_app s f i :
  reqs_of (apply_eff s f) i = reqs_of s i ++ filter (fun m => Nat.eqb (r_from m) i) (f_sent f).
Proof. unfold reqs_of. cbn. apply filter_app. Qed.

Lemma lookup_req_keep s f i q m : lookup_req s i q = Some m -> lookup_req (apply_eff s f) i q = Some m.
Proof.
  unfold lookup_req. rewrite reqs_of_app. intros H. rewrite nth_error_app1; auto.
  apply nth_error_Some. congruence.
Qed.

Lemma nth_error_snoc {A} (l : list A) x : nth_error (l ++ [x]) (List.length l) = Some x.
Proof. rewrite nth_error_app2 by lia. rewrite Nat.sub_diag. reflexivity. Qed.

Lemma required_le n : 2 <= n -> required n <= n - 1.
Proof.
  intros H. unfold required. destruct (Nat.even (n - 1)).
  - apply Nat.div_le_upper_bound; lia.
  - assert ((n - 1) / 2 < n - 1); [apply Nat.div_lt; lia|lia].
Qed.

Definition same_core (x y : node) : Prop :=
  n_val y = n_val x /\ n_old y = n_old x /\ n_ver y = n_ver x /\ n_cs y = n_cs x /\ n_tpc y = n_tpc x /\
  n_acc y = n_acc x /\ n_clock y = n_clock x /\ n_preok y = n_preok x.

Lemma same_core_refl x : same_core x x.
Proof. unfold same_core. auto 10. Qed.

Lemma same_core_trans x y w : same_core x y -> same_core y w -> same_core x w.
Proof. unfold same_core. intuition congruence. Qed.

(* the proposer's handler consuming an accepting reply for its current pre-commit *)
Lemma step_reply_pre tr s i q j r m p xi yes no :
  lookup_req s i q = Some m -> get s i = Some xi -> lookup_rep s m j r = Some p -> p_acc p = true ->
  r_type m = RPre -> n_op xi = OpPre m yes no -> ~ In j yes -> ~ In j no ->
  step (cfg tr) s (EReply i q j r) =
    Some (apply_eff s (mkEff (Some (i, set_op (OpPre m (j :: yes) no) xi)) [] [] [] [] 0 false)).
Proof.
  intros Hl Hx Hp Ha Ht Hop Hy Hn. unfold step. cbn [effect_of]. rewrite Hl, Hx, Hp.
  assert (Hln : learn_node xi p = xi) by (unfold learn_node, learns; rewrite Ha; reflexivity).
  assert (Hli : learn_inst i xi p = []) by (unfold learn_inst, learns; rewrite Ha; reflexivity).
  rewrite Hln, Hli, Ht, Hop, Ha. cbn [count_reply].
  rewrite req_eqb_refl. apply mem_false in Hy, Hn. rewrite Hy, Hn. reflexivity.
Qed.

Lemma step_reply_commit tr s i q j r m p xi ov acks :
  lookup_req s i q = Some m -> get s i = Some xi -> lookup_rep s m j r = Some p -> p_acc p = true ->
  r_type m = RCommit -> n_op xi = OpCommit m ov acks -> ~ In j acks ->
  step (cfg tr) s (EReply i q j r) =
    Some (apply_eff s (mkEff (Some (i, set_op (OpCommit m ov (j :: acks)) xi)) [] [] [] [] 0 false)).
Proof.
  intros Hl Hx Hp Ha Ht Hop Hy. unfold step. cbn [effect_of]. rewrite Hl, Hx, Hp.
  assert (Hln : learn_node xi p = xi) by (unfold learn_node, learns; rewrite Ha; reflexivity).
  assert (Hli : learn_inst i xi p = []) by (unfold learn_inst, learns; rewrite Ha; reflexivity).
  rewrite Hln, Hli, Ht, Hop, Ha. cbn [count_reply negb andb].
  rewrite req_eqb_refl. apply mem_false in Hy. rewrite Hy. reflexivity.
Qed.

Section Progress.
Variables (tr : transport) (n : nat) (z : Z).

(* phase 1: every replica of the list votes for the pre-commit m of proposer i *)
Lemma phase_votes i q m k : r_type m = RPre -> r_from m = i -> r_ver m = k ->
  forall R s xi yes, reachable tr n z s ->
  lookup_req s i q = Some m -> get s i = Some xi -> n_op xi = OpPre m yes [] ->
  NoDup R -> (forall j, In j R -> j <> i /\ ~ In j yes /\
      exists xj, get s j = Some xj /\ n_tpc xj = false /\ can_accept (n_cs xj) = true /\
                 n_ver xj + 1 <= k /\ a_ver (n_acc xj) <= k) ->
  exists es s' xi', run (cfg tr) s es = Some s' /\ reachable tr n z s' /\
    lookup_req s' i q = Some m /\ get s' i = Some xi' /\ n_op xi' = OpPre m (rev R ++ yes) [] /\ same_core xi xi' /\
    g_sent s' = g_sent s /\
    (forall j, In j R -> exists xj, get s' j = Some xj /\ n_ver xj + 1 <= k) /\
    (forall l, l <> i -> ~ In l R -> get s' l = get s l).
Proof.
  intros Ht Hf Hk R. induction R as [|j R IH]; intros s xi yes Hr Hl Hx Hop Hnd HR.
  - exists [], s, xi. cbn. repeat split; auto using same_core_refl. intros j [].
  - inversion Hnd as [|? ? Hnj HndR]; subst.
    destruct (HR j (or_introl eq_refl)) as (Hji & Hjy & xj & Hxj & j1 & j2 & j3 & j4).
    pose proof (reachable_inv _ _ _ _ Hr) as I.
    pose proof (IB1 s I _ xi Hx) as Hok. unfold op_ok in Hok. rewrite Hop in Hok.
    destruct Hok as (o1 & o2 & o3 & o4 & _).
    pose proof (IC4 s I j xj _ xi Hxj Hx) as Hst. rewrite <- o4 in Hst.
    (* deliver *)
    assert (Hij : r_from m <> j) by congruence.
    destruct (step_deliver tr s (r_from m) q j m xj Hl Hxj Hij) as (x' & p & inst & p' & Hout & Hsr & Hs1).
    destruct (recv_accepts _ _ _ _ _ _ _ Hout (transported_same _ _ _) Ht Hst j3 j1 j2 j4) as (a1 & a2 & a3 & a4 & a5 & a6).
    pose proof (recv_frame _ _ _ _ _ _ _ Hout) as (_ & _ & _ & f1 & f2).
    destruct Hsr as (e1 & e2 & e3 & _).
    set (s1 := apply_eff s (mkEff (Some (j, x')) [] [p'] (if inst then [(j, r_ver m, r_val m)] else []) [] 3 false)) in *.
    assert (Hr1 : reachable tr n z s1) by (eapply reachable_step; eauto).
    assert (Hx1 : get s1 (r_from m) = Some xi).
    { unfold s1. rewrite (get_apply_other _ _ j x') by (cbn; auto). auto. }
    assert (Hl1 : lookup_req s1 (r_from m) q = Some m) by (apply lookup_req_keep; auto).
    assert (Hp1 : lookup_rep s1 m j (List.length (reps_of s m j)) = Some p').
    { unfold lookup_rep, s1. rewrite reps_of_app. cbn [f_rep filter].
      rewrite e2, f1, e1, f2, req_eqb_refl, Nat.eqb_refl. cbn. apply nth_error_snoc. }
    (* answer *)
    assert (Hacc : p_acc p' = true) by congruence.
    pose proof (step_reply_pre tr s1 (r_from m) q j _ m p' xi yes [] Hl1 Hx1 Hp1 Hacc Ht Hop Hjy (fun h => h)) as Hs2.
    set (xi2 := set_op (OpPre m (j :: yes) []) xi) in *.
    set (s2 := apply_eff s1 (mkEff (Some (r_from m, xi2)) [] [] [] [] 0 false)) in *.
    assert (Hr2 : reachable tr n z s2) by (eapply reachable_step; eauto).
    assert (Hx2 : get s2 (r_from m) = Some xi2).
    { unfold s2. apply get_apply_same; [reflexivity|]. eapply get_lt; eauto. }
    assert (Hl2 : lookup_req s2 (r_from m) q = Some m) by (apply lookup_req_keep; auto).
    assert (Hg2 : forall l, l <> r_from m -> l <> j -> get s2 l = get s l).
    { intros l h1 h2. unfold s2. rewrite (get_apply_other _ _ (r_from m) xi2) by (cbn; auto).
      unfold s1. rewrite (get_apply_other _ _ j x') by (cbn; auto). reflexivity. }
    assert (Hj2 : get s2 j = Some x').
    { unfold s2. rewrite (get_apply_other _ _ (r_from m) xi2) by (cbn; auto).
      unfold s1. apply get_apply_same; [reflexivity|]. eapply get_lt; eauto. }
    (* the rest of the list *)
    destruct (IH s2 xi2 (j :: yes) Hr2 Hl2 Hx2 eq_refl HndR) as (es & s' & xi' & Hrun & Hr' & Hl' & Hx' & Hop' & Hc' & Hsent' & HR' & Hfr').
    { intros l Hlin. destruct (HR l (or_intror Hlin)) as (h1 & h2 & xl & h3 & h4).
      assert (l <> j) by (intros ->; contradiction).
      split; auto. split. { intros [->|h]; [congruence|contradiction]. }
      exists xl. rewrite Hg2 by auto. auto. }
    exists (EDeliver (r_from m) q j :: EReply (r_from m) q j (List.length (reps_of s m j)) :: es), s', xi'.
    split. { cbn [run]. rewrite Hs1. fold s1. rewrite Hs2. fold s2. exact Hrun. }
    split; auto. split; auto. split; auto.
    split. { rewrite Hop'. cbn [rev]. rewrite <- app_assoc. reflexivity. }
    split. { eapply same_core_trans; [|exact Hc']. unfold same_core, xi2. cbn. auto 10. }
    split. { rewrite Hsent'. unfold s2, s1. cbn. rewrite !app_nil_r. reflexivity. }
    split.
    + intros l [<-|Hlin]; [|apply HR'; auto].
      exists x'. rewrite Hfr' by auto. split; auto. lia.
    + intros l h1 h2. rewrite Hfr' by (auto; intros h; apply h2; right; auto).
      apply Hg2; auto. intros ->. apply h2. left. reflexivity.
Qed.

(* phase 2: every replica of the list installs the committed value *)
Lemma phase_commits i q c k v ov : r_type c = RCommit -> r_from c = i -> r_ver c = k -> r_val c = v ->
  forall R s xi acks, reachable tr n z s ->
  lookup_req s i q = Some c -> get s i = Some xi -> n_op xi = OpCommit c ov acks -> n_clock xi = r_time c ->
  NoDup R -> (forall j, In j R -> j <> i /\ ~ In j acks /\ exists xj, get s j = Some xj /\ n_ver xj + 1 <= k) ->
  exists es s' xi', run (cfg tr) s es = Some s' /\ reachable tr n z s' /\
    lookup_req s' i q = Some c /\ get s' i = Some xi' /\ n_op xi' = OpCommit c ov (rev R ++ acks) /\ same_core xi xi' /\
    (forall j, In j R -> exists xj, get s' j = Some xj /\ n_ver xj = k /\ n_old xj = v) /\
    (forall l, l <> i -> ~ In l R -> get s' l = get s l).
Proof.
  intros Ht Hf Hk Hv R. induction R as [|j R IH]; intros s xi acks Hr Hl Hx Hop Hclk Hnd HR.
  - exists [], s, xi. cbn. repeat split; auto using same_core_refl. intros j [].
  - inversion Hnd as [|? ? Hnj HndR]; subst.
    destruct (HR j (or_introl eq_refl)) as (Hji & Hjy & xj & Hxj & j3).
    pose proof (reachable_inv _ _ _ _ Hr) as I.
    pose proof (IC4 s I j xj _ xi Hxj Hx) as Hst. rewrite Hclk in Hst.
    assert (Hij : r_from c <> j) by congruence.
    destruct (step_deliver tr s (r_from c) q j c xj Hl Hxj Hij) as (x' & p & inst & p' & Hout & Hsr & Hs1).
    destruct (recv_commits _ _ _ _ _ _ _ Hout Ht Hst j3) as (a1 & a2 & a3 & a4 & a5 & a6).
    pose proof (recv_frame _ _ _ _ _ _ _ Hout) as (_ & _ & _ & f1 & f2).
    destruct Hsr as (e1 & e2 & e3 & _).
    set (s1 := apply_eff s (mkEff (Some (j, x')) [] [p'] (if inst then [(j, r_ver c, r_val c)] else []) [] 3 false)) in *.
    assert (Hr1 : reachable tr n z s1) by (eapply reachable_step; eauto).
    assert (Hx1 : get s1 (r_from c) = Some xi).
    { unfold s1. rewrite (get_apply_other _ _ j x') by (cbn; auto). auto. }
    assert (Hl1 : lookup_req s1 (r_from c) q = Some c) by (apply lookup_req_keep; auto).
    assert (Hp1 : lookup_rep s1 c j (List.length (reps_of s c j)) = Some p').
    { unfold lookup_rep, s1. rewrite reps_of_app. cbn [f_rep filter].
      rewrite e2, f1, e1, f2, req_eqb_refl, Nat.eqb_refl. cbn. apply nth_error_snoc. }
    assert (Hacc : p_acc p' = true) by congruence.
    pose proof (step_reply_commit tr s1 (r_from c) q j _ c p' xi ov acks Hl1 Hx1 Hp1 Hacc Ht Hop Hjy) as Hs2.
    set (xi2 := set_op (OpCommit c ov (j :: acks)) xi) in *.
    set (s2 := apply_eff s1 (mkEff (Some (r_from c, xi2)) [] [] [] [] 0 false)) in *.
    assert (Hr2 : reachable tr n z s2) by (eapply reachable_step; eauto).
    assert (Hx2 : get s2 (r_from c) = Some xi2).
    { unfold s2. apply get_apply_same; [reflexivity|]. eapply get_lt; eauto. }
    assert (Hl2 : lookup_req s2 (r_from c) q = Some c) by (apply lookup_req_keep; auto).
    assert (Hg2 : forall l, l <> r_from c -> l <> j -> get s2 l = get s l).
    { intros l h1 h2. unfold s2. rewrite (get_apply_other _ _ (r_from c) xi2) by (cbn; auto).
      unfold s1. rewrite (get_apply_other _ _ j x') by (cbn; auto). reflexivity. }
    assert (Hj2 : get s2 j = Some x').
    { unfold s2. rewrite (get_apply_other _ _ (r_from c) xi2) by (cbn; auto).
      unfold s1. apply get_apply_same; [reflexivity|]. eapply get_lt; eauto. }
    destruct (IH s2 xi2 (j :: acks) Hr2 Hl2 Hx2 eq_refl Hclk HndR) as (es & s' & xi' & Hrun & Hr' & Hl' & Hx' & Hop' & Hc' & HR' & Hfr').
    { intros l Hlin. destruct (HR l (or_intror Hlin)) as (h1 & h2 & xl & h3 & h4).
      assert (l <> j) by (intros ->; contradiction).
      split; auto. split. { intros [->|h]; [congruence|contradiction]. }
      exists xl. rewrite Hg2 by auto. auto. }
    exists (EDeliver (r_from c) q j :: EReply (r_from c) q j (List.length (reps_of s c j)) :: es), s', xi'.
    split. { cbn [run]. rewrite Hs1. fold s1. rewrite Hs2. fold s2. exact Hrun. }
    split; auto. split; auto. split; auto.
    split. { rewrite Hop'. cbn [rev]. rewrite <- app_assoc. reflexivity. }
    split. { eapply same_core_trans; [|exact Hc']. unfold same_core, xi2. cbn. auto 10. }
    split.
    + intros l [<-|Hlin]; [|apply HR'; auto].
      exists x'. rewrite Hfr' by auto. auto.
    + intros l h1 h2. rewrite Hfr' by (auto; intros h; apply h2; right; auto).
      apply Hg2; auto. intros ->. apply h2. left. reflexivity.
Qed.

(* the replicas other than i *)
Definition others (i : nat) : list nat := filter (fun j => negb (Nat.eqb j i)) (seq 0 n).

Lemma others_spec i j : In j (others i) <-> j < n /\ j <> i.
Proof.
  unfold others. rewrite filter_In, in_seq. split.
  - intros (h1 & h2). apply negb_true_iff, Nat.eqb_neq in h2. lia.
  - intros (h1 & h2). split; [lia|]. apply negb_true_iff, Nat.eqb_neq. auto.
Qed.

Lemma others_nodup i : NoDup (others i).
Proof. apply NoDup_filter, seq_NoDup. Qed.

Lemma others_length i : i < n -> List.length (others i) = n - 1.
Proof.
  intros Hi. unfold others.
  assert (H : forall a len, a <= i < a + len ->
     List.length (filter (fun j => negb (Nat.eqb j i)) (seq a len)) = len - 1).
  { intros a len. revert a. induction len as [|len IH]; intros a Ha; [lia|]. cbn [seq filter].
    destruct (Nat.eqb a i) eqn:E; cbn [negb].
    - apply Nat.eqb_eq in E. subst a.
      assert (Hall : forall b l, i < b -> filter (fun j => negb (Nat.eqb j i)) (seq b l) = seq b l).
      { intros b l. revert b. induction l as [|l IHl]; intros b Hb; cbn; auto.
        destruct (Nat.eqb b i) eqn:E2; [apply Nat.eqb_eq in E2; lia|]. cbn. rewrite IHl by lia. reflexivity. }
      rewrite Hall by lia. rewrite seq_length. lia.
    - apply Nat.eqb_neq in E. cbn [List.length]. rewrite IH by lia. lia. }
  apply H. lia.
Qed.

Lemma reachable_nnodes s : reachable tr n z s -> nnodes s = n.
Proof.
  intros (es & H). revert H. assert (Hi : nnodes (init_state n z) = n) by (unfold nnodes; cbn; apply repeat_length).
  revert Hi. generalize (init_state n z). induction es as [|e r IH]; intros s0 H0 Hr; cbn in Hr.
  - inversion Hr; subst; auto.
  - destruct (step (cfg tr) s0 e) as [s1|] eqn:Es; [|discriminate].
    eapply IH; [|eauto]. rewrite (nn_eq _ _ _ _ Es). auto.
Qed.

(* ---------- the single steps of the contender, computed ---------- *)
Lemma step_abort_plain s i x : get s i = Some x -> n_op x = OpNone -> n_cs x <> HasPre ->
  step (cfg tr) s (EAbort i 0) =
    Some (apply_eff s (eff_node i (set_cs NotCS (set_preok false (set_val (n_old x) (n_optr x) x))))).
Proof.
  intros Hx Hop Hcs. unfold step. cbn [effect_of]. rewrite Hx, Hop. destruct (n_cs x); try reflexivity. congruence.
Qed.

Lemma step_write s i x v : get s i = Some x -> n_op x = OpNone -> n_preok x = false -> n_cs x = NotCS ->
  step (cfg tr) s (EWrite i v) =
    Some (apply_eff s (mkEff (Some (i, set_secver (n_ver x) (set_cs InCS (set_val v (g_nextptr s) x)))) [] [] [] [] 1 false)).
Proof.
  intros Hx Hop Hp Hcs. unfold step. cbn [effect_of]. rewrite Hx, Hop, Hp, Hcs. cbn [perm_failed].
  unfold enter_cs. cbn [n_cs set_val]. rewrite Hcs. reflexivity.
Qed.

Lemma step_precall s i x : get s i = Some x -> n_op x = OpNone -> n_preok x = false ->
  step (cfg tr) s (EPreCall i) = Some (apply_eff s (eff_node i (set_op (OpSleep (n_ver x)) x))).
Proof. intros Hx Hop Hp. unfold step. cbn [effect_of]. rewrite Hx, Hop, Hp. reflexivity. Qed.

Lemma step_prewake s i x t : get s i = Some x -> n_op x = OpSleep (n_ver x) -> n_tpc x = false -> n_cs x = InCS ->
  (n_clock x < t)%Z ->
  step (cfg tr) s (EPreWake i t) =
    Some (apply_eff s (eff_send i (set_clock t (set_op (OpPre (mk_pre i x t) [] []) (set_cs InPre x))) (mk_pre i x t))).
Proof.
  intros Hx Hop Ht Hcs Hc. unfold step. cbn [effect_of]. rewrite Hx, Hop, Nat.eqb_refl, Ht, Hcs. cbn [negb orb perm_failed].
  assert (Hl : Z.ltb (n_clock x) t = true) by lia. rewrite Hl. reflexivity.
Qed.

Lemma step_prefinish_ok s i x m yes : get s i = Some x -> n_op x = OpPre m yes [] -> n_cs x = InPre ->
  required (nnodes s) <= List.length yes -> a_ver (n_acc x) <= r_ver m ->
  step (cfg tr) s (EPreFinish i 0) =
    Some (apply_eff s (mkEff (Some (i, set_preok true (set_op OpNone (set_cs HasPre (set_att 0 x))))) [] [] [] [m] 0 false)).
Proof.
  intros Hx Hop Hcs Hreq Hpr. unfold step. cbn [effect_of]. rewrite Hx, Hop, Hcs.
  assert (H1 : required (nnodes s) <=? List.length yes = true) by (apply Nat.leb_le; auto).
  assert (H2 : r_ver m <? a_ver (n_acc x) = false) by (apply Nat.ltb_ge; auto).
  rewrite H1, H2. cbn. reflexivity.
Qed.

Lemma step_commit s i x t : get s i = Some x -> n_op x = OpNone -> n_preok x = true -> n_cs x = HasPre ->
  n_tpc x = false -> (n_clock x < t)%Z ->
  step (cfg tr) s (ECommit i t) =
    Some (apply_eff s (mkEff (Some (i, set_clock t (set_op (OpCommit (mk_commit i x t) (n_ver x) []) x)))
                             [mk_commit i x t] [] [] [] 0 false)).
Proof.
  intros Hx Hop Hp Hcs Ht Hc. unfold step. cbn [effect_of]. rewrite Hx, Hop, Hp, Hcs, Ht.
  assert (Hl : Z.ltb (n_clock x) t = true) by lia. rewrite Hl. reflexivity.
Qed.

Lemma step_commitfinish s i x c acks : get s i = Some x -> n_op x = OpCommit c (n_ver x) acks ->
  required (nnodes s) <= List.length acks ->
  step (cfg tr) s (ECommitFinish i) =
    Some (apply_eff s (mkEff (Some (i, set_install (n_ver x + 1) (n_val x) (n_vptr x)
                                         (set_preok false (set_op OpNone (set_cs NotCS x)))))
                             [] [] [(i, n_ver x + 1, n_val x)] [] 0 false)).
Proof.
  intros Hx Hop Hreq. unfold step. cbn [effect_of]. rewrite Hx, Hop.
  assert (H1 : required (nnodes s) <=? List.length acks = true) by (apply Nat.leb_le; auto).
  rewrite H1, Nat.eqb_refl. reflexivity.
Qed.

(* in a released state whose highest version is ver(xi), nobody has voted beyond ver(xi)+1 *)
Lemma released_promise s i xi j xj : reachable tr n z s -> released s -> get s i = Some xi ->
  (forall l y, get s l = Some y -> n_ver y <= n_ver xi) -> get s j = Some xj -> a_ver (n_acc xj) <= n_ver xi + 1.
Proof.
  intros Hr Hrel Hx Hmax Hj. pose proof (reachable_inv _ _ _ _ Hr) as I.
  destruct (Nat.le_gt_cases (a_ver (n_acc xj)) (n_ver xi + 1)) as [|Hgt]; auto. exfalso.
  destruct (evidence_committed s I j xj (n_ver xi + 1) Hj) as (v & c & c1 & c2 & c3 & c4); [lia|right; lia|].
  destruct (IA1 s I c c1) as (h1 & _).
  destruct (nth_error (g_nodes s) (r_from c)) as [xw|] eqn:Ew; [|apply nth_error_None in Ew; unfold nnodes in h1; lia].
  destruct (IE8 s I c xw c1 c2 Ew) as [h|(ov & acks & h)].
  - specialize (Hmax _ _ Ew). lia.
  - destruct (Hrel _ _ Ew) as (o & _). congruence.
Qed.

Lemma progress_majority_lemma s i xi v Q : reachable tr n z s -> released s -> get s i = Some xi ->
  (forall j y, get s j = Some y -> n_ver y <= n_ver xi) ->
  NoDup Q -> (forall j, In j Q -> j < n /\ j <> i) -> required n <= List.length Q ->
  exists es' s', run (cfg tr) s es' = Some s' /\
    forall j y, j = i \/ In j Q -> get s' j = Some y -> n_ver y = n_ver xi + 1 /\ n_old y = v.
Proof.
  intros Hr Hrel Hx Hmax HQnd HQ HQlen.
  pose proof (reachable_nnodes s Hr) as Hnn.
  pose proof (get_lt _ _ _ Hx) as Hi. rewrite Hnn in Hi.
  destruct (Hrel i xi Hx) as (r1 & r2 & r3 & r4 & r5).
  set (k := n_ver xi + 1).
  (* 1. Abort clears whatever section was left over *)
  set (x1 := set_cs NotCS (set_preok false (set_val (n_old xi) (n_optr xi) xi))).
  set (s1 := apply_eff s (eff_node i x1)).
  assert (S1 : step (cfg tr) s (EAbort i 0) = Some s1) by (apply step_abort_plain; auto).
  assert (G1 : get s1 i = Some x1) by (apply get_apply_same; [reflexivity|eapply get_lt; eauto]).
  (* 2. Write *)
  set (x2 := set_secver (n_ver x1) (set_cs InCS (set_val v (g_nextptr s1) x1))).
  set (s2 := apply_eff s1 (mkEff (Some (i, x2)) [] [] [] [] 1 false)).
  assert (S2 : step (cfg tr) s1 (EWrite i v) = Some s2) by (apply step_write; auto).
  assert (G2 : get s2 i = Some x2) by (apply get_apply_same; [reflexivity|eapply get_lt; eauto]).
  (* 3. PreCommit is called *)
  set (x3 := set_op (OpSleep (n_ver x2)) x2).
  set (s3 := apply_eff s2 (eff_node i x3)).
  assert (S3 : step (cfg tr) s2 (EPreCall i) = Some s3) by (apply step_precall; auto).
  assert (G3 : get s3 i = Some x3) by (apply get_apply_same; [reflexivity|eapply get_lt; eauto]).
  (* 4. the pre-commit is broadcast *)
  set (t := (n_clock xi + 1)%Z).
  set (m := mk_pre i x3 t).
  set (x4 := set_clock t (set_op (OpPre m [] []) (set_cs InPre x3))).
  set (s4 := apply_eff s3 (eff_send i x4 m)).
  assert (S4 : step (cfg tr) s3 (EPreWake i t) = Some s4).
  { apply step_prewake; auto. unfold t. cbn. lia. }
  assert (G4 : get s4 i = Some x4) by (apply get_apply_same; [reflexivity|eapply get_lt; eauto]).
  assert (R4 : reachable tr n z s4) by (repeat (eapply reachable_step; [|eassumption]); auto).
  assert (F4 : forall l, l <> i -> get s4 l = get s l).
  { intros l Hl. unfold s4, s3, s2, s1.
    rewrite (get_apply_other _ _ i x4) by (cbn; auto). rewrite (get_apply_other _ _ i x3) by (cbn; auto).
    rewrite (get_apply_other _ _ i x2) by (cbn; auto). rewrite (get_apply_other _ _ i x1) by (cbn; auto). reflexivity. }
  set (q := List.length (reqs_of s i)).
  assert (L4 : lookup_req s4 i q = Some m).
  { unfold lookup_req, s4. rewrite reqs_of_app. cbn [f_sent eff_send filter r_from m mk_pre]. rewrite Nat.eqb_refl.
    unfold s3, s2, s1. rewrite !reqs_of_app. cbn [f_sent eff_node filter]. rewrite !app_nil_r. apply nth_error_snoc. }
  (* 5. all other replicas vote *)
  destruct (phase_votes i q m k eq_refl eq_refl eq_refl Q s4 x4 [] R4 L4 G4 eq_refl HQnd)
    as (es5 & s5 & x5 & Run5 & R5 & L5 & G5 & O5 & C5 & Sent5 & V5 & F5).
  { intros j Hj. apply HQ in Hj as (Hjn & Hji). split; auto. split; [intros []|].
    destruct (nth_error (g_nodes s) j) as [xj|] eqn:Ej; [|apply nth_error_None in Ej; unfold nnodes in Hnn; lia].
    exists xj. rewrite F4 by auto. split; auto.
    destruct (Hrel j xj Ej) as (q1 & q2 & q3 & q4 & q5).
    split; auto. split. { destruct (n_cs xj); auto; congruence. }
    split. { specialize (Hmax _ _ Ej). unfold k. lia. }
    unfold k. apply (released_promise s i xi j xj Hr Hrel Hx Hmax Ej). }
  destruct C5 as (c1 & c2 & c3 & c4 & c5 & c6 & c7 & c8).
  (* 6. the pre-commit succeeds *)
  assert (Len : List.length (rev Q ++ []) = List.length Q) by (rewrite app_nil_r, rev_length; reflexivity).
  set (x6 := set_preok true (set_op OpNone (set_cs HasPre (set_att 0 x5)))).
  set (s6 := apply_eff s5 (mkEff (Some (i, x6)) [] [] [] [m] 0 false)).
  assert (S6 : step (cfg tr) s5 (EPreFinish i 0) = Some s6).
  { apply (step_prefinish_ok s5 i x5 m (rev Q ++ [])); auto; try (rewrite c4; reflexivity).
    - rewrite (reachable_nnodes s5 R5), Len. auto.
    - rewrite c6. cbn. apply (released_promise s i xi i xi Hr Hrel Hx Hmax Hx). }
  assert (G6 : get s6 i = Some x6) by (apply get_apply_same; [reflexivity|eapply get_lt; eauto]).
  (* 7. Commit is called *)
  set (t2 := (t + 1)%Z).
  set (c := mk_commit i x6 t2).
  set (x7 := set_clock t2 (set_op (OpCommit c (n_ver x6) []) x6)).
  set (s7 := apply_eff s6 (mkEff (Some (i, x7)) [c] [] [] [] 0 false)).
  assert (S7 : step (cfg tr) s6 (ECommit i t2) = Some s7).
  { apply step_commit; auto; cbn; try reflexivity; [rewrite c5; cbn; exact r3 | rewrite c7; cbn; unfold t2; lia]. }
  assert (G7 : get s7 i = Some x7) by (apply get_apply_same; [reflexivity|eapply get_lt; eauto]).
  assert (R7 : reachable tr n z s7) by (repeat (eapply reachable_step; [|eassumption]); auto).
  assert (F7 : forall l, l <> i -> get s7 l = get s5 l).
  { intros l Hl. unfold s7, s6. rewrite (get_apply_other _ _ i x7) by (cbn; auto).
    rewrite (get_apply_other _ _ i x6) by (cbn; auto). reflexivity. }
  assert (L7 : lookup_req s7 i (S q) = Some c).
  { unfold lookup_req, s7. rewrite reqs_of_app. cbn [f_sent filter r_from c mk_commit]. rewrite Nat.eqb_refl.
    unfold s6. rewrite reqs_of_app. cbn [f_sent filter]. rewrite app_nil_r.
    assert (Hq : List.length (reqs_of s5 i) = S q).
    { unfold reqs_of. rewrite Sent5. unfold s4. cbn. rewrite filter_app. cbn [filter r_from m mk_pre]. rewrite Nat.eqb_refl.
      unfold s3, s2, s1. cbn. rewrite !app_nil_r, app_length. cbn. unfold q, reqs_of. lia. }
    rewrite <- Hq. apply nth_error_snoc. }
  assert (Vk : n_ver x6 + 1 = k) by (cbn; rewrite c3; reflexivity).
  (* 8. all other replicas install the value *)
  destruct (phase_commits i (S q) c k v (n_ver x6) eq_refl eq_refl Vk (eq_trans c1 eq_refl) Q s7 x7 [] R7 L7 G7 eq_refl eq_refl HQnd)
    as (es8 & s8 & x8 & Run8 & R8 & L8 & G8 & O8 & C8 & V8 & F8).
  { intros j Hj. split; [apply HQ in Hj; tauto|]. split; [intros []|].
    destruct (V5 j Hj) as (xj & g1 & g2). exists xj. rewrite F7 by (apply HQ in Hj; tauto). auto. }
  destruct C8 as (d1 & d2 & d3 & d4 & d5 & d6 & d7 & d8).
  (* 9. the commit completes *)
  set (x9 := set_install (n_ver x8 + 1) (n_val x8) (n_vptr x8) (set_preok false (set_op OpNone (set_cs NotCS x8)))).
  set (s9 := apply_eff s8 (mkEff (Some (i, x9)) [] [] [(i, n_ver x8 + 1, n_val x8)] [] 0 false)).
  assert (S9 : step (cfg tr) s8 (ECommitFinish i) = Some s9).
  { apply (step_commitfinish s8 i x8 c (rev Q ++ [])).
    - auto.
    - rewrite O8, d3. reflexivity.
    - rewrite (reachable_nnodes s8 R8), Len. auto. }
  exists ([EAbort i 0; EWrite i v; EPreCall i; EPreWake i t] ++ es5 ++ [EPreFinish i 0; ECommit i t2] ++ es8 ++ [ECommitFinish i]), s9.
  split.
  { cbn [app run]. rewrite S1, S2, S3, S4. rewrite run_app, Run5. cbn [app run]. rewrite S6, S7.
    rewrite run_app, Run8. cbn [run]. rewrite S9. reflexivity. }
  intros j y Hj Hy. destruct (Nat.eq_dec j i) as [->|Hji].
  - assert (G9 : get s9 i = Some x9) by (apply get_apply_same; [reflexivity|eapply get_lt; eauto]).
    rewrite G9 in Hy. inversion Hy; subst y. cbn. rewrite d3, d1. cbn. rewrite c3, c1. cbn. auto.
  - destruct Hj as [->|Hj]; [congruence|].
    unfold s9 in Hy. rewrite (get_apply_other _ _ i x9) in Hy by (cbn; auto).
    destruct (V8 j Hj) as (xj & g1 & g2 & g3).
    assert (y = xj) by congruence. subst. auto.
Qed.

(* all replicas reachable: everybody installs the new value *)
Lemma progress_lemma s i xi v : reachable tr n z s -> 2 <= n -> released s -> get s i = Some xi ->
  (forall j y, get s j = Some y -> n_ver y <= n_ver xi) ->
  exists es' s', run (cfg tr) s es' = Some s' /\
    forall j y, get s' j = Some y -> n_ver y = n_ver xi + 1 /\ n_old y = v.
Proof.
  intros Hr Hn Hrel Hx Hmax.
  pose proof (reachable_nnodes s Hr) as Hnn.
  pose proof (get_lt _ _ _ Hx) as Hi. rewrite Hnn in Hi.
  destruct (progress_majority_lemma s i xi v (others i) Hr Hrel Hx Hmax (others_nodup i)) as (es & s' & Hrun & Hall).
  - intros j Hj. apply others_spec; auto.
  - rewrite others_length by auto. apply required_le; auto.
  - exists es, s'. split; auto. intros j y Hy. apply (Hall j y); auto.
    destruct (Nat.eq_dec j i); auto. right. apply others_spec. split; auto.
    assert (Hs' : reachable tr n z s').
    { destruct Hr as (es0 & H0). exists (es0 ++ es). rewrite run_app, H0. auto. }
    rewrite <- (reachable_nnodes s' Hs'). eapply get_lt; eauto.
Qed.

End Progress.
