(* C11 — the inductive invariant of the repaired protocol: definitions and node-level lemmas. *)
From PGV Require Import C11.Model C11.Proofs0.
From Coq Require Import Lia ZifyNat ZifyBool.

Definition committed (s : state) (k : nat) (v : Z) : Prop :=
  exists c, In c (g_sent s) /\ r_type c = RCommit /\ r_ver c = k /\ r_val c = v.

(* j really processed the pre-commit m and answered yes *)
Definition voter (s : state) (m : request) (j : nat) : Prop :=
  exists p, In p (g_replies s) /\ p_req p = m /\ p_from p = j /\ p_acc p = true /\ p_real p = true.

(* the proposer has sent an Abort for the same version after m: m is abandoned *)
Definition dead (s : state) (m : request) : Prop :=
  exists a, In a (g_sent s) /\ r_type a = RAbort /\ r_from a = r_from m /\ r_ver a = r_ver m /\
            (r_time m < r_time a)%Z.

(* node x cannot vote for anybody but w on version k any more *)
Definition closed (x : node) (w k : nat) : Prop :=
  k <= n_ver x \/ k < a_ver (n_acc x) \/ holds_lock x w k.

Definition op_ok (s : state) (i : nat) (x : node) : Prop :=
  match n_op x with
  | OpNone => True
  | OpSleep _ => n_preok x = false
  | OpPre m yes no =>
      In m (g_sent s) /\ r_type m = RPre /\ r_from m = i /\ r_time m = n_clock x /\ n_preok x = false /\
      NoDup yes /\ (forall j, In j yes -> voter s m j) /\
      ((n_cs x = InPre /\ n_ver x + 1 = r_ver m /\ r_val m = n_val x) \/
       (n_cs x = AcceptedNew /\ r_ver m <= n_ver x))
  | OpAbort a ov acks fp =>
      In a (g_sent s) /\ r_type a = RAbort /\ r_from a = i /\ n_preok x = false /\ r_time a = n_clock x
  | OpCommit c ov acks =>
      In c (g_sent s) /\ r_type c = RCommit /\ r_from c = i /\ r_ver c = ov + 1 /\ n_preok x = true /\
      ((n_ver x = ov /\ n_cs x = HasPre /\ n_tpc x = false /\ r_val c = n_val x) \/ ov < n_ver x)
  end.

Record Inv (s : state) : Prop := mkInv {
  (* requests, replies, ghosts are well formed *)
  IA1 : forall m, In m (g_sent s) ->
        r_from m < nnodes s /\ 1 <= r_ver m /\ forall x, get s (r_from m) = Some x -> (r_time m <= n_clock x)%Z;
  IA2 : forall m m', In m (g_sent s) -> In m' (g_sent s) ->
        r_from m = r_from m' -> r_time m = r_time m' -> m = m';
  IA3 : forall p, In p (g_replies s) ->
        In (p_req p) (g_sent s) /\ p_from p < nnodes s /\ p_from p <> r_from (p_req p);
  IA4 : forall m, In m (g_won s) -> In m (g_sent s) /\ r_type m = RPre;
  IA5 : forall p x, In p (g_replies s) -> p_real p = false -> get s (r_from (p_req p)) = Some x ->
        (r_time (p_req p) < n_clock x)%Z;
  IA6 : forall p, In p (g_replies s) -> p_acc p = false ->
        r_type (p_req p) = RPre \/ r_ver (p_req p) <= p_ver p;
  (* proposer side *)
  IB1 : forall i x, get s i = Some x -> op_ok s i x;
  IB5 : forall i x, get s i = Some x -> n_preok x = true -> n_op x = OpNone ->
        n_cs x = HasPre /\ n_tpc x = false /\
        exists m, In m (g_won s) /\ ~ dead s m /\ r_from m = i /\ r_ver m = n_ver x + 1 /\ r_val m = n_val x;
  (* acceptor side *)
  IC1 : forall i x, get s i = Some x -> n_tpc x = true -> a_set (n_acc x) = true /\ n_ver x < a_ver (n_acc x);
  IC2 : forall i x, get s i = Some x ->
        if a_set (n_acc x)
        then exists m, In m (g_sent s) /\ r_type m = RPre /\ a_from (n_acc x) = r_from m /\ a_ver (n_acc x) = r_ver m
        else a_ver (n_acc x) = 0;
  IC3 : forall i x, get s i = Some x -> n_cs x = InPre \/ n_cs x = HasPre -> n_tpc x = false;
  IC4 : forall i x w y, get s i = Some x -> get s w = Some y -> (stime_of w (n_stimes x) <= n_clock y)%Z;
  (* evidence for versions *)
  ID1 : forall i x, get s i = Some x -> 1 <= n_ver x -> committed s (n_ver x) (n_old x);
  ID2 : forall m, In m (g_sent s) -> 2 <= r_ver m -> exists v, committed s (r_ver m - 1) v;
  ID3 : forall p, In p (g_replies s) -> p_acc p = false -> 1 <= p_ver p -> committed s (p_ver p) (p_val p);
  ID4 : forall i k v, In (i, k, v) (g_installed s) -> 1 <= k /\ committed s k v;
  (* votes *)
  IE1 : forall m j x, In m (g_sent s) -> r_type m = RPre -> ~ dead s m -> voter s m j -> get s j = Some x ->
        closed x (r_from m) (r_ver m) /\ (r_time m <= stime_of (r_from m) (n_stimes x))%Z;
  IE2 : forall m, In m (g_won s) ->
        exists l, NoDup l /\ required (nnodes s) <= List.length l /\ forall j, In j l -> voter s m j;
  IE3 : forall m1 m2, In m1 (g_won s) -> ~ dead s m1 -> In m2 (g_sent s) -> r_type m2 = RPre -> ~ dead s m2 ->
        r_ver m1 = r_ver m2 -> r_from m1 <> r_from m2 ->
        (forall j, voter s m1 j -> ~ voter s m2 j) /\
        (voter s m1 (r_from m2) -> forall x, get s (r_from m2) = Some x -> r_ver m2 < a_ver (n_acc x)) /\
        ~ voter s m2 (r_from m1);
  IE4 : forall m x, In m (g_sent s) -> r_type m = RPre -> ~ dead s m -> get s (r_from m) = Some x ->
        n_ver x < r_ver m -> (exists yes no, n_op x = OpPre m yes no) \/ In m (g_won s);
  IE5 : forall m1 m2, In m1 (g_won s) -> In m2 (g_won s) -> ~ dead s m1 -> ~ dead s m2 ->
        r_ver m1 = r_ver m2 -> m1 = m2;
  IE6 : forall c, In c (g_sent s) -> r_type c = RCommit ->
        exists m, In m (g_won s) /\ ~ dead s m /\ r_from m = r_from c /\ r_ver m = r_ver c /\ r_val m = r_val c;
  IE7 : forall m x, In m (g_won s) -> ~ dead s m -> get s (r_from m) = Some x ->
        (exists c, In c (g_sent s) /\ r_type c = RCommit /\ r_from c = r_from m /\ r_ver c = r_ver m) \/
        (n_preok x = true /\ n_op x = OpNone /\ n_ver x + 1 = r_ver m /\ r_val m = n_val x);
  IE8 : forall c x, In c (g_sent s) -> r_type c = RCommit -> get s (r_from c) = Some x ->
        r_ver c <= n_ver x \/ exists ov acks, n_op x = OpCommit c ov acks;
  (* the assertions of the code never fail *)
  IP : g_panic s = false
}.

(* ---------- arithmetic of majorities ---------- *)
Lemma required_majority n : n < 2 * required n + 2.
Proof.
  unfold required. destruct (Nat.even (n - 1)) eqn:E.
  - apply Nat.even_spec in E. destruct E as [k Hk]. rewrite Hk.
    replace (2 * k / 2) with k by (symmetry; rewrite Nat.mul_comm; apply Nat.div_mul; lia). lia.
  - assert (Ho : Nat.odd (n - 1) = true) by (rewrite <- Nat.negb_even, E; reflexivity).
    apply Nat.odd_spec in Ho. destruct Ho as [k Hk]. rewrite Hk.
    replace ((2 * k + 1) / 2) with k.
    + lia.
    + symmetry. rewrite Nat.add_comm, Nat.mul_comm. rewrite Nat.div_add by lia. cbn. lia.
Qed.

Lemma nodup_bounded_length (l : list nat) n : NoDup l -> (forall j, In j l -> j < n) -> List.length l <= n.
Proof.
  intros Hn Hb. rewrite <- (seq_length n 0). apply NoDup_incl_length; auto.
  intros j Hj. apply in_seq. specialize (Hb j Hj). lia.
Qed.

(* ---------- voters and death are monotone facts about the growing history ---------- *)
Lemma committed_down s : Inv s -> forall k v, committed s k v -> forall k', 1 <= k' <= k -> exists v', committed s k' v'.
Proof.
  intros I k. induction k as [|k IH]; intros v Hc k' Hk; [lia|].
  destruct (Nat.eq_dec k' (S k)) as [->|Hne]; [eauto|].
  destruct Hc as (c & Hin & Hty & Hver & Hval).
  destruct (ID2 s I c Hin) as (v1 & Hc1); [lia|].
  rewrite Hver in Hc1. replace (S k - 1) with k in Hc1 by lia.
  eapply IH; eauto. lia.
Qed.

(* ---------- node-level facts about one delivery ---------- *)
Lemma recv_frame j m a x x' p inst : recv_out j m a x x' p inst ->
  n_op x' = n_op x /\ n_preok x' = n_preok x /\ n_clock x' = n_clock x /\ p_req p = m /\ p_from p = j.
Proof.
  intros Hout. destruct Hout; subst; cbn; try (rewrite ?accept_new_op, ?accept_new_preok, ?accept_new_clock); auto 10.
Qed.

Lemma recv_ver_mono j m a x x' p inst : recv_out j m a x x' p inst -> n_ver x <= n_ver x'.
Proof. intros Hout. destruct Hout; subst; cbn; try rewrite accept_new_ver; cbn; lia. Qed.

Lemma recv_inst j m a x x' p inst : recv_out j m a x x' p inst ->
  inst = true -> r_type m = RCommit /\ n_ver x' = r_ver m /\ n_old x' = r_val m /\ n_ver x < r_ver m.
Proof.
  intros Hout. destruct Hout; subst; cbn; try discriminate.
  rewrite accept_new_ver, accept_new_old. intros _. repeat split; auto. lia.
Qed.

Lemma recv_noinst j m a x x' p inst : recv_out j m a x x' p inst ->
  inst = false -> n_ver x' = n_ver x /\ n_old x' = n_old x /\ n_val x' = n_val x /\ n_cs x' = n_cs x.
Proof. intros Hout. destruct Hout; subst; cbn; try discriminate; auto. Qed.

Lemma recv_promise_mono j m a x x' p inst : same_content a m -> recv_out j m a x x' p inst ->
  a_ver (n_acc x) <= a_ver (n_acc x').
Proof.
  intros (_ & _ & _ & Hv & _) Hout.
  destruct Hout as [| | | xs ? ? ? ? ? Hp | | | |]; subst; cbn; try rewrite accept_new_acc; cbn; try lia.
  rewrite Hv. unfold promise_ok in Hp. destruct (n_tpc x); cbn [negb andb orb] in Hp; lia.
Qed.

Lemma recv_stime j m a x x' p inst w : same_content a m -> recv_out j m a x x' p inst ->
  stime_of w (n_stimes x') = stime_of w (n_stimes x) \/
  (w = r_from m /\ stime_of w (n_stimes x') = r_time m /\ (stime_of w (n_stimes x) <= r_time m)%Z).
Proof.
  intros (_ & _ & Hf & _ & Ht) Hout.
  destruct Hout; subst; cbn; try rewrite accept_new_stimes; cbn; auto;
    rewrite stime_of_st_set, Hf, Ht;
    (destruct (Nat.eqb (r_from m) w) eqn:E; [apply Nat.eqb_eq in E; subst w; right; auto | left; auto]).
Qed.

Lemma recv_stime_mono j m a x x' p inst w : same_content a m -> recv_out j m a x x' p inst ->
  (stime_of w (n_stimes x) <= stime_of w (n_stimes x'))%Z.
Proof. intros Hs Hout. destruct (recv_stime _ _ _ _ _ _ _ w Hs Hout) as [->|(-> & -> & ?)]; lia. Qed.

Lemma recv_real_false j m a x x' p inst : recv_out j m a x x' p inst ->
  p_real p = false -> (r_time m < stime_of (r_from m) (n_stimes x))%Z.
Proof. intros Hout. destruct Hout; subst; cbn; try discriminate; auto. Qed.

Lemma recv_real_true j m a x x' p inst : same_content a m -> recv_out j m a x x' p inst ->
  p_real p = true -> stime_of (r_from m) (n_stimes x') = r_time m.
Proof.
  intros (_ & _ & Hf & _ & Ht) Hout.
  destruct Hout; subst; cbn; try discriminate; try rewrite accept_new_stimes; cbn; intros _;
    rewrite stime_of_st_set, Hf, Ht, Nat.eqb_refl; reflexivity.
Qed.

Lemma recv_reject j m a x x' p inst : recv_out j m a x x' p inst ->
  p_acc p = false -> p_ver p = n_ver x /\ p_val p = n_old x /\ p_real p = true.
Proof. intros Hout. destruct Hout; subst; cbn; try discriminate; auto. Qed.

Lemma recv_tpc j m a x x' p inst : recv_out j m a x x' p inst -> n_tpc x' = true ->
  (n_tpc x = true /\ n_acc x' = n_acc x /\ (n_ver x' = n_ver x \/ n_ver x' < a_ver (n_acc x))) \/
  (n_acc x' = acc_of a /\ n_ver x' = n_ver x /\ n_ver x + 1 <= r_ver m).
Proof.
  intros Hout. destruct Hout; subst; cbn; auto; try discriminate.
  rewrite accept_new_tpc, accept_new_acc, accept_new_ver. cbn. intros Hq.
  apply andb_true_iff in Hq as [Hq1 Hq2]. left. repeat split; auto. right. apply negb_true_iff in Hq2. lia.
Qed.

Lemma recv_acc j m a x x' p inst : recv_out j m a x x' p inst ->
  n_acc x' = n_acc x \/ (n_acc x' = acc_of a /\ r_type m = RPre).
Proof. intros Hout. destruct Hout; subst; cbn; try rewrite accept_new_acc; cbn; auto. Qed.

Lemma recv_cs j m a x x' p inst : recv_out j m a x x' p inst ->
  n_cs x' = n_cs x \/ (inst = true /\ n_cs x' = AcceptedNew /\ n_cs x <> NotCS).
Proof.
  intros Hout. destruct Hout; subst; cbn; auto.
  rewrite accept_new_cs. cbn. destruct (n_cs x); auto; right; repeat split; congruence.
Qed.

Lemma recv_tpc_stays_false j m a x x' p inst : recv_out j m a x x' p inst ->
  n_tpc x = false -> can_accept (n_cs x) = false -> n_tpc x' = false.
Proof.
  intros Hout Ht Hc. destruct Hout as [| | |? ? ? ? ? Hca| | | |? ? ? ? ? Hl]; subst; cbn; auto; try congruence.
  - rewrite accept_new_tpc. cbn. rewrite Ht. reflexivity.
Qed.

Ltac sxs := repeat match goal with H : ?v = set_stimes _ _ |- _ => subst v end.

(* a node that is closed for (w,k) stays closed, unless it processes w's Abort for version k *)
Lemma recv_closed j m a x x' p inst w k : same_content a m -> recv_out j m a x x' p inst ->
  closed x w k ->
  closed x' w k \/ (r_type m = RAbort /\ r_from m = w /\ r_ver m = k /\
                    (stime_of w (n_stimes x) <= r_time m)%Z).
Proof.
  intros Hs Hout Hc.
  pose proof (recv_ver_mono _ _ _ _ _ _ _ Hout) as Hv.
  pose proof (recv_promise_mono _ _ _ _ _ _ _ Hs Hout) as Hp.
  destruct Hc as [Hc|[Hc|Hc]]; [left; left; lia | left; right; left; lia |].
  destruct Hc as (h1 & h2 & h3 & h4).
  destruct Hs as (_ & _ & Hf & Hver & _).
  destruct Hout as [| | | xs ? ? ? ? ? Hpo | | | |xs ? ? ? ? Hl]; sxs; cbn.
  - left. right. right. repeat split; auto.
  - left. right. right. repeat split; auto.
  - left. right. right. repeat split; auto.
  - (* another pre-commit accepted: later version, or the same proposer *)
    unfold promise_ok in Hpo. rewrite h1, h2, h3 in Hpo. cbn [negb andb orb] in Hpo.
    destruct (Nat.eq_dec (a_ver (n_acc x)) (r_ver m)) as [He|Hne].
    + left. right. right. unfold holds_lock. cbn. rewrite Hf, Hver. repeat split; auto; try congruence.
      assert (Hq : Nat.eqb w (r_from m) = true) by lia. apply Nat.eqb_eq in Hq. congruence.
    + left. right. left. cbn. lia.
  - left. right. right. repeat split; auto.
  - (* commit *)
    unfold closed, holds_lock. rewrite accept_new_ver, accept_new_acc, accept_new_tpc. cbn.
    destruct (a_ver (n_acc x) <=? r_ver m) eqn:E.
    + left. left. lia.
    + left. right. right. rewrite h1. cbn. repeat split; auto.
  - left. right. right. repeat split; auto.
  - destruct Hl as (l1 & l2 & l3 & l4). right. repeat split; auto; congruence.
Qed.

(* an accepted, really processed pre-commit leaves the voter closed for its proposer *)
Lemma recv_vote j m a x x' p inst : same_content a m -> recv_out j m a x x' p inst ->
  r_type m = RPre -> p_acc p = true -> p_real p = true ->
  closed x' (r_from m) (r_ver m) /\ n_ver x' = n_ver x /\ n_ver x < r_ver m.
Proof.
  intros (_ & _ & Hf & Hver & _) Hout Ht Ha Hr.
  destruct Hout as [| |xs ? ? ? ? Hl ?| | | | |]; sxs; cbn in *; try discriminate; try congruence.
  - split; [|lia]. right. right. destruct Hl as (l1 & l2 & l3 & l4). repeat split; auto.
  - split; [|lia]. right. right. unfold holds_lock. cbn. rewrite Hf, Hver. auto.
Qed.

(* a node closed for w does not vote for another proposer on that version *)
Lemma recv_no_vote j m a x x' p inst w : same_content a m -> recv_out j m a x x' p inst ->
  r_type m = RPre -> closed x w (r_ver m) -> w <> r_from m -> p_acc p = true -> p_real p = true -> False.
Proof.
  intros (_ & _ & Hf & Hver & _) Hout Ht Hc Hw Ha Hr.
  destruct Hout as [| |xs ? ? ? ? Hl ?|xs ? ? ? ? ? Hpo| | | |]; sxs; cbn in *; try discriminate; try congruence.
  - destruct Hl as (l1 & l2 & l3 & l4).
    destruct Hc as [Hc|[Hc|(c1 & c2 & c3 & c4)]]; try lia; try congruence.
  - unfold promise_ok in Hpo.
    destruct Hc as [Hc|[Hc|(c1 & c2 & c3 & c4)]]; try lia.
Qed.

Lemma recv_accept_needs j m a x x' p inst : recv_out j m a x x' p inst ->
  r_type m = RPre -> p_acc p = true -> p_real p = true -> can_accept (n_cs x) = true \/ n_tpc x = true.
Proof.
  intros Hout Ht Ha Hr.
  destruct Hout as [| |xs ? ? ? ? Hl ?| | | | |]; sxs; cbn in *; try discriminate; try congruence; auto.
  destruct Hl as (l1 & _). auto.
Qed.

(* two different proposers cannot both hold a node closed for the same version unless that version is decided *)
Lemma closed_twice x w1 w2 k : closed x w1 k -> closed x w2 k -> w1 <> w2 -> k <= n_ver x \/ k < a_ver (n_acc x).
Proof.
  intros [H1|[H1|(a1 & a2 & a3 & a4)]] [H2|[H2|(b1 & b2 & b3 & b4)]] Hw; auto. congruence.
Qed.

Lemma recv_cs_inst j m a x x' p inst : recv_out j m a x x' p inst ->
  inst = true -> n_cs x' = NotCS \/ n_cs x' = AcceptedNew.
Proof.
  intros Hout. destruct Hout; sxs; cbn; try discriminate. intros _.
  rewrite accept_new_cs. cbn. destruct (n_cs x); auto.
Qed.

Lemma recv_secver j m a x x' p inst : recv_out j m a x x' p inst -> n_secver x' = n_secver x.
Proof. intros Hout. destruct Hout; sxs; cbn; try rewrite accept_new_secver; auto. Qed.
