(* C11 — the properties, derived from the invariant. *)
From PGV Require Import C11.Model C11.Proofs0 C11.Proofs1 C11.Proofs2 C11.Proofs3 C11.Proofs4.
From Coq Require Import Lia ZifyNat ZifyBool.

Definition reachable (tr : transport) (n : nat) (z : Z) (s : state) : Prop :=
  exists es, run (cfg tr) (init_state n z) es = Some s.

Lemma reachable_inv tr n z s : reachable tr n z s -> Inv s.
Proof. intros (es & H). eapply inv_run; eauto. Qed.

Lemma run_app c s es1 es2 : run c s (es1 ++ es2) = match run c s es1 with Some s1 => run c s1 es2 | None => None end.
Proof. revert s. induction es1 as [|e r IH]; intros s; cbn; auto. destruct (step c s e); auto. Qed.

Lemma reachable_step tr n z s e s' : reachable tr n z s -> step (cfg tr) s e = Some s' -> reachable tr n z s'.
Proof. intros (es & H) Hs. exists (es ++ [e]). rewrite run_app, H. cbn. rewrite Hs. reflexivity. Qed.

(* ---------- versions only grow ---------- *)
Lemma step_get_fwd tr s e s' j x : step (cfg tr) s e = Some s' -> get s j = Some x -> exists y, get s' j = Some y.
Proof.
  intros Hstep Hx. pose proof (get_lt _ _ _ Hx) as Hl. rewrite <- (nn_eq _ _ _ _ Hstep) in Hl.
  unfold get, nnodes in *. destruct (nth_error (g_nodes s') j) eqn:E; eauto. apply nth_error_None in E. lia.
Qed.

Lemma version_monotone_lemma tr es s1 s2 i x y :
  run (cfg tr) s1 es = Some s2 -> get s1 i = Some x -> get s2 i = Some y -> n_ver x <= n_ver y.
Proof.
  revert s1 x. induction es as [|e r IH]; intros s1 x Hr Hx Hy; cbn in Hr.
  - inversion Hr; subst. assert (x = y) by congruence. subst. lia.
  - destruct (step (cfg tr) s1 e) as [s'|] eqn:Es; [|discriminate].
    destruct (step_get_fwd _ _ _ _ _ _ Es Hx) as (x' & Hx').
    pose proof (step_nmono _ _ _ _ _ _ _ Es Hx Hx') as (_ & hv & _).
    specialize (IH s' x' Hr Hx' Hy). lia.
Qed.

(* ---------- agreement and one winner per version ---------- *)
Lemma commit_unique s : Inv s -> forall c1 c2, In c1 (g_sent s) -> In c2 (g_sent s) ->
  r_type c1 = RCommit -> r_type c2 = RCommit -> r_ver c1 = r_ver c2 ->
  r_from c1 = r_from c2 /\ r_val c1 = r_val c2.
Proof.
  intros I c1 c2 H1 H2 T1 T2 Hv.
  destruct (IE6 s I c1 H1 T1) as (m1 & a1 & a2 & a3 & a4 & a5).
  destruct (IE6 s I c2 H2 T2) as (m2 & b1 & b2 & b3 & b4 & b5).
  assert (m1 = m2) by (eapply (IE5 s I); eauto; congruence). subst. split; congruence.
Qed.

Lemma committed_unique s : Inv s -> forall k v v', committed s k v -> committed s k v' -> v = v'.
Proof.
  intros I k v v' (c1 & a1 & a2 & a3 & a4) (c2 & b1 & b2 & b3 & b4).
  destruct (commit_unique s I c1 c2) as (_ & h); auto; congruence.
Qed.

Lemma agreement_lemma tr n z s i j k v v' : reachable tr n z s ->
  In (i, k, v) (g_installed s) -> In (j, k, v') (g_installed s) -> v = v'.
Proof.
  intros R H1 H2. pose proof (reachable_inv _ _ _ _ R) as I.
  destruct (ID4 s I i k v H1) as (_ & c1). destruct (ID4 s I j k v' H2) as (_ & c2).
  eapply committed_unique; eauto.
Qed.

Lemma agreement_state_lemma tr n z s i j x y : reachable tr n z s ->
  get s i = Some x -> get s j = Some y -> n_ver x = n_ver y -> 1 <= n_ver x -> n_old x = n_old y.
Proof.
  intros R Hx Hy Hv Hk. pose proof (reachable_inv _ _ _ _ R) as I.
  pose proof (ID1 s I i x Hx Hk) as c1. assert (Hk2 : 1 <= n_ver y) by lia.
  pose proof (ID1 s I j y Hy Hk2) as c2. rewrite <- Hv in c2. eapply committed_unique; eauto.
Qed.

Lemma one_winner_lemma tr n z s c1 c2 : reachable tr n z s ->
  In c1 (g_sent s) -> In c2 (g_sent s) -> r_type c1 = RCommit -> r_type c2 = RCommit -> r_ver c1 = r_ver c2 ->
  r_from c1 = r_from c2 /\ r_val c1 = r_val c2.
Proof. intros R. apply commit_unique. eapply reachable_inv; eauto. Qed.

(* two proposers are never both between a successful pre-commit and their commit for the same version *)
Lemma one_pending_winner_lemma tr n z s i j x y : reachable tr n z s ->
  get s i = Some x -> get s j = Some y -> n_preok x = true -> n_op x = OpNone ->
  n_preok y = true -> n_op y = OpNone -> n_ver x = n_ver y -> i = j.
Proof.
  intros R Hx Hy p1 o1 p2 o2 Hv. pose proof (reachable_inv _ _ _ _ R) as I.
  destruct (IB5 s I i x Hx p1 o1) as (_ & _ & m1 & a1 & a2 & a3 & a4 & a5).
  destruct (IB5 s I j y Hy p2 o2) as (_ & _ & m2 & b1 & b2 & b3 & b4 & b5).
  assert (m1 = m2) by (eapply (IE5 s I); eauto; lia). congruence.
Qed.

(* ---------- the assertions of the code never fail ---------- *)
Lemma no_panic_lemma tr n z s : reachable tr n z s -> g_panic s = false.
Proof. intros R. apply IP. eapply reachable_inv; eauto. Qed.

(* ---------- a stale section cannot commit ---------- *)
Definition sec_inv (s : state) : Prop :=
  forall i x, get s i = Some x -> n_cs x = InCS \/ n_cs x = InPre \/ n_cs x = HasPre -> n_secver x = n_ver x.

Lemma sec_inv_init n z : sec_inv (init_state n z).
Proof. intros i x H. apply get_init in H. subst. cbn. intros [h|[h|h]]; discriminate. Qed.

Lemma sec_inv_step tr s e s' : Inv s -> sec_inv s -> step (cfg tr) s e = Some s' -> sec_inv s'.
Proof.
  intros I IS Hstep i y Hy Hc. destruct (step_get_back _ _ _ _ _ _ Hstep Hy) as (x & Hx).
  step_trans Hstep f Ht.
  assert (Hold : forall x, get s i = Some x -> y = x -> n_secver y = n_ver y).
  { intros x0 Hx0 ->. apply (IS i x0 Hx0 Hc). }
  destruct Ht; try (rewrite get_apply_none in Hy by reflexivity; eapply Hold; [eassumption|congruence]);
    (upd_cases Hy; [|eapply Hold; [eassumption|congruence]]);
    match goal with H : get s _ = Some ?n |- _ => rewrite H in Hx; inversion Hx; subst end;
    try (cbn in *; apply (IS _ x H); auto; fail);
    try (cbn in *; destruct Hc as [h|[h|h]]; discriminate).
  - unfold enter_cs in *. destruct (n_cs x) eqn:Ec; cbn in *; rewrite ?Ec in *; auto; apply (IS _ x H); rewrite Ec; auto.
  - unfold enter_cs in *. cbn in *. destruct (n_cs x) eqn:Ec; cbn in *; rewrite ?Ec in *; auto; apply (IS _ x H); rewrite Ec; auto.
  - cbn in *. destruct (n_cs x) eqn:Ec; cbn in *; try discriminate; auto; apply (IS _ x H); rewrite Ec; auto.
  - (* deliver *)
    destruct inst.
    + destruct (recv_cs_inst _ _ _ _ _ _ _ H3 eq_refl) as [Hs|Hs]; rewrite Hs in Hc; destruct Hc as [h|[h|h]]; discriminate.
    + destruct (recv_noinst _ _ _ _ _ _ _ H3 eq_refl) as (n1 & _ & _ & n4).
      rewrite n1, (recv_secver _ _ _ _ _ _ _ H3). apply (IS _ x H1). rewrite <- n4. auto.
  - (* reply *)
    cbn in *. unfold learn_node in *. destruct (learns x p) eqn:El.
    + rewrite accept_new_cs in Hc. destruct (n_cs x); destruct Hc as [h|[h|h]]; discriminate.
    + apply (IS _ x H1); auto.
  - cbn in *. apply (IS _ x H1); auto.
  - (* prefinish ok *)
    cbn. pose proof (IB1 s I _ x H) as Hok. unfold op_ok in Hok. rewrite H0 in Hok.
    destruct Hok as (_ & _ & _ & _ & _ & _ & _ & [(c1 & _)|(c1 & _)]); [|contradiction].
    apply (IS _ x H). auto.
Qed.

Lemma sec_inv_reach tr n z s : reachable tr n z s -> sec_inv s.
Proof.
  intros (es & H). revert H. generalize (sec_inv_init n z) (inv_init n z). generalize (init_state n z).
  induction es as [|e r IH]; intros s0 I0 J0 Hr; cbn in Hr.
  - inversion Hr; subst; auto.
  - destruct (step (cfg tr) s0 e) as [s1|] eqn:Es; [|discriminate].
    eapply IH; [| |eauto]; [eapply sec_inv_step; eauto | eapply inv_step; eauto].
Qed.

Lemma stale_read_lemma tr n z s i x : reachable tr n z s ->
  get s i = Some x -> n_preok x = true -> n_op x = OpNone ->
  n_secver x = n_ver x /\ forall c, In c (g_sent s) -> r_type c = RCommit -> r_ver c <= n_secver x.
Proof.
  intros R Hx Hp Ho. pose proof (reachable_inv _ _ _ _ R) as I.
  destruct (IB5 s I i x Hx Hp Ho) as (b1 & b2 & m & w1 & w2 & w3 & w4 & w5).
  assert (Hs : n_secver x = n_ver x) by (apply (sec_inv_reach _ _ _ _ R i x Hx); auto).
  split; auto. intros c Hc Ht. rewrite Hs.
  destruct (Nat.le_gt_cases (r_ver c) (n_ver x)) as [|Hgt]; auto. exfalso.
  eapply (decided_contra s I i x m (r_ver c) (r_val c)); eauto; [|lia]. exists c. auto.
Qed.

(* ---------- an Abort releases the replicas that accepted the aborted proposal ---------- *)
Lemma abort_releases_lemma tr n z s w q j xw x a ov acks fp : reachable tr n z s ->
  get s w = Some xw -> n_op xw = OpAbort a ov acks fp -> lookup_req s w q = Some a ->
  get s j = Some x -> j <> w -> holds_lock x w (r_ver a) ->
  exists s', step (cfg tr) s (EDeliver w q j) = Some s' /\
             forall y, get s' j = Some y -> n_tpc y = false /\ n_ver y = n_ver x.
Proof.
  intros R Hw Hop Hl Hx Hne Hlock. pose proof (reachable_inv _ _ _ _ R) as I.
  pose proof (IB1 s I w xw Hw) as Hok. unfold op_ok in Hok. rewrite Hop in Hok.
  destruct Hok as (o1 & o2 & o3 & o4 & o5).
  unfold step. cbn [effect_of]. rewrite Hl, Hx.
  destruct (Nat.eqb w j) eqn:E; [apply Nat.eqb_eq in E; congruence|].
  destruct (receive (cfg tr) j a (transported (cfg tr) s a) x) as [[x' p] inst] eqn:Er.
  eexists. split; [reflexivity|]. intros y Hy.
  match type of Hy with get (apply_eff ?s0 ?f0) ?j0 = _ => rewrite (get_apply_same s0 f0 j0 _ eq_refl) in Hy by (eapply get_lt; eauto) end.
  inversion Hy; subst y. apply receive_out in Er; [|apply transported_same].
  pose proof (IC4 s I j x w xw Hx Hw) as Hst. rewrite <- o5, <- o3 in Hst.
  destruct (IC1 s I j x Hx (proj1 Hlock)) as (_ & Hlt). destruct Hlock as (l1 & l2 & l3 & l4).
  destruct Er; sxs; cbn; try (exfalso; lia); try (exfalso; congruence); auto.
  match goal with Hq : ~ holds_lock _ _ _ |- _ => exfalso; apply Hq; unfold holds_lock; rewrite o3; auto end.
Qed.
