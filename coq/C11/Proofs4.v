(* C11 — the invariant is inductive: part 3 (at most one live winner per version), and the closing theorem. *)
From PGV Require Import C11.Model C11.Proofs0 C11.Proofs1 C11.Proofs2 C11.Proofs3.
From Coq Require Import Lia ZifyNat ZifyBool.

Lemma nodup_app (l1 l2 : list nat) :
  NoDup l1 -> NoDup l2 -> (forall x, In x l1 -> ~ In x l2) -> NoDup (l1 ++ l2).
Proof.
  induction l1 as [|a r IH]; intros H1 H2 Hd; cbn; auto.
  inversion H1; subst. constructor.
  - intros Hin. apply in_app_or in Hin as [Hin|Hin]; [contradiction|]. apply (Hd a); cbn; auto.
  - apply IH; auto. intros x Hx. apply Hd. cbn; auto.
Qed.

(* two disjoint majorities do not fit into n nodes *)
Lemma majority_disjoint n (l1 l2 : list nat) w1 w2 :
  NoDup l1 -> NoDup l2 -> (forall j, In j l1 -> j < n) -> (forall j, In j l2 -> j < n) -> w1 < n -> w2 < n ->
  ~ In w1 l1 -> ~ In w2 l2 -> w1 <> w2 -> ~ In w1 l2 -> ~ In w2 l1 -> (forall j, In j l1 -> ~ In j l2) ->
  required n <= List.length l1 -> required n <= List.length l2 -> False.
Proof.
  intros N1 N2 B1 B2 Bw1 Bw2 I1 I2 Hw I3 I4 Hd R1 R2.
  assert (Hnd : NoDup ((w1 :: l1) ++ (w2 :: l2))).
  { apply nodup_app.
    - constructor; auto.
    - constructor; auto.
    - intros x [<-|Hx] [<-|Hx2]; try contradiction; try congruence. apply (Hd x); auto. }
  pose proof (nodup_bounded_length _ n Hnd) as Hl.
  rewrite app_length in Hl. cbn in Hl.
  pose proof (required_majority n).
  assert (List.length l1 + List.length l2 + 2 <= n).
  { assert (S (List.length l1) + S (List.length l2) <= n); [|lia]. apply Hl.
    intros j [<-|Hj]; auto. apply in_app_or in Hj as [Hj|[<-|Hj]]; auto. }
  lia.
Qed.

(* a node that is past version k, or has voted beyond it, is evidence that k is decided *)
Lemma evidence_committed s : Inv s -> forall j x k, get s j = Some x -> 1 <= k ->
  k <= n_ver x \/ k < a_ver (n_acc x) -> exists v, committed s k v.
Proof.
  intros I j x k Hx Hk [H|H].
  - eapply (committed_down s I (n_ver x) (n_old x)); [apply (ID1 s I j x Hx); lia | lia].
  - pose proof (IC2 s I j x Hx) as Hc. destruct (a_set (n_acc x)); [|lia].
    destruct Hc as (m & c1 & c2 & c3 & c4).
    destruct (ID2 s I m c1) as (v & Hv); [lia|].
    eapply (committed_down s I _ v Hv). lia.
Qed.

Lemma voter_bound s : Inv s -> forall m j, voter s m j -> j < nnodes s /\ j <> r_from m /\ In m (g_sent s).
Proof.
  intros I m j (p & p1 & p2 & p3 & _). destruct (IA3 s I p p1) as (h1 & h2 & h3). subst. auto.
Qed.

(* a proposer whose pre-commit has just collected a majority meets no other live winner of that version *)
Lemma no_second_winner s : Inv s -> forall i x m yes no m0,
  get s i = Some x -> n_op x = OpPre m yes no -> n_cs x <> AcceptedNew -> a_ver (n_acc x) <= r_ver m ->
  required (nnodes s) <= List.length yes ->
  In m0 (g_won s) -> ~ dead s m0 -> r_ver m0 = r_ver m -> False.
Proof.
  intros I i x m yes no m0 Hx Hop Hcs Hpr Hreq Hw Hnd Hv.
  pose proof (IB1 s I i x Hx) as Hok. unfold op_ok in Hok. rewrite Hop in Hok.
  destruct Hok as (o1 & o2 & o3 & o4 & o5 & o6 & o7 & [(c1 & c2 & c3)|(c1 & _)]); [|contradiction].
  destruct (Nat.eq_dec (r_from m0) i) as [Hsame|Hdiff].
  - rewrite <- Hsame in Hx.
    destruct (IE7 s I m0 x Hw Hnd Hx) as [(c & d1 & d2 & d3 & d4)|(d1 & _)]; [|congruence].
    rewrite <- d3 in Hx. destruct (IE8 s I c x d1 d2 Hx) as [h|(ov & acks & h)]; [lia|congruence].
  - assert (Hndm : ~ dead s m) by (eapply current_not_dead; eauto).
    assert (Hne : r_from m0 <> r_from m) by congruence.
    destruct (IE3 s I m0 m Hw Hnd o1 o2 Hndm Hv Hne) as (Ha & Hb & Hc).
    destruct (IE2 s I m0 Hw) as (l0 & n1 & n2 & n3).
    assert (B1 : forall j, In j l0 -> j < nnodes s) by (intros j Hj; apply (voter_bound s I m0 j); auto).
    assert (B2 : forall j, In j yes -> j < nnodes s) by (intros j Hj; apply (voter_bound s I m j); auto).
    assert (Bw1 : r_from m0 < nnodes s) by (destruct (IA4 s I m0 Hw) as (h & _); apply (IA1 s I m0 h)).
    assert (Bw2 : i < nnodes s) by (eapply get_lt; eauto).
    assert (I1 : ~ In (r_from m0) l0).
    { intros Hin. destruct (voter_bound s I m0 _ (n3 _ Hin)) as (_ & h & _). congruence. }
    assert (I2 : ~ In i yes).
    { intros Hin. destruct (voter_bound s I m _ (o7 _ Hin)) as (_ & h & _). congruence. }
    assert (I3 : ~ In (r_from m0) yes) by (intros Hin; apply Hc; apply o7; auto).
    assert (I4 : ~ In i l0).
    { intros Hin. rewrite o3 in Hb. specialize (Hb (n3 _ Hin) x Hx). lia. }
    assert (Hd : forall j, In j l0 -> ~ In j yes) by (intros j Hj Hj2; apply (Ha j); auto).
    exact (majority_disjoint (nnodes s) l0 yes (r_from m0) i n1 o6 B1 B2 Bw1 Bw2 I1 I2 Hdiff I3 I4 Hd n2 Hreq).
Qed.

Section Preservation.
Variables (tr : transport) (s s' : state) (e : event).
Hypothesis I : Inv s.
Hypothesis Hstep : step (cfg tr) s e = Some s'.

Local Notation won_mono' := (won_mono tr s s' e Hstep).
Local Notation voter_step' := (voter_step tr s s' e Hstep).
Local Notation dead_step' := (dead_step tr s s' e Hstep).
Local Notation get_back' := (fun j y => step_get_back tr s e s' j y Hstep).
Local Notation not_dead_back' := (not_dead_back tr s s' e Hstep).

(* a request stays alive across a step in which its proposer sends nothing *)
Lemma alive_if_clock_same m x y : get s (r_from m) = Some x -> get s' (r_from m) = Some y ->
  n_clock y = n_clock x -> ~ dead s m -> ~ dead s' m.
Proof.
  intros Hx Hy Hc Hnd Hd. destruct (dead_step_inv s s' m Hd) as [?|(a & a1 & a2 & a3 & a4 & a5 & a6)]; [contradiction|].
  destruct (new_sent tr s s' e Hstep a a1 a2) as (x0 & y0 & Hx0 & Hy0 & n1 & n2 & _).
  rewrite a4 in *. assert (x0 = x) by congruence. assert (y0 = y) by congruence. subst. lia.
Qed.

Lemma pres_IB5 i y : get s' i = Some y -> n_preok y = true -> n_op y = OpNone ->
  n_cs y = HasPre /\ n_tpc y = false /\
  exists m, In m (g_won s') /\ ~ dead s' m /\ r_from m = i /\ r_ver m = n_ver y + 1 /\ r_val m = n_val y.
Proof.
  intros Hy Hp Ho. destruct (get_back' _ _ Hy) as (x & Hx).
  (* the node keeps its win if the relevant fields are unchanged *)
  assert (Hkeep : n_preok x = true -> n_op x = OpNone -> n_cs y = n_cs x -> n_tpc y = n_tpc x ->
                  n_ver y = n_ver x -> n_val y = n_val x -> n_clock y = n_clock x ->
    n_cs y = HasPre /\ n_tpc y = false /\
    exists m, In m (g_won s') /\ ~ dead s' m /\ r_from m = i /\ r_ver m = n_ver y + 1 /\ r_val m = n_val y).
  { intros k1 k2 k3 k4 k5 k6 k7. destruct (IB5 s I i x Hx k1 k2) as (b1 & b2 & m & w1 & w2 & w3 & w4 & w5).
    split; [congruence|]. split; [congruence|]. exists m. split; [apply won_mono'; auto|].
    split; [|repeat split; congruence].
    rewrite <- w3 in Hx, Hy. eapply alive_if_clock_same; eauto. }
  step_trans Hstep f Ht.
  destruct Ht; try (rewrite get_apply_none in Hy by reflexivity; assert (y = x) by congruence; subst; apply Hkeep; auto; fail);
    (upd_cases Hy; [|assert (y = x) by congruence; subst; apply Hkeep; auto]);
    match goal with H : get s _ = Some ?n |- _ => rewrite H in Hx; inversion Hx; subst end;
    try (cbn in Hp, Ho; unfold enter_cs in *; cbn in *; congruence);
    try (cbn in Hp, Ho; pose proof (IB1 s I _ x H) as Hok; unfold op_ok in Hok;
         match goal with Hq : n_op x = _ |- _ => rewrite Hq in Hok end; cbn in Hok; intuition congruence).
  - unfold enter_cs in *. destruct (n_cs x); cbn in *; congruence.
  - unfold enter_cs in *. cbn in *. destruct (n_cs x); cbn in *; congruence.
  - (* deliver *)
    pose proof (recv_frame _ _ _ _ _ _ _ H3) as (f1 & f2 & f3 & _).
    rewrite f1 in Ho. rewrite f2 in Hp.
    destruct (IB5 s I _ x H1 Hp Ho) as (b1 & b2 & m0 & w1 & w2 & w3 & w4 & w5).
    destruct inst.
    + exfalso. destruct (recv_inst _ _ _ _ _ _ _ H3 eq_refl) as (i1 & i2 & i3 & i4).
      eapply (decided_contra s I _ x m0 (r_ver m) (r_val m));
        [eassumption | left; auto | auto | auto | congruence | lia | exists m; auto | lia].
    + destruct (recv_noinst _ _ _ _ _ _ _ H3 eq_refl) as (n1 & n2 & n3 & n4).
      assert (Ht2 : n_tpc x' = false) by (eapply recv_tpc_stays_false; eauto; rewrite b1; reflexivity).
      apply Hkeep; auto; congruence.
  - (* reply *)
    cbn [n_op set_op n_preok] in Hp, Ho.
    assert (Hfr : n_op (learn_node x p) = n_op x /\ n_preok (learn_node x p) = n_preok x).
    { unfold learn_node. destruct (learns x p); rewrite ?accept_new_op, ?accept_new_preok; auto. }
    destruct Hfr as (f1 & f2). rewrite f2 in Hp.
    assert (Hox : n_op x = OpNone).
    { rewrite f1 in Ho. destruct (n_op x); cbn in Ho; auto;
        repeat match type of Ho with context[if ?c then _ else _] => destruct c end; discriminate. }
    destruct (IB5 s I _ x H1 Hp Hox) as (b1 & b2 & m0 & w1 & w2 & w3 & w4 & w5).
    destruct (learns x p) eqn:El.
    + exfalso. unfold learns in El. apply andb_true_iff in El as [E1 E2]. apply negb_true_iff in E1.
      eapply (decided_contra s I _ x m0 (p_ver p) (p_val p));
        [eassumption | left; auto | auto | auto | congruence | lia | apply (ID3 s I p H2 E1); lia | lia].
    + unfold learn_node in *. rewrite El in *. apply Hkeep; auto.
  - (* timeout *) cbn in Hp, Ho. apply Hkeep; auto. destruct (n_op x); cbn in Ho; auto;
      repeat match type of Ho with context[if ?c then _ else _] => destruct c end; discriminate.
  - (* prefinish ok *)
    pose proof (IB1 s I _ x H) as Hok. unfold op_ok in Hok. rewrite H0 in Hok.
    destruct Hok as (o1 & o2 & o3 & o4 & o5 & o6 & o7 & [(c1 & c2 & c3)|(c1 & _)]); [|contradiction].
    cbn. split; auto. split. { apply (IC3 s I _ x H). auto. }
    exists m. repeat split; auto; try lia.
    + apply in_or_app. right. left. reflexivity.
    + intros Hd. apply dead_same_sent in Hd; [|reflexivity]. eapply current_not_dead in Hd; eauto.
Qed.

Lemma pres_IE5 m1 m2 : In m1 (g_won s') -> In m2 (g_won s') -> ~ dead s' m1 -> ~ dead s' m2 ->
  r_ver m1 = r_ver m2 -> m1 = m2.
Proof.
  intros W1 W2 D1 D2 Hv.
  pose proof (not_dead_back' m1 D1) as D1'. pose proof (not_dead_back' m2 D2) as D2'.
  step_trans Hstep f Ht. cbn in W1, W2.
  apply in_app_or in W1 as [W1|W1]; apply in_app_or in W2 as [W2|W2].
  - eapply (IE5 s I); eauto.
  - exfalso. destruct Ht; cbn in W2; try contradiction. destruct W2 as [<-|[]].
    eapply (no_second_winner s I i x m yes no m1); eauto.
  - exfalso. destruct Ht; cbn in W1; try contradiction. destruct W1 as [<-|[]].
    eapply (no_second_winner s I i x m yes no m2); eauto.
  - destruct Ht; cbn in W1, W2; try contradiction. destruct W1 as [<-|[]]. destruct W2 as [<-|[]]. reflexivity.
Qed.

Lemma pres_IP : g_panic s' = false.
Proof.
  step_trans Hstep f Ht. cbn. rewrite (IP s I). cbn.
  destruct Ht; cbn; auto.
  - (* reply to an abort/commit: a reject carries a version at least as high as the request *)
    destruct (r_type m) eqn:Et; auto;
      (destruct (p_acc p) eqn:Ea; cbn; auto;
       destruct (IA6 s I p H2 Ea) as [h|h]; [congruence|]; rewrite H3 in h; apply Nat.ltb_ge; auto).
  - pose proof (IB1 s I _ x H) as Hok. unfold op_ok in Hok. rewrite H0 in Hok.
    destruct Hok as (_ & _ & _ & _ & _ & _ & _ & [(c1 & _)|(c1 & _)]); [|contradiction].
    rewrite c1. reflexivity.
  - destruct (IB5 s I _ x H H1 H0) as (b1 & b2 & _). rewrite b1, b2. reflexivity.
Qed.

(* votes of the new state: old ones, or the one cast in this step *)
Lemma voter_step_inv m j : voter s' m j -> voter s m j \/
  exists x x' p inst p', In m (g_sent s) /\ r_from m <> j /\ get s j = Some x /\ get s' j = Some x' /\
    recv_out j m (transported (cfg tr) s m) x x' p inst /\ p_acc p = true /\ p_real p = true /\
    g_sent s' = g_sent s /\ g_won s' = g_won s /\ (forall l, l <> j -> get s' l = get s l) /\
    g_replies s' = g_replies s ++ [p'] /\ p_req p' = m.
Proof.
  intros (p & p1 & p2 & p3 & p4 & p5).
  destruct (in_dec (fun a b : reply => ltac:(decide equality; try apply Z.eq_dec; try apply Nat.eq_dec; try apply Bool.bool_dec; apply req_eq_dec)) p (g_replies s)) as [Hold|Hnew].
  - left. exists p. auto.
  - right. destruct (new_reply tr s s' e Hstep p p1 Hnew) as (i & j0 & m0 & x & x' & q & inst & h1 & h2 & h3 & h4 & h5 & (e1 & e2 & e3 & e4 & e5 & e6) & h6 & h7 & h8 & h9 & h10).
    pose proof (recv_frame _ _ _ _ _ _ _ h5) as (_ & _ & _ & f1 & f2).
    assert (Em : m0 = m) by congruence. assert (Ej : j0 = j) by congruence. rewrite Em, Ej in *.
    exists x, x', q, inst, p. repeat split; auto; congruence.
Qed.

(* in the pre-state: a proposer about to win version k, and evidence that k is decided, contradict each other *)
Lemma winner_no_committed i x m yes no v :
  get s i = Some x -> n_op x = OpPre m yes no -> n_cs x <> AcceptedNew -> a_ver (n_acc x) <= r_ver m ->
  required (nnodes s) <= List.length yes -> committed s (r_ver m) v -> False.
Proof.
  intros Hx Hop Hcs Hpr Hreq (c & c1 & c2 & c3 & c4).
  destruct (IE6 s I c c1 c2) as (m0 & w1 & w2 & w3 & w4 & w5).
  eapply (no_second_winner s I i x m yes no m0); eauto. congruence.
Qed.

Lemma pres_IE3 m1 m2 : In m1 (g_won s') -> ~ dead s' m1 -> In m2 (g_sent s') -> r_type m2 = RPre -> ~ dead s' m2 ->
  r_ver m1 = r_ver m2 -> r_from m1 <> r_from m2 ->
  (forall j, voter s' m1 j -> ~ voter s' m2 j) /\
  (voter s' m1 (r_from m2) -> forall y, get s' (r_from m2) = Some y -> r_ver m2 < a_ver (n_acc y)) /\
  ~ voter s' m2 (r_from m1).
Proof.
  intros W1 D1 S2 T2 D2 Hv Hne.
  pose proof (not_dead_back' m1 D1) as D1'. pose proof (not_dead_back' m2 D2) as D2'.
  assert (Hk : 1 <= r_ver m2).
  { destruct (pres_IA1 tr s s' e I Hstep m2 S2) as (_ & h & _). auto. }
  destruct (in_dec req_eq_dec m1 (g_won s)) as [W1o|W1n].
  2:{ (* case A: m1 wins in this step *)
    step_trans Hstep f Ht. cbn in W1. apply in_app_or in W1 as [W1|W1]; [contradiction|].
    destruct Ht; cbn in W1; try contradiction. destruct W1 as [<-|[]].
    cbn in S2. rewrite app_nil_r in S2.
    assert (Hvs : forall m' j, voter (apply_eff s (mkEff (Some (i, set_preok true (set_op OpNone (set_cs HasPre (set_att 0 x))))) [] [] [] [m] 0 (negb (cs_eqb (n_cs x) InPre)))) m' j -> voter s m' j).
    { intros m' j Hq. eapply voter_same_rep; eauto. reflexivity. }
    pose proof (IB1 s I _ x H) as Hok. unfold op_ok in Hok. rewrite H0 in Hok.
    destruct Hok as (o1 & o2 & o3 & o4 & o5 & o6 & o7 & [(c1 & c2 & c3)|(c1 & _)]); [|contradiction].
    assert (Hnc : forall v, committed s (r_ver m) v -> False).
    { intros v. eapply winner_no_committed; eauto. }
    split; [|split].
    - intros j V1 V2. apply Hvs in V1, V2.
      destruct (voter_bound s I m j V1) as (b1 & _).
      destruct (nth_error (g_nodes s) j) as [xj|] eqn:Exj; [|apply nth_error_None in Exj; unfold nnodes in b1; lia].
      destruct (IE1 s I m j xj o1 o2 D1' V1 Exj) as (C1 & _).
      destruct (IE1 s I m2 j xj S2 T2 D2' V2 Exj) as (C2 & _). rewrite <- Hv in C2.
      destruct (evidence_committed s I j xj (r_ver m) Exj) as (v & Hc); [lia| |eapply Hnc; eauto].
      apply (closed_twice xj (r_from m) (r_from m2) (r_ver m) C1 C2 Hne).
    - intros V1 y Hy. apply Hvs in V1.
      match type of Hy with get (apply_eff ?s0 ?f0) ?j0 = _ => rewrite (get_apply_other s0 f0 i _ j0 eq_refl) in Hy by congruence end.
      destruct (IE1 s I m _ y o1 o2 D1' V1 Hy) as ([C|[C|C]] & _).
      + exfalso. destruct (evidence_committed s I _ y (r_ver m) Hy) as (v & Hc); [lia|auto|eapply Hnc; eauto].
      + lia.
      + exfalso. destruct C as (t1 & _).
        destruct (Nat.lt_ge_cases (n_ver y) (r_ver m2)) as [Hlt|Hge].
        * destruct (IE4 s I m2 y S2 T2 D2' Hy Hlt) as [(yes2 & no2 & Hop2)|Hw2].
          -- pose proof (IB1 s I _ y Hy) as Hok2. unfold op_ok in Hok2. rewrite Hop2 in Hok2.
             destruct Hok2 as (_ & _ & _ & _ & _ & _ & _ & [(d1 & _)|(_ & d2)]); [|lia].
             pose proof (IC3 s I _ y Hy (or_introl d1)). congruence.
          -- eapply (no_second_winner s I i x m yes no m2); eauto.
        * destruct (evidence_committed s I _ y (r_ver m) Hy) as (v & Hc); [lia|left; lia|eapply Hnc; eauto].
    - intros V2. apply Hvs in V2. rewrite o3 in V2.
      destruct (IE1 s I m2 i x S2 T2 D2' V2 H) as ([C|[C|C]] & _); try lia.
      destruct C as (t1 & _). pose proof (IC3 s I _ x H (or_introl c1)). congruence. }
  (* case B: m1 won earlier *)
  destruct (IA4 s I m1 W1o) as (S1 & T1).
  destruct (in_dec req_eq_dec m2 (g_sent s)) as [S2o|S2n].
  2:{ (* B1: m2 is created in this step *)
    destruct (new_sent tr s s' e Hstep m2 S2 S2n) as (x & y & Hx & Hy & n1 & n2 & n3 & n4 & n5).
    pose proof (new_sent_kind tr s s' e Hstep m2 x y S2 S2n Hx Hy) as (Hkd & _). rewrite T2 in Hkd.
    destruct Hkd as (_ & k2 & k3 & k4 & k5 & k6).
    assert (Hnov : forall j, ~ voter s' m2 j).
    { intros j (p & p1 & p2 & _). rewrite n5 in p1. destruct (IA3 s I p p1) as (h & _). congruence. }
    split; [intros j _; apply Hnov|split; [|apply Hnov]].
    intros (p & p1 & p2) y' Hy'. rewrite n5 in p1. assert (V1 : voter s m1 (r_from m2)) by (exists p; auto).
    assert (y' = y) by congruence. subst y'.
    destruct (IE1 s I m1 _ x S1 T1 D1' V1 Hx) as ([C|[C|C]] & _); try lia.
    - rewrite k5. lia.
    - destruct C as (t1 & _). congruence. }
  (* B2: both requests are old *)
  destruct (IE3 s I m1 m2 W1o D1' S2o T2 D2' Hv Hne) as (A0 & B0 & C0).
  split; [|split].
  - intros j V1 V2.
    destruct (voter_step_inv m1 j V1) as [V1o|(x1 & x1' & p1 & i1 & q1 & a1 & a2 & a3 & a4 & a5 & a6 & a7 & a8 & a9 & a10 & a11 & a12)];
    destruct (voter_step_inv m2 j V2) as [V2o|(x2 & x2' & p2 & i2 & q2 & b1 & b2 & b3 & b4 & b5 & b6 & b7 & b8 & b9 & b10 & b11 & b12)].
    + apply (A0 j); auto.
    + destruct (IE1 s I m1 j x2 S1 T1 D1' V1o b3) as (C & _). rewrite Hv in C.
      eapply (recv_no_vote _ _ _ _ _ _ _ (r_from m1) (transported_same _ _ _) b5); eauto.
    + destruct (IE1 s I m2 j x1 S2o T2 D2' V2o a3) as (C & _). rewrite <- Hv in C.
      eapply (recv_no_vote _ _ _ _ _ _ _ (r_from m2) (transported_same _ _ _) a5); eauto.
    + rewrite a11 in b11. apply app_inv_head in b11. inversion b11; subst. congruence.
  - intros V1 y Hy. destruct (get_back' _ _ Hy) as (x & Hx).
    pose proof (step_nmono _ _ _ _ _ _ _ Hstep Hx Hy) as (_ & _ & hp & _).
    destruct (voter_step_inv m1 _ V1) as [V1o|(x1 & x1' & p1 & i1 & q1 & a1 & a2 & a3 & a4 & a5 & a6 & a7 & a8 & a9 & a10 & a11 & a12)].
    + specialize (B0 V1o x Hx). lia.
    + exfalso. assert (x1 = x) by congruence. subst x1.
      destruct (recv_vote _ _ _ _ _ _ _ (transported_same _ _ _) a5 T1 a6 a7) as (_ & _ & hlt).
      destruct (recv_accept_needs _ _ _ _ _ _ _ a5 T1 a6 a7) as [Hca|Htp].
      * destruct (IE4 s I m2 x S2o T2 D2' Hx) as [(yes2 & no2 & Hop2)|Hw2]; [lia| |].
        -- pose proof (IB1 s I _ x Hx) as Hok2. unfold op_ok in Hok2. rewrite Hop2 in Hok2.
           destruct Hok2 as (_ & _ & _ & _ & _ & _ & _ & [(d1 & _)|(_ & d2)]); [|lia].
           rewrite d1 in Hca. discriminate.
        -- assert (m1 = m2) by (eapply (IE5 s I); eauto). congruence.
      * destruct (IE4 s I m2 x S2o T2 D2' Hx) as [(yes2 & no2 & Hop2)|Hw2]; [lia| |].
        -- pose proof (IB1 s I _ x Hx) as Hok2. unfold op_ok in Hok2. rewrite Hop2 in Hok2.
           destruct Hok2 as (_ & _ & _ & _ & _ & _ & _ & [(d1 & _)|(_ & d2)]); [|lia].
           pose proof (IC3 s I _ x Hx (or_introl d1)). congruence.
        -- assert (m1 = m2) by (eapply (IE5 s I); eauto). congruence.
  - intros V2.
    destruct (voter_step_inv m2 _ V2) as [V2o|(x & x' & p2 & i2 & q2 & b1 & b2 & b3 & b4 & b5 & b6 & b7 & b8 & b9 & b10 & b11 & b12)]; [auto|].
    destruct (recv_vote _ _ _ _ _ _ _ (transported_same _ _ _) b5 T2 b6 b7) as (_ & _ & hlt).
    assert (Hcant : can_accept (n_cs x) = false /\ n_tpc x = false -> False).
    { intros (qa & qb). destruct (recv_accept_needs _ _ _ _ _ _ _ b5 T2 b6 b7); congruence. }
    destruct (IE7 s I m1 x W1o D1' b3) as [(c & c1 & c2 & c3 & c4)|(c1 & c2 & c3 & c4)].
    + rewrite <- c3 in b3. destruct (IE8 s I c x c1 c2 b3) as [h|(ov & acks & Hop)]; [lia|].
      pose proof (IB1 s I _ x b3) as Hok. unfold op_ok in Hok. rewrite Hop in Hok.
      destruct Hok as (_ & _ & _ & o4 & _ & [(d1 & d2 & d3 & _)|d]); [|lia].
      apply Hcant. rewrite d2. auto.
    + destruct (IB5 s I _ x b3 c1 c2) as (d1 & d2 & _). apply Hcant. rewrite d1. auto.
Qed.

Theorem inv_step : Inv s'.
Proof.
  constructor.
  - apply (pres_IA1 tr s s' e I Hstep).
  - apply (pres_IA2 tr s s' e I Hstep).
  - apply (pres_IA3 tr s s' e I Hstep).
  - apply (pres_IA4 tr s s' e I Hstep).
  - intros p x. apply (pres_IA5 tr s s' e I Hstep).
  - apply (pres_IA6 tr s s' e I Hstep).
  - apply (pres_IB1 tr s s' e I Hstep).
  - apply pres_IB5.
  - apply (pres_IC1 tr s s' e I Hstep).
  - apply (pres_IC2 tr s s' e I Hstep).
  - apply (pres_IC3 tr s s' e I Hstep).
  - intros i x w y. apply (pres_IC4 tr s s' e I Hstep).
  - apply (pres_ID1 tr s s' e I Hstep).
  - apply (pres_ID2 tr s s' e I Hstep).
  - apply (pres_ID3 tr s s' e I Hstep).
  - apply (pres_ID4 tr s s' e I Hstep).
  - intros m j x. apply (pres_IE1 tr s s' e I Hstep).
  - apply (pres_IE2 tr s s' e I Hstep).
  - apply pres_IE3.
  - intros m x. apply (pres_IE4 tr s s' e I Hstep).
  - apply pres_IE5.
  - apply (pres_IE6 tr s s' e I Hstep).
  - intros m x. apply (pres_IE7 tr s s' e I Hstep).
  - intros c x. apply (pres_IE8 tr s s' e I Hstep).
  - apply pres_IP.
Qed.

End Preservation.

Theorem inv_run tr n z es s : run (cfg tr) (init_state n z) es = Some s -> Inv s.
Proof.
  assert (H : forall es s0 s, Inv s0 -> run (cfg tr) s0 es = Some s -> Inv s).
  { clear. intros es. induction es as [|e r IH]; intros s0 s I0 Hr; cbn in Hr.
    - inversion Hr; subst; auto.
    - destruct (step (cfg tr) s0 e) as [s1|] eqn:Es; [|discriminate].
      eapply IH; [|eauto]. eapply inv_step; eauto. }
  intros Hr. eapply H; [apply inv_init|eauto].
Qed.
