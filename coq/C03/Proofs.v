(* C03 — lemmas: each implementation function (C03/Impl.v) refines the TLA+ operator (Base/Ops.v). *)
From PGV Require Import Base.Value Base.ValueFacts Base.Ops C05.Model C05.Proofs C03.Impl.
From Coq Require Import Lia ZifyBool.
Open Scope Z_scope.

(* The relation between what TLA+/TLC prescribe (s) and what the implementation does (r):
   - TLC reports an error            => the implementation fails loudly with a TLA+ type error;
   - TLA+ gives the value v          => the implementation returns a proper representation of v,
                                        or fails loudly with a TLA+ type error, the latter only if
                                        `restricted` (the statement's documented restrictions);
   - never Panic, never Hang, never another value. *)
Definition good (v : value) : Prop := rep_ok v /\ bounded v.

Definition allowed (restricted : Prop) (s : sres) (r : res value) : Prop :=
  match s with
  | SOk v => (exists v', r = Ok v' /\ norm v' = v /\ good v') \/ (r = TypeErr /\ restricted)
  | SErr => r = TypeErr
  end.

Lemma allowed_ok (R : Prop) v v' : norm v' = v -> good v' -> allowed R (SOk v) (Ok v').
Proof. intros. left. exists v'. auto. Qed.

(* ------------------------------------------------------------------ norm on leaves *)
Lemma mk_fun_kind kvs : match mk_fun kvs with VTup _ | VFun _ => True | _ => False end.
Proof. unfold mk_fun. destruct (is_seq_dom kvs); exact I. Qed.

Lemma norm_num a z : norm a = VNum z <-> a = VNum z.
Proof.
  destruct a; cbn; try (split; congruence).
  pose proof (mk_fun_kind (sort_dedup kv_cmp (map (canon_kv norm) kvs))) as H.
  split; [|congruence]. intros E. rewrite E in H. contradiction.
Qed.

Lemma norm_bool a z : norm a = VBool z <-> a = VBool z.
Proof.
  destruct a; cbn; try (split; congruence).
  pose proof (mk_fun_kind (sort_dedup kv_cmp (map (canon_kv norm) kvs))) as H.
  split; [|congruence]. intros E. rewrite E in H. contradiction.
Qed.

Lemma norm_not_num a : (forall z, a <> VNum z) -> forall z, norm a <> VNum z.
Proof. intros H z E. apply (proj1 (norm_num _ _)) in E. apply (H z E). Qed.

Lemma good_num z : int32b z = true -> good (VNum z).
Proof. unfold int32b, good. cbn. unfold int32_ok. intros H. split; [exact I|lia]. Qed.

Lemma good_bool b : good (VBool b).
Proof. split; exact I. Qed.

Lemma in_int32_int32b z : in_int32 z = int32b z.
Proof. reflexivity. Qed.

Lemma checked_spec (R : Prop) z : allowed R (s_int z) (checked z).
Proof.
  unfold s_int, checked. change (in_int32 z) with (int32b z). destruct (int32b z) eqn:E; cbn.
  - apply allowed_ok; [reflexivity|apply good_num; exact E].
  - reflexivity.
Qed.

(* case analysis on the kinds of two arguments of an arithmetic operator *)
Ltac arith_args a b :=
  destruct a as [| ? | x | ? | ? | ? | ?]; try reflexivity;
  [ destruct b as [| ? | y | ? | ? | ? | ?]; try reflexivity
  | try (cbn; match goal with |- context [mk_fun ?k] => pose proof (mk_fun_kind k); destruct (mk_fun k); try contradiction; reflexivity end) ].

Lemma norm_fun_cases kvs : (exists l, norm (VFun kvs) = VTup l) \/ (exists l, norm (VFun kvs) = VFun l).
Proof.
  cbn. unfold mk_fun. destruct (is_seq_dom _); [left|right]; eexists; reflexivity.
Qed.

(* a non-number argument makes both sides fail *)
Lemma arith_err_l (f : Z -> Z -> sres) a b : (forall z, a <> VNum z) -> arith f (norm a) (norm b) = SErr.
Proof.
  intros H. unfold arith. destruct (norm a) eqn:E; try reflexivity. exfalso. apply (proj1 (norm_num _ _)) in E. apply (H z E).
Qed.
Lemma arith_err_r (f : Z -> Z -> sres) a b : (forall z, b <> VNum z) -> arith f (norm a) (norm b) = SErr.
Proof.
  intros H. unfold arith. destruct (norm a) eqn:Ea; try reflexivity.
  destruct (norm b) eqn:E; try reflexivity. exfalso. apply (proj1 (norm_num _ _)) in E. apply (H z0 E).
Qed.

Definition is_num (a : value) : {z | a = VNum z} + {forall z, a <> VNum z}.
Proof. destruct a; try (right; intros; discriminate). left. exists z. reflexivity. Defined.

(* generic: a binary integer operator of the shape
     do a <- AsNumber lhs; do b <- AsNumber rhs; body a b          (any order of the conversions) *)
Lemma binary_int (R : Prop) (f : Z -> Z -> sres) (impl : value -> value -> res value) (body : Z -> Z -> res value) :
  (forall a b, (forall z, a <> VNum z) -> impl a b = TypeErr) ->
  (forall a b, (forall z, b <> VNum z) -> impl a b = TypeErr) ->
  (forall x y, impl (VNum x) (VNum y) = body x y) ->
  (forall x y, allowed R (f x y) (body x y)) ->
  forall a b, allowed R (arith f (norm a) (norm b)) (impl a b).
Proof.
  intros Hl Hr Hn Hb a b.
  destruct (is_num a) as [[x ->]|Ha].
  - destruct (is_num b) as [[y ->]|Hb'].
    + cbn. rewrite Hn. apply Hb.
    + rewrite arith_err_r by auto. cbn. apply Hr; auto.
  - rewrite arith_err_l by auto. cbn. apply Hl; auto.
Qed.

Ltac not_num_l := let a := fresh "a" in let b := fresh "b" in let H := fresh "H" in
  intros a b H; destruct a; try reflexivity; exfalso; eapply H; reflexivity.
Ltac not_num_r := let a := fresh "a" in let b := fresh "b" in let H := fresh "H" in
  intros a b H; destruct a; try reflexivity; destruct b; try reflexivity; exfalso; eapply H; reflexivity.

Theorem plus_lemma a b : allowed False (spec_plus (norm a) (norm b)) (ModulePlusSymbol a b).
Proof.
  apply (binary_int False _ ModulePlusSymbol (fun x y => checked (x + y))); [not_num_l|not_num_r|reflexivity|].
  intros. apply checked_spec.
Qed.

Theorem minus_lemma a b : allowed False (spec_minus (norm a) (norm b)) (ModuleMinusSymbol a b).
Proof.
  apply (binary_int False _ ModuleMinusSymbol (fun x y => checked (x - y))); [not_num_l|not_num_r|reflexivity|].
  intros. apply checked_spec.
Qed.

Theorem times_lemma a b : allowed False (spec_times (norm a) (norm b)) (ModuleAsteriskSymbol a b).
Proof.
  apply (binary_int False _ ModuleAsteriskSymbol (fun x y => checked (x * y))); [not_num_l|not_num_r|reflexivity|].
  intros. apply checked_spec.
Qed.

Lemma cmp_lemma (R : Prop) (fs : Z -> Z -> bool) (impl : value -> value -> res value) :
  (forall a b, (forall z, a <> VNum z) -> impl a b = TypeErr) ->
  (forall a b, (forall z, b <> VNum z) -> impl a b = TypeErr) ->
  (forall x y, impl (VNum x) (VNum y) = Ok (VBool (fs x y))) ->
  forall a b, allowed R (arith (fun x y => s_bool (fs x y)) (norm a) (norm b)) (impl a b).
Proof.
  intros Hl Hr Hn. apply (binary_int R _ impl (fun x y => Ok (VBool (fs x y)))); auto.
  intros. apply allowed_ok; [reflexivity|apply good_bool].
Qed.

Theorem le_lemma a b : allowed False (spec_le (norm a) (norm b)) (ModuleLessThanOrEqualSymbol a b).
Proof. apply (cmp_lemma False Z.leb); [not_num_l|not_num_r|reflexivity]. Qed.
Theorem lt_lemma a b : allowed False (spec_lt (norm a) (norm b)) (ModuleLessThanSymbol a b).
Proof. apply (cmp_lemma False Z.ltb); [not_num_l|not_num_r|reflexivity]. Qed.
Theorem ge_lemma a b : allowed False (spec_ge (norm a) (norm b)) (ModuleGreaterThanOrEqualSymbol a b).
Proof.
  apply (cmp_lemma False (fun x y => y <=? x)); [not_num_l|not_num_r|].
  intros. cbn. unfold MakeBool. do 2 f_equal. lia.
Qed.
Theorem gt_lemma a b : allowed False (spec_gt (norm a) (norm b)) (ModuleGreaterThanSymbol a b).
Proof.
  apply (cmp_lemma False (fun x y => y <? x)); [not_num_l|not_num_r|].
  intros. cbn. unfold MakeBool. do 2 f_equal. lia.
Qed.

(* ------------------------------------------------------------------ operators that rely on int32 arguments *)
Lemma binary_int_b (R : Prop) (f : Z -> Z -> sres) (impl : value -> value -> res value) (body : Z -> Z -> res value) :
  (forall a b, (forall z, a <> VNum z) -> impl a b = TypeErr) ->
  (forall a b, (forall z, b <> VNum z) -> impl a b = TypeErr) ->
  (forall x y, impl (VNum x) (VNum y) = body x y) ->
  (forall x y, int32_ok x -> int32_ok y -> allowed R (f x y) (body x y)) ->
  forall a b, bounded a -> bounded b -> allowed R (arith f (norm a) (norm b)) (impl a b).
Proof.
  intros Hl Hr Hn Hb a b Ba Bb.
  destruct (is_num a) as [[x ->]|Ha].
  - destruct (is_num b) as [[y ->]|Hb'].
    + cbn. rewrite Hn. apply Hb; auto.
    + rewrite arith_err_r by auto. cbn. apply Hr; auto.
  - rewrite arith_err_l by auto. cbn. apply Hl; auto.
Qed.

Lemma floor_div_quot a b : b <> 0 ->
  (if negb (Z.rem a b =? 0) && negb (Bool.eqb (a <? 0) (b <? 0)) then Z.quot a b - 1 else Z.quot a b) = a / b.
Proof.
  intros Hb.
  destruct (Z.rem a b =? 0) eqn:E0; destruct (a <? 0) eqn:Ea; destruct (b <? 0) eqn:Eb; cbn [negb andb Bool.eqb];
  Z.to_euclidean_division_equations; nia.
Qed.

Lemma mod_rem a b : 0 < b -> (if Z.rem a b <? 0 then Z.rem a b + b else Z.rem a b) = a mod b.
Proof.
  intros Hb. pose proof (Z.quot_rem' a b) as Hq.
  assert (Hr : Z.abs (Z.rem a b) < Z.abs b) by (apply Z.rem_bound_abs; lia).
  destruct (Z.rem a b <? 0) eqn:E.
  - apply (Z.mod_unique a b (Z.quot a b - 1)); lia.
  - apply (Z.mod_unique a b (Z.quot a b)); lia.
Qed.

Lemma div_range x y : y <> 0 -> int32_ok x -> int32_ok y ->
  ~ (x = -2147483648 /\ y = -1) -> -2147483648 <= x / y <= 2147483647.
Proof. unfold int32_ok. intros. Z.to_euclidean_division_equations. nia. Qed.

Lemma pow_big a b : 2 <= Z.abs a -> 31 < b -> ~ (-2147483648 <= a ^ b <= 2147483647).
Proof.
  intros Ha Hb H.
  assert (2 ^ 32 <= Z.abs a ^ b).
  { transitivity (2 ^ b); [apply Z.pow_le_mono_r; lia|apply Z.pow_le_mono_l; lia]. }
  rewrite <- Z.abs_pow in H0. change (2^32) with 4294967296 in H0. lia.
Qed.

Lemma pow_m1 b : 0 <= b -> (-1) ^ b = if Z.even b then 1 else -1.
Proof.
  intros Hb. destruct (Z.even b) eqn:E.
  - apply Z.even_spec in E. destruct E as [k ->]. rewrite Z.pow_mul_r by lia. change ((-1)^2) with 1. apply Z.pow_1_l. lia.
  - rewrite <- Z.negb_odd in E. apply negb_false_iff in E. apply Z.odd_spec in E. destruct E as [k ->].
    rewrite Z.pow_add_r, Z.pow_mul_r by lia. change ((-1)^2) with 1. rewrite Z.pow_1_l by lia. reflexivity.
Qed.

Theorem div_lemma a b : bounded a -> bounded b ->
  allowed False (spec_div (norm a) (norm b)) (ModuleDivSymbol a b).
Proof.
  apply (binary_int_b False _ ModuleDivSymbol (fun a b =>
    do _ <- require (negb (b =? 0));
    do _ <- require (negb (a =? MinInt32) || negb (b =? -1));
    Ok (MakeNumber (if negb (Z.rem a b =? 0) && negb (Bool.eqb (a <? 0) (b <? 0)) then Z.quot a b - 1 else Z.quot a b))));
    [not_num_l|not_num_r|reflexivity|].
  intros x y Hx Hy.
  destruct (y =? 0) eqn:E0; cbn [negb require bind]; [reflexivity|].
  apply Z.eqb_neq in E0. rewrite floor_div_quot by auto.
  unfold s_int, MinInt32.
  destruct (negb (x =? -2147483648) || negb (y =? -1)) eqn:Eo; cbn [require bind].
  - pose proof (div_range x y E0 Hx Hy) as Hrange.
    assert (int32b (x / y) = true) as Hi by (unfold int32b; lia).
    rewrite Hi. apply allowed_ok; [reflexivity|apply good_num; exact Hi].
  - assert (x = -2147483648 /\ y = -1) as [-> ->] by lia. reflexivity.
Qed.

Theorem mod_lemma a b : bounded a -> bounded b ->
  allowed False (spec_mod (norm a) (norm b)) (ModulePercentSymbol a b).
Proof.
  apply (binary_int_b False _ ModulePercentSymbol (fun a b =>
    do _ <- require (0 <? b);
    Ok (MakeNumber (if Z.rem a b <? 0 then Z.rem a b + b else Z.rem a b)))).
  - intros a0 b0 H. destruct b0 as [| ? | y | ? | ? | ? | ?]; try reflexivity.
    cbn. destruct (0 <? y); cbn; [|reflexivity].
    destruct a0; try reflexivity. exfalso. eapply H. reflexivity.
  - intros a0 b0 H. destruct b0; try reflexivity. exfalso. eapply H. reflexivity.
  - intros x y. cbn. destruct (0 <? y); reflexivity.
  - intros x y Hx Hy. unfold int32_ok in *.
    destruct (0 <? y) eqn:E; cbn [require bind].
    + assert (y <=? 0 = false) as -> by lia. rewrite mod_rem by lia.
      pose proof (Z.mod_pos_bound x y).
      assert (int32b (x mod y) = true) as Hi by (unfold int32b; lia).
      unfold s_int. rewrite Hi. apply allowed_ok; [reflexivity|apply good_num; exact Hi].
    + assert (y <=? 0 = true) as -> by lia. reflexivity.
Qed.

Theorem neg_lemma a : bounded a -> allowed False (spec_neg (norm a)) (ModuleNegationSymbol a).
Proof.
  intros Ba. destruct (is_num a) as [[x ->]|Ha].
  - cbn in *. unfold int32_ok in Ba. unfold MaxInt32, s_int.
    destruct (- x <=? 2147483647) eqn:E; cbn [require bind].
    + assert (int32b (- x) = true) as Hi by (unfold int32b; lia).
      rewrite Hi. apply allowed_ok; [reflexivity|apply good_num; exact Hi].
    + assert (int32b (- x) = false) as -> by (unfold int32b; lia). reflexivity.
  - unfold spec_neg. destruct (norm a) eqn:E; try (destruct a; try reflexivity; exfalso; eapply Ha; reflexivity).
    apply (proj1 (norm_num _ _)) in E. exfalso. eapply Ha. exact E.
Qed.

Lemma checked_pow_spec a b : 0 <= b -> checked_pow a b = checked (a ^ b).
Proof.
  intros Hb. unfold checked_pow.
  destruct (a =? 0) eqn:E0.
  - apply Z.eqb_eq in E0. subst a. destruct (b =? 0) eqn:Eb.
    + apply Z.eqb_eq in Eb. subst b. reflexivity.
    + apply Z.eqb_neq in Eb. rewrite Z.pow_0_l by lia. reflexivity.
  - destruct (a =? 1) eqn:E1.
    + apply Z.eqb_eq in E1. subst a. rewrite Z.pow_1_l by lia. reflexivity.
    + destruct (a =? -1) eqn:Em.
      * apply Z.eqb_eq in Em. subst a. rewrite pow_m1 by lia. reflexivity.
      * destruct (31 <? b) eqn:Eb; [|reflexivity].
        unfold checked. assert (in_int32 (a ^ b) = false) as ->; [|reflexivity].
        pose proof (pow_big a b). unfold in_int32, MinInt32, MaxInt32. lia.
Qed.

Theorem pow_lemma a b : allowed False (spec_pow (norm a) (norm b)) (ModuleSuperscriptSymbol a b).
Proof.
  apply (binary_int False _ ModuleSuperscriptSymbol (fun a b =>
    do _ <- require (0 <=? b);
    do _ <- require (negb (a =? 0) || negb (b =? 0));
    checked_pow a b)).
  - intros a0 b0 H. destruct b0 as [| ? | y | ? | ? | ? | ?]; try reflexivity.
    cbn. destruct (0 <=? y); cbn; [|reflexivity].
    destruct a0; try reflexivity. exfalso. eapply H. reflexivity.
  - intros a0 b0 H. destruct b0; try reflexivity. exfalso. eapply H. reflexivity.
  - intros x y. cbn. destruct (0 <=? y); reflexivity.
  - intros x y. destruct (0 <=? y) eqn:E; cbn [require bind].
    + assert (y <? 0 = false) as -> by lia.
      destruct ((x =? 0) && (y =? 0)) eqn:Ez.
      * assert (negb (x =? 0) || negb (y =? 0) = false) as -> by lia. reflexivity.
      * assert (negb (x =? 0) || negb (y =? 0) = true) as -> by lia. cbn [require bind].
        rewrite checked_pow_spec by lia. apply checked_spec.
    + assert (y <? 0 = true) as -> by lia. reflexivity.
Qed.

(* ------------------------------------------------------------------ logic *)
Definition is_bool (a : value) : {z | a = VBool z} + {forall z, a <> VBool z}.
Proof. destruct a; try (right; intros; discriminate). left. exists b. reflexivity. Defined.

Lemma norm_nonbool a : (forall z, a <> VBool z) -> forall z, norm a <> VBool z.
Proof. intros H z E. apply (proj1 (norm_bool _ _)) in E. apply (H z E). Qed.

Ltac nonbool_norm a H :=
  let E := fresh "E" in
  destruct (norm a) eqn:E; try reflexivity;
  exfalso; apply (proj1 (norm_bool _ _)) in E; eapply H; exact E.

Ltac nonbool_impl a H := destruct a; try reflexivity; exfalso; eapply H; reflexivity.

Theorem not_lemma a : allowed False (spec_not (norm a)) (ModuleLogicalNotSymbol a).
Proof.
  destruct (is_bool a) as [[x ->]|Ha].
  - cbn. apply allowed_ok; [reflexivity|apply good_bool].
  - assert (spec_not (norm a) = SErr) as -> by (unfold spec_not; nonbool_norm a Ha).
    cbn. nonbool_impl a Ha.
Qed.

Theorem equiv_lemma a b : allowed False (spec_equiv (norm a) (norm b)) (ModuleEquivSymbol a b).
Proof.
  destruct (is_bool a) as [[x ->]|Ha].
  - destruct (is_bool b) as [[y ->]|Hb].
    + cbn. apply allowed_ok; [reflexivity|apply good_bool].
    + assert (spec_equiv (norm (VBool x)) (norm b) = SErr) as -> by (cbn; nonbool_norm b Hb).
      cbn. nonbool_impl b Hb.
  - assert (spec_equiv (norm a) (norm b) = SErr) as -> by (unfold spec_equiv; nonbool_norm a Ha).
    cbn. nonbool_impl a Ha.
Qed.

Theorem and_lemma a b : allowed False (spec_and (norm a) (norm b)) (LogicalAnd a b).
Proof.
  destruct (is_bool a) as [[x ->]|Ha].
  - destruct x; cbn; [|apply allowed_ok; [reflexivity|apply good_bool]].
    destruct (is_bool b) as [[y ->]|Hb].
    + cbn. apply allowed_ok; [reflexivity|apply good_bool].
    + assert (match norm b with VBool y => s_bool y | _ => SErr end = SErr) as -> by (nonbool_norm b Hb).
      cbn. nonbool_impl b Hb.
  - assert (spec_and (norm a) (norm b) = SErr) as -> by (unfold spec_and; nonbool_norm a Ha).
    cbn. nonbool_impl a Ha.
Qed.

Theorem or_lemma a b : allowed False (spec_or (norm a) (norm b)) (LogicalOr a b).
Proof.
  destruct (is_bool a) as [[x ->]|Ha].
  - destruct x; cbn; [apply allowed_ok; [reflexivity|apply good_bool]|].
    destruct (is_bool b) as [[y ->]|Hb].
    + cbn. apply allowed_ok; [reflexivity|apply good_bool].
    + assert (match norm b with VBool y => s_bool y | _ => SErr end = SErr) as -> by (nonbool_norm b Hb).
      cbn. nonbool_impl b Hb.
  - assert (spec_or (norm a) (norm b) = SErr) as -> by (unfold spec_or; nonbool_norm a Ha).
    cbn. nonbool_impl a Ha.
Qed.

Theorem implies_lemma a b : allowed False (spec_implies (norm a) (norm b)) (LogicalImplies a b).
Proof.
  destruct (is_bool a) as [[x ->]|Ha].
  - destruct x; cbn; [|apply allowed_ok; [reflexivity|apply good_bool]].
    destruct (is_bool b) as [[y ->]|Hb].
    + cbn. apply allowed_ok; [reflexivity|apply good_bool].
    + assert (match norm b with VBool y => s_bool y | _ => SErr end = SErr) as -> by (nonbool_norm b Hb).
      cbn. nonbool_impl b Hb.
  - assert (spec_implies (norm a) (norm b) = SErr) as -> by (unfold spec_implies; nonbool_norm a Ha).
    cbn. nonbool_impl a Ha.
Qed.

Theorem if_lemma c t e : good t -> good e -> allowed False (spec_if (norm c) (norm t) (norm e)) (IfThenElse c t e).
Proof.
  intros Gt Ge. destruct (is_bool c) as [[x ->]|Hc].
  - cbn. destruct x; apply allowed_ok; auto.
  - assert (spec_if (norm c) (norm t) (norm e) = SErr) as -> by (unfold spec_if; nonbool_norm c Hc).
    cbn. nonbool_impl c Hc.
Qed.

Theorem assert_lemma c m : allowed False (spec_assert (norm c) (norm m)) (ModuleAssert c m).
Proof.
  destruct (is_bool c) as [[x ->]|Hc].
  - destruct x; cbn; [apply allowed_ok; [reflexivity|apply good_bool]|reflexivity].
  - assert (spec_assert (norm c) (norm m) = SErr) as -> by (unfold spec_assert; nonbool_norm c Hc).
    cbn. nonbool_impl c Hc.
Qed.

(* ------------------------------------------------------------------ norm = canon on plain representations *)
Lemma norm_plain : forall v, plain v -> norm v = canon v.
Proof.
  induction v as [| x | x | x | xs IH | xs IH | kvs IH] using value_ind'; intros P; try reflexivity.
  - cbn in *. rewrite All_In in IH, P. f_equal. f_equal. apply map_ext_in. auto.
  - cbn in *. rewrite All_In in IH, P. f_equal. apply map_ext_in. auto.
  - destruct P as [Pa Ps]. rewrite All_In in IH, Pa. cbn [norm canon].
    assert (map (canon_kv norm) kvs = map (canon_kv canon) kvs) as ->.
    { apply map_ext_in. intros [k v] Hp. specialize (IH _ Hp). specialize (Pa _ Hp). cbn in *.
      destruct IH, Pa. f_equal; auto. }
    unfold mk_fun. rewrite Ps. reflexivity.
Qed.

Lemma norm_set a l : norm a = VSet l -> exists xs, a = VSet xs.
Proof.
  destruct a; cbn; try discriminate; eauto.
  pose proof (mk_fun_kind (sort_dedup kv_cmp (map (canon_kv norm) kvs))) as H.
  intros E. rewrite E in H. contradiction.
Qed.

Definition is_set (a : value) : {xs | a = VSet xs} + {forall xs, a <> VSet xs}.
Proof. destruct a; try (right; intros; discriminate). left. exists xs. reflexivity. Defined.

Lemma on_set_err a f : (forall xs, a <> VSet xs) -> on_set (norm a) f = SErr.
Proof.
  intros H. unfold on_set. destruct (norm a) eqn:E; try reflexivity.
  apply norm_set in E as [xs' ->]. exfalso. eapply H. reflexivity.
Qed.

Lemma on_sets_err_l a b f : (forall xs, a <> VSet xs) -> on_sets (norm a) (norm b) f = SErr.
Proof.
  intros H. unfold on_sets. destruct (norm a) eqn:E; try reflexivity.
  apply norm_set in E as [xs' ->]. exfalso. eapply H. reflexivity.
Qed.

Lemma on_sets_err_r a b f : (forall xs, b <> VSet xs) -> on_sets (norm a) (norm b) f = SErr.
Proof.
  intros H. unfold on_sets. destruct (norm a) eqn:Ea; try reflexivity.
  destruct (norm b) eqn:E; try reflexivity.
  apply norm_set in E as [xs' ->]. exfalso. eapply H. reflexivity.
Qed.

Lemma mem_In x l : mem x l = true <-> In x l.
Proof.
  unfold mem. rewrite existsb_exists. split.
  - intros (y & Hy & E). apply veqb_eq in E. subst. auto.
  - intros H. exists x. split; auto. apply veqb_refl.
Qed.

Lemma bool_eq_iff (a b : bool) : (a = true <-> b = true) -> a = b.
Proof.
  destruct a, b; intros [H1 H2]; auto; first [symmetry; apply H1; reflexivity | apply H2; reflexivity].
Qed.

(* members of a good, plain set *)
Definition fine (v : value) : Prop := rep_ok v /\ bounded v /\ plain v.

Lemma fine_set xs : fine (VSet xs) ->
  (forall y, In y xs -> fine y) /\ NoDup (map canon xs).
Proof.
  intros ((Ra & Nd) & B & P). cbn in B, P. rewrite All_In in Ra, B, P. split; auto.
  intros y Hy. repeat split; auto.
Qed.

Lemma fine_set_intro xs : (forall y, In y xs -> fine y) -> NoDup (map canon xs) -> fine (VSet xs).
Proof.
  intros H Nd. repeat split; cbn; auto; apply All_In; intros y Hy; apply H; auto.
Qed.

Lemma norm_fine_set xs : fine (VSet xs) -> norm (VSet xs) = VSet (sort_dedup vcmp (map canon xs)).
Proof. intros (_ & _ & P). rewrite norm_plain by auto. reflexivity. Qed.

Lemma fine_good v : fine v -> good v.
Proof. intros (R & B & _). split; auto. Qed.

(* the result of a set-valued operator: a representation `res` whose members are fine, pairwise
   different, and denote exactly the members `spec_l` the spec lists *)
Lemma set_result (R : Prop) res spec_l :
  (forall y, In y res -> fine y) -> NoDup (map canon res) ->
  (forall c, In c (map canon res) <-> In c spec_l) ->
  allowed R (SOk (mk_set spec_l)) (Ok (VSet res)).
Proof.
  intros Hf Nd Hm. apply allowed_ok.
  - rewrite norm_fine_set by (apply fine_set_intro; auto). unfold mk_set. f_equal. apply vsort_ext. auto.
  - apply fine_good, fine_set_intro; auto.
Qed.

Lemma build_set_result (R : Prop) xs spec_l :
  (forall y, In y xs -> fine y) ->
  (forall c, In c (map canon xs) <-> In c spec_l) ->
  allowed R (SOk (mk_set spec_l)) (Ok (build_set xs)).
Proof.
  intros Hf Hm. unfold build_set.
  destruct (fold_set_add_rep xs [] (fun y H => match H with end) (fun y Hy => proj1 (Hf y Hy)) (NoDup_nil _))
    as (I & Rr & N & M).
  apply set_result; auto.
  - intros y Hy. apply I in Hy as [[]|Hy]. auto.
  - intros c. rewrite M. cbn. rewrite <- Hm. tauto.
Qed.

Lemma set_has_canon s x : (forall y, In y s -> fine y) -> fine x ->
  set_has s x = mem (canon x) (sort_dedup vcmp (map canon s)).
Proof.
  intros Hs Hx. apply bool_eq_iff. unfold set_has.
  rewrite set_has_In by (try (intros y Hy; apply Hs; auto); apply Hx).
  rewrite mem_In, vsort_In. tauto.
Qed.

(* ------------------------------------------------------------------ set operators *)
Theorem in_lemma x s : fine x -> fine s -> allowed False (spec_in (norm x) (norm s)) (ModuleInSymbol x s).
Proof.
  intros Fx Fs. destruct (is_set s) as [[xs ->]|Hs].
  - rewrite norm_fine_set by auto. rewrite (norm_plain x) by apply Fx. cbn.
    destruct (fine_set xs Fs) as [Hm _].
    rewrite (set_has_canon xs x) by auto. apply allowed_ok; [reflexivity|apply good_bool].
  - unfold spec_in. rewrite on_set_err by auto. destruct s; try reflexivity. exfalso. eapply Hs. reflexivity.
Qed.

Theorem notin_lemma x s : fine x -> fine s -> allowed False (spec_notin (norm x) (norm s)) (ModuleNotInSymbol x s).
Proof.
  intros Fx Fs. destruct (is_set s) as [[xs ->]|Hs].
  - rewrite norm_fine_set by auto. rewrite (norm_plain x) by apply Fx. cbn.
    destruct (fine_set xs Fs) as [Hm _].
    rewrite (set_has_canon xs x) by auto. apply allowed_ok; [reflexivity|apply good_bool].
  - unfold spec_notin. rewrite on_set_err by auto. destruct s; try reflexivity. exfalso. eapply Hs. reflexivity.
Qed.

Ltac set_args a b Ha Hb :=
  destruct (is_set a) as [[?xs ->]|Ha];
  [ destruct (is_set b) as [[?ys ->]|Hb];
    [ | rewrite on_sets_err_r by auto; destruct b; try reflexivity; exfalso; eapply Hb; reflexivity ]
  | rewrite on_sets_err_l by auto; destruct a; try (destruct b; reflexivity); exfalso; eapply Ha; reflexivity ].

Theorem intersect_lemma a b : fine a -> fine b ->
  allowed False (spec_intersect (norm a) (norm b)) (ModuleIntersectSymbol a b).
Proof.
  intros Fa Fb. unfold spec_intersect. set_args a b Ha Hb.
  rewrite !norm_fine_set by auto. cbn [on_sets ModuleIntersectSymbol AsSet bind].
  destruct (fine_set xs Fa) as [Hx _]. destruct (fine_set ys Fb) as [Hy _].
  apply build_set_result.
  - intros y Hin. apply filter_In in Hin as [Hin _]. auto.
  - intros c. rewrite in_map_iff, filter_In, vsort_In, mem_In, vsort_In. split.
    + intros (e & <- & Hin). apply filter_In in Hin as [Hin Hh].
      rewrite (set_has_canon ys e) in Hh by auto. apply mem_In in Hh. rewrite vsort_In in Hh.
      split; auto. apply in_map; auto.
    + intros [Hc Hc']. apply in_map_iff in Hc as (e & <- & He). exists e. split; auto.
      apply filter_In. split; auto. rewrite (set_has_canon ys e) by auto. apply mem_In. rewrite vsort_In. auto.
Qed.

Theorem setminus_lemma a b : fine a -> fine b ->
  allowed False (spec_setminus (norm a) (norm b)) (ModuleBackslashSymbol a b).
Proof.
  intros Fa Fb. unfold spec_setminus. set_args a b Ha Hb.
  rewrite !norm_fine_set by auto. cbn [on_sets ModuleBackslashSymbol AsSet bind].
  destruct (fine_set xs Fa) as [Hx _]. destruct (fine_set ys Fb) as [Hy _].
  apply build_set_result.
  - intros y Hin. apply filter_In in Hin as [Hin _]. auto.
  - intros c. rewrite in_map_iff, filter_In, vsort_In, negb_true_iff. split.
    + intros (e & <- & Hin). apply filter_In in Hin as [Hin Hh]. apply negb_true_iff in Hh.
      rewrite (set_has_canon ys e) in Hh by auto. split; auto. apply in_map; auto.
    + intros [Hc Hc']. apply in_map_iff in Hc as (e & <- & He). exists e. split; auto.
      apply filter_In. split; auto. apply negb_true_iff. rewrite (set_has_canon ys e) by auto. auto.
Qed.

Theorem union_lemma a b : fine a -> fine b ->
  allowed False (spec_union (norm a) (norm b)) (ModuleUnionSymbol a b).
Proof.
  intros Fa Fb. unfold spec_union. set_args a b Ha Hb.
  rewrite !norm_fine_set by auto. cbn [on_sets ModuleUnionSymbol AsSet bind].
  destruct (fine_set xs Fa) as [Hx Nx]. destruct (fine_set ys Fb) as [Hy Ny].
  assert (G : forall big small, (forall y, In y big -> fine y) -> (forall y, In y small -> fine y) ->
              NoDup (map canon big) ->
              (forall c, In c (map canon big) \/ In c (map canon small) <->
                         In c (sort_dedup vcmp (map canon xs) ++ sort_dedup vcmp (map canon ys))) ->
              allowed False (SOk (mk_set (sort_dedup vcmp (map canon xs) ++ sort_dedup vcmp (map canon ys))))
                            (Ok (VSet (fold_left set_add small big)))).
  { intros big small Hb' Hs' Nb Hm.
    destruct (fold_set_add_rep small big (fun y Hy => proj1 (Hb' y Hy)) (fun y Hy => proj1 (Hs' y Hy)) Nb)
      as (I & Rr & N & M).
    apply set_result; auto.
    - intros y Hin. apply I in Hin as [?|?]; auto.
    - intros c. rewrite M. apply Hm. }
  destruct (Nat.ltb (List.length xs) (List.length ys)).
  - apply G; auto. intros c. rewrite in_app_iff, !vsort_In. tauto.
  - apply G; auto. intros c. rewrite in_app_iff, !vsort_In. tauto.
Qed.

Theorem subseteq_lemma a b : fine a -> fine b ->
  allowed False (spec_subseteq (norm a) (norm b)) (ModuleSubsetOrEqualSymbol a b).
Proof.
  intros Fa Fb. unfold spec_subseteq. set_args a b Ha Hb.
  rewrite !norm_fine_set by auto. cbn [on_sets ModuleSubsetOrEqualSymbol AsSet bind].
  destruct (fine_set xs Fa) as [Hx _]. destruct (fine_set ys Fb) as [Hy _].
  assert (forallb (fun e => set_has ys e) xs =
          forallb (fun x => mem x (sort_dedup vcmp (map canon ys))) (sort_dedup vcmp (map canon xs))) as ->.
  { apply bool_eq_iff. rewrite !forallb_forall. split.
    - intros H c Hc. rewrite vsort_In in Hc. apply in_map_iff in Hc as (e & <- & He).
      rewrite <- (set_has_canon ys e) by auto. auto.
    - intros H e He. rewrite (set_has_canon ys e) by auto. apply H. rewrite vsort_In. apply in_map; auto. }
  apply allowed_ok; [reflexivity|apply good_bool].
Qed.

Theorem isfiniteset_lemma a : allowed False (spec_isfiniteset (norm a)) (ModuleIsFiniteSet a).
Proof.
  destruct (is_set a) as [[xs ->]|Ha].
  - cbn. apply allowed_ok; [reflexivity|apply good_bool].
  - unfold spec_isfiniteset. rewrite on_set_err by auto. destruct a; try reflexivity. exfalso. eapply Ha. reflexivity.
Qed.

(* int32(set.Len()) is exact below 2^31 members (a set that large does not fit in memory) *)
Definition small_card (a : value) : Prop :=
  forall xs, a = VSet xs -> Z.of_nat (List.length xs) <= 2147483647.

Theorem cardinality_lemma a : fine a -> small_card a ->
  allowed False (spec_cardinality (norm a)) (ModuleCardinality a).
Proof.
  intros Fa Hlen. destruct (is_set a) as [[xs ->]|Ha].
  - rewrite norm_fine_set by auto. cbn. destruct (fine_set xs Fa) as [_ Nx].
    rewrite vsort_length, map_length by auto.
    specialize (Hlen xs eq_refl).
    assert (int32b (Z.of_nat (List.length xs)) = true) as Hi by (unfold int32b; lia).
    unfold s_int. rewrite Hi. apply allowed_ok; [reflexivity|apply good_num; exact Hi].
  - unfold spec_cardinality. rewrite on_set_err by auto. destruct a; try reflexivity. exfalso. eapply Ha. reflexivity.
Qed.
