(* C03 — lemmas: each implementation function (C03/Impl.v) refines the TLA+ operator (Base/Ops.v). *)
From PGV Require Import Base.Value Base.ValueFacts Base.Ops C05.Model C05.Proofs C03.Impl.
From Coq Require Import Lia ZifyBool Sorted Permutation.
Open Scope Z_scope.

(* The relation between what TLA+/TLC prescribe (s) and what the implementation does (r):
   - TLC reports an error            => the implementation fails loudly with a TLA+ type error;
   - TLA+ gives the value v          => the implementation returns a proper representation of v,
                                        or fails loudly with a TLA+ type error, the latter only if
                                        `restricted` (the statement's documented restrictions);
   - never Panic, never Hang, never another value. *)
Definition good (v : value) : Prop := rep_ok v /\ bounded v.

Definition allowed (restricted : Prop) (s : sres) (r : res value) : Prop :=
  match s with
  | SOk v => (exists v', r = Ok v' /\ norm v' = v /\ good v') \/ (r = TypeErr /\ restricted)
  | SErr => r = TypeErr
  end.

Lemma allowed_ok (R : Prop) v v' : norm v' = v -> good v' -> allowed R (SOk v) (Ok v').
Proof. intros. left. exists v'. auto. Qed.

(* ------------------------------------------------------------------ norm on leaves *)
Lemma mk_fun_kind kvs : match mk_fun kvs with VTup _ | VFun _ => True | _ => False end.
Proof. unfold mk_fun. destruct (is_seq_dom kvs); exact I. Qed.

Lemma norm_num a z : norm a = VNum z <-> a = VNum z.
Proof.
  destruct a; cbn; try (split; congruence).
  pose proof (mk_fun_kind (sort_dedup kv_cmp (map (canon_kv norm) kvs))) as H.
  split; [|congruence]. intros E. rewrite E in H. contradiction.
Qed.

Lemma norm_bool a z : norm a = VBool z <-> a = VBool z.
Proof.
  destruct a; cbn; try (split; congruence).
  pose proof (mk_fun_kind (sort_dedup kv_cmp (map (canon_kv norm) kvs))) as H.
  split; [|congruence]. intros E. rewrite E in H. contradiction.
Qed.

Lemma norm_not_num a : (forall z, a <> VNum z) -> forall z, norm a <> VNum z.
Proof. intros H z E. apply (proj1 (norm_num _ _)) in E. apply (H z E). Qed.

Lemma good_num z : int32b z = true -> good (VNum z).
Proof. unfold int32b, good. cbn. unfold int32_ok. intros H. split; [exact I|lia]. Qed.

Lemma good_bool b : good (VBool b).
Proof. split; exact I. Qed.

Lemma in_int32_int32b z : in_int32 z = int32b z.
Proof. reflexivity. Qed.

Lemma checked_spec (R : Prop) z : allowed R (s_int z) (checked z).
Proof.
  unfold s_int, checked. change (in_int32 z) with (int32b z). destruct (int32b z) eqn:E; cbn.
  - apply allowed_ok; [reflexivity|apply good_num; exact E].
  - reflexivity.
Qed.

(* case analysis on the kinds of two arguments of an arithmetic operator *)
Ltac arith_args a b :=
  destruct a as [| ? | x | ? | ? | ? | ?]; try reflexivity;
  [ destruct b as [| ? | y | ? | ? | ? | ?]; try reflexivity
  | try (cbn; match goal with |- context [mk_fun ?k] => pose proof (mk_fun_kind k); destruct (mk_fun k); try contradiction; reflexivity end) ].

Lemma norm_fun_cases kvs : (exists l, norm (VFun kvs) = VTup l) \/ (exists l, norm (VFun kvs) = VFun l).
Proof.
  cbn. unfold mk_fun. destruct (is_seq_dom _); [left|right]; eexists; reflexivity.
Qed.

(* a non-number argument makes both sides fail *)
Lemma arith_err_l (f : Z -> Z -> sres) a b : (forall z, a <> VNum z) -> arith f (norm a) (norm b) = SErr.
Proof.
  intros H. unfold arith. destruct (norm a) eqn:E; try reflexivity. exfalso. apply (proj1 (norm_num _ _)) in E. apply (H z E).
Qed.
Lemma arith_err_r (f : Z -> Z -> sres) a b : (forall z, b <> VNum z) -> arith f (norm a) (norm b) = SErr.
Proof.
  intros H. unfold arith. destruct (norm a) eqn:Ea; try reflexivity.
  destruct (norm b) eqn:E; try reflexivity. exfalso. apply (proj1 (norm_num _ _)) in E. apply (H z0 E).
Qed.

Definition is_num (a : value) : {z | a = VNum z} + {forall z, a <> VNum z}.
Proof. destruct a; try (right; intros; discriminate). left. exists z. reflexivity. Defined.

(* generic: a binary integer operator of the shape
     do a <- AsNumber lhs; do b <- AsNumber rhs; body a b          (any order of the conversions) *)
Lemma binary_int (R : Prop) (f : Z -> Z -> sres) (impl : value -> value -> res value) (body : Z -> Z -> res value) :
  (forall a b, (forall z, a <> VNum z) -> impl a b = TypeErr) ->
  (forall a b, (forall z, b <> VNum z) -> impl a b = TypeErr) ->
  (forall x y, impl (VNum x) (VNum y) = body x y) ->
  (forall x y, allowed R (f x y) (body x y)) ->
  forall a b, allowed R (arith f (norm a) (norm b)) (impl a b).
Proof.
  intros Hl Hr Hn Hb a b.
  destruct (is_num a) as [[x ->]|Ha].
  - destruct (is_num b) as [[y ->]|Hb'].
    + cbn. rewrite Hn. apply Hb.
    + rewrite arith_err_r by auto. cbn. apply Hr; auto.
  - rewrite arith_err_l by auto. cbn. apply Hl; auto.
Qed.

Ltac not_num_l := let a := fresh "a" in let b := fresh "b" in let H := fresh "H" in
  intros a b H; destruct a; try reflexivity; exfalso; eapply H; reflexivity.
Ltac not_num_r := let a := fresh "a" in let b := fresh "b" in let H := fresh "H" in
  intros a b H; destruct a; try reflexivity; destruct b; try reflexivity; exfalso; eapply H; reflexivity.

Theorem plus_lemma a b : allowed False (spec_plus (norm a) (norm b)) (ModulePlusSymbol a b).
Proof.
  apply (binary_int False _ ModulePlusSymbol (fun x y => checked (x + y))); [not_num_l|not_num_r|reflexivity|].
  intros. apply checked_spec.
Qed.

Theorem minus_lemma a b : allowed False (spec_minus (norm a) (norm b)) (ModuleMinusSymbol a b).
Proof.
  apply (binary_int False _ ModuleMinusSymbol (fun x y => checked (x - y))); [not_num_l|not_num_r|reflexivity|].
  intros. apply checked_spec.
Qed.

Theorem times_lemma a b : allowed False (spec_times (norm a) (norm b)) (ModuleAsteriskSymbol a b).
Proof.
  apply (binary_int False _ ModuleAsteriskSymbol (fun x y => checked (x * y))); [not_num_l|not_num_r|reflexivity|].
  intros. apply checked_spec.
Qed.

Lemma cmp_lemma (R : Prop) (fs : Z -> Z -> bool) (impl : value -> value -> res value) :
  (forall a b, (forall z, a <> VNum z) -> impl a b = TypeErr) ->
  (forall a b, (forall z, b <> VNum z) -> impl a b = TypeErr) ->
  (forall x y, impl (VNum x) (VNum y) = Ok (VBool (fs x y))) ->
  forall a b, allowed R (arith (fun x y => s_bool (fs x y)) (norm a) (norm b)) (impl a b).
Proof.
  intros Hl Hr Hn. apply (binary_int R _ impl (fun x y => Ok (VBool (fs x y)))); auto.
  intros. apply allowed_ok; [reflexivity|apply good_bool].
Qed.

Theorem le_lemma a b : allowed False (spec_le (norm a) (norm b)) (ModuleLessThanOrEqualSymbol a b).
Proof. apply (cmp_lemma False Z.leb); [not_num_l|not_num_r|reflexivity]. Qed.
Theorem lt_lemma a b : allowed False (spec_lt (norm a) (norm b)) (ModuleLessThanSymbol a b).
Proof. apply (cmp_lemma False Z.ltb); [not_num_l|not_num_r|reflexivity]. Qed.
Theorem ge_lemma a b : allowed False (spec_ge (norm a) (norm b)) (ModuleGreaterThanOrEqualSymbol a b).
Proof.
  apply (cmp_lemma False (fun x y => y <=? x)); [not_num_l|not_num_r|].
  intros. cbn. unfold MakeBool. do 2 f_equal. lia.
Qed.
Theorem gt_lemma a b : allowed False (spec_gt (norm a) (norm b)) (ModuleGreaterThanSymbol a b).
Proof.
  apply (cmp_lemma False (fun x y => y <? x)); [not_num_l|not_num_r|].
  intros. cbn. unfold MakeBool. do 2 f_equal. lia.
Qed.

(* ------------------------------------------------------------------ operators that rely on int32 arguments *)
Lemma binary_int_b (R : Prop) (f : Z -> Z -> sres) (impl : value -> value -> res value) (body : Z -> Z -> res value) :
  (forall a b, (forall z, a <> VNum z) -> impl a b = TypeErr) ->
  (forall a b, (forall z, b <> VNum z) -> impl a b = TypeErr) ->
  (forall x y, impl (VNum x) (VNum y) = body x y) ->
  (forall x y, int32_ok x -> int32_ok y -> allowed R (f x y) (body x y)) ->
  forall a b, bounded a -> bounded b -> allowed R (arith f (norm a) (norm b)) (impl a b).
Proof.
  intros Hl Hr Hn Hb a b Ba Bb.
  destruct (is_num a) as [[x ->]|Ha].
  - destruct (is_num b) as [[y ->]|Hb'].
    + cbn. rewrite Hn. apply Hb; auto.
    + rewrite arith_err_r by auto. cbn. apply Hr; auto.
  - rewrite arith_err_l by auto. cbn. apply Hl; auto.
Qed.

Lemma floor_div_quot a b : b <> 0 ->
  (if negb (Z.rem a b =? 0) && negb (Bool.eqb (a <? 0) (b <? 0)) then Z.quot a b - 1 else Z.quot a b) = a / b.
Proof.
  intros Hb.
  destruct (Z.rem a b =? 0) eqn:E0; destruct (a <? 0) eqn:Ea; destruct (b <? 0) eqn:Eb; cbn [negb andb Bool.eqb];
  Z.to_euclidean_division_equations; nia.
Qed.

Lemma mod_rem a b : 0 < b -> (if Z.rem a b <? 0 then Z.rem a b + b else Z.rem a b) = a mod b.
Proof.
  intros Hb. pose proof (Z.quot_rem' a b) as Hq.
  assert (Hr : Z.abs (Z.rem a b) < Z.abs b) by (apply Z.rem_bound_abs; lia).
  destruct (Z.rem a b <? 0) eqn:E.
  - apply (Z.mod_unique a b (Z.quot a b - 1)); lia.
  - apply (Z.mod_unique a b (Z.quot a b)); lia.
Qed.

Lemma div_range x y : y <> 0 -> int32_ok x -> int32_ok y ->
  ~ (x = -2147483648 /\ y = -1) -> -2147483648 <= x / y <= 2147483647.
Proof. unfold int32_ok. intros. Z.to_euclidean_division_equations. nia. Qed.

Lemma pow_big a b : 2 <= Z.abs a -> 31 < b -> ~ (-2147483648 <= a ^ b <= 2147483647).
Proof.
  intros Ha Hb H.
  assert (2 ^ 32 <= Z.abs a ^ b).
  { transitivity (2 ^ b); [apply Z.pow_le_mono_r; lia|apply Z.pow_le_mono_l; lia]. }
  rewrite <- Z.abs_pow in H0. change (2^32) with 4294967296 in H0. lia.
Qed.

Lemma pow_m1 b : 0 <= b -> (-1) ^ b = if Z.even b then 1 else -1.
Proof.
  intros Hb. destruct (Z.even b) eqn:E.
  - apply Z.even_spec in E. destruct E as [k ->]. rewrite Z.pow_mul_r by lia. change ((-1)^2) with 1. apply Z.pow_1_l. lia.
  - rewrite <- Z.negb_odd in E. apply negb_false_iff in E. apply Z.odd_spec in E. destruct E as [k ->].
    rewrite Z.pow_add_r, Z.pow_mul_r by lia. change ((-1)^2) with 1. rewrite Z.pow_1_l by lia. reflexivity.
Qed.

Theorem div_lemma a b : bounded a -> bounded b ->
  allowed False (spec_div (norm a) (norm b)) (ModuleDivSymbol a b).
Proof.
  apply (binary_int_b False _ ModuleDivSymbol (fun a b =>
    do _ <- require (negb (b =? 0));
    do _ <- require (negb (a =? MinInt32) || negb (b =? -1));
    Ok (MakeNumber (if negb (Z.rem a b =? 0) && negb (Bool.eqb (a <? 0) (b <? 0)) then Z.quot a b - 1 else Z.quot a b))));
    [not_num_l|not_num_r|reflexivity|].
  intros x y Hx Hy.
  destruct (y =? 0) eqn:E0; cbn [negb require bind]; [reflexivity|].
  apply Z.eqb_neq in E0. rewrite floor_div_quot by auto.
  unfold s_int, MinInt32.
  destruct (negb (x =? -2147483648) || negb (y =? -1)) eqn:Eo; cbn [require bind].
  - pose proof (div_range x y E0 Hx Hy) as Hrange.
    assert (int32b (x / y) = true) as Hi by (unfold int32b; lia).
    rewrite Hi. apply allowed_ok; [reflexivity|apply good_num; exact Hi].
  - assert (x = -2147483648 /\ y = -1) as [-> ->] by lia. reflexivity.
Qed.

Theorem mod_lemma a b : bounded a -> bounded b ->
  allowed False (spec_mod (norm a) (norm b)) (ModulePercentSymbol a b).
Proof.
  apply (binary_int_b False _ ModulePercentSymbol (fun a b =>
    do _ <- require (0 <? b);
    Ok (MakeNumber (if Z.rem a b <? 0 then Z.rem a b + b else Z.rem a b)))).
  - intros a0 b0 H. destruct b0 as [| ? | y | ? | ? | ? | ?]; try reflexivity.
    cbn. destruct (0 <? y); cbn; [|reflexivity].
    destruct a0; try reflexivity. exfalso. eapply H. reflexivity.
  - intros a0 b0 H. destruct b0; try reflexivity. exfalso. eapply H. reflexivity.
  - intros x y. cbn. destruct (0 <? y); reflexivity.
  - intros x y Hx Hy. unfold int32_ok in *.
    destruct (0 <? y) eqn:E; cbn [require bind].
    + assert (y <=? 0 = false) as -> by lia. rewrite mod_rem by lia.
      pose proof (Z.mod_pos_bound x y).
      assert (int32b (x mod y) = true) as Hi by (unfold int32b; lia).
      unfold s_int. rewrite Hi. apply allowed_ok; [reflexivity|apply good_num; exact Hi].
    + assert (y <=? 0 = true) as -> by lia. reflexivity.
Qed.

Theorem neg_lemma a : bounded a -> allowed False (spec_neg (norm a)) (ModuleNegationSymbol a).
Proof.
  intros Ba. destruct (is_num a) as [[x ->]|Ha].
  - cbn in *. unfold int32_ok in Ba. unfold MaxInt32, s_int.
    destruct (- x <=? 2147483647) eqn:E; cbn [require bind].
    + assert (int32b (- x) = true) as Hi by (unfold int32b; lia).
      rewrite Hi. apply allowed_ok; [reflexivity|apply good_num; exact Hi].
    + assert (int32b (- x) = false) as -> by (unfold int32b; lia). reflexivity.
  - unfold spec_neg. destruct (norm a) eqn:E; try (destruct a; try reflexivity; exfalso; eapply Ha; reflexivity).
    apply (proj1 (norm_num _ _)) in E. exfalso. eapply Ha. exact E.
Qed.

Lemma checked_pow_spec a b : 0 <= b -> checked_pow a b = checked (a ^ b).
Proof.
  intros Hb. unfold checked_pow.
  destruct (a =? 0) eqn:E0.
  - apply Z.eqb_eq in E0. subst a. destruct (b =? 0) eqn:Eb.
    + apply Z.eqb_eq in Eb. subst b. reflexivity.
    + apply Z.eqb_neq in Eb. rewrite Z.pow_0_l by lia. reflexivity.
  - destruct (a =? 1) eqn:E1.
    + apply Z.eqb_eq in E1. subst a. rewrite Z.pow_1_l by lia. reflexivity.
    + destruct (a =? -1) eqn:Em.
      * apply Z.eqb_eq in Em. subst a. rewrite pow_m1 by lia. reflexivity.
      * destruct (31 <? b) eqn:Eb; [|reflexivity].
        unfold checked. assert (in_int32 (a ^ b) = false) as ->; [|reflexivity].
        pose proof (pow_big a b). unfold in_int32, MinInt32, MaxInt32. lia.
Qed.

Theorem pow_lemma a b : allowed False (spec_pow (norm a) (norm b)) (ModuleSuperscriptSymbol a b).
Proof.
  apply (binary_int False _ ModuleSuperscriptSymbol (fun a b =>
    do _ <- require (0 <=? b);
    do _ <- require (negb (a =? 0) || negb (b =? 0));
    checked_pow a b)).
  - intros a0 b0 H. destruct b0 as [| ? | y | ? | ? | ? | ?]; try reflexivity.
    cbn. destruct (0 <=? y); cbn; [|reflexivity].
    destruct a0; try reflexivity. exfalso. eapply H. reflexivity.
  - intros a0 b0 H. destruct b0; try reflexivity. exfalso. eapply H. reflexivity.
  - intros x y. cbn. destruct (0 <=? y); reflexivity.
  - intros x y. destruct (0 <=? y) eqn:E; cbn [require bind].
    + assert (y <? 0 = false) as -> by lia.
      destruct ((x =? 0) && (y =? 0)) eqn:Ez.
      * assert (negb (x =? 0) || negb (y =? 0) = false) as -> by lia. reflexivity.
      * assert (negb (x =? 0) || negb (y =? 0) = true) as -> by lia. cbn [require bind].
        rewrite checked_pow_spec by lia. apply checked_spec.
    + assert (y <? 0 = true) as -> by lia. reflexivity.
Qed.

(* ------------------------------------------------------------------ logic *)
Definition is_bool (a : value) : {z | a = VBool z} + {forall z, a <> VBool z}.
Proof. destruct a; try (right; intros; discriminate). left. exists b. reflexivity. Defined.

Lemma norm_nonbool a : (forall z, a <> VBool z) -> forall z, norm a <> VBool z.
Proof. intros H z E. apply (proj1 (norm_bool _ _)) in E. apply (H z E). Qed.

Ltac nonbool_norm a H :=
  let E := fresh "E" in
  destruct (norm a) eqn:E; try reflexivity;
  exfalso; apply (proj1 (norm_bool _ _)) in E; eapply H; exact E.

Ltac nonbool_impl a H := destruct a; try reflexivity; exfalso; eapply H; reflexivity.

Theorem not_lemma a : allowed False (spec_not (norm a)) (ModuleLogicalNotSymbol a).
Proof.
  destruct (is_bool a) as [[x ->]|Ha].
  - cbn. apply allowed_ok; [reflexivity|apply good_bool].
  - assert (spec_not (norm a) = SErr) as -> by (unfold spec_not; nonbool_norm a Ha).
    cbn. nonbool_impl a Ha.
Qed.

Theorem equiv_lemma a b : allowed False (spec_equiv (norm a) (norm b)) (ModuleEquivSymbol a b).
Proof.
  destruct (is_bool a) as [[x ->]|Ha].
  - destruct (is_bool b) as [[y ->]|Hb].
    + cbn. apply allowed_ok; [reflexivity|apply good_bool].
    + assert (spec_equiv (norm (VBool x)) (norm b) = SErr) as -> by (cbn; nonbool_norm b Hb).
      cbn. nonbool_impl b Hb.
  - assert (spec_equiv (norm a) (norm b) = SErr) as -> by (unfold spec_equiv; nonbool_norm a Ha).
    cbn. nonbool_impl a Ha.
Qed.

Theorem and_lemma a b : allowed False (spec_and (norm a) (norm b)) (LogicalAnd a b).
Proof.
  destruct (is_bool a) as [[x ->]|Ha].
  - destruct x; cbn; [|apply allowed_ok; [reflexivity|apply good_bool]].
    destruct (is_bool b) as [[y ->]|Hb].
    + cbn. apply allowed_ok; [reflexivity|apply good_bool].
    + assert (match norm b with VBool y => s_bool y | _ => SErr end = SErr) as -> by (nonbool_norm b Hb).
      cbn. nonbool_impl b Hb.
  - assert (spec_and (norm a) (norm b) = SErr) as -> by (unfold spec_and; nonbool_norm a Ha).
    cbn. nonbool_impl a Ha.
Qed.

Theorem or_lemma a b : allowed False (spec_or (norm a) (norm b)) (LogicalOr a b).
Proof.
  destruct (is_bool a) as [[x ->]|Ha].
  - destruct x; cbn; [apply allowed_ok; [reflexivity|apply good_bool]|].
    destruct (is_bool b) as [[y ->]|Hb].
    + cbn. apply allowed_ok; [reflexivity|apply good_bool].
    + assert (match norm b with VBool y => s_bool y | _ => SErr end = SErr) as -> by (nonbool_norm b Hb).
      cbn. nonbool_impl b Hb.
  - assert (spec_or (norm a) (norm b) = SErr) as -> by (unfold spec_or; nonbool_norm a Ha).
    cbn. nonbool_impl a Ha.
Qed.

Theorem implies_lemma a b : allowed False (spec_implies (norm a) (norm b)) (LogicalImplies a b).
Proof.
  destruct (is_bool a) as [[x ->]|Ha].
  - destruct x; cbn; [|apply allowed_ok; [reflexivity|apply good_bool]].
    destruct (is_bool b) as [[y ->]|Hb].
    + cbn. apply allowed_ok; [reflexivity|apply good_bool].
    + assert (match norm b with VBool y => s_bool y | _ => SErr end = SErr) as -> by (nonbool_norm b Hb).
      cbn. nonbool_impl b Hb.
  - assert (spec_implies (norm a) (norm b) = SErr) as -> by (unfold spec_implies; nonbool_norm a Ha).
    cbn. nonbool_impl a Ha.
Qed.

Theorem if_lemma c t e : good t -> good e -> allowed False (spec_if (norm c) (norm t) (norm e)) (IfThenElse c t e).
Proof.
  intros Gt Ge. destruct (is_bool c) as [[x ->]|Hc].
  - cbn. destruct x; apply allowed_ok; auto.
  - assert (spec_if (norm c) (norm t) (norm e) = SErr) as -> by (unfold spec_if; nonbool_norm c Hc).
    cbn. nonbool_impl c Hc.
Qed.

Theorem assert_lemma c m : allowed False (spec_assert (norm c) (norm m)) (ModuleAssert c m).
Proof.
  destruct (is_bool c) as [[x ->]|Hc].
  - destruct x; cbn; [apply allowed_ok; [reflexivity|apply good_bool]|reflexivity].
  - assert (spec_assert (norm c) (norm m) = SErr) as -> by (unfold spec_assert; nonbool_norm c Hc).
    cbn. nonbool_impl c Hc.
Qed.

(* ------------------------------------------------------------------ norm = canon on plain representations *)
Lemma norm_plain : forall v, plain v -> norm v = canon v.
Proof.
  induction v as [| x | x | x | xs IH | xs IH | kvs IH] using value_ind'; intros P; try reflexivity.
  - cbn in *. rewrite All_In in IH, P. f_equal. f_equal. apply map_ext_in. auto.
  - cbn in *. rewrite All_In in IH, P. f_equal. apply map_ext_in. auto.
  - destruct P as [Pa Ps]. rewrite All_In in IH, Pa. cbn [norm canon].
    assert (map (canon_kv norm) kvs = map (canon_kv canon) kvs) as ->.
    { apply map_ext_in. intros [k v] Hp. specialize (IH _ Hp). specialize (Pa _ Hp). cbn in *.
      destruct IH, Pa. f_equal; auto. }
    unfold mk_fun. rewrite Ps. reflexivity.
Qed.

Lemma norm_set a l : norm a = VSet l -> exists xs, a = VSet xs.
Proof.
  destruct a; cbn; try discriminate; eauto.
  pose proof (mk_fun_kind (sort_dedup kv_cmp (map (canon_kv norm) kvs))) as H.
  intros E. rewrite E in H. contradiction.
Qed.

Definition is_set (a : value) : {xs | a = VSet xs} + {forall xs, a <> VSet xs}.
Proof. destruct a; try (right; intros; discriminate). left. exists xs. reflexivity. Defined.

Lemma on_set_err a f : (forall xs, a <> VSet xs) -> on_set (norm a) f = SErr.
Proof.
  intros H. unfold on_set. destruct (norm a) eqn:E; try reflexivity.
  apply norm_set in E as [xs' ->]. exfalso. eapply H. reflexivity.
Qed.

Lemma on_sets_err_l a b f : (forall xs, a <> VSet xs) -> on_sets (norm a) (norm b) f = SErr.
Proof.
  intros H. unfold on_sets. destruct (norm a) eqn:E; try reflexivity.
  apply norm_set in E as [xs' ->]. exfalso. eapply H. reflexivity.
Qed.

Lemma on_sets_err_r a b f : (forall xs, b <> VSet xs) -> on_sets (norm a) (norm b) f = SErr.
Proof.
  intros H. unfold on_sets. destruct (norm a) eqn:Ea; try reflexivity.
  destruct (norm b) eqn:E; try reflexivity.
  apply norm_set in E as [xs' ->]. exfalso. eapply H. reflexivity.
Qed.

Lemma mem_In x l : mem x l = true <-> In x l.
Proof.
  unfold mem. rewrite existsb_exists. split.
  - intros (y & Hy & E). apply veqb_eq in E. subst. auto.
  - intros H. exists x. split; auto. apply veqb_refl.
Qed.

Lemma bool_eq_iff (a b : bool) : (a = true <-> b = true) -> a = b.
Proof.
  destruct a, b; intros [H1 H2]; auto; first [symmetry; apply H1; reflexivity | apply H2; reflexivity].
Qed.

(* members of a good, plain set *)
Definition fine (v : value) : Prop := rep_ok v /\ bounded v /\ plain v.

Lemma fine_set xs : fine (VSet xs) ->
  (forall y, In y xs -> fine y) /\ NoDup (map canon xs).
Proof.
  intros ((Ra & Nd) & B & P). cbn in B, P. rewrite All_In in Ra, B, P. split; auto.
  intros y Hy. repeat split; auto.
Qed.

Lemma fine_set_intro xs : (forall y, In y xs -> fine y) -> NoDup (map canon xs) -> fine (VSet xs).
Proof.
  intros H Nd. repeat split; cbn; auto; apply All_In; intros y Hy; apply H; auto.
Qed.

Lemma norm_fine_set xs : fine (VSet xs) -> norm (VSet xs) = VSet (sort_dedup vcmp (map canon xs)).
Proof. intros (_ & _ & P). rewrite norm_plain by auto. reflexivity. Qed.

Lemma fine_good v : fine v -> good v.
Proof. intros (R & B & _). split; auto. Qed.

(* the result of a set-valued operator: a representation `res` whose members are fine, pairwise
   different, and denote exactly the members `spec_l` the spec lists *)
Lemma set_result (R : Prop) res spec_l :
  (forall y, In y res -> fine y) -> NoDup (map canon res) ->
  (forall c, In c (map canon res) <-> In c spec_l) ->
  allowed R (SOk (mk_set spec_l)) (Ok (VSet res)).
Proof.
  intros Hf Nd Hm. apply allowed_ok.
  - rewrite norm_fine_set by (apply fine_set_intro; auto). unfold mk_set. f_equal. apply vsort_ext. auto.
  - apply fine_good, fine_set_intro; auto.
Qed.

Lemma build_set_result (R : Prop) xs spec_l :
  (forall y, In y xs -> fine y) ->
  (forall c, In c (map canon xs) <-> In c spec_l) ->
  allowed R (SOk (mk_set spec_l)) (Ok (build_set xs)).
Proof.
  intros Hf Hm. unfold build_set.
  destruct (fold_set_add_rep xs [] (fun y H => match H with end) (fun y Hy => proj1 (Hf y Hy)) (NoDup_nil _))
    as (I & Rr & N & M).
  apply set_result; auto.
  - intros y Hy. apply I in Hy as [[]|Hy]. auto.
  - intros c. rewrite M. cbn. rewrite <- Hm. tauto.
Qed.

Lemma set_has_canon s x : (forall y, In y s -> fine y) -> fine x ->
  set_has s x = mem (canon x) (sort_dedup vcmp (map canon s)).
Proof.
  intros Hs Hx. apply bool_eq_iff. unfold set_has.
  rewrite set_has_In by (try (intros y Hy; apply Hs; auto); apply Hx).
  rewrite mem_In, vsort_In. tauto.
Qed.

(* ------------------------------------------------------------------ set operators *)
Theorem in_lemma x s : fine x -> fine s -> allowed False (spec_in (norm x) (norm s)) (ModuleInSymbol x s).
Proof.
  intros Fx Fs. destruct (is_set s) as [[xs ->]|Hs].
  - rewrite norm_fine_set by auto. rewrite (norm_plain x) by apply Fx. cbn.
    destruct (fine_set xs Fs) as [Hm _].
    rewrite (set_has_canon xs x) by auto. apply allowed_ok; [reflexivity|apply good_bool].
  - unfold spec_in. rewrite on_set_err by auto. destruct s; try reflexivity. exfalso. eapply Hs. reflexivity.
Qed.

Theorem notin_lemma x s : fine x -> fine s -> allowed False (spec_notin (norm x) (norm s)) (ModuleNotInSymbol x s).
Proof.
  intros Fx Fs. destruct (is_set s) as [[xs ->]|Hs].
  - rewrite norm_fine_set by auto. rewrite (norm_plain x) by apply Fx. cbn.
    destruct (fine_set xs Fs) as [Hm _].
    rewrite (set_has_canon xs x) by auto. apply allowed_ok; [reflexivity|apply good_bool].
  - unfold spec_notin. rewrite on_set_err by auto. destruct s; try reflexivity. exfalso. eapply Hs. reflexivity.
Qed.

Ltac set_args a b Ha Hb :=
  destruct (is_set a) as [[?xs ->]|Ha];
  [ destruct (is_set b) as [[?ys ->]|Hb];
    [ | rewrite on_sets_err_r by auto; destruct b; try reflexivity; exfalso; eapply Hb; reflexivity ]
  | rewrite on_sets_err_l by auto; destruct a; try (destruct b; reflexivity); exfalso; eapply Ha; reflexivity ].

Theorem intersect_lemma a b : fine a -> fine b ->
  allowed False (spec_intersect (norm a) (norm b)) (ModuleIntersectSymbol a b).
Proof.
  intros Fa Fb. unfold spec_intersect. set_args a b Ha Hb.
  rewrite !norm_fine_set by auto. cbn [on_sets ModuleIntersectSymbol AsSet bind].
  destruct (fine_set xs Fa) as [Hx _]. destruct (fine_set ys Fb) as [Hy _].
  apply build_set_result.
  - intros y Hin. apply filter_In in Hin as [Hin _]. auto.
  - intros c. rewrite in_map_iff, filter_In, vsort_In, mem_In, vsort_In. split.
    + intros (e & <- & Hin). apply filter_In in Hin as [Hin Hh].
      rewrite (set_has_canon ys e) in Hh by auto. apply mem_In in Hh. rewrite vsort_In in Hh.
      split; auto. apply in_map; auto.
    + intros [Hc Hc']. apply in_map_iff in Hc as (e & <- & He). exists e. split; auto.
      apply filter_In. split; auto. rewrite (set_has_canon ys e) by auto. apply mem_In. rewrite vsort_In. auto.
Qed.

Theorem setminus_lemma a b : fine a -> fine b ->
  allowed False (spec_setminus (norm a) (norm b)) (ModuleBackslashSymbol a b).
Proof.
  intros Fa Fb. unfold spec_setminus. set_args a b Ha Hb.
  rewrite !norm_fine_set by auto. cbn [on_sets ModuleBackslashSymbol AsSet bind].
  destruct (fine_set xs Fa) as [Hx _]. destruct (fine_set ys Fb) as [Hy _].
  apply build_set_result.
  - intros y Hin. apply filter_In in Hin as [Hin _]. auto.
  - intros c. rewrite in_map_iff, filter_In, vsort_In, negb_true_iff. split.
    + intros (e & <- & Hin). apply filter_In in Hin as [Hin Hh]. apply negb_true_iff in Hh.
      rewrite (set_has_canon ys e) in Hh by auto. split; auto. apply in_map; auto.
    + intros [Hc Hc']. apply in_map_iff in Hc as (e & <- & He). exists e. split; auto.
      apply filter_In. split; auto. apply negb_true_iff. rewrite (set_has_canon ys e) by auto. auto.
Qed.

Theorem union_lemma a b : fine a -> fine b ->
  allowed False (spec_union (norm a) (norm b)) (ModuleUnionSymbol a b).
Proof.
  intros Fa Fb. unfold spec_union. set_args a b Ha Hb.
  rewrite !norm_fine_set by auto. cbn [on_sets ModuleUnionSymbol AsSet bind].
  destruct (fine_set xs Fa) as [Hx Nx]. destruct (fine_set ys Fb) as [Hy Ny].
  assert (G : forall big small, (forall y, In y big -> fine y) -> (forall y, In y small -> fine y) ->
              NoDup (map canon big) ->
              (forall c, In c (map canon big) \/ In c (map canon small) <->
                         In c (sort_dedup vcmp (map canon xs) ++ sort_dedup vcmp (map canon ys))) ->
              allowed False (SOk (mk_set (sort_dedup vcmp (map canon xs) ++ sort_dedup vcmp (map canon ys))))
                            (Ok (VSet (fold_left set_add small big)))).
  { intros big small Hb' Hs' Nb Hm.
    destruct (fold_set_add_rep small big (fun y Hy => proj1 (Hb' y Hy)) (fun y Hy => proj1 (Hs' y Hy)) Nb)
      as (I & Rr & N & M).
    apply set_result; auto.
    - intros y Hin. apply I in Hin as [?|?]; auto.
    - intros c. rewrite M. apply Hm. }
  destruct (Nat.ltb (List.length xs) (List.length ys)).
  - apply G; auto. intros c. rewrite in_app_iff, !vsort_In. tauto.
  - apply G; auto. intros c. rewrite in_app_iff, !vsort_In. tauto.
Qed.

Theorem subseteq_lemma a b : fine a -> fine b ->
  allowed False (spec_subseteq (norm a) (norm b)) (ModuleSubsetOrEqualSymbol a b).
Proof.
  intros Fa Fb. unfold spec_subseteq. set_args a b Ha Hb.
  rewrite !norm_fine_set by auto. cbn [on_sets ModuleSubsetOrEqualSymbol AsSet bind].
  destruct (fine_set xs Fa) as [Hx _]. destruct (fine_set ys Fb) as [Hy _].
  assert (forallb (fun e => set_has ys e) xs =
          forallb (fun x => mem x (sort_dedup vcmp (map canon ys))) (sort_dedup vcmp (map canon xs))) as ->.
  { apply bool_eq_iff. rewrite !forallb_forall. split.
    - intros H c Hc. rewrite vsort_In in Hc. apply in_map_iff in Hc as (e & <- & He).
      rewrite <- (set_has_canon ys e) by auto. auto.
    - intros H e He. rewrite (set_has_canon ys e) by auto. apply H. rewrite vsort_In. apply in_map; auto. }
  apply allowed_ok; [reflexivity|apply good_bool].
Qed.

Theorem isfiniteset_lemma a : allowed False (spec_isfiniteset (norm a)) (ModuleIsFiniteSet a).
Proof.
  destruct (is_set a) as [[xs ->]|Ha].
  - cbn. apply allowed_ok; [reflexivity|apply good_bool].
  - unfold spec_isfiniteset. rewrite on_set_err by auto. destruct a; try reflexivity. exfalso. eapply Ha. reflexivity.
Qed.

(* int32(set.Len()) is exact below 2^31 members (a set that large does not fit in memory) *)
Definition small_card (a : value) : Prop :=
  forall xs, a = VSet xs -> Z.of_nat (List.length xs) <= 2147483647.

Theorem cardinality_lemma a : fine a -> small_card a ->
  allowed False (spec_cardinality (norm a)) (ModuleCardinality a).
Proof.
  intros Fa Hlen. destruct (is_set a) as [[xs ->]|Ha].
  - rewrite norm_fine_set by auto. cbn. destruct (fine_set xs Fa) as [_ Nx].
    rewrite vsort_length, map_length by auto.
    specialize (Hlen xs eq_refl).
    assert (int32b (Z.of_nat (List.length xs)) = true) as Hi by (unfold int32b; lia).
    unfold s_int. rewrite Hi. apply allowed_ok; [reflexivity|apply good_num; exact Hi].
  - unfold spec_cardinality. rewrite on_set_err by auto. destruct a; try reflexivity. exfalso. eapply Ha. reflexivity.
Qed.

(* ------------------------------------------------------------------ sequences *)
(* the documented restriction: a function representation where a sequence is required *)
Definition is_funrep (a : value) : Prop := exists kvs, a = VFun kvs.
Definition is_tuprep (a : value) : Prop := exists xs, a = VTup xs.

Lemma norm_tup a l : norm a = VTup l -> (exists xs, a = VTup xs /\ l = map norm xs) \/ is_funrep a.
Proof.
  destruct a; cbn; try discriminate.
  - intros [= <-]. left. eauto.
  - intros _. right. eexists; reflexivity.
Qed.

Lemma good_tup xs : good (VTup xs) <-> (forall x, In x xs -> good x).
Proof.
  unfold good. cbn. rewrite !All_In. split.
  - intros [R B] x Hx. auto.
  - intros H. split; intros x Hx; apply H; auto.
Qed.

Lemma funrep_typeerr (f : value -> res value) a :
  (forall kvs, f (VFun kvs) = TypeErr) -> is_funrep a -> forall s, allowed (is_funrep a) s (f a).
Proof.
  intros Hf [kvs ->] s. rewrite Hf. destruct s; cbn; auto. right. split; auto. eexists; reflexivity.
Qed.

Inductive seq_arg (a : value) : Type :=
| SA_tup xs : a = VTup xs -> seq_arg a
| SA_fun kvs : a = VFun kvs -> seq_arg a
| SA_other : (forall l, norm a <> VTup l) -> (forall xs, a <> VTup xs) -> seq_arg a.

Definition seq_arg_of (a : value) : seq_arg a.
Proof.
  destruct a; try (apply SA_other; [cbn; intros; discriminate|intros; discriminate]).
  - eapply SA_tup. reflexivity.
  - eapply SA_fun. reflexivity.
Defined.

Definition small_len (a : value) : Prop :=
  forall xs, a = VTup xs -> Z.of_nat (List.length xs) <= 2147483647.

Theorem len_partial_lemma a : (forall s, a <> VStr s) -> small_len a ->
  allowed (is_funrep a) (spec_len (norm a)) (ModuleLen a).
Proof.
  intros Hs Hl. destruct (seq_arg_of a) as [xs ->|kvs ->|Hn Ht].
  - cbn. rewrite map_length. specialize (Hl xs eq_refl).
    assert (int32b (Z.of_nat (List.length xs)) = true) as Hi by (unfold int32b; lia).
    unfold s_int. rewrite Hi. apply allowed_ok; [reflexivity|apply good_num; exact Hi].
  - apply (funrep_typeerr ModuleLen); [reflexivity|eexists; reflexivity].
  - unfold spec_len. destruct (norm a) eqn:E; try (destruct a; try reflexivity; exfalso; eapply Ht; reflexivity).
    + destruct a; cbn in E; try discriminate. * exfalso. eapply Hs. reflexivity.
      * pose proof (mk_fun_kind (sort_dedup kv_cmp (map (canon_kv norm) kvs))) as H. rewrite E in H. contradiction.
    + exfalso. eapply Hn. reflexivity.
Qed.

Theorem head_lemma a : good a -> allowed (is_funrep a) (spec_head (norm a)) (ModuleHead a).
Proof.
  intros G. destruct (seq_arg_of a) as [xs ->|kvs ->|Hn Ht].
  - cbn. destruct xs as [|x xs]; cbn; [reflexivity|].
    apply allowed_ok; [reflexivity|]. apply (proj1 (good_tup _) G). cbn; auto.
  - apply (funrep_typeerr ModuleHead); [reflexivity|eexists; reflexivity].
  - unfold spec_head, on_seq. destruct (norm a) eqn:E; try (destruct a; try reflexivity; exfalso; eapply Ht; reflexivity).
    exfalso. eapply Hn. reflexivity.
Qed.

Theorem tail_partial_lemma a : good a -> (forall s, a <> VStr s) ->
  allowed (is_funrep a) (spec_tail (norm a)) (ModuleTail a).
Proof.
  intros G Hs. destruct (seq_arg_of a) as [xs ->|kvs ->|Hn Ht].
  - cbn. destruct xs as [|x xs]; cbn; [reflexivity|].
    apply allowed_ok; [reflexivity|]. apply good_tup. intros y Hy. apply (proj1 (good_tup _) G). cbn; auto.
  - apply (funrep_typeerr ModuleTail); [reflexivity|eexists; reflexivity].
  - unfold spec_tail. destruct (norm a) eqn:E; try (destruct a; try reflexivity; exfalso; eapply Ht; reflexivity).
    + destruct a; cbn in E; try discriminate. * exfalso. eapply Hs. reflexivity.
      * pose proof (mk_fun_kind (sort_dedup kv_cmp (map (canon_kv norm) kvs))) as H. rewrite E in H. contradiction.
    + exfalso. eapply Hn. reflexivity.
Qed.

Definition tail_full_statement : Prop :=
  forall a, good a -> allowed (is_funrep a) (spec_tail (norm a)) (ModuleTail a).

Theorem tail_string_refuted_lemma : ~ tail_full_statement.
Proof.
  intros H. specialize (H (VStr [97%N; 98%N])).
  assert (G : good (VStr [97%N; 98%N])) by (split; cbn; auto; repeat split; reflexivity).
  specialize (H G). cbn in H. destruct H as [(v' & E & _)|[_ (kvs & E)]]; discriminate.
Qed.

Theorem append_lemma a x : good a -> good x -> allowed (is_funrep a) (spec_append (norm a) (norm x)) (ModuleAppend a x).
Proof.
  intros G Gx. destruct (seq_arg_of a) as [xs ->|kvs ->|Hn Ht].
  - cbn. apply allowed_ok.
    + cbn. rewrite map_app. reflexivity.
    + apply good_tup. intros y Hy. apply in_app_or in Hy as [Hy|[<-|[]]]; auto. apply (proj1 (good_tup _) G); auto.
  - apply (funrep_typeerr (fun a => ModuleAppend a x)); [reflexivity|eexists; reflexivity].
  - unfold spec_append, on_seq. destruct (norm a) eqn:E; try (destruct a; try reflexivity; exfalso; eapply Ht; reflexivity).
    exfalso. eapply Hn. reflexivity.
Qed.

Lemma fold_snoc {A} (r l : list A) : fold_left (fun acc e => acc ++ [e]) r l = l ++ r.
Proof.
  revert l. induction r as [|x r IH]; intros l; cbn; [rewrite app_nil_r; reflexivity|].
  rewrite IH, <- app_assoc. reflexivity.
Qed.

Theorem concat_partial_lemma a b : good a -> good b ->
  ~ (exists s t, a = VStr s /\ b = VStr t) ->
  allowed (is_funrep a \/ is_funrep b) (spec_concat (norm a) (norm b)) (ModuleOSymbol a b).
Proof.
  intros Ga Gb Hstr.
  destruct (seq_arg_of a) as [xs ->|kvs ->|Hn Ht].
  - destruct (seq_arg_of b) as [ys ->|kvs ->|Hn' Ht'].
    + cbn. rewrite fold_snoc. apply allowed_ok.
      * cbn. rewrite map_app. reflexivity.
      * apply good_tup. intros y Hy. apply in_app_or in Hy as [Hy|Hy];
          [apply (proj1 (good_tup _) Ga)|apply (proj1 (good_tup _) Gb)]; auto.
    + assert (ModuleOSymbol (VTup xs) (VFun kvs) = TypeErr) as -> by reflexivity.
      destruct (spec_concat _ _); cbn; auto. right. split; auto. right. eexists; reflexivity.
    + assert (spec_concat (norm (VTup xs)) (norm b) = SErr) as ->.
      { cbn. destruct (norm b) eqn:E; try reflexivity. exfalso. eapply Hn'. reflexivity. }
      cbn. destruct b; try reflexivity. exfalso. eapply Ht'. reflexivity.
  - assert (ModuleOSymbol (VFun kvs) b = TypeErr) as -> by reflexivity.
    destruct (spec_concat _ _); cbn; auto. right. split; auto. left. eexists; reflexivity.
  - assert (ModuleOSymbol a b = TypeErr) as ->.
    { destruct a; try reflexivity. exfalso. eapply Ht. reflexivity. }
    unfold spec_concat. destruct (norm a) eqn:E; try reflexivity.
    + destruct (norm b) eqn:E'; try reflexivity.
      exfalso. apply Hstr.
      assert (exists s', a = VStr s') as [s' ->].
      { destruct a; cbn in E; try discriminate; eauto.
        pose proof (mk_fun_kind (sort_dedup kv_cmp (map (canon_kv norm) kvs))) as H. rewrite E in H. contradiction. }
      assert (exists t', b = VStr t') as [t' ->].
      { destruct b; cbn in E'; try discriminate; eauto.
        pose proof (mk_fun_kind (sort_dedup kv_cmp (map (canon_kv norm) kvs))) as H. rewrite E' in H. contradiction. }
      eauto.
    + exfalso. eapply Hn. reflexivity.
Qed.

Lemma firstn_map' {A B} (f : A -> B) n l : firstn n (map f l) = map f (firstn n l).
Proof. revert l. induction n; intros [|x l]; cbn; auto. f_equal. auto. Qed.
Lemma skipn_map' {A B} (f : A -> B) n l : skipn n (map f l) = map f (skipn n l).
Proof. revert l. induction n; intros [|x l]; cbn; auto. Qed.
Lemma firstn_In' {A} n (l : list A) x : In x (firstn n l) -> In x l.
Proof. intros H. rewrite <- (firstn_skipn n l). apply in_or_app. auto. Qed.
Lemma skipn_In' {A} n (l : list A) x : In x (skipn n l) -> In x l.
Proof. intros H. rewrite <- (firstn_skipn n l). apply in_or_app. auto. Qed.

Theorem subseq_partial_lemma a m n : good a -> (forall s, a <> VStr s) ->
  allowed (is_funrep a) (spec_subseq (norm a) (norm m) (norm n)) (ModuleSubSeq a m n).
Proof.
  intros G Hstr. destruct (seq_arg_of a) as [xs ->|kvs ->|Hn Ht].
  - destruct (is_num m) as [[i ->]|Hm].
    + destruct (is_num n) as [[j ->]|Hn'].
      * cbn. rewrite map_length. destruct (j <? i) eqn:E.
        -- apply allowed_ok; [reflexivity|apply good_tup; intros y []].
        -- destruct ((1 <=? i) && (j <=? Z.of_nat (List.length xs))) eqn:Eb; cbn [require bind]; [|reflexivity].
           apply allowed_ok.
           ++ cbn. rewrite skipn_map', firstn_map'. do 3 f_equal. lia.
           ++ apply good_tup. intros y Hy. apply firstn_In', skipn_In' in Hy. apply (proj1 (good_tup _) G); auto.
      * assert (spec_subseq (norm (VTup xs)) (norm (VNum i)) (norm n) = SErr) as ->.
        { cbn. destruct (norm n) eqn:E; try reflexivity. apply (proj1 (norm_num _ _)) in E. exfalso. eapply Hn'. exact E. }
        cbn. destruct n; try reflexivity. exfalso. eapply Hn'. reflexivity.
    + assert (spec_subseq (norm (VTup xs)) (norm m) (norm n) = SErr) as ->.
      { cbn. destruct (norm m) eqn:E; try reflexivity. apply (proj1 (norm_num _ _)) in E. exfalso. eapply Hm. exact E. }
      cbn. destruct m; try reflexivity. exfalso. eapply Hm. reflexivity.
  - apply (funrep_typeerr (fun a => ModuleSubSeq a m n)); [reflexivity|eexists; reflexivity].
  - assert (spec_subseq (norm a) (norm m) (norm n) = SErr) as ->.
    { unfold spec_subseq. destruct (norm a) eqn:E; try reflexivity.
      - destruct a; cbn in E; try discriminate. + exfalso. eapply Hstr. reflexivity.
        + pose proof (mk_fun_kind (sort_dedup kv_cmp (map (canon_kv norm) kvs))) as H. rewrite E in H. contradiction.
      - exfalso. eapply Hn. reflexivity. }
    destruct a; try reflexivity. exfalso. eapply Ht. reflexivity.
Qed.

Definition subseq_full_statement : Prop :=
  forall a m n, good a -> allowed (is_funrep a) (spec_subseq (norm a) (norm m) (norm n)) (ModuleSubSeq a m n).

Theorem subseq_string_refuted_lemma : ~ subseq_full_statement.
Proof.
  intros H. specialize (H (VStr [97%N; 98%N]) (VNum 1) (VNum 1)).
  assert (G : good (VStr [97%N; 98%N])) by (split; cbn; auto; repeat split; reflexivity).
  specialize (H G). cbn in H. destruct H as [(v' & E & _)|[_ (kvs & E)]]; discriminate.
Qed.

(* ------------------------------------------------------------------ = and # *)
Lemma Equal_veqb a b : rep_ok a -> rep_ok b -> Equal a b = veqb (canon a) (canon b).
Proof.
  intros Ra Rb. apply bool_eq_iff. rewrite veqb_eq. apply C05.Proofs.Equal_spec_lemma; auto.
Qed.

Theorem eq_partial_lemma a b : fine a -> fine b -> comparable (norm a) (norm b) = true ->
  allowed False (spec_eq (norm a) (norm b)) (ModuleEqualsSymbol a b).
Proof.
  intros (Ra & _ & Pa) (Rb & _ & Pb) Hc. unfold spec_eq. rewrite Hc.
  rewrite !norm_plain by auto. unfold ModuleEqualsSymbol, MakeBool, s_bool. rewrite Equal_veqb by auto.
  apply allowed_ok; [reflexivity|apply good_bool].
Qed.

Theorem neq_partial_lemma a b : fine a -> fine b -> comparable (norm a) (norm b) = true ->
  allowed False (spec_neq (norm a) (norm b)) (ModuleNotEqualsSymbol a b).
Proof.
  intros (Ra & _ & Pa) (Rb & _ & Pb) Hc. unfold spec_neq. rewrite Hc.
  rewrite !norm_plain by auto. unfold ModuleNotEqualsSymbol, MakeBool, s_bool. rewrite Equal_veqb by auto.
  apply allowed_ok; [reflexivity|apply good_bool].
Qed.

(* the full statements, and why they fail on the code as it is (known findings) *)
Definition eq_full_statement : Prop :=
  forall a b, good a -> good b -> allowed False (spec_eq (norm a) (norm b)) (ModuleEqualsSymbol a b).

Theorem eq_incomparable_refuted_lemma :
  exists a b, fine a /\ fine b /\ spec_eq (norm a) (norm b) = SErr /\ ModuleEqualsSymbol a b = Ok (VBool false).
Proof.
  exists (VNum 1), (VStr [97%N]). repeat split; cbn; auto; unfold int32_ok; try lia.
Qed.

Theorem eq_tuple_function_refuted_lemma :
  exists a b, good a /\ good b /\ spec_eq (norm a) (norm b) = SOk (VBool true) /\ ModuleEqualsSymbol a b = Ok (VBool false).
Proof.
  exists (VTup [VNum 1; VNum 2]), (VFun [(VNum 1, VNum 1); (VNum 2, VNum 2)]).
  split; [|split; [|split; vm_compute; reflexivity]].
  - split; cbn; unfold int32_ok; repeat split; lia.
  - split; [apply C05.Proofs.rep_okb_spec; vm_compute; reflexivity|cbn; unfold int32_ok; repeat split; lia].
Qed.

Theorem eq_full_refuted_lemma : ~ eq_full_statement.
Proof.
  intros H. specialize (H (VNum 1) (VStr [97%N])).
  assert (G1 : good (VNum 1)) by (split; cbn; auto; unfold int32_ok; lia).
  assert (G2 : good (VStr [97%N])) by (split; cbn; auto; repeat split; reflexivity).
  specialize (H G1 G2). cbn in H. discriminate.
Qed.

Definition len_full_statement : Prop :=
  forall a, good a -> small_len a -> allowed (is_funrep a) (spec_len (norm a)) (ModuleLen a).

Theorem len_string_refuted_lemma : ~ len_full_statement.
Proof.
  intros H. specialize (H (VStr [97%N; 98%N])).
  assert (G : good (VStr [97%N; 98%N])) by (split; cbn; auto; repeat split; reflexivity).
  specialize (H G (fun xs E => ltac:(discriminate))). cbn in H.
  destruct H as [(v' & E & _)|[_ (kvs & E)]]; discriminate.
Qed.

Definition concat_full_statement : Prop :=
  forall a b, good a -> good b ->
  allowed (is_funrep a \/ is_funrep b) (spec_concat (norm a) (norm b)) (ModuleOSymbol a b).

Theorem concat_string_refuted_lemma : ~ concat_full_statement.
Proof.
  intros H. specialize (H (VStr [97%N]) (VStr [98%N])).
  assert (G1 : good (VStr [97%N])) by (split; cbn; auto; repeat split; reflexivity).
  assert (G2 : good (VStr [98%N])) by (split; cbn; auto; repeat split; reflexivity).
  specialize (H G1 G2). cbn in H.
  destruct H as [(v' & E & _)|[_ [(kvs & E)|(kvs & E)]]]; discriminate.
Qed.

(* ------------------------------------------------------------------ a..b *)
Lemma zrange_sorted_from x n : forall s,
  StronglySorted (fun a b => vcmp a b = Lt) (map VNum (map (fun i => x + Z.of_nat i) (seq s n))).
Proof.
  induction n as [|n IH]; intros s; cbn; constructor; auto.
  apply Forall_forall. intros v Hv. apply in_map_iff in Hv as (z & <- & Hz).
  apply in_map_iff in Hz as (i & <- & Hi). apply in_seq in Hi. cbn. apply Z.compare_lt_iff. lia.
Qed.

Lemma zrange_bounds x y z : In z (zrange x y) -> x <= z <= y.
Proof.
  unfold zrange. intros H. apply in_map_iff in H as (i & <- & Hi). apply in_seq in Hi. lia.
Qed.

Theorem dotdot_lemma a b : bounded a -> bounded b ->
  allowed False (spec_dotdot (norm a) (norm b)) (ModuleDotDotSymbol a b).
Proof.
  apply (binary_int_b False _ ModuleDotDotSymbol (fun x y => Ok (build_set (map MakeNumber (zrange x y)))));
    [not_num_l|not_num_r|reflexivity|].
  intros x y Hx Hy. change (zrange_spec x y) with (zrange x y).
  assert (VSet (map VNum (zrange x y)) = mk_set (map VNum (zrange x y))) as ->.
  { unfold mk_set. f_equal. symmetry. apply vsort_id. apply zrange_sorted_from. }
  apply build_set_result.
  - intros v Hv. apply in_map_iff in Hv as (z & <- & Hz). apply zrange_bounds in Hz.
    repeat split; cbn; unfold int32_ok in *; try lia.
  - intros c. rewrite map_map. unfold MakeNumber. cbn [canon]. tauto.
Qed.

(* ------------------------------------------------------------------ :>  MakeSet  MakeTuple *)
Theorem colongt_lemma k v : good k -> good v ->
  allowed False (spec_colongt (norm k) (norm v)) (ModuleColonGreaterThanSymbol k v).
Proof.
  intros [Rk Bk] [Rv Bv]. apply allowed_ok.
  - reflexivity.
  - split; cbn; auto. repeat split; auto. constructor; [intros []|constructor].
Qed.

Theorem maketuple_lemma l : (forall x, In x l -> good x) ->
  allowed False (spec_maketuple (map norm l)) (Ok (MakeTuple l)).
Proof. intros H. apply allowed_ok; [reflexivity|apply good_tup; auto]. Qed.

Theorem makeset_lemma l : (forall x, In x l -> fine x) ->
  allowed False (spec_makeset (map norm l)) (Ok (MakeSet l)).
Proof.
  intros H. unfold spec_makeset, MakeSet.
  change (VSet (fold_left set_add l [])) with (build_set l).
  apply build_set_result; auto.
  intros c. assert (map norm l = map canon l) as -> by (apply map_ext_in; intros x Hx; apply norm_plain, H, Hx).
  tauto.
Qed.

(* ------------------------------------------------------------------ UNION *)
Lemma big_union_norm ss :
  (forall s, In s ss -> fine s) ->
  match big_union (map norm ss) with
  | Some u => (forall s, In s ss -> exists xs, s = VSet xs) /\
              (forall c, In c u <-> exists xs, In (VSet xs) ss /\ In c (map canon xs))
  | None => exists s, In s ss /\ forall xs, s <> VSet xs
  end.
Proof.
  induction ss as [|s ss IH]; intros Hf; cbn.
  - split; [intros s []|]. intros c. split; [intros []|intros (xs & [] & _)].
  - assert (Fs : fine s) by (apply Hf; cbn; auto).
    specialize (IH (fun s' H' => Hf s' (or_intror H'))).
    destruct (is_set s) as [[xs ->]|Hs].
    + rewrite norm_fine_set by auto.
      destruct (big_union (map norm ss)) as [u|].
      * destruct IH as [I1 I2]. split.
        -- intros s' [<-|H']; eauto.
        -- intros c. rewrite in_app_iff, vsort_In, I2. split.
           ++ intros [Hc|(ys & Hy & Hc)]; [exists xs|exists ys]; cbn; auto.
           ++ intros (ys & [[= <-]|Hy] & Hc); [left; auto|right; eauto].
      * destruct IH as (s' & Hs' & Hn). exists s'. split; cbn; auto.
    + destruct (norm s) eqn:E; try (exists s; split; cbn; auto; fail).
      apply norm_set in E as [xs' ->]. exfalso. eapply Hs. reflexivity.
Qed.

Lemma union_loop_spec ss : forall acc,
  (forall s, In s ss -> fine s) -> (forall y, In y acc -> fine y) -> NoDup (map canon acc) ->
  match union_loop ss acc with
  | Ok res => (forall s, In s ss -> exists xs, s = VSet xs) /\
              (forall y, In y res -> fine y) /\ NoDup (map canon res) /\
              (forall c, In c (map canon res) <-> In c (map canon acc) \/ exists xs, In (VSet xs) ss /\ In c (map canon xs))
  | TypeErr => exists s, In s ss /\ forall xs, s <> VSet xs
  | _ => False
  end.
Proof.
  induction ss as [|s ss IH]; intros acc Hf Ha Nd; cbn.
  - split; [intros s []|]. split; [auto|]. split; [auto|]. intros c. split; [auto|intros [Hc|(xs & [] & _)]; auto].
  - assert (Fs : fine s) by (apply Hf; cbn; auto).
    destruct (is_set s) as [[xs ->]|Hs].
    + cbn. destruct (fine_set xs Fs) as [Hx Nx].
      destruct (fold_set_add_rep xs acc (fun y Hy => proj1 (Ha y Hy)) (fun y Hy => proj1 (Hx y Hy)) Nd) as (I & R & N & M).
      specialize (IH (fold_left set_add xs acc) (fun s' H' => Hf s' (or_intror H'))
                     (fun y Hy => match I y Hy with or_introl H => Ha y H | or_intror H => Hx y H end) N).
      destruct (union_loop ss (fold_left set_add xs acc)) as [res| | |]; auto.
      * destruct IH as (I1 & I2 & I3 & I4).
        split; [intros s' [<-|H']; eauto|]. split; [exact I2|]. split; [exact I3|]. intros c. split.
        -- intros Hc. apply I4 in Hc as [Hc|(ys & Hy & Hc)].
           ++ apply M in Hc as [Hc|Hc]; auto. right. exists xs. cbn; auto.
           ++ right. exists ys. cbn; auto.
        -- intros [Hc|(ys & [[= <-]|Hy] & Hc)]; apply I4.
           ++ left. apply M. auto.
           ++ left. apply M. auto.
           ++ right. eauto.
      * destruct IH as (s' & Hs' & Hn). exists s'. cbn; auto.
    + assert (AsSet s = TypeErr) as -> by (destruct s; try reflexivity; exfalso; eapply Hs; reflexivity).
      cbn. exists s. cbn; auto.
Qed.

Theorem bigunion_lemma a : fine a -> allowed False (spec_bigunion (norm a)) (ModulePrefixUnionSymbol a).
Proof.
  intros Fa. destruct (is_set a) as [[ss ->]|Ha].
  - destruct (fine_set ss Fa) as [Hs Ns].
    rewrite norm_fine_set by auto. cbn [spec_bigunion on_set ModulePrefixUnionSymbol AsSet bind].
    pose proof (union_loop_spec ss [] Hs (fun y H => match H with end) (NoDup_nil _)) as HL.
    (* the spec iterates the sorted canonical members: same union *)
    assert (HB : match big_union (sort_dedup vcmp (map canon ss)) with
                 | Some u => (forall s, In s ss -> exists xs, s = VSet xs) /\
                             (forall c, In c u <-> exists xs, In (VSet xs) ss /\ In c (map canon xs))
                 | None => exists s, In s ss /\ forall xs, s <> VSet xs end).
    { assert (G : forall l, (forall c, In c l -> In c (map canon ss)) ->
                 match big_union l with
                 | Some u => (forall c, In c l -> exists xs, c = VSet xs) /\
                             (forall c, In c u <-> exists cs, In (VSet cs) l /\ In c cs)
                 | None => exists c, In c l /\ forall xs, c <> VSet xs end).
      { induction l as [|c l IHl]; intros Hl; cbn.
        - split; [intros c []|]. intros c; split; [intros []|intros (cs & [] & _)].
        - specialize (IHl (fun c' H' => Hl c' (or_intror H'))).
          destruct c; try (eexists; split; [left; reflexivity|intros; discriminate]).
          destruct (big_union l) as [u|].
          + destruct IHl as [J1 J2]. split.
            * intros c [<-|Hc]; eauto.
            * intros c. rewrite in_app_iff, J2. split.
              -- intros [Hc|(cs & Hcs & Hc)]; [exists xs|exists cs]; cbn; auto.
              -- intros (cs & [[= <-]|Hcs] & Hc); [left; auto|right; eauto].
          + destruct IHl as (c & Hc & Hn). exists c. cbn; auto. }
      specialize (G (sort_dedup vcmp (map canon ss)) (fun c Hc => proj1 (vsort_In _ _) Hc)).
      destruct (big_union (sort_dedup vcmp (map canon ss))) as [u|].
      - destruct G as [G1 G2]. split.
        + intros s Hin. assert (Hc : In (canon s) (sort_dedup vcmp (map canon ss))) by (apply vsort_In, in_map, Hin).
          destruct (G1 _ Hc) as [xs E]. destruct s; cbn in E; try discriminate. eauto.
        + intros c. rewrite G2. split.
          * intros (cs & Hcs & Hc). rewrite vsort_In in Hcs. apply in_map_iff in Hcs as (s & E & Hin).
            destruct s; cbn in E; try discriminate. injection E as <-. exists xs. split; auto.
            rewrite vsort_In in Hc. exact Hc.
          * intros (xs & Hin & Hc). exists (sort_dedup vcmp (map canon xs)). split.
            -- rewrite vsort_In. apply in_map_iff. exists (VSet xs). split; auto.
            -- rewrite vsort_In. exact Hc.
      - destruct G as (c & Hc & Hn). rewrite vsort_In in Hc. apply in_map_iff in Hc as (s & <- & Hin).
        exists s. split; auto. intros xs ->. eapply Hn. reflexivity. }
    destruct (union_loop ss []) as [res| | |]; try contradiction.
    + destruct HL as (L1 & L2 & L3 & L4).
      destruct (big_union (sort_dedup vcmp (map canon ss))) as [u|].
      * destruct HB as [_ B2]. cbn. apply set_result; auto.
        intros c. rewrite L4, B2. cbn. tauto.
      * destruct HB as (s & Hin & Hn). destruct (L1 s Hin) as [xs ->]. exfalso. eapply Hn. reflexivity.
    + destruct HL as (s & Hin & Hn).
      destruct (big_union (sort_dedup vcmp (map canon ss))) as [u|]; [|reflexivity].
      destruct HB as [B1 _]. destruct (B1 s Hin) as [xs ->]. exfalso. eapply Hn. reflexivity.
  - unfold spec_bigunion. rewrite on_set_err by auto. destruct a; try reflexivity. exfalso. eapply Ha. reflexivity.
Qed.

(* ------------------------------------------------------------------ binders: \A \E, set refinement, CHOOSE *)
Lemma product_sproduct sets : product sets = sproduct sets.
Proof. induction sets as [|s sets IH]; cbn; [reflexivity|]. rewrite IH. reflexivity. Qed.

Lemma in_sproduct sets c : In c (sproduct sets) <-> Forall2 (fun x s => In x s) c sets.
Proof.
  revert c. induction sets as [|s sets IH]; intros c; cbn.
  - split; [intros [<-|[]]; constructor|intros H; inversion H; auto].
  - rewrite in_flat_map. split.
    + intros (e & He & Hc). apply in_map_iff in Hc as (tl & <- & Htl). constructor; auto. apply IH; auto.
    + intros H. inversion H as [|x s' c' sets' Hx Hr]; subst. exists x. split; auto.
      apply in_map. apply IH; auto.
Qed.

(* the arguments of a binder: every one a fine set *)
Definition fine_sets (vs : list value) : Prop := forall v, In v vs -> fine v.

Lemma as_sets_spec vs : fine_sets vs ->
  match as_sets vs with
  | Ok sets => vs = map VSet sets /\ sets_of (map norm vs) = Some (map (fun s => sort_dedup vcmp (map canon s)) sets)
  | TypeErr => sets_of (map norm vs) = None
  | _ => False
  end.
Proof.
  induction vs as [|v vs IH]; intros Hf; cbn.
  - split; reflexivity.
  - assert (Fv : fine v) by (apply Hf; cbn; auto).
    specialize (IH (fun w Hw => Hf w (or_intror Hw))).
    destruct (is_set v) as [[xs ->]|Hv].
    + rewrite norm_fine_set by auto. cbn.
      destruct (as_sets vs) as [sets| | |]; cbn; try contradiction.
      * destruct IH as [-> E]. rewrite E. split; reflexivity.
      * rewrite IH. reflexivity.
    + assert (AsSet v = TypeErr) as -> by (destruct v; try reflexivity; exfalso; eapply Hv; reflexivity).
      cbn. destruct (norm v) eqn:E; try reflexivity.
      apply norm_set in E as [xs' ->]. exfalso. eapply Hv. reflexivity.
Qed.

Lemma forall2_in_canon c sets :
  Forall2 (fun x s => In x s) c (map (fun s => sort_dedup vcmp (map canon s)) sets) <->
  exists combo, Forall2 (fun x s => In x s) combo sets /\ map canon combo = c.
Proof.
  revert c. induction sets as [|s sets IH]; intros c; cbn.
  - split.
    + intros H. inversion H. exists []. split; [constructor|reflexivity].
    + intros (combo & H & <-). inversion H. constructor.
  - split.
    + intros H. inversion H as [|x s' c' sets' Hx Hr]; subst.
      rewrite vsort_In in Hx. apply in_map_iff in Hx as (e & <- & He).
      apply IH in Hr as (combo & Hc & <-). exists (e :: combo). split; [constructor; auto|reflexivity].
    + intros (combo & H & <-). inversion H as [|x s' c' sets' Hx Hr]; subst. cbn. constructor.
      * rewrite vsort_In. apply in_map; auto.
      * apply IH. eauto.
Qed.

Lemma forallb_same_members {A} (f : A -> bool) l1 l2 :
  (forall x, In x l1 <-> In x l2) -> forallb f l1 = forallb f l2.
Proof.
  intros H. apply bool_eq_iff. rewrite !forallb_forall. split; intros G x Hx; apply G, H, Hx.
Qed.

Lemma existsb_same_members {A} (f : A -> bool) l1 l2 :
  (forall x, In x l1 <-> In x l2) -> existsb f l1 = existsb f l2.
Proof.
  intros H. apply bool_eq_iff. rewrite !existsb_exists. split; intros (x & Hx & E); exists x; split; auto; apply H; auto.
Qed.

(* a Go closure that never panics on members of the sets and computes the predicate q of the denoted values *)
Definition pred_refines (p : predT) (q : list value -> bool) (sets : list (list value)) : Prop :=
  forall combo, Forall2 (fun x s => In x s) combo sets -> p combo = Ok (q (map canon combo)).

Lemma forall_loop_total p q combos :
  (forall c, In c combos -> p c = Ok (q (map canon c))) ->
  forall_loop p combos = Ok (forallb (fun c => q (map canon c)) combos).
Proof.
  induction combos as [|c combos IH]; intros H; cbn; [reflexivity|].
  rewrite (H c (or_introl eq_refl)). cbn. destruct (q (map canon c)); cbn; [|reflexivity].
  apply IH. intros c' Hc'. apply H. right. exact Hc'.
Qed.

Lemma exists_loop_total p q combos :
  (forall c, In c combos -> p c = Ok (q (map canon c))) ->
  exists_loop p combos = Ok (existsb (fun c => q (map canon c)) combos).
Proof.
  induction combos as [|c combos IH]; intros H; cbn; [reflexivity|].
  rewrite (H c (or_introl eq_refl)). cbn. destruct (q (map canon c)); cbn; [reflexivity|].
  apply IH. intros c' Hc'. apply H. right. exact Hc'.
Qed.

Lemma combos_canon sets (f : list value -> bool) :
  forallb f (sproduct (map (fun s => sort_dedup vcmp (map canon s)) sets)) =
  forallb (fun c => f (map canon c)) (product sets).
Proof.
  change (product sets) with (sproduct sets). apply bool_eq_iff. rewrite !forallb_forall. split.
  - intros H c Hc. apply H. apply in_sproduct, forall2_in_canon. exists c. split; auto. apply in_sproduct; auto.
  - intros H c Hc. apply in_sproduct, forall2_in_canon in Hc as (combo & Hc & <-). apply H, in_sproduct, Hc.
Qed.

Lemma combos_canon_ex sets (f : list value -> bool) :
  existsb f (sproduct (map (fun s => sort_dedup vcmp (map canon s)) sets)) =
  existsb (fun c => f (map canon c)) (product sets).
Proof.
  change (product sets) with (sproduct sets). apply bool_eq_iff. rewrite !existsb_exists. split.
  - intros (c & Hc & E). apply in_sproduct, forall2_in_canon in Hc as (combo & Hc & <-).
    exists combo. split; auto. apply in_sproduct; auto.
  - intros (c & Hc & E). exists (map canon c). split; auto.
    apply in_sproduct, forall2_in_canon. exists c. split; auto. apply in_sproduct; auto.
Qed.

Theorem forall_lemma vs p q : fine_sets vs ->
  (forall sets, vs = map VSet sets -> pred_refines p q sets) ->
  allowed False (spec_forall (map norm vs) q) (QuantifiedUniversal vs p).
Proof.
  intros Hf Hp. unfold spec_forall, QuantifiedUniversal.
  pose proof (as_sets_spec vs Hf) as HA. destruct (as_sets vs) as [sets| | |]; try contradiction.
  - destruct HA as [E ->]. cbn.
    rewrite (forall_loop_total p q).
    + cbn. rewrite combos_canon. apply allowed_ok; [reflexivity|apply good_bool].
    + intros c Hc. apply (Hp sets E). change (product sets) with (sproduct sets) in Hc. apply in_sproduct; auto.
  - rewrite HA. reflexivity.
Qed.

Theorem exists_lemma vs p q : fine_sets vs ->
  (forall sets, vs = map VSet sets -> pred_refines p q sets) ->
  allowed False (spec_exists (map norm vs) q) (QuantifiedExistential vs p).
Proof.
  intros Hf Hp. unfold spec_exists, QuantifiedExistential.
  pose proof (as_sets_spec vs Hf) as HA. destruct (as_sets vs) as [sets| | |]; try contradiction.
  - destruct HA as [E ->]. cbn.
    rewrite (exists_loop_total p q).
    + cbn. rewrite combos_canon_ex. apply allowed_ok; [reflexivity|apply good_bool].
    + intros c Hc. apply (Hp sets E). change (product sets) with (sproduct sets) in Hc. apply in_sproduct; auto.
  - rewrite HA. reflexivity.
Qed.

(* {x \in S : p(x)} *)
Lemma refine_loop_spec p (q : value -> bool) s : forall acc,
  (forall x, In x s -> p [x] = Ok (q (canon x))) ->
  (forall y, In y acc -> fine y) -> (forall y, In y s -> fine y) -> NoDup (map canon acc) ->
  exists res, refine_loop p s acc = Ok res /\ (forall y, In y res -> fine y) /\ NoDup (map canon res) /\
              (forall c, In c (map canon res) <-> In c (map canon acc) \/ (exists x, In x s /\ canon x = c /\ q c = true)).
Proof.
  induction s as [|x s IH]; intros acc Hp Ha Hs Nd; cbn.
  - exists acc. split; [reflexivity|]. split; [auto|]. split; [auto|]. intros c. split; [auto|intros [Hc|(x & [] & _)]; auto].
  - rewrite (Hp x (or_introl eq_refl)). cbn.
    assert (Fx : fine x) by (apply Hs; cbn; auto).
    destruct (q (canon x)) eqn:Eq.
    + destruct (set_add_rep acc x (fun y Hy => proj1 (Ha y Hy)) (proj1 Fx) Nd) as (R1 & N1 & M1).
      destruct (IH (set_add acc x)) as (res & E & F & N & M); auto.
      * intros y Hy. apply Hp. right; auto.
      * intros y Hy. apply set_add_In in Hy as [Hy| ->]; auto.
      * intros y Hy. apply Hs. right; auto.
      * exists res. split; auto. split; auto. split; auto. intros c. rewrite M, M1. split.
        -- intros [[H| ->]|(y & Hy & E' & Q)]; auto.
           ++ right. exists x. cbn; auto.
           ++ right. exists y. cbn; auto.
        -- intros [H|(y & [<-|Hy] & E' & Q)]; auto. right. exists y; auto.
    + destruct (IH acc) as (res & E & F & N & M); auto.
      * intros y Hy. apply Hp. right; auto.
      * intros y Hy. apply Hs. right; auto.
      * exists res. split; auto. split; auto. split; auto. intros c. rewrite M. split.
        -- intros [H|(y & Hy & E' & Q)]; auto. right. exists y. cbn; auto.
        -- intros [H|(y & [<-|Hy] & E' & Q)]; auto; [congruence|]. right. exists y; auto.
Qed.

Theorem refine_lemma a p q : fine a ->
  (forall s, a = VSet s -> forall x, In x s -> p [x] = Ok (q (canon x))) ->
  allowed False (spec_refine (norm a) q) (SetRefinement a p).
Proof.
  intros Fa Hp. destruct (is_set a) as [[s ->]|Ha].
  - rewrite norm_fine_set by auto. cbn [spec_refine on_set SetRefinement AsSet bind].
    destruct (fine_set s Fa) as [Hs Ns].
    destruct (refine_loop_spec p q s [] (Hp s eq_refl) (fun y H => match H with end) Hs (NoDup_nil _))
      as (res & -> & F & N & M).
    cbn. apply set_result; auto.
    intros c. rewrite M, filter_In, vsort_In. cbn [map In]. split.
    + intros [[]|(x & Hx & <- & Q)]. split; auto. apply in_map; auto.
    + intros [Hin Q]. apply in_map_iff in Hin as (x & <- & Hx). right. eauto.
  - unfold spec_refine. rewrite on_set_err by auto. destruct a; try reflexivity. exfalso. eapply Ha. reflexivity.
Qed.

(* CHOOSE x \in S : p(x): some member satisfying p; a TLA+ type error when there is none *)
Theorem choose_lemma a p q : fine a ->
  (forall s, a = VSet s -> forall x, In x s -> p [x] = Ok (q (canon x))) ->
  match Choose a p with
  | Ok r => exists s, a = VSet s /\ In r s /\ choose_ok (norm a) q (norm r) /\ good r
  | TypeErr => choose_err (norm a) q
  | _ => False
  end.
Proof.
  intros Fa Hp. destruct (is_set a) as [[s ->]|Ha].
  - rewrite norm_fine_set by auto. cbn [Choose AsSet bind choose_ok choose_err].
    destruct (fine_set s Fa) as [Hs _]. specialize (Hp s eq_refl).
    assert (G : forall l, (forall x, In x l -> In x s) ->
              match choose_loop p l with
              | Ok r => In r l /\ q (canon r) = true
              | TypeErr => forall x, In x l -> q (canon x) = false
              | _ => False end).
    { induction l as [|x l IH]; intros Hl; cbn; [intros x []|].
      rewrite (Hp x (Hl x (or_introl eq_refl))). cbn. destruct (q (canon x)) eqn:E.
      - split; auto.
      - specialize (IH (fun y Hy => Hl y (or_intror Hy))). destruct (choose_loop p l); auto.
        + destruct IH. split; auto.
        + intros y [<-|Hy]; auto. }
    specialize (G s (fun x H => H)). destruct (choose_loop p s) as [r| | |]; auto.
    + destruct G as [Hr Q]. exists s. split; auto. split; auto.
      rewrite (norm_plain r) by apply (Hs r Hr). split; [split; auto|apply fine_good, Hs, Hr].
      rewrite vsort_In. apply in_map; auto.
    + rewrite forallb_forall. intros c Hc. rewrite vsort_In in Hc. apply in_map_iff in Hc as (x & <- & Hx).
      rewrite (G x Hx). reflexivity.
  - assert (Choose a p = TypeErr) as ->.
    { unfold Choose. destruct a; try reflexivity. exfalso. eapply Ha. reflexivity. }
    unfold choose_err. destruct (norm a) eqn:E; auto.
    apply norm_set in E as [xs' ->]. exfalso. eapply Ha. reflexivity.
Qed.

(* ------------------------------------------------------------------ SUBSET *)
Lemma filter_in_powerset (f : value -> bool) s : In (filter f s) (powerset s).
Proof.
  induction s as [|x s IH]; cbn; [auto|].
  apply in_or_app. destruct (f x); [right; apply in_map; auto|left; auto].
Qed.

Lemma powerset_incl s p : In p (powerset s) -> incl p s.
Proof.
  revert p. induction s as [|x s IH]; cbn; intros p Hp.
  - destruct Hp as [<-|[]]. intros y [].
  - apply in_app_or in Hp as [Hp|Hp].
    + intros y Hy. right. apply (IH p Hp y Hy).
    + apply in_map_iff in Hp as (q & <- & Hq). intros y [<-|Hy]; [left; auto|right; apply (IH q Hq y Hy)].
Qed.

Definition subs_step (subs : list (list value)) (e : value) : list (list value) :=
  subs ++ map (fun sub => set_add sub e) subs.

Definition sub_ok (sub : list value) : Prop := (forall y, In y sub -> fine y) /\ NoDup (map canon sub).

Lemma subs_fold_ok s : forall subs,
  (forall y, In y s -> fine y) -> (forall sub, In sub subs -> sub_ok sub) ->
  (forall sub, In sub (fold_left subs_step s subs) -> sub_ok sub) /\
  (forall sub, In sub (fold_left subs_step s subs) ->
     exists sub0, In sub0 subs /\ forall c, In c (map canon sub) -> In c (map canon sub0) \/ In c (map canon s)) /\
  (forall sub0 T, In sub0 subs -> In T (powerset s) ->
     exists sub, In sub (fold_left subs_step s subs) /\
                 forall c, In c (map canon sub) <-> In c (map canon sub0) \/ In c (map canon T)).
Proof.
  induction s as [|e s IH]; intros subs Hs Hsubs; cbn [fold_left].
  - split; [auto|]. split.
    + intros sub Hsub. exists sub. auto.
    + intros sub0 T H0 [<-|[]]. exists sub0. split; auto. intros c. cbn. tauto.
  - assert (Fe : fine e) by (apply Hs; cbn; auto).
    assert (Hstep : forall sub, In sub (subs_step subs e) -> sub_ok sub).
    { intros sub Hin. apply in_app_or in Hin as [Hin|Hin]; auto.
      apply in_map_iff in Hin as (sub1 & <- & H1). destruct (Hsubs sub1 H1) as [F1 N1].
      destruct (set_add_rep sub1 e (fun y Hy => proj1 (F1 y Hy)) (proj1 Fe) N1) as (R & N & M).
      split; auto. intros y Hy. apply set_add_In in Hy as [Hy| ->]; auto. }
    destruct (IH (subs_step subs e) (fun y Hy => Hs y (or_intror Hy)) Hstep) as (I1 & I2 & I3).
    split; [exact I1|]. split.
    + intros sub Hsub. destruct (I2 sub Hsub) as (sub1 & H1 & Hc).
      apply in_app_or in H1 as [H1|H1].
      * exists sub1. split; auto. intros c Hin. destruct (Hc c Hin); auto. right. cbn. auto.
      * apply in_map_iff in H1 as (sub0 & <- & H0). exists sub0. split; auto.
        destruct (Hsubs sub0 H0) as [F0 N0].
        destruct (set_add_rep sub0 e (fun y Hy => proj1 (F0 y Hy)) (proj1 Fe) N0) as (_ & _ & M).
        intros c Hin. destruct (Hc c Hin) as [Hin'|Hin']; [|right; cbn; auto].
        apply M in Hin' as [?| ->]; auto. right. cbn. auto.
    + intros sub0 T H0 HT. cbn [powerset] in HT. apply in_app_or in HT as [HT|HT].
      * assert (Hin0 : In sub0 (subs_step subs e)) by (apply in_or_app; auto).
        destruct (I3 sub0 T Hin0 HT) as (sub & Hsub & Hc). exists sub. split; auto.
      * apply in_map_iff in HT as (T' & <- & HT').
        destruct (Hsubs sub0 H0) as [F0 N0].
        destruct (set_add_rep sub0 e (fun y Hy => proj1 (F0 y Hy)) (proj1 Fe) N0) as (_ & _ & M).
        assert (Hin1 : In (set_add sub0 e) (subs_step subs e)).
        { apply in_or_app. right. apply in_map_iff. exists sub0. auto. }
        destruct (I3 (set_add sub0 e) T' Hin1 HT') as (sub & Hsub & Hc).
        exists sub. split; auto. intros c. rewrite Hc, M. cbn [map In]. intuition (subst; auto).
Qed.

Lemma canon_fine_set sub : sub_ok sub -> fine (VSet sub) /\ canon (VSet sub) = mk_set (map canon sub).
Proof. intros [F N]. split; [apply fine_set_intro; auto|reflexivity]. Qed.

Theorem subset_lemma a : fine a -> allowed False (spec_subset (norm a)) (ModulePrefixSubsetSymbol a).
Proof.
  intros Fa. destruct (is_set a) as [[s ->]|Ha].
  - rewrite norm_fine_set by auto. cbn [spec_subset on_set ModulePrefixSubsetSymbol AsSet bind].
    destruct (fine_set s Fa) as [Hs Ns].
    change (subsets_of s) with (fold_left subs_step s [[]]).
    destruct (subs_fold_ok s [[]] Hs) as (I1 & I2 & I3).
    { intros sub [<-|[]]. split; [intros y []|constructor]. }
    apply build_set_result.
    + intros y Hy. apply in_map_iff in Hy as (sub & <- & Hsub). apply canon_fine_set, I1, Hsub.
    + intros c. rewrite map_map. split.
      * intros Hc. apply in_map_iff in Hc as (sub & <- & Hsub).
        destruct (I2 sub Hsub) as (sub0 & [<-|[]] & Hc).
        apply in_map_iff. exists (filter (fun x => mem x (map canon sub)) (sort_dedup vcmp (map canon s))).
        split; [|apply filter_in_powerset].
        change (canon (VSet sub)) with (mk_set (map canon sub)). unfold mk_set. f_equal. apply vsort_ext.
        intros x. rewrite filter_In, vsort_In, mem_In. split; [tauto|]. intros Hx. split; auto.
        destruct (Hc x Hx) as [[]|]; auto.
      * intros Hc. apply in_map_iff in Hc as (p & <- & Hp).
        set (T := filter (fun x => mem (canon x) p) s).
        destruct (I3 [] T (or_introl eq_refl) (filter_in_powerset _ s)) as (sub & Hsub & Hm).
        apply in_map_iff. exists sub. split; auto.
        change (canon (VSet sub)) with (mk_set (map canon sub)). unfold mk_set. f_equal. apply vsort_ext.
        intros x. rewrite Hm. cbn [map In]. unfold T. split.
        -- intros [[]|Hx]. apply in_map_iff in Hx as (y & <- & Hy). apply filter_In in Hy as [_ Hy].
           apply mem_In in Hy. exact Hy.
        -- intros Hx. right. pose proof (powerset_incl _ _ Hp x Hx) as Hin. rewrite vsort_In in Hin.
           apply in_map_iff in Hin as (y & <- & Hy). apply in_map. apply filter_In. split; auto.
           apply mem_In. exact Hx.
  - unfold spec_subset. rewrite on_set_err by auto. destruct a; try reflexivity. exfalso. eapply Ha. reflexivity.
Qed.

(* ------------------------------------------------------------------ functions: DOMAIN, application *)
Lemma fine_fun kvs : fine (VFun kvs) ->
  (forall k v, In (k, v) kvs -> fine k /\ fine v) /\ NoDup (map canon (map fst kvs)) /\
  norm (VFun kvs) = VFun (sort_dedup kv_cmp (map ckv kvs)).
Proof.
  intros ((Ra & Nd) & B & P). pose proof P as P'. destruct P' as [Pa Ps]. cbn in B.
  rewrite All_In in Ra, B, Pa. split; [|split; auto].
  - intros k v Hin. specialize (Ra _ Hin). specialize (B _ Hin). specialize (Pa _ Hin). cbn in *.
    repeat split; tauto.
  - rewrite norm_plain by exact P. reflexivity.
Qed.

Lemma ckv_keys kvs : map fst (map ckv kvs) = map canon (map fst kvs).
Proof. rewrite !map_map. apply map_ext. intros [k v]. reflexivity. Qed.

Lemma NoDup_ckv kvs : NoDup (map canon (map fst kvs)) -> NoDup (map ckv kvs).
Proof.
  intros H. erewrite map_ext; [apply (C05.Proofs.NoDup_map_fst_pairs canon canon kvs H)|]. intros []; reflexivity.
Qed.

Lemma sorted_keys_NoDup kvs : NoDup (map canon (map fst kvs)) ->
  NoDup (map fst (sort_dedup kv_cmp (map ckv kvs))).
Proof.
  intros H. apply (Permutation_NoDup (l := map fst (map ckv kvs))).
  - apply Permutation_map. symmetry. apply kvsort_perm. apply NoDup_ckv, H.
  - rewrite ckv_keys. exact H.
Qed.

Lemma lookup_In kvs c v : NoDup (map fst kvs) -> (lookup kvs c = Some v <-> In (c, v) kvs).
Proof.
  induction kvs as [|[k' v'] kvs IH]; cbn; intros Nd; [split; [discriminate|tauto]|].
  inversion Nd as [|? ? Hn Nd']; subst. destruct (veqb k' c) eqn:E.
  - apply veqb_eq in E. subst k'. split.
    + intros [= ->]. auto.
    + intros [[= ->]|Hin]; auto. exfalso. apply Hn. apply in_map_iff. exists (c, v). auto.
  - rewrite IH by auto. split; auto. intros [[= -> ->]|Hin]; auto. rewrite veqb_refl in E. discriminate.
Qed.

Lemma lookup_None kvs c : lookup kvs c = None <-> ~ In c (map fst kvs).
Proof.
  induction kvs as [|[k' v'] kvs IH]; cbn; [tauto|].
  destruct (veqb k' c) eqn:E.
  - apply veqb_eq in E. split; [discriminate|tauto].
  - rewrite IH. split; [|tauto]. intros H [->|H']; auto. rewrite veqb_refl in E. discriminate.
Qed.

Lemma fun_get_Some kvs x v : fun_get kvs x = Some v -> exists k, In (k, v) kvs /\ Equal k x = true.
Proof.
  induction kvs as [|[k' v'] kvs IH]; cbn; [discriminate|].
  destruct (Equal k' x) eqn:E.
  - intros [= ->]. exists k'. auto.
  - intros H. destruct (IH H) as (k & Hin & Ek). exists k. auto.
Qed.

Lemma fun_get_None kvs x : fun_get kvs x = None -> forall k, In k (map fst kvs) -> Equal k x = false.
Proof.
  induction kvs as [|[k' v'] kvs IH]; cbn; [intros _ k []|].
  destruct (Equal k' x) eqn:E; [discriminate|]. intros H k [<-|Hk]; auto.
Qed.

Theorem domain_lemma f : fine f -> allowed (is_tuprep f) (spec_domain (norm f)) (ModuleDomainSymbol f).
Proof.
  intros Ff. destruct f as [| b | z | s | xs | xs | kvs]; try reflexivity.
  - (* a tuple: TLA+ gives 1..n, the runtime refuses (documented restriction) *)
    cbn. right. split; auto. eexists; reflexivity.
  - destruct (fine_fun kvs Ff) as (Hk & Nd & ->). cbn [spec_domain graph ModuleDomainSymbol AsFunction bind].
    apply build_set_result.
    + intros k Hin. apply in_map_iff in Hin as ([k' v'] & <- & Hin). apply (Hk k' v' Hin).
    + intros c. rewrite <- ckv_keys. rewrite !in_map_iff. split.
      * intros ([k v] & <- & Hin). exists (k, v). split; auto. rewrite kvsort_In. exact Hin.
      * intros ([k v] & <- & Hin). exists (k, v). split; auto. rewrite kvsort_In in Hin. exact Hin.
Qed.

Theorem apply_lemma f x : fine f -> fine x -> allowed False (spec_apply (norm f) (norm x)) (ApplyFunction f x).
Proof.
  intros Ff Fx. destruct f as [| b | z | s | xs | xs | kvs]; try reflexivity.
  - (* tuple *)
    destruct (is_num x) as [[i ->]|Hx].
    + cbn. rewrite map_length.
      destruct ((1 <=? i) && (i <=? Z.of_nat (List.length xs))) eqn:Eb; cbn [require bind]; [|reflexivity].
      rewrite nth_error_map.
      destruct (nth_error xs (Z.to_nat (i - 1))) as [v|] eqn:En; cbn.
      * apply allowed_ok; [reflexivity|]. apply fine_good in Ff. apply (proj1 (good_tup _) Ff). eapply nth_error_In; eauto.
      * exfalso. apply nth_error_None in En. lia.
    + assert (spec_apply (norm (VTup xs)) (norm x) = SErr) as ->.
      { cbn. destruct (norm x) eqn:E; try reflexivity. apply (proj1 (norm_num _ _)) in E. exfalso. eapply Hx. exact E. }
      cbn. destruct x; try reflexivity. exfalso. eapply Hx. reflexivity.
  - (* function *)
    destruct (fine_fun kvs Ff) as (Hk & Nd & ->). rewrite (norm_plain x) by apply Fx.
    cbn [spec_apply ApplyFunction].
    destruct (fun_get kvs x) as [v|] eqn:Eg.
    + apply fun_get_Some in Eg as (k & Hin & Ek).
      destruct (Hk k v Hin) as [Fk Fv].
      apply C05.Proofs.Equal_spec_lemma in Ek; [|apply Fk|apply Fx].
      assert (lookup (sort_dedup kv_cmp (map ckv kvs)) (canon x) = Some (canon v)) as ->.
      { apply lookup_In; [apply sorted_keys_NoDup; auto|]. rewrite kvsort_In. rewrite <- Ek.
        apply in_map_iff. exists (k, v). auto. }
      apply allowed_ok; [apply norm_plain, Fv|apply fine_good, Fv].
    + assert (lookup (sort_dedup kv_cmp (map ckv kvs)) (canon x) = None) as ->; [|reflexivity].
      apply lookup_None. intros Hin. apply in_map_iff in Hin as ([ck cv] & E & Hin). cbn in E. subst ck.
      rewrite kvsort_In in Hin. apply in_map_iff in Hin as ([k v] & [= E1 E2] & Hin).
      pose proof (fun_get_None kvs x Eg k) as Hf.
      assert (Equal k x = true); [|rewrite Hf in H; [discriminate|apply in_map_iff; exists (k, v); auto]].
      destruct (Hk k v Hin) as [Fk _]. apply C05.Proofs.Equal_spec_lemma; [apply Fk|apply Fx|auto].
Qed.

(* ------------------------------------------------------------------ ToString, SelectElement *)
(* ToString(v) == (CHOOSE x \in [a : v, b : STRING] : TRUE).b : TLA+ leaves the string unspecified *)
Theorem tostring_lemma a : exists s, ModuleToString a = Ok (VStr s).
Proof. eexists. reflexivity. Qed.

(* the runtime helper behind `with x \in S`: the idx-th member in iteration order *)
Theorem selectelement_lemma a idx : fine a ->
  match SelectElement a idx with
  | Ok r => exists s, a = VSet s /\ In r s /\ (idx < List.length s)%nat /\ good r
  | TypeErr => forall s, a = VSet s -> (List.length s <= idx)%nat
  | _ => False
  end.
Proof.
  intros Fa. destruct a as [| b | z | s | xs | xs | kvs]; cbn; try (intros; discriminate).
  destruct (nth_error xs idx) as [r|] eqn:E.
  - exists xs. split; auto. split; [eapply nth_error_In; eauto|]. split.
    + apply nth_error_Some. congruence.
    + apply fine_good. apply (proj1 (fine_set xs Fa)). eapply nth_error_In; eauto.
  - intros s [= <-]. apply nth_error_None. exact E.
Qed.

(* ------------------------------------------------------------------ \X and {e : x \in S, y \in T} *)
Lemma fine_tup combo : (forall x, In x combo -> fine x) -> fine (VTup combo).
Proof. intros H. repeat split; cbn; apply All_In; intros x Hx; apply H; auto. Qed.

Lemma product_members sets combo : (forall s, In s sets -> forall x, In x s -> fine x) ->
  In combo (product sets) -> forall x, In x combo -> fine x.
Proof.
  intros Hs Hc. change (product sets) with (sproduct sets) in Hc. apply in_sproduct in Hc.
  induction Hc as [|x s c sets' Hx Hr IH]; intros y []; subst; [apply (Hs s); cbn; auto|].
  apply IH; auto. intros s' Hs' z Hz. apply (Hs s'); cbn; auto.
Qed.

Lemma as_sets_fine vs sets : fine_sets vs -> vs = map VSet sets ->
  forall s, In s sets -> forall x, In x s -> fine x.
Proof.
  intros Hf -> s Hs x Hx. assert (F : fine (VSet s)) by (apply Hf, in_map, Hs).
  apply (proj1 (fine_set s F)); auto.
Qed.

Theorem cross_lemma vs : fine_sets vs -> allowed False (spec_cross (map norm vs)) (CrossProduct vs).
Proof.
  intros Hf. unfold spec_cross, CrossProduct.
  pose proof (as_sets_spec vs Hf) as HA. destruct (as_sets vs) as [sets| | |]; try contradiction.
  - destruct HA as [E ->]. cbn [bind].
    apply build_set_result.
    + intros y Hy. apply in_map_iff in Hy as (combo & <- & Hc). apply fine_tup.
      apply (product_members sets combo); auto. apply (as_sets_fine vs sets Hf E).
    + intros c. rewrite map_map. rewrite !in_map_iff. split.
      * intros (combo & <- & Hc). exists (map canon combo). split; [reflexivity|].
        apply in_sproduct, forall2_in_canon. exists combo. split; auto. apply in_sproduct. exact Hc.
      * intros (cc & <- & Hc). apply in_sproduct, forall2_in_canon in Hc as (combo & Hc & <-).
        exists combo. split; [reflexivity|]. apply in_sproduct. exact Hc.
  - rewrite HA. reflexivity.
Qed.

(* a Go body closure that never panics on members of the sets and computes g on the denoted values *)
Definition body_refines (b : bodyT) (g : list value -> value) (sets : list (list value)) : Prop :=
  forall combo, Forall2 (fun x s => In x s) combo sets ->
  exists r, b combo = Ok r /\ fine r /\ canon r = g (map canon combo).

Lemma compr_loop_spec b g combos : forall acc,
  (forall c, In c combos -> exists r, b c = Ok r /\ fine r /\ canon r = g (map canon c)) ->
  (forall y, In y acc -> fine y) -> NoDup (map canon acc) ->
  exists res, compr_loop b combos acc = Ok res /\ (forall y, In y res -> fine y) /\ NoDup (map canon res) /\
              (forall c, In c (map canon res) <-> In c (map canon acc) \/ exists cb, In cb combos /\ g (map canon cb) = c).
Proof.
  induction combos as [|cb combos IH]; intros acc Hb Ha Nd; cbn.
  - exists acc. split; [reflexivity|]. split; [auto|]. split; [auto|]. intros c. split; [auto|intros [Hc|(x & [] & _)]; auto].
  - destruct (Hb cb (or_introl eq_refl)) as (r & -> & Fr & Er). cbn.
    destruct (set_add_rep acc r (fun y Hy => proj1 (Ha y Hy)) (proj1 Fr) Nd) as (R1 & N1 & M1).
    destruct (IH (set_add acc r)) as (res & E & F & N & M); auto.
    + intros c Hc. apply Hb. right; auto.
    + intros y Hy. apply set_add_In in Hy as [Hy| ->]; auto.
    + exists res. split; auto. split; auto. split; auto. intros c. rewrite M, M1. split.
      * intros [[H| ->]|(cb' & Hcb & E')]; auto.
        -- right. exists cb. cbn; auto.
        -- right. exists cb'. cbn; auto.
      * intros [H|(cb' & [<-|Hcb] & E')]; auto.
        -- left. right. congruence.
        -- right. exists cb'; auto.
Qed.

Theorem compr_lemma vs b g : fine_sets vs ->
  (forall sets, vs = map VSet sets -> body_refines b g sets) ->
  allowed False (spec_compr (map norm vs) g) (SetComprehension vs b).
Proof.
  intros Hf Hb. unfold spec_compr, SetComprehension.
  pose proof (as_sets_spec vs Hf) as HA. destruct (as_sets vs) as [sets| | |]; try contradiction.
  - destruct HA as [E ->]. cbn [bind].
    destruct (compr_loop_spec b g (product sets) []) as (res & -> & F & N & M).
    + intros c Hc. apply (Hb sets E). apply in_sproduct. exact Hc.
    + intros y [].
    + constructor.
    + cbn [bind]. apply set_result; auto.
      intros c. rewrite M. cbn [map In]. rewrite in_map_iff. split.
      * intros [[]|(cb & Hcb & <-)]. exists (map canon cb). split; auto.
        apply in_sproduct, forall2_in_canon. exists cb. split; auto. apply in_sproduct. exact Hcb.
      * intros (cc & <- & Hc). apply in_sproduct, forall2_in_canon in Hc as (cb & Hc & <-).
        right. exists cb. split; auto. apply in_sproduct. exact Hc.
  - rewrite HA. reflexivity.
Qed.

(* ------------------------------------------------------------------ function-valued operators: @@, records, [x \in S |-> e] *)
Lemma ckvp_ckv l : map ckvp l = map ckv l.
Proof. apply map_ext. intros [k v]. reflexivity. Qed.

Lemma norm_fun_elems kvs : (forall k v, In (k, v) kvs -> plain k /\ plain v) ->
  norm (VFun kvs) = mk_graph (map ckv kvs).
Proof.
  intros H. cbn [norm]. unfold mk_graph. f_equal. f_equal. apply map_ext_in. intros [k v] Hin.
  destruct (H k v Hin) as [Pk Pv]. cbn. rewrite !norm_plain by auto. reflexivity.
Qed.

(* the result of a function-valued operator *)
Lemma fun_result (R : Prop) res spec_l :
  (forall k v, In (k, v) res -> fine k /\ fine v) -> NoDup (map canon (map fst res)) ->
  (forall p, In p (map ckv res) <-> In p spec_l) ->
  allowed R (SOk (mk_graph spec_l)) (Ok (VFun res)).
Proof.
  intros Hf Nd Hm. apply allowed_ok.
  - rewrite norm_fun_elems by (intros k v Hin; destruct (Hf k v Hin) as [(_ & _ & Pk) (_ & _ & Pv)]; auto).
    unfold mk_graph. f_equal. apply kvsort_ext. exact Hm.
  - split.
    + split; auto. apply All_In. intros [k v] Hin. destruct (Hf k v Hin) as [(Rk & _) (Rv & _)]. cbn. auto.
    + cbn. apply All_In. intros [k v] Hin. destruct (Hf k v Hin) as [(_ & Bk & _) (_ & Bv & _)]. cbn. auto.
Qed.

Lemma fine_pairs_rep l : (forall k v, In (k, v) l -> fine k /\ fine v) ->
  forall p, In p l -> rep_ok (fst p) /\ rep_ok (snd p).
Proof. intros H [k v] Hin. destruct (H k v Hin) as [(Rk & _) (Rv & _)]. auto. Qed.

Inductive fun_arg (a : value) : Type :=
| FA_fun kvs : a = VFun kvs -> fun_arg a
| FA_tup xs : a = VTup xs -> fun_arg a
| FA_other : graph (norm a) = None -> AsFunction a = TypeErr -> fun_arg a.

Definition fun_arg_of (a : value) : fun_arg a.
Proof.
  destruct a; try (apply FA_other; reflexivity).
  - eapply FA_tup. reflexivity.
  - eapply FA_fun. reflexivity.
Defined.

Lemma sorted_lookup_None kvs c : NoDup (map canon (map fst kvs)) ->
  (lookup (sort_dedup kv_cmp (map ckv kvs)) c = None <-> ~ In c (map canon (map fst kvs))).
Proof.
  intros Nd. rewrite lookup_None. rewrite <- ckv_keys. split; intros H Hin; apply H.
  - apply in_map_iff in Hin as (p & <- & Hp). apply in_map. rewrite kvsort_In. exact Hp.
  - apply in_map_iff in Hin as (p & <- & Hp). apply in_map. rewrite kvsort_In in Hp. exact Hp.
Qed.

Theorem atat_lemma f g : fine f -> fine g ->
  allowed (is_tuprep f \/ is_tuprep g) (spec_atat (norm f) (norm g)) (ModuleDoubleAtSignSymbol f g).
Proof.
  intros Ff Fg.
  destruct (fun_arg_of f) as [kf ->|xs ->|Hn Hi].
  - destruct (fun_arg_of g) as [kg ->|ys ->|Hn Hi].
    + destruct (fine_fun kf Ff) as (Hkf & Nf & ->). destruct (fine_fun kg Fg) as (Hkg & Ng & ->).
      cbn [spec_atat graph ModuleDoubleAtSignSymbol AsFunction bind].
      destruct (fold_fun_add kf kg (fine_pairs_rep kf Hkf) (fine_pairs_rep kg Hkg) Nf Ng) as (I1 & I2 & I3).
      apply fun_result; auto.
      * intros k v Hin. apply I1 in Hin as [Hin|Hin]; eauto.
      * intros p. rewrite <- ckvp_ckv, I3, !ckvp_ckv. rewrite in_app_iff, filter_In, !kvsort_In.
        assert (E : forall c, match lookup (sort_dedup kv_cmp (map ckv kf)) c with Some _ => false | None => true end = true
                              <-> ~ In c (map canon (map fst kf))).
        { intros c. rewrite <- sorted_lookup_None by auto. destruct (lookup _ c); split; congruence. }
        rewrite E. tauto.
    + (* right operand a tuple: the runtime refuses (documented restriction) *)
      assert (ModuleDoubleAtSignSymbol (VFun kf) (VTup ys) = TypeErr) as -> by reflexivity.
      destruct (spec_atat _ _); cbn; auto. right. split; auto. right. eexists; reflexivity.
    + assert (ModuleDoubleAtSignSymbol (VFun kf) g = TypeErr) as ->.
      { unfold ModuleDoubleAtSignSymbol. cbn. rewrite Hi. reflexivity. }
      unfold spec_atat. rewrite Hn. destruct (graph (norm (VFun kf))); reflexivity.
  - assert (ModuleDoubleAtSignSymbol (VTup xs) g = TypeErr) as -> by reflexivity.
    destruct (spec_atat _ _); cbn; auto. right. split; auto. left. eexists; reflexivity.
  - assert (ModuleDoubleAtSignSymbol f g = TypeErr) as ->.
    { unfold ModuleDoubleAtSignSymbol. rewrite Hi. reflexivity. }
    unfold spec_atat. rewrite Hn. reflexivity.
Qed.

(* [k1 |-> v1, ..., kn |-> vn] for pairwise different keys *)
Theorem makerecord_lemma pairs :
  (forall k v, In (k, v) pairs -> fine k /\ fine v) -> NoDup (map canon (map fst pairs)) ->
  allowed False (SOk (mk_graph (map ckv pairs))) (MakeRecordV pairs).
Proof.
  intros Hf Nd. unfold MakeRecordV, MakeRecord.
  destruct (fold_fun_add pairs [] (fine_pairs_rep pairs Hf) (fun p H => match H with end) Nd (NoDup_nil _)) as (I1 & I2 & I3).
  apply fun_result; auto.
  - intros k v Hin. apply I1 in Hin as [[]|Hin]. eauto.
  - intros p. rewrite <- !ckvp_ckv, I3. cbn [map In]. tauto.
Qed.

(* ------------------------------------------------------------------ [x \in S, y \in T |-> e] *)
Lemma NoDup_app_disjoint {A} (l1 l2 : list A) :
  NoDup l1 -> NoDup l2 -> (forall x, In x l1 -> ~ In x l2) -> NoDup (l1 ++ l2).
Proof.
  induction l1 as [|a l1 IH]; cbn; intros N1 N2 Hd; auto.
  inversion N1 as [|? ? Ha N1']; subst. constructor.
  - intros Hin. apply in_app_or in Hin as [Hin|Hin]; auto. apply (Hd a); auto.
  - apply IH; auto.
Qed.

Lemma NoDup_sproduct sets : (forall s, In s sets -> NoDup s) -> NoDup (sproduct sets).
Proof.
  induction sets as [|s sets IH]; intros Hs; cbn.
  - constructor; [intros []|constructor].
  - assert (NP : NoDup (sproduct sets)) by (apply IH; intros; apply Hs; cbn; auto).
    assert (Ns : NoDup s) by (apply Hs; cbn; auto).
    clear IH Hs. induction s as [|e s IHs]; cbn; [constructor|].
    inversion Ns as [|? ? He Ns']; subst.
    apply NoDup_app_disjoint; auto.
    + apply FinFun.Injective_map_NoDup; auto. intros a b [= E]. exact E.
    + intros c Hc Hc'. apply in_map_iff in Hc as (tl & <- & _).
      apply in_flat_map in Hc' as (e' & He' & Hc'). apply in_map_iff in Hc' as (tl' & [= -> _] & _). auto.
Qed.

Lemma sproduct_map (f : value -> value) sets :
  map (map f) (sproduct sets) = sproduct (map (map f) sets).
Proof.
  induction sets as [|s sets IH]; cbn; [reflexivity|].
  rewrite <- IH. induction s as [|e s IHs]; cbn; [reflexivity|].
  rewrite map_app, IHs. f_equal. rewrite !map_map. reflexivity.
Qed.

Lemma product_one (s : list value) : product [s] = map (fun e => [e]) s.
Proof. cbn. induction s as [|e s IH]; cbn; [reflexivity|]. rewrite IH. reflexivity. Qed.

Definition mkfun_key (one : bool) (c : list value) : value := if one then hd VDefault c else VTup c.

Lemma mkfun_loop_fold one b (g : list value -> value) combos : forall acc,
  (forall c, In c combos -> exists r, b c = Ok r /\ fine r /\ canon r = g (map canon c)) ->
  exists pairs, mkfun_loop one b combos acc = Ok (fold_left (fun a p => fun_add a (fst p) (snd p)) pairs acc) /\
                map fst pairs = map (mkfun_key one) combos /\
                Forall2 (fun c p => fine (snd p) /\ canon (snd p) = g (map canon c)) combos pairs.
Proof.
  induction combos as [|c combos IH]; intros acc Hb; cbn.
  - exists []. repeat split; constructor.
  - destruct (Hb c (or_introl eq_refl)) as (r & -> & Fr & Er). cbn [bind].
    destruct (IH (fun_add acc (mkfun_key one c) r)) as (pairs & E & Ek & Ef).
    { intros c' Hc'. apply Hb. right; auto. }
    exists ((mkfun_key one c, r) :: pairs). cbn. unfold mkfun_key in *. rewrite E. split; auto. split.
    + f_equal. exact Ek.
    + constructor; auto.
Qed.

Lemma Forall2_in_r {A B} (R : A -> B -> Prop) l l' y : Forall2 R l l' -> In y l' -> exists x, In x l /\ R x y.
Proof.
  induction 1 as [|a b l l' Hab Hr IH]; cbn; [tauto|]. intros [<-|Hy]; [exists a; auto|].
  destruct (IH Hy) as (x & Hx & Rx). exists x. auto.
Qed.

Lemma Forall2_combine_in {A B} (R : A -> B -> Prop) l l' x y :
  Forall2 R l l' -> In (x, y) (combine l l') -> R x y.
Proof.
  induction 1 as [|a b l l' Hab Hr IH]; cbn; [tauto|]. intros [[= <- <-]|H]; auto.
Qed.

Theorem mkfun_lemma vs b g : fine_sets vs ->
  (forall sets, vs = map VSet sets -> body_refines b g sets) ->
  allowed False (spec_mkfun (map norm vs) g) (MakeFunction vs b).
Proof.
  intros Hf Hb. unfold MakeFunction.
  destruct vs as [|v1 vs']; [reflexivity|].
  remember (v1 :: vs') as vs eqn:Evs.
  assert (negb (Nat.eqb (List.length vs) 0) = true) as -> by (subst vs; reflexivity). cbn [require bind].
  pose proof (as_sets_spec vs Hf) as HA. destruct (as_sets vs) as [sets| | |] eqn:EA; try contradiction.
  - destruct HA as [E Es]. cbn [bind].
    assert (Hsf : forall s, In s sets -> forall x, In x s -> fine x) by (apply (as_sets_fine vs sets Hf E)).
    assert (Hsn : forall s, In s sets -> NoDup (map canon s)).
    { intros s Hs. assert (F : fine (VSet s)) by (apply Hf; rewrite E; apply in_map, Hs). apply (fine_set s F). }
    set (one := Nat.eqb (List.length vs) 1).
    destruct (mkfun_loop_fold one b g (product sets) []) as (pairs & -> & Ek & Ef).
    { intros c Hc. apply (Hb sets E). apply in_sproduct. exact Hc. }
    cbn [bind].
    (* keys and values of the bindings *)
    assert (Hpf : forall k v, In (k, v) pairs -> fine k /\ fine v).
    { intros k v Hin. destruct (Forall2_in_r _ _ _ (k, v) Ef Hin) as (c & Hc & Fv & _). split; auto.
      assert (Hk : In k (map fst pairs)) by (apply in_map_iff; exists (k, v); auto).
      rewrite Ek in Hk. apply in_map_iff in Hk as (c' & <- & Hc').
      unfold mkfun_key. destruct one eqn:Eo.
      - destruct c' as [|x c'']; [repeat split; exact I|]. cbn. apply (product_members sets (x :: c'') Hsf Hc'). cbn; auto.
      - apply fine_tup. apply (product_members sets c' Hsf Hc'). }
    assert (Hkeys : map canon (map fst pairs) = map (fun c => canon (mkfun_key one c)) (product sets)).
    { rewrite Ek, map_map. reflexivity. }
    assert (Hlen : List.length sets = List.length vs) by (rewrite E, map_length; reflexivity).
    assert (NdK : NoDup (map canon (map fst pairs))).
    { rewrite Hkeys. unfold mkfun_key. destruct one eqn:Eo.
      - (* one set: the keys are its members *)
        apply Nat.eqb_eq in Eo. destruct sets as [|s [|s2 sets']]; cbn in Hlen; try (rewrite Eo in Hlen; discriminate).
        rewrite product_one, map_map. cbn. apply (Hsn s). cbn; auto.
      - assert (map (fun c => canon (VTup c)) (product sets) = map VTup (map (map canon) (product sets))) as ->
          by (rewrite !map_map; reflexivity).
        apply FinFun.Injective_map_NoDup; [intros x y [= H]; exact H|].
        change (product sets) with (sproduct sets). rewrite sproduct_map. apply NoDup_sproduct.
        intros s' Hs'. apply in_map_iff in Hs' as (s & <- & Hs). apply Hsn, Hs. }
    destruct (fold_fun_add pairs [] (fine_pairs_rep pairs Hpf) (fun p H => match H with end) NdK (NoDup_nil _)) as (I1 & I2 & I3).
    (* the spec side *)
    assert (Hspec : spec_mkfun (map norm vs) g =
                    SOk (mk_graph (map (fun c => (canon (mkfun_key one c), g (map canon c))) (product sets)))).
    { unfold spec_mkfun, one. rewrite Evs in *. destruct vs' as [|v2 vs'']; cbn [map] in *.
      - (* one set *)
        rewrite Es.
        destruct sets as [|s [|s2 sets']]; cbn in Hlen; try discriminate. cbn [map List.length Nat.eqb].
        f_equal. unfold mk_graph. f_equal. apply kvsort_ext. intros p.
        rewrite !in_map_iff. split.
        + intros (x & <- & Hx). rewrite vsort_In in Hx. apply in_map_iff in Hx as (e & <- & He).
          exists [e]. split; [reflexivity|]. rewrite product_one. apply in_map_iff. exists e. auto.
        + intros (c & <- & Hc). rewrite product_one in Hc. apply in_map_iff in Hc as (e & <- & He). cbn.
          exists (canon e). split; auto. rewrite vsort_In. apply in_map. exact He.
      - (* several sets: tuples as keys *)
        rewrite Es. cbn [List.length Nat.eqb].
        f_equal. unfold mk_graph. f_equal. apply kvsort_ext. intros p. rewrite !in_map_iff. split.
        + intros (cc & <- & Hc). apply in_sproduct, forall2_in_canon in Hc as (c & Hc & <-).
          exists c. split; [reflexivity|]. apply in_sproduct. exact Hc.
        + intros (c & <- & Hc). exists (map canon c). split; [reflexivity|].
          apply in_sproduct, forall2_in_canon. exists c. split; auto. apply in_sproduct. exact Hc. }
    rewrite Hspec. apply fun_result; auto.
    + intros k v Hin. apply I1 in Hin as [[]|Hin]. eauto.
    + intros p. rewrite <- ckvp_ckv, I3. cbn [map In]. split.
      * intros [Hin|[[] _]]. apply in_map_iff in Hin as ([k v] & <- & Hin).
        (* position of the binding *)
        assert (Hcomb : In (k, v) pairs) by exact Hin.
        clear Hin. revert Hcomb. generalize (product sets) Ek Ef. clear.
        intros combos Ek Ef. revert pairs Ek Ef. induction combos as [|c combos IH]; intros pairs Ek Ef Hin.
        -- inversion Ef; subst. destruct Hin.
        -- inversion Ef as [|? p0 ? pairs' [_ Ev] Hr]; subst. cbn in Ek. injection Ek as Ek0 Ek'.
           destruct Hin as [->|Hin].
           ++ left. unfold ckvp. cbn in *. rewrite Ek0, Ev. reflexivity.
           ++ right. apply (IH pairs'); auto.
      * intros Hin. left. apply in_map_iff in Hin as (c & <- & Hc).
        revert Hc. generalize (product sets) Ek Ef. clear.
        intros combos Ek Ef. revert pairs Ek Ef. induction combos as [|c0 combos IH]; intros pairs Ek Ef Hin; [destruct Hin|].
        inversion Ef as [|? p0 ? pairs' [_ Ev] Hr]; subst. cbn in Ek. injection Ek as Ek0 Ek'.
        destruct Hin as [->|Hin].
        -- left. unfold ckvp. destruct p0 as [k0 v0]. cbn in *. rewrite Ek0, Ev. reflexivity.
        -- right. apply (IH pairs'); auto.
  - unfold spec_mkfun. rewrite Evs in *. destruct vs' as [|v2 vs'']; cbn [map] in *; rewrite HA; reflexivity.
Qed.

(* ------------------------------------------------------------------ Seq, SelectSeq (known findings) *)
(* Seq(S) is the set of all finite sequences over S.  The runtime cannot represent it; the full
   statement "every sequence over S is a member of the result" is refuted by the code. *)
Definition seq_full_statement : Prop :=
  forall xs r, ModuleSeq (VSet xs) = Ok (VSet r) ->
  forall t, (forall x, In x t -> In x xs) -> exists y, In y r /\ canon y = canon (VTup t).

Theorem seq_refuted_lemma : ~ seq_full_statement.
Proof.
  intros H. specialize (H [VNum 1] [VTup [VNum 1]] eq_refl [VNum 1; VNum 1]).
  destruct H as (y & [<-|[]] & E).
  - intros x [<-|[<-|[]]]; cbn; auto.
  - discriminate.
Qed.

(* what the code does return: the empty sequence for the empty set (correct), and for a
   non-empty set tuples that are at least sequences over S of length |S| *)
Theorem seq_empty_lemma : ModuleSeq (VSet []) = Ok (VSet [VTup []]).
Proof. reflexivity. Qed.

Theorem seq_witness_lemma :
  ModuleSeq (VSet [VNum 1; VNum 2; VNum 3]) =
  Ok (VSet [VTup [VNum 1; VNum 2; VNum 3]; VTup [VNum 2; VNum 1; VNum 3]; VTup [VNum 3; VNum 1; VNum 2];
            VTup [VNum 1; VNum 3; VNum 2]; VTup [VNum 2; VNum 3; VNum 1]; VTup [VNum 3; VNum 2; VNum 1]]).
Proof. vm_compute. reflexivity. Qed.

(* SelectSeq: every call panics with a non-TLA+ error, which `allowed` never admits *)
Theorem selectseq_refuted_lemma : forall (R : Prop) s a b, ~ allowed R s (ModuleSelectSeq a b).
Proof.
  intros R s a b H. destruct s; cbn in H.
  - destruct H as [(v' & E & _)|[E _]]; discriminate.
  - discriminate.
Qed.

(* ------------------------------------------------------------------ EXCEPT (FunctionSubstitution) *)
Definition allowed_fine (R : Prop) (s : sres) (r : res value) : Prop :=
  match s with
  | SOk v => (exists v', r = Ok v' /\ canon v' = v /\ fine v') \/ (r = TypeErr /\ R)
  | SErr => r = TypeErr
  end.

Lemma allowed_fine_allowed R s r : allowed_fine R s r -> allowed R s r.
Proof.
  destruct s; cbn; auto. intros [(v' & E & C & F)|H]; auto. left. exists v'. split; auto. split.
  - rewrite norm_plain by apply F. exact C.
  - apply fine_good, F.
Qed.

(* a Go closure `func(anchor Value) Value` computing g of the denoted value, failing loudly where g does *)
Definition valf_refines (valf : value -> res value) (g : value -> sres) : Prop :=
  forall v, fine v -> match g (canon v) with
                      | SOk w => exists r, valf v = Ok r /\ fine r /\ canon r = w
                      | SErr => valf v = TypeErr
                      end.

Lemma canon_num a z : canon a = VNum z <-> a = VNum z.
Proof. destruct a; cbn; split; congruence. Qed.

Lemma supd_list_set l n x : supd l n x = list_set l n x.
Proof. revert n. induction l as [|y l IH]; intros [|n]; cbn; auto. rewrite IH. reflexivity. Qed.

Lemma map_list_set (f : value -> value) l n x : map f (list_set l n x) = list_set (map f l) n (f x).
Proof. revert n. induction l as [|y l IH]; intros [|n]; cbn; auto. rewrite IH. reflexivity. Qed.

Lemma list_set_In {A} (l : list A) n x y : In y (list_set l n x) -> In y l \/ y = x.
Proof.
  revert n. induction l as [|z l IH]; intros [|n]; cbn; auto.
  - intros [<-|H]; auto.
  - intros [<-|H]; auto. destruct (IH n H); auto.
Qed.

(* ---- function graphs sorted by key ---- *)
Definition keylt (p q : value * value) : Prop := vcmp (fst p) (fst q) = Lt.

Lemma kvlt_keylt S : StronglySorted kvlt S -> NoDup (map fst S) -> StronglySorted keylt S.
Proof.
  induction 1 as [|p S Hs IH Hp]; intros Nd; constructor.
  - apply IH. inversion Nd; auto.
  - inversion Nd as [|? ? Hn Nd']; subst. rewrite Forall_forall in *. intros q Hq.
    specialize (Hp q Hq). unfold kvlt, clt, kv_cmp, pair_cmp, keylt in *. destruct p as [k v], q as [k' v']. cbn in *.
    destruct (vcmp k k') eqn:E; try congruence.
    apply vcmp_eq in E. subst k'. exfalso. apply Hn. apply in_map_iff. exists (k, v'). auto.
Qed.

Lemma keylt_kvlt S : StronglySorted keylt S -> StronglySorted kvlt S.
Proof.
  induction 1 as [|p S Hs IH Hp]; constructor; auto.
  rewrite Forall_forall in *. intros q Hq. specialize (Hp q Hq).
  unfold kvlt, clt, kv_cmp, pair_cmp, keylt in *. destruct p, q. cbn in *. rewrite Hp. reflexivity.
Qed.

Lemma graph_set_keys S k nv : map fst (graph_set S k nv) = map fst S.
Proof. induction S as [|[k' v] S IH]; cbn; auto. destruct (veqb k' k); cbn; f_equal; auto. Qed.

Lemma graph_set_sorted S k nv : StronglySorted keylt S -> StronglySorted keylt (graph_set S k nv).
Proof.
  induction 1 as [|[k' v] S Hs IH Hp]; cbn; [constructor|].
  destruct (veqb k' k).
  - constructor; auto.
  - constructor; auto. rewrite Forall_forall in *. intros q Hq.
    assert (In (fst q) (map fst (graph_set S k nv))) as Hk by (apply in_map; auto).
    rewrite graph_set_keys in Hk. apply in_map_iff in Hk as (q' & E & Hq'). specialize (Hp q' Hq').
    unfold keylt in *. cbn in *. rewrite <- E. exact Hp.
Qed.

Lemma graph_set_In S k nv p : NoDup (map fst S) ->
  (In p (graph_set S k nv) <-> (In p S /\ fst p <> k) \/ (p = (k, nv) /\ In k (map fst S))).
Proof.
  induction S as [|[k' v] S IH]; cbn; intros Nd; [tauto|].
  inversion Nd as [|? ? Hn Nd']; subst.
  destruct (veqb k' k) eqn:E.
  - apply veqb_eq in E. subst k'. cbn. split.
    + intros [<-|Hin]; [right; auto|]. left. split; auto. intros Hc. apply Hn. rewrite <- Hc. apply in_map. exact Hin.
    + intros [[[<-|Hin] Hne]|[-> _]]; auto. cbn in Hne. congruence.
  - apply veqb_false in E. cbn. rewrite IH by auto. split.
    + intros [<-|[[Hin Hne]|[-> Hin]]]; auto.
    + intros [[[<-|Hin] Hne]|[-> [Hc|Hin]]]; auto. congruence.
Qed.

Lemma kvsort_unique l L : StronglySorted kvlt L -> (forall p, In p L <-> In p l) -> sort_dedup kv_cmp l = L.
Proof.
  intros HL Hm. apply (sorted_unique kv_cmp kv_cmp_eq kv_cmp_trans); auto.
  - apply kvsort_sorted.
  - intros p. rewrite kvsort_In. symmetry. apply Hm.
Qed.

Lemma is_seq_dom_keys l l' : map fst l = map fst l' -> is_seq_dom l = is_seq_dom l'.
Proof.
  intros E. unfold is_seq_dom. rewrite E.
  assert (List.length l = List.length l') as -> by (rewrite <- (map_length fst l), E, map_length; reflexivity).
  reflexivity.
Qed.

Lemma fun_get_lookup kvs x : fine (VFun kvs) -> fine x ->
  match fun_get kvs x with
  | Some v => fine v /\ lookup (sort_dedup kv_cmp (map ckv kvs)) (canon x) = Some (canon v)
  | None => lookup (sort_dedup kv_cmp (map ckv kvs)) (canon x) = None
  end.
Proof.
  intros Ff Fx. destruct (fine_fun kvs Ff) as (Hk & Nd & _).
  destruct (fun_get kvs x) as [v|] eqn:Eg.
  - apply fun_get_Some in Eg as (k & Hin & Ek). destruct (Hk k v Hin) as [Fk Fv]. split; auto.
    apply C05.Proofs.Equal_spec_lemma in Ek; [|apply Fk|apply Fx].
    apply lookup_In; [apply sorted_keys_NoDup; auto|]. rewrite kvsort_In. rewrite <- Ek.
    apply in_map_iff. exists (k, v). auto.
  - apply lookup_None. intros Hin. apply in_map_iff in Hin as ([ck cv] & E & Hin). cbn in E. subst ck.
    rewrite kvsort_In in Hin. apply in_map_iff in Hin as ([k v] & [= E1 E2] & Hin).
    pose proof (fun_get_None kvs x Eg k) as Hf.
    assert (Equal k x = true); [|rewrite Hf in H; [discriminate|apply in_map_iff; exists (k, v); auto]].
    destruct (Hk k v Hin) as [Fk _]. apply C05.Proofs.Equal_spec_lemma; [apply Fk|apply Fx|auto].
Qed.

Lemma except_fun_step kvs k nv : fine (VFun kvs) -> fine k -> fine nv -> fun_get kvs k <> None ->
  fine (VFun (fun_add kvs k nv)) /\
  canon (VFun (fun_add kvs k nv)) = VFun (graph_set (sort_dedup kv_cmp (map ckv kvs)) (canon k) (canon nv)).
Proof.
  intros Ff Fk Fnv Hget. destruct (fine_fun kvs Ff) as (Hk & Nd & _).
  set (S := sort_dedup kv_cmp (map ckv kvs)).
  assert (NS : NoDup (map fst S)) by (apply sorted_keys_NoDup; auto).
  assert (Rkeys : forall y, In y (map fst kvs) -> rep_ok y).
  { intros y Hy. apply in_map_iff in Hy as ([a b] & <- & Hp). apply (Hk a b Hp). }
  assert (Hin_k : In (canon k) (map fst S)).
  { pose proof (fun_get_lookup kvs k Ff Fk) as HL. destruct (fun_get kvs k) as [v|]; [|congruence].
    destruct HL as [_ HL]. apply lookup_In in HL; auto. apply in_map_iff. exists (canon k, canon v). auto. }
  assert (Ecanon : sort_dedup kv_cmp (map ckv (fun_add kvs k nv)) = graph_set S (canon k) (canon nv)).
  { apply kvsort_unique.
    - apply keylt_kvlt, graph_set_sorted, kvlt_keylt; auto. apply kvsort_sorted.
    - intros p. rewrite graph_set_In by auto. rewrite <- ckvp_ckv.
      rewrite (fun_add_pairs kvs k nv Rkeys (proj1 Fk) Nd). unfold S. rewrite kvsort_In, ckvp_ckv. tauto. }
  split; [|cbn [canon]; f_equal; exact Ecanon].
  destruct (fun_add_rep kvs k nv (fine_pairs_rep kvs Hk) (proj1 Fk) (proj1 Fnv) Nd) as [Rr Nr].
  assert (Hel : forall a b, In (a, b) (fun_add kvs k nv) -> fine a /\ fine b).
  { intros a b Hin. apply fun_add_In in Hin as [Hin|[= -> ->]]; auto. }
  split; [|split].
  - split; auto. apply All_In. intros [a b] Hin. destruct (Hel a b Hin) as [(Ra & _) (Rb & _)]. cbn. auto.
  - cbn. apply All_In. intros [a b] Hin. destruct (Hel a b Hin) as [(_ & Ba & _) (_ & Bb & _)]. cbn. auto.
  - split.
    + apply All_In. intros [a b] Hin. destruct (Hel a b Hin) as [(_ & _ & Pa) (_ & _ & Pb)]. cbn. auto.
    + change (map (canon_kv canon) (fun_add kvs k nv)) with (map ckv (fun_add kvs k nv)). rewrite Ecanon.
      rewrite (is_seq_dom_keys _ S) by apply graph_set_keys.
      destruct Ff as (_ & _ & _ & Ps). exact Ps.
Qed.

Lemma fine_tup_elems xs : fine (VTup xs) -> forall x, In x xs -> fine x.
Proof.
  intros (R & B & P) x Hx. cbn in R, B, P. rewrite All_In in R, B, P. repeat split; auto.
Qed.

Lemma except1_lemma valf g : valf_refines valf g -> forall keys src,
  fine src -> (forall k, In k keys -> fine k) ->
  allowed_fine (snd (spec_except1 (canon src) (map canon keys) g) = true)
               (fst (spec_except1 (canon src) (map canon keys) g)) (keysHelper src keys valf).
Proof.
  intros Hv. induction keys as [|k rest IH]; intros src Fs Fk.
  - cbn. specialize (Hv src Fs). destruct (g (canon src)); cbn; auto.
    destruct Hv as (r & E & F & C). left. exists r. auto.
  - assert (Fk0 : fine k) by (apply Fk; cbn; auto).
    assert (Frest : forall k', In k' rest -> fine k') by (intros; apply Fk; cbn; auto).
    destruct src as [| b | z | s | xs | xs | kvs]; try reflexivity.
    + (* tuple *)
      cbn [canon map spec_except1 keysHelper]. rewrite map_length.
      destruct (is_num k) as [[i ->]|Hk].
      * cbn [canon AsNumber bind].
        destruct ((1 <=? i) && (i <=? Z.of_nat (List.length xs))) eqn:Eb; cbn [require bind].
        -- rewrite nth_error_map.
           destruct (nth_error xs (Z.to_nat (i - 1))) as [v|] eqn:En; [|exfalso; apply nth_error_None in En; lia].
           cbn [option_map].
           assert (Fv : fine v) by (apply (fine_tup_elems xs Fs); eapply nth_error_In; eauto).
           specialize (IH v Fv Frest).
           destruct (spec_except1 (canon v) (map canon rest) g) as [r o]. cbn [fst snd] in *.
           destruct r as [w|]; cbn [sbind allowed_fine] in *.
           ++ destruct IH as [(nv & -> & C & Fnv)|[-> Ho]]; cbn [bind]; [left|right; auto].
              exists (VTup (list_set xs (Z.to_nat (i - 1)) nv)). split; auto. split.
              ** cbn [canon]. rewrite map_list_set, supd_list_set, C. reflexivity.
              ** apply fine_tup. intros y Hy. apply list_set_In in Hy as [Hy| ->]; auto. apply (fine_tup_elems xs Fs); auto.
           ++ rewrite IH. reflexivity.
        -- cbn. right. auto.
      * assert (AsNumber k = TypeErr) as -> by (destruct k; try reflexivity; exfalso; eapply Hk; reflexivity).
        cbn [bind]. destruct (canon k) eqn:E; try reflexivity. apply (proj1 (canon_num _ _)) in E. exfalso. eapply Hk. exact E.
    + (* function *)
      destruct (fine_fun kvs Fs) as (Hkv & Nd & _).
      change (canon (VFun kvs)) with (VFun (sort_dedup kv_cmp (map ckv kvs))).
      cbn [map spec_except1 keysHelper].
      pose proof (fun_get_lookup kvs k Fs Fk0) as HL.
      destruct (fun_get kvs k) as [v|] eqn:Eg.
      * destruct HL as [Fv ->]. specialize (IH v Fv Frest).
        destruct (spec_except1 (canon v) (map canon rest) g) as [r o]. cbn [fst snd] in *.
        destruct r as [w|]; cbn [sbind allowed_fine] in *.
        -- destruct IH as [(nv & -> & C & Fnv)|[-> Ho]]; cbn [bind]; [left|right; auto].
           destruct (except_fun_step kvs k nv Fs Fk0 Fnv) as [Fr Cr]; [congruence|].
           exists (VFun (fun_add kvs k nv)). split; auto. split; auto. rewrite Cr, C. reflexivity.
        -- rewrite IH. reflexivity.
      * rewrite HL. cbn. right. auto.
Qed.

(* the Go record {Keys, Value} and its spec counterpart *)
Definition sub_refines (isub : list value * (value -> res value)) (ssub : list value * (value -> sres)) : Prop :=
  fst ssub = map canon (fst isub) /\ (forall k, In k (fst isub) -> fine k) /\ valf_refines (snd isub) (snd ssub).

Lemma except_fine isubs : forall ssubs src, Forall2 sub_refines isubs ssubs -> fine src ->
  allowed_fine (snd (spec_except (canon src) ssubs) = true) (fst (spec_except (canon src) ssubs))
               (FunctionSubstitution src isubs).
Proof.
  induction isubs as [|[keys valf] isubs IH]; intros ssubs src HF Fs; inversion HF as [|? [skeys g] ? ssubs' Hr HF']; subst.
  - cbn. left. exists src. auto.
  - destruct Hr as (Ek & Fk & Hv). cbn in Ek, Fk, Hv. subst skeys.
    cbn [spec_except FunctionSubstitution].
    pose proof (except1_lemma valf g Hv keys src Fs Fk) as H1.
    destruct (spec_except1 (canon src) (map canon keys) g) as [r o]. cbn [fst snd] in H1.
    destruct r as [w|]; cbn [allowed_fine] in H1.
    + destruct H1 as [(v' & -> & C & Fv')|[-> Ho]]; cbn [bind].
      * specialize (IH ssubs' v' HF' Fv'). rewrite C in IH.
        destruct (spec_except w ssubs') as [r' o']. cbn [fst snd] in *.
        destruct r'; cbn [allowed_fine] in *.
        -- destruct IH as [H|[E Ho']]; auto. right. split; auto. rewrite Ho'. apply orb_true_r.
        -- exact IH.
      * destruct (spec_except w ssubs') as [r' o']. cbn [fst snd]. subst o.
        destruct r'; cbn; auto.
    + rewrite H1. reflexivity.
Qed.

Theorem except_lemma src isubs ssubs : fine src -> Forall2 sub_refines isubs ssubs ->
  allowed (snd (spec_except (norm src) ssubs) = true) (fst (spec_except (norm src) ssubs))
          (FunctionSubstitution src isubs).
Proof.
  intros Fs HF. rewrite (norm_plain src) by apply Fs. apply allowed_fine_allowed, except_fine; auto.
Qed.

(* ------------------------------------------------------------------ [k1 : S1, ..., kn : Sn] and [S -> T] *)
(* a set whose members need not be plain (functions with domain 1..n are members of [1..n -> T]) *)
Lemma set_result_norm (R : Prop) res spec_l :
  (forall y, In y res -> good y) -> NoDup (map canon res) ->
  (forall c, In c (map norm res) <-> In c spec_l) ->
  allowed R (SOk (mk_set spec_l)) (Ok (VSet res)).
Proof.
  intros Hg Nd Hm. apply allowed_ok.
  - cbn [norm]. unfold mk_set. f_equal. apply vsort_ext. exact Hm.
  - split.
    + split; auto. apply All_In. intros y Hy. apply Hg, Hy.
    + cbn. apply All_In. intros y Hy. apply Hg, Hy.
Qed.

Lemma in_sproduct_snoc sets s c :
  In c (sproduct (sets ++ [s])) <-> exists c0 v, c = c0 ++ [v] /\ In c0 (sproduct sets) /\ In v s.
Proof.
  rewrite in_sproduct. split.
  - intros H. apply Forall2_app_inv_r in H as (c0 & c1 & H0 & H1 & ->).
    inversion H1 as [|v s' c1' l' Hv Hn]; subst. inversion Hn; subst.
    exists c0, v. split; auto. split; auto. apply in_sproduct. exact H0.
  - intros (c0 & v & -> & H0 & Hv). apply Forall2_app; [apply in_sproduct; auto|]. constructor; auto.
Qed.

(* a record of the accumulated set: a function over exactly the keys processed so far *)
Definition rec_ok (ckeys : list value) (a : value) : Prop :=
  exists f, a = VFun f /\ (forall k v, In (k, v) f -> fine k /\ fine v) /\
            NoDup (map canon (map fst f)) /\
            (forall c, In c (map canon (map fst f)) <-> In c ckeys).

Definition rec_graph (ckeys ccombo : list value) : list (value * value) := combine ckeys ccombo.

Lemma canon_fun f : canon (VFun f) = VFun (sort_dedup kv_cmp (map ckv f)).
Proof. reflexivity. Qed.

Lemma fold_set_add_map {A} (h : A -> value) vs : forall out,
  fold_left (fun o val => set_add o (h val)) vs out = fold_left set_add (map h vs) out.
Proof. induction vs as [|v vs IH]; intros out; cbn; auto. Qed.

Lemma over_loop key fieldValues accs : forall out,
  (forall a, In a accs -> exists f, a = VFun f) ->
  (fix over (accs : list value) (out : list value) : res (list value) :=
     match accs with
     | [] => Ok out
     | a :: accs' =>
         do accFn <- AsFunction a;
         over accs' (fold_left (fun o val => set_add o (VFun (fun_add accFn key val))) fieldValues out)
     end) accs out =
  Ok (fold_left set_add
        (flat_map (fun a => match a with VFun f => map (fun val => VFun (fun_add f key val)) fieldValues | _ => [] end) accs)
        out).
Proof.
  induction accs as [|a accs IH]; intros out Hf; [reflexivity|].
  destruct (Hf a (or_introl eq_refl)) as [f ->]. cbn [AsFunction bind flat_map].
  rewrite IH by (intros; apply Hf; cbn; auto).
  rewrite fold_left_app. f_equal. f_equal. apply fold_set_add_map.
Qed.

Lemma combine_app {A B} (l1 l2 : list A) (m1 m2 : list B) :
  List.length l1 = List.length m1 -> combine (l1 ++ l2) (m1 ++ m2) = combine l1 m1 ++ combine l2 m2.
Proof.
  revert m1. induction l1 as [|a l1 IH]; intros [|b m1]; cbn; intros H; try discriminate; auto.
  f_equal. apply IH. lia.
Qed.

(* extending every record by a fresh key *)
Lemma extend_record f k val ckeys ccombo :
  (forall a b, In (a, b) f -> fine a /\ fine b) -> NoDup (map canon (map fst f)) ->
  fine k -> fine val -> ~ In (canon k) (map canon (map fst f)) ->
  List.length ckeys = List.length ccombo ->
  sort_dedup kv_cmp (map ckv f) = sort_dedup kv_cmp (combine ckeys ccombo) ->
  (forall a b, In (a, b) (fun_add f k val) -> fine a /\ fine b) /\
  NoDup (map canon (map fst (fun_add f k val))) /\
  (forall c, In c (map canon (map fst (fun_add f k val))) <-> In c (map canon (map fst f)) \/ c = canon k) /\
  sort_dedup kv_cmp (map ckv (fun_add f k val)) = sort_dedup kv_cmp (combine (ckeys ++ [canon k]) (ccombo ++ [canon val])).
Proof.
  intros Hf Nd Fk Fv Hfresh Hlen Hs.
  assert (Rkeys : forall y, In y (map fst f) -> rep_ok y).
  { intros y Hy. apply in_map_iff in Hy as ([a b] & <- & Hp). apply (Hf a b Hp). }
  destruct (fun_add_rep f k val (fine_pairs_rep f Hf) (proj1 Fk) (proj1 Fv) Nd) as [Rr Nr].
  split; [|split; [exact Nr|split]].
  - intros a b Hin. apply fun_add_In in Hin as [Hin|[= -> ->]]; auto.
  - intros c. rewrite fun_add_keys by (auto; apply Fk).
    destruct (existsb (fun y => Equal y k) (map fst f)) eqn:E.
    + apply set_has_In in E; auto; [|apply Fk]. contradiction.
    + rewrite in_app_iff. cbn. intuition.
  - apply kvsort_ext. intros p. rewrite <- ckvp_ckv, (fun_add_pairs f k val Rkeys (proj1 Fk) Nd), ckvp_ckv.
    rewrite combine_app by exact Hlen. rewrite in_app_iff. cbn [combine In].
    rewrite <- (kvsort_In (map ckv f)), Hs, kvsort_In. split.
    + intros [[Hin _]| ->]; auto.
    + intros [Hin|[<-|[]]]; auto. left. split; auto.
      intros Hc. apply Hfresh. rewrite <- Hc, <- ckv_keys. apply in_map.
      rewrite <- kvsort_In, Hs, kvsort_In. exact Hin.
Qed.


Lemma Forall2_len {A B} (R : A -> B -> Prop) l l' : Forall2 R l l' -> List.length l = List.length l'.
Proof. induction 1; cbn; auto. Qed.

Definition rs_inv (ckeys : list value) (sets : list (list value)) (acc : list value) : Prop :=
  (forall a, In a acc -> rec_ok ckeys a) /\ NoDup (map canon acc) /\ List.length ckeys = List.length sets /\
  (forall c, In c (map canon acc) <->
             exists combo, Forall2 (fun x s => In x s) combo sets /\
                           c = VFun (sort_dedup kv_cmp (combine ckeys (map canon combo)))).

Lemma rs_inv_init : rs_inv [] [] [VFun []].
Proof.
  split; [|split; [|split]].
  - intros a [<-|[]]. exists []. split; [reflexivity|]. split; [intros k v []|]. split; [constructor|]. intros c. cbn. tauto.
  - cbn. constructor; [intros []|constructor].
  - reflexivity.
  - intros c. cbn. split.
    + intros [<-|[]]. exists []. split; [constructor|reflexivity].
    + intros (combo & H & ->). inversion H; subst. left. reflexivity.
Qed.

Lemma rec_ok_rep ckeys a : rec_ok ckeys a -> good a.
Proof.
  intros (f & -> & Hf & Nd & _). split.
  - split; auto. apply All_In. intros [k v] Hin. destruct (Hf k v Hin) as [(Rk & _) (Rv & _)]. cbn; auto.
  - cbn. apply All_In. intros [k v] Hin. destruct (Hf k v Hin) as [(_ & Bk & _) (_ & Bv & _)]. cbn; auto.
Qed.

Lemma rs_step ckeys sets acc key S :
  rs_inv ckeys sets acc -> fine key -> ~ In (canon key) ckeys -> (forall v, In v S -> fine v) ->
  rs_inv (ckeys ++ [canon key]) (sets ++ [S])
    (fold_left set_add
       (flat_map (fun a => match a with VFun f => map (fun val => VFun (fun_add f key val)) S | _ => [] end) acc) []).
Proof.
  intros (Hrec & Nd & Hlen & Hm) Fk Hfresh HS.
  set (flat := flat_map (fun a => match a with VFun f => map (fun val => VFun (fun_add f key val)) S | _ => [] end) acc).
  (* every element of flat *)
  assert (Hflat : forall y, In y flat -> exists f val combo, In (VFun f) acc /\ In val S /\ y = VFun (fun_add f key val) /\
                    Forall2 (fun x s => In x s) combo sets /\
                    rec_ok (ckeys ++ [canon key]) y /\
                    canon y = VFun (sort_dedup kv_cmp (combine (ckeys ++ [canon key]) (map canon (combo ++ [val]))))).
  { intros y Hy. apply in_flat_map in Hy as (a & Ha & Hy).
    destruct (Hrec a Ha) as (f & -> & Hf & Ndf & Hkeys).
    apply in_map_iff in Hy as (val & <- & Hval).
    assert (Hc : In (canon (VFun f)) (map canon acc)) by (apply in_map; auto).
    apply Hm in Hc as (combo & Hcombo & Ec). rewrite canon_fun in Ec. injection Ec as Ec.
    assert (Hl : List.length ckeys = List.length (map canon combo)).
    { rewrite map_length, Hlen. symmetry. eapply Forall2_len; eauto. }
    destruct (extend_record f key val ckeys (map canon combo) Hf Ndf Fk (HS val Hval)) as (E1 & E2 & E3 & E4); auto.
    { rewrite Hkeys. exact Hfresh. }
    exists f, val, combo. split; [auto|]. split; [auto|]. split; [reflexivity|]. split; [auto|]. split.
    - exists (fun_add f key val). split; [reflexivity|]. split; [exact E1|]. split; [exact E2|]. intros c. split.
      + intros Hc. apply E3 in Hc as [Hc| ->]; apply in_or_app; [left; apply Hkeys; auto|right; cbn; auto].
      + intros Hc. apply E3. apply in_app_or in Hc as [Hc|[<-|[]]]; [left; apply Hkeys; auto|right; auto].
    - rewrite canon_fun, E4, map_app. reflexivity. }
  destruct (fold_set_add_rep flat [] (fun y H => match H with end)) as (I & R & N & M).
  { intros y Hy. destruct (Hflat y Hy) as (_ & _ & _ & _ & _ & _ & _ & Hr & _). apply (rec_ok_rep _ _ Hr). }
  { constructor. }
  split; [|split; [exact N|split]].
  - intros a Ha. apply I in Ha as [[]|Ha]. destruct (Hflat a Ha) as (_ & _ & _ & _ & _ & _ & _ & Hr & _). exact Hr.
  - rewrite !app_length. cbn. lia.
  - intros c. rewrite M. cbn [map In]. split.
    + intros [[]|Hc]. apply in_map_iff in Hc as (y & <- & Hy).
      destruct (Hflat y Hy) as (f & val & combo & _ & Hval & _ & Hcombo & _ & Ec).
      exists (combo ++ [val]). split; auto. apply Forall2_app; auto.
    + intros (combo' & Hc' & ->). right.
      apply Forall2_app_inv_r in Hc' as (combo & c1 & Hcombo & H1 & ->).
      inversion H1 as [|val s' c1' l' Hval Hn]; subst. inversion Hn; subst.
      assert (Ha : In (VFun (sort_dedup kv_cmp (combine ckeys (map canon combo)))) (map canon acc)).
      { apply Hm. exists combo. auto. }
      apply in_map_iff in Ha as (a & Ea & Ha). destruct (Hrec a Ha) as (f & -> & _).
      set (y := VFun (fun_add f key val)).
      assert (Hy : In y flat).
      { apply in_flat_map. exists (VFun f). split; auto. apply in_map_iff. exists val. auto. }
      apply in_map_iff. exists y. split; auto.
      destruct (Hflat y Hy) as (f' & val' & combo'' & Hf' & _ & Ey & Hcombo'' & _ & Ec).
      (* the canonical form of y is determined by f, key, val *)
      injection Ey as Ey.
      destruct (Hrec (VFun f) Ha) as (f0 & [= <-] & Hf & Ndf & Hkeys).
      assert (Hl : List.length ckeys = List.length (map canon combo)).
      { rewrite map_length, Hlen. symmetry. eapply Forall2_len; eauto. }
      rewrite canon_fun in Ea. injection Ea as Ea.
      destruct (extend_record f key val ckeys (map canon combo) Hf Ndf Fk (HS val Hval)) as (_ & _ & _ & E4); auto.
      { rewrite Hkeys. exact Hfresh. }
      unfold y. rewrite canon_fun, E4, map_app. reflexivity.
Qed.

Lemma recordset_loop_spec pairs : forall ckeys sets acc,
  rs_inv ckeys sets acc ->
  (forall k v, In (k, v) pairs -> fine k /\ fine v) ->
  NoDup (ckeys ++ map canon (map fst pairs)) ->
  match recordset_loop pairs acc with
  | Ok res => exists Ss, map snd pairs = map VSet Ss /\
                         rs_inv (ckeys ++ map canon (map fst pairs)) (sets ++ Ss) res
  | TypeErr => exists v, In v (map snd pairs) /\ forall xs, v <> VSet xs
  | _ => False
  end.
Proof.
  induction pairs as [|[key vs] pairs IH]; intros ckeys sets acc Hinv Hf Nd.
  - cbn. exists []. split; auto. rewrite !app_nil_r. exact Hinv.
  - destruct (Hf key vs (or_introl eq_refl)) as [Fk Fvs].
    cbn [recordset_loop].
    destruct (is_set vs) as [[S ->]|Hvs].
    + cbn [AsSet bind].
      rewrite over_loop.
      2:{ intros a Ha. destruct Hinv as (Hrec & _). destruct (Hrec a Ha) as (f & -> & _). eauto. }
      cbn [bind].
      assert (Hfresh : ~ In (canon key) ckeys).
      { cbn in Nd. apply NoDup_remove_2 in Nd. intros Hc. apply Nd. apply in_or_app. auto. }
      pose proof (rs_step ckeys sets acc key S Hinv Fk Hfresh (proj1 (fine_set S Fvs))) as Hstep.
      specialize (IH (ckeys ++ [canon key]) (sets ++ [S]) _ Hstep (fun k v H => Hf k v (or_intror H))).
      cbn [map fst] in Nd. rewrite <- app_assoc in IH. cbn [app] in IH. specialize (IH Nd).
      destruct (recordset_loop pairs _) as [res| | |]; auto.
      * destruct IH as (Ss & E & Hi). exists (S :: Ss). cbn [map snd]. split; [f_equal; exact E|].
        rewrite <- app_assoc in Hi. exact Hi.
      * destruct IH as (v & Hv & Hn). exists v. split; auto. cbn. auto.
    + assert (AsSet vs = TypeErr) as -> by (destruct vs; try reflexivity; exfalso; eapply Hvs; reflexivity).
      cbn. exists vs. auto.
Qed.

Lemma sets_of_VSet Ss : sets_of (map VSet Ss) = Some Ss.
Proof. induction Ss as [|s Ss IH]; cbn; auto. rewrite IH. reflexivity. Qed.

Lemma sets_of_nonset vs v : In v vs -> (forall xs, v <> VSet xs) -> sets_of vs = None.
Proof.
  induction vs as [|w vs IH]; cbn; [tauto|]. intros [->|Hin] Hn.
  - destruct v; try reflexivity. exfalso. eapply Hn. reflexivity.
  - destruct w; try reflexivity. rewrite IH; auto.
Qed.

Lemma norm_is_set v xs : norm v = VSet xs -> exists ys, v = VSet ys.
Proof. apply norm_set. Qed.

Theorem recordset_lemma pairs :
  (forall k v, In (k, v) pairs -> fine k /\ fine v) -> NoDup (map canon (map fst pairs)) ->
  allowed False (spec_recordset (map (fun p => norm (fst p)) pairs) (map (fun p => norm (snd p)) pairs))
          (MakeRecordSet pairs).
Proof.
  intros Hf Nd. unfold MakeRecordSet, spec_recordset.
  pose proof (recordset_loop_spec pairs [] [] [VFun []] rs_inv_init Hf Nd) as HL.
  destruct (recordset_loop pairs [VFun []]) as [res| | |]; try contradiction.
  - destruct HL as (Ss & E & (Hrec & Ndr & Hlen & Hm)). cbn [app] in *.
    assert (Fs : forall s, In s Ss -> fine (VSet s)).
    { intros s Hs. assert (Hin : In (VSet s) (map snd pairs)) by (rewrite E; apply in_map; auto).
      apply in_map_iff in Hin as ([k v] & Ev & Hp). cbn in Ev. subst v. apply (Hf k _ Hp). }
    assert (Esets : map (fun p => norm (snd p)) pairs = map VSet (map (fun s => sort_dedup vcmp (map canon s)) Ss)).
    { rewrite <- (map_map snd norm), E, !map_map. apply map_ext_in. intros s Hs. apply norm_fine_set, Fs, Hs. }
    rewrite Esets, sets_of_VSet. cbn [bind].
    assert (Ekeys : map (fun p => norm (fst p)) pairs = map canon (map fst pairs)).
    { rewrite map_map. apply map_ext_in. intros [k v] Hp. cbn. apply norm_plain. apply (Hf k v Hp). }
    rewrite Ekeys.
    apply set_result_norm; auto.
    + intros y Hy. apply (rec_ok_rep _ _ (Hrec y Hy)).
    + intros c. rewrite !in_map_iff. split.
      * intros (a & <- & Ha).
        destruct (Hrec a Ha) as (f & -> & Hff & _).
        assert (Hc : In (canon (VFun f)) (map canon res)) by (apply in_map; auto).
        apply Hm in Hc as (combo & Hcombo & Ec). rewrite canon_fun in Ec. injection Ec as Ec.
        exists (map canon combo). split.
        -- rewrite norm_fun_elems by (intros k v Hin; destruct (Hff k v Hin) as [(_ & _ & Pk) (_ & _ & Pv)]; auto).
           unfold mk_graph. rewrite Ec. reflexivity.
        -- apply in_sproduct, forall2_in_canon. exists combo. auto.
      * intros (cc & <- & Hcc). apply in_sproduct, forall2_in_canon in Hcc as (combo & Hcombo & <-).
        assert (Hc : In (VFun (sort_dedup kv_cmp (combine (map canon (map fst pairs)) (map canon combo)))) (map canon res)).
        { apply Hm. exists combo. auto. }
        apply in_map_iff in Hc as (a & Ea & Ha). exists a. split; auto.
        destruct (Hrec a Ha) as (f & -> & Hff & _). rewrite canon_fun in Ea. injection Ea as Ea.
        rewrite norm_fun_elems by (intros k v Hin; destruct (Hff k v Hin) as [(_ & _ & Pk) (_ & _ & Pv)]; auto).
        unfold mk_graph. rewrite Ea. reflexivity.
  - destruct HL as (v & Hv & Hn). cbn [bind].
    rewrite (sets_of_nonset _ (norm v)); [reflexivity| |].
    + apply in_map_iff in Hv as (p & <- & Hp). apply in_map_iff. exists p. auto.
    + intros xs E. apply norm_set in E as [ys ->]. eapply Hn. reflexivity.
Qed.

(* ------------------------------------------------------------------ [S -> T] *)
Lemma family_members K T c :
  In c (map (fun combo => mk_graph (combine K combo)) (sproduct (map (fun _ => T) K))) <->
  exists l, map fst l = K /\ (forall p, In p l -> In (snd p) T) /\ c = mk_graph l.
Proof.
  rewrite in_map_iff. split.
  - intros (combo & <- & Hc). apply in_sproduct in Hc.
    assert (Hlen : List.length combo = List.length K).
    { apply Forall2_len in Hc. rewrite map_length in Hc. exact Hc. }
    exists (combine K combo). split; [|split; auto].
    + clear Hc. revert combo Hlen. induction K as [|k K IH]; intros [|x combo] H; cbn in *; try discriminate; auto.
      f_equal. apply IH. lia.
    + intros [k x] Hp. cbn. apply in_combine_r in Hp.
      clear Hlen. revert Hp. generalize dependent combo. induction K as [|k0 K IH]; intros combo Hc Hx; inversion Hc; subst; [destruct Hx|].
      destruct Hx as [->|Hx]; auto. eapply IH; eauto.
  - intros (l & <- & Hv & ->). exists (map snd l). split.
    + f_equal. clear Hv. induction l as [|[k x] l IH]; cbn; auto. f_equal. exact IH.
    + apply in_sproduct. rewrite map_map. clear -Hv. induction l as [|[k x] l IH]; cbn; constructor.
      * apply (Hv (k, x)). cbn; auto.
      * apply IH. intros p Hp. apply Hv. cbn; auto.
Qed.

Lemma family_perm K K' T : Permutation K K' -> forall c,
  In c (map (fun combo => mk_graph (combine K combo)) (sproduct (map (fun _ => T) K))) ->
  In c (map (fun combo => mk_graph (combine K' combo)) (sproduct (map (fun _ => T) K'))).
Proof.
  intros HP c. rewrite !family_members. intros (l & E & Hv & ->).
  assert (HP' : Permutation K' (map fst l)) by (rewrite E; symmetry; exact HP).
  apply Permutation_map_inv in HP' as (l3 & E3 & P3).
  exists l3. split; auto. split.
  - intros p Hp. apply Hv. eapply Permutation_in; [symmetry; exact P3|exact Hp].
  - unfold mk_graph. f_equal. apply kvsort_ext. intros p. split; apply Permutation_in; auto. symmetry; auto.
Qed.

Theorem funset_lemma a b : fine a -> fine b -> allowed False (spec_funset (norm a) (norm b)) (MakeFunctionSet a b).
Proof.
  intros Fa Fb. unfold MakeFunctionSet.
  destruct (is_set a) as [[s ->]|Ha].
  - destruct (is_set b) as [[t ->]|Hb].
    + cbn [AsSet bind]. destruct (fine_set s Fa) as [Hs Ns].
      set (pairs := map (fun k => (k, VSet t)) s).
      assert (HR : allowed False (spec_recordset (map (fun p => norm (fst p)) pairs) (map (fun p => norm (snd p)) pairs))
                           (MakeRecordSet pairs)).
      { apply recordset_lemma.
        - intros k v Hin. apply in_map_iff in Hin as (k0 & [= <- <-] & Hk). split; auto.
        - replace (map fst pairs) with s; [exact Ns|]. unfold pairs. rewrite map_map. cbn. symmetry. apply map_id. }
      rewrite !norm_fine_set by auto. cbn [spec_funset].
      set (S := sort_dedup vcmp (map canon s)) in *. set (T := sort_dedup vcmp (map canon t)) in *.
      (* the spec enumerates the keys in sorted order, the code in iteration order: same family *)
      assert (E : spec_recordset S (map (fun _ => VSet T) S) =
                  spec_recordset (map (fun p => norm (fst p)) pairs) (map (fun p => norm (snd p)) pairs)).
      { unfold pairs. rewrite !map_map. cbn [fst snd]. rewrite (norm_fine_set t Fb). fold T.
        assert (Ek : map (fun x => norm x) s = map canon s) by (apply map_ext_in; intros x Hx; apply norm_plain, Hs, Hx).
        rewrite Ek. unfold spec_recordset.
        assert (forall (A : Type) (K : list A), sets_of (map (fun _ : A => VSet T) K) = Some (map (fun _ => T) K)) as Hso.
        { intros A K. induction K as [|k K IH]; cbn; auto. rewrite IH. reflexivity. }
        rewrite !Hso. f_equal. unfold mk_set. f_equal. apply vsort_ext. intros c.
        assert (HP : Permutation S (map canon s)) by (apply vsort_perm; auto).
        assert (Hsame : forall K : list value, map (fun _ : value => T) K = map (fun _ : value => T) K) by reflexivity.
        replace (map (fun _ : value => T) s) with (map (fun _ : value => T) (map canon s)) by (rewrite map_map; reflexivity).
        split; apply family_perm; auto. symmetry; auto. }
      rewrite E. exact HR.
    + assert (AsSet b = TypeErr) as -> by (destruct b; try reflexivity; exfalso; eapply Hb; reflexivity).
      cbn [bind]. unfold spec_funset. cbn [norm].
      destruct (norm b) eqn:E; try reflexivity. apply norm_set in E as [ys ->]. exfalso. eapply Hb. reflexivity.
  - assert (AsSet a = TypeErr) as -> by (destruct a; try reflexivity; exfalso; eapply Ha; reflexivity).
    cbn. unfold spec_funset. destruct (norm a) eqn:E; try reflexivity.
    apply norm_set in E as [ys ->]. exfalso. eapply Ha. reflexivity.
Qed.
