(* C03 — the SPEC (Base/Ops.v) made runnable on the cases of the check, so that it can be compared
   with the independent Python reference (lib/c03_sem.py) on every case and, through it, with TLC
   (thorough tier).  Definitions only; nothing here is used by a theorem. *)
From PGV Require Export Base.Ops C03.Impl.
Open Scope Z_scope.

(* spec-level reading of the closure library (arguments and constants in normal form);
   None = the application is an error *)
Definition sres_bool (s : sres) : option bool := match s with SOk (VBool b) => Some b | _ => None end.

Definition spred_of (p : pcl) (a : list value) : option bool :=
  let k c := norm (build c) in
  match p with
  | PTrue => Some true
  | PFalse => Some false
  | PIsNum => Some (match arg0 a with VNum _ => true | _ => false end)
  | PGt c => sres_bool (spec_gt (arg0 a) (k c))
  | PEq c => Some (veqb (arg0 a) (k c))          (* equality inside closures: structural (see lib/c03_sem.py) *)
  | PNeq c => Some (negb (veqb (arg0 a) (k c)))
  | PIn c => sres_bool (spec_in (arg0 a) (k c))
  | PLt2 => sres_bool (spec_lt (arg0 a) (arg1 a))
  | PEq2 => Some (veqb (arg0 a) (arg1 a))
  | PAsBool => match arg0 a with VBool b => Some b | _ => None end
  | PTupLt => match spec_apply (arg0 a) (VNum 1), spec_apply (arg0 a) (VNum 2) with
              | SOk x, SOk y => sres_bool (spec_lt x y)
              | _, _ => None
              end
  end.

Definition sbody_of (b : bcl) (a : list value) : sres :=
  let k c := norm (build c) in
  match b with
  | BId => SOk (arg0 a)
  | BConst c => SOk (k c)
  | BTuple => SOk (VTup a)
  | BPlus c => spec_plus (arg0 a) (k c)
  | BSingle => SOk (mk_set [arg0 a])
  | BIsNum => SOk (VBool (match arg0 a with VNum _ => true | _ => false end))
  | BMod c => spec_mod (arg0 a) (k c)
  | BLast => SOk (last a VDefault)
  | BTupSwap => match spec_apply (arg0 a) (VNum 1), spec_apply (arg0 a) (VNum 2) with
                | SOk x, SOk y => SOk (VTup [y; x])
                | _, _ => SErr
                end
  end.

(* what the spec says about one call *)
Inductive sout : Type :=
| SRes (s : sres) (restricted : bool)     (* a value or an error; restricted: a loud failure is tolerated *)
| SAnyString                              (* ToString *)
| SMember (cands : list value)            (* CHOOSE, SelectElement: some member of this non-empty list *)
| SInfinite                               (* Seq(S), S non-empty *)
| SSkipped.                               (* a closure application is itself an error: not compared *)

Fixpoint all_some {A} (l : list (option A)) : option (list A) :=
  match l with
  | [] => Some []
  | Some x :: r => match all_some r with Some xs => Some (x :: xs) | None => None end
  | None :: _ => None
  end.

Fixpoint all_ok (l : list sres) : option (list value) :=
  match l with
  | [] => Some []
  | SOk x :: r => match all_ok r with Some xs => Some (x :: xs) | None => None end
  | SErr :: _ => None
  end.

Definition odds (l : list value) : list value := map fst (pairs_of l).
Definition evens (l : list value) : list value := map snd (pairs_of l).

Definition spec_call (c : call) (a : list value) : sout :=
  let r s := SRes s false in
  match c with
  | CAssert => r (spec_assert (a0 a) (a1 a))
  | CToString => SAnyString
  | CEq => r (spec_eq (a0 a) (a1 a))
  | CNeq => r (spec_neq (a0 a) (a1 a))
  | CNot => r (spec_not (a0 a))
  | CEquiv => r (spec_equiv (a0 a) (a1 a))
  | CAnd => r (spec_and (a0 a) (a1 a))
  | COr => r (spec_or (a0 a) (a1 a))
  | CImplies => r (spec_implies (a0 a) (a1 a))
  | CIf => r (spec_if (a0 a) (a1 a) (a2 a))
  | CPlus => r (spec_plus (a0 a) (a1 a))
  | CMinus => r (spec_minus (a0 a) (a1 a))
  | CTimes => r (spec_times (a0 a) (a1 a))
  | CPow => (* spec_pow computed without building astronomically large numbers / iterating 2^31 times *)
            match a0 a, a1 a with
            | VNum x, VNum y =>
                if y <? 0 then r SErr
                else if (x =? 0) && (y =? 0) then r SErr
                else if x =? 0 then r (SOk (VNum 0))
                else if x =? 1 then r (SOk (VNum 1))
                else if x =? -1 then r (SOk (VNum (if Z.even y then 1 else -1)))
                else if 40 <? y then r SErr
                else r (spec_pow (a0 a) (a1 a))
            | _, _ => r (spec_pow (a0 a) (a1 a))
            end
  | CLe => r (spec_le (a0 a) (a1 a))
  | CGe => r (spec_ge (a0 a) (a1 a))
  | CLt => r (spec_lt (a0 a) (a1 a))
  | CGt => r (spec_gt (a0 a) (a1 a))
  | CDotDot => r (spec_dotdot (a0 a) (a1 a))
  | CDiv => r (spec_div (a0 a) (a1 a))
  | CMod => r (spec_mod (a0 a) (a1 a))
  | CNeg => r (spec_neg (a0 a))
  | CIn => r (spec_in (a0 a) (a1 a))
  | CNotIn => r (spec_notin (a0 a) (a1 a))
  | CIntersect => r (spec_intersect (a0 a) (a1 a))
  | CUnion => r (spec_union (a0 a) (a1 a))
  | CSubsetEq => r (spec_subseteq (a0 a) (a1 a))
  | CSetMinus => r (spec_setminus (a0 a) (a1 a))
  | CSUBSET => r (spec_subset (a0 a))
  | CUNION => r (spec_bigunion (a0 a))
  | CIsFiniteSet => r (spec_isfiniteset (a0 a))
  | CCardinality => r (spec_cardinality (a0 a))
  | CLen => r (spec_len (a0 a))
  | CConcat => r (spec_concat (a0 a) (a1 a))
  | CAppend => r (spec_append (a0 a) (a1 a))
  | CHead => r (spec_head (a0 a))
  | CTail => r (spec_tail (a0 a))
  | CSubSeq => r (spec_subseq (a0 a) (a1 a) (a2 a))
  | CColonGt => r (spec_colongt (a0 a) (a1 a))
  | CAtAt => r (spec_atat (a0 a) (a1 a))
  | CDomain => r (spec_domain (a0 a))
  | CApply => r (spec_apply (a0 a) (a1 a))
  | CSelectElement =>
      match a0 a, a1 a with
      | VSet s, VNum i => if (0 <=? i) && (i <? Z.of_nat (List.length s)) then SMember s else r SErr
      | _, _ => r SErr
      end
  | CMakeSet => r (spec_makeset a)
  | CMakeTuple => r (spec_maketuple a)
  | CMakeRecord => r (SOk (mk_graph (pairs_of a)))
  | CMakeRecordSet => r (spec_recordset (odds a) (evens a))
  | CMakeFunctionSet => r (spec_funset (a0 a) (a1 a))
  | CCrossProduct => r (spec_cross a)
  | CForall p =>
      match sets_of a with
      | None => r SErr
      | Some sets => match all_some (map (spred_of p) (sproduct sets)) with
                     | Some bs => r (s_bool (forallb (fun b => b) bs))
                     | None => SSkipped end
      end
  | CExists p =>
      match sets_of a with
      | None => r SErr
      | Some sets => match all_some (map (spred_of p) (sproduct sets)) with
                     | Some bs => r (s_bool (existsb (fun b => b) bs))
                     | None => SSkipped end
      end
  | CSetRefinement p =>
      match a0 a with
      | VSet s => match all_some (map (fun x => spred_of p [x]) s) with
                  | Some bs => r (SOk (mk_set (map fst (filter snd (combine s bs)))))
                  | None => r SErr end
      | _ => r SErr
      end
  | CSetComprehension b =>
      match sets_of a with
      | None => r SErr
      | Some sets => match all_ok (map (sbody_of b) (sproduct sets)) with
                     | Some vs => r (SOk (mk_set vs))
                     | None => r SErr end
      end
  | CMakeFunction b =>
      match a, sets_of a with
      | [_], Some [s] => match all_ok (map (fun x => sbody_of b [x]) s) with
                         | Some vs => r (SOk (mk_graph (combine s vs)))
                         | None => r SErr end
      | _ :: _ :: _, Some sets => match all_ok (map (sbody_of b) (sproduct sets)) with
                                  | Some vs => r (SOk (mk_graph (combine (map VTup (sproduct sets)) vs)))
                                  | None => r SErr end
      | _, _ => r SErr
      end
  | CChoose p =>
      match a0 a with
      | VSet s => match all_some (map (fun x => spred_of p [x]) s) with
                  | Some bs => match map fst (filter snd (combine s bs)) with
                               | [] => r SErr
                               | cands => SMember cands end
                  | None => SSkipped end
      | _ => r SErr
      end
  | CExcept subs =>
      let '(s, o) := spec_except (a0 a) (map (fun sb => (map (fun k => norm (build k)) (fst sb),
                                                          fun old => sbody_of (snd sb) [old])) subs) in
      SRes s o
  | CSeq => match a0 a with
            | VSet [] => r (SOk (VSet [VTup []]))
            | VSet _ => SInfinite
            | _ => r SErr
            end
  | CSelectSeq => SSkipped
  end.

(* what the Python reference says about the same call *)
Inductive pexp : Type :=
| PVal (v : value) (restricted : bool) | PErr | PStr | PMem (cands : list value) | PInf | PSkip.

Definition same_members (l l' : list value) : bool :=
  veqb (mk_set (map norm l)) (mk_set (map norm l')).

Definition sagree (s : sout) (p : pexp) : bool :=
  match s, p with
  | SSkipped, _ | _, PSkip => true
  | SRes (SOk v) o, PVal w o' => veqb (norm v) (norm w) && Bool.eqb o o'
  | SRes SErr _, PErr => true
  | SAnyString, PStr => true
  | SMember l, PMem l' => same_members l l'
  | SInfinite, PInf => true
  | _, _ => false
  end.

Fixpoint spec_mismatches (i : nat) (cases : list (call * list value * pexp)) : list nat :=
  match cases with
  | [] => []
  | (c, a, p) :: rest =>
      let m := spec_mismatches (S i) rest in
      if sagree (spec_call c (map norm a)) p then m else i :: m
  end.
