(* C03 — executable model of the TLA+ operator library of the runtime:
   distsys/tla/symbols.go (the Module... functions), builtins.go (quantifiers, comprehension, CHOOSE, EXCEPT,
   cross product) and the operator-like methods/constructors of value.go (ApplyFunction,
   SelectElement, MakeFunction, MakeRecord, MakeRecordSet, MakeFunctionSet).
   One Gallina function per Go function, over representation values, iterating in list order.
   Model only: no proofs here.

   Conventions (as in C05/Model.v):
   * a set / function is the list of its members in the iteration order of the immutable.Map;
     `m.Get(k)` is the first stored key Equal to k; `builder.Set` / `m.Set` is C05's set_add /
     fun_add (replace the first Equal member, else append); `m.Delete` is not used any more.
   * a panic wrapping ErrTLAType is TypeErr; any other panic is Panic; non-termination is Hang.
     All As-conversion failures are TypeErr, so the order in which several arguments are converted is
     not observable.
   * int32: the code computes + - * and unary - in int64 and range-checks (after the `fix:`
     commits), so the model computes in Z and range-checks; `^` goes through float64
     math.Pow, exact below 2^53 and monotone above, modelled as exact integer power.
   * ModuleSeq (Heap's permutations) and ModuleSelectSeq (panics "implement me") are modelled as
     the code runs; both are known findings (Proofs: seq_refuted, selectseq_refuted).
   The code modelled is the tree after the `fix:` commits listed in known_findings/C03.json. *)
From PGV Require Export Base.Value C05.Model.
Open Scope Z_scope.

Inductive res (A : Type) : Type := Ok (a : A) | TypeErr | Panic | Hang.
Arguments Ok {A} a.
Arguments TypeErr {A}.
Arguments Panic {A}.
Arguments Hang {A}.

Definition bind {A B} (x : res A) (f : A -> res B) : res B :=
  match x with Ok a => f a | TypeErr => TypeErr | Panic => Panic | Hang => Hang end.
Notation "'do' x <- e ; k" := (bind e (fun x => k)) (at level 200, x name, e at level 100, k at level 200).

Definition require (b : bool) : res unit := if b then Ok tt else TypeErr.

(* Value.AsBool ... AsFunction (checkNil + ImplStubs) *)
Definition AsBool (v : value) : res bool := match v with VBool b => Ok b | _ => TypeErr end.
Definition AsNumber (v : value) : res Z := match v with VNum z => Ok z | _ => TypeErr end.
Definition AsString (v : value) : res (list N) := match v with VStr s => Ok s | _ => TypeErr end.
Definition AsSet (v : value) : res (list value) := match v with VSet l => Ok l | _ => TypeErr end.
Definition AsTuple (v : value) : res (list value) := match v with VTup l => Ok l | _ => TypeErr end.
Definition AsFunction (v : value) : res (list (value * value)) := match v with VFun l => Ok l | _ => TypeErr end.

Definition MinInt32 : Z := -2147483648.
Definition MaxInt32 : Z := 2147483647.
Definition in_int32 (z : Z) : bool := (MinInt32 <=? z) && (z <=? MaxInt32).

Fixpoint list_set_v (l : list value) (n : nat) (x : value) : list value :=
  match l, n with
  | [], _ => []
  | _ :: r, O => x :: r
  | y :: r, S n' => y :: list_set_v r n' x
  end.

Definition MakeBool (b : bool) : value := VBool b.
Definition MakeNumber (z : Z) : value := VNum z.

(* immutable.Map lookups *)
Definition set_has (s : list value) (k : value) : bool := existsb (fun y => Equal y k) s.

Fixpoint fun_get (f : list (value * value)) (k : value) : option value :=
  match f with
  | [] => None
  | (k', v') :: r => if Equal k' k then Some v' else fun_get r k
  end.

Definition build_set (members : list value) : value := VSet (fold_left set_add members []).

(* ------------------------------------------------------------------ symbols.go *)
Definition ModuleAssert (cond msg : value) : res value :=
  do c <- AsBool cond; do _ <- require c; Ok (VBool true).

Definition ModuleToString (v : value) : res value := Ok (VStr (print v)).

Definition ModuleEqualsSymbol (lhs rhs : value) : res value := Ok (MakeBool (Equal lhs rhs)).
Definition ModuleNotEqualsSymbol (lhs rhs : value) : res value := Ok (MakeBool (negb (Equal lhs rhs))).

Definition ModuleLogicalNotSymbol (v : value) : res value := do b <- AsBool v; Ok (MakeBool (negb b)).
Definition ModuleEquivSymbol (lhs rhs : value) : res value :=
  do a <- AsBool lhs; do b <- AsBool rhs; Ok (MakeBool (Bool.eqb a b)).

(* the short-circuit operators and IF, as the compiler emits them *)
Definition LogicalAnd (lhs rhs : value) : res value :=
  do a <- AsBool lhs; if a then (do b <- AsBool rhs; Ok (MakeBool b)) else Ok (MakeBool false).
Definition LogicalOr (lhs rhs : value) : res value :=
  do a <- AsBool lhs; if a then Ok (MakeBool true) else (do b <- AsBool rhs; Ok (MakeBool b)).
Definition LogicalImplies (lhs rhs : value) : res value :=
  do a <- AsBool lhs; if negb a then Ok (MakeBool true) else (do b <- AsBool rhs; Ok (MakeBool b)).
Definition IfThenElse (c t e : value) : res value := do b <- AsBool c; Ok (if b then t else e).

Definition checked (z : Z) : res value := do _ <- require (in_int32 z); Ok (MakeNumber z).

Definition ModulePlusSymbol (lhs rhs : value) : res value :=
  do a <- AsNumber lhs; do b <- AsNumber rhs; checked (a + b).
Definition ModuleMinusSymbol (lhs rhs : value) : res value :=
  do a <- AsNumber lhs; do b <- AsNumber rhs; checked (a - b).
Definition ModuleAsteriskSymbol (lhs rhs : value) : res value :=
  do a <- AsNumber lhs; do b <- AsNumber rhs; checked (a * b).
(* math.Pow(float64(a), float64(b)) followed by the int32 range check, for b >= 0: an exact
   integer power; computed without building astronomically large numbers (Proofs: = checked (a ^ b)) *)
Definition checked_pow (a b : Z) : res value :=
  if (a =? 0) then checked (if b =? 0 then 1 else 0)
  else if (a =? 1) then checked 1
  else if (a =? -1) then checked (if Z.even b then 1 else -1)
  else if (31 <? b) then TypeErr
  else checked (a ^ b).

Definition ModuleSuperscriptSymbol (lhs rhs : value) : res value :=
  do b <- AsNumber rhs; do _ <- require (0 <=? b);
  do a <- AsNumber lhs; do _ <- require (negb (a =? 0) || negb (b =? 0));
  checked_pow a b.

Definition ModuleLessThanOrEqualSymbol (lhs rhs : value) : res value :=
  do a <- AsNumber lhs; do b <- AsNumber rhs; Ok (MakeBool (a <=? b)).
Definition ModuleGreaterThanOrEqualSymbol (lhs rhs : value) : res value :=
  do a <- AsNumber lhs; do b <- AsNumber rhs; Ok (MakeBool (a >=? b)).
Definition ModuleLessThanSymbol (lhs rhs : value) : res value :=
  do a <- AsNumber lhs; do b <- AsNumber rhs; Ok (MakeBool (a <? b)).
Definition ModuleGreaterThanSymbol (lhs rhs : value) : res value :=
  do a <- AsNumber lhs; do b <- AsNumber rhs; Ok (MakeBool (a >? b)).

(* for i := int64(from); i <= int64(to); i++ *)
Definition zrange (from to : Z) : list Z :=
  map (fun i => from + Z.of_nat i) (seq 0 (Z.to_nat (to - from + 1))).

Definition ModuleDotDotSymbol (lhs rhs : value) : res value :=
  do from <- AsNumber lhs; do to <- AsNumber rhs;
  Ok (build_set (map MakeNumber (zrange from to))).

Definition ModuleDivSymbol (lhs rhs : value) : res value :=
  do a <- AsNumber lhs; do b <- AsNumber rhs;
  do _ <- require (negb (b =? 0));
  do _ <- require (negb (a =? MinInt32) || negb (b =? -1));
  let q := Z.quot a b in
  Ok (MakeNumber (if negb (Z.rem a b =? 0) && negb (Bool.eqb (a <? 0) (b <? 0)) then q - 1 else q)).

Definition ModulePercentSymbol (lhs rhs : value) : res value :=
  do b <- AsNumber rhs; do _ <- require (0 <? b);
  do a <- AsNumber lhs;
  let r := Z.rem a b in
  Ok (MakeNumber (if r <? 0 then r + b else r)).

Definition ModuleNegationSymbol (v : value) : res value :=
  do a <- AsNumber v; do _ <- require (- a <=? MaxInt32); Ok (MakeNumber (- a)).

Definition ModuleInSymbol (lhs rhs : value) : res value :=
  do s <- AsSet rhs; Ok (MakeBool (set_has s lhs)).
Definition ModuleNotInSymbol (lhs rhs : value) : res value :=
  do s <- AsSet rhs; Ok (MakeBool (negb (set_has s lhs))).

Definition ModuleIntersectSymbol (lhs rhs : value) : res value :=
  do l <- AsSet lhs; do r <- AsSet rhs;
  Ok (build_set (filter (fun e => set_has r e) l)).

Definition ModuleUnionSymbol (lhs rhs : value) : res value :=
  do l <- AsSet lhs; do r <- AsSet rhs;
  let '(big, small) := if Nat.ltb (List.length l) (List.length r) then (r, l) else (l, r) in
  Ok (VSet (fold_left set_add small big)).

Definition ModuleSubsetOrEqualSymbol (lhs rhs : value) : res value :=
  do l <- AsSet lhs; do r <- AsSet rhs; Ok (MakeBool (forallb (fun e => set_has r e) l)).

Definition ModuleBackslashSymbol (lhs rhs : value) : res value :=
  do l <- AsSet lhs; do r <- AsSet rhs;
  Ok (build_set (filter (fun e => negb (set_has r e)) l)).

(* subsets := {{}}; for each element: append a copy of every subset so far, extended by it *)
Definition subsets_of (s : list value) : list (list value) :=
  fold_left (fun subs e => subs ++ map (fun sub => set_add sub e) subs) s [[]].

Definition ModulePrefixSubsetSymbol (v : value) : res value :=
  do s <- AsSet v; Ok (build_set (map VSet (subsets_of s))).

Fixpoint union_loop (sets : list value) (acc : list value) : res (list value) :=
  match sets with
  | [] => Ok acc
  | e :: rest => do s <- AsSet e; union_loop rest (fold_left set_add s acc)
  end.

Definition ModulePrefixUnionSymbol (v : value) : res value :=
  do ss <- AsSet v; do acc <- union_loop ss []; Ok (VSet acc).

Definition ModuleIsFiniteSet (v : value) : res value := do _ <- AsSet v; Ok (VBool true).

(* int32(len): exact below 2^31 members *)
Definition ModuleCardinality (v : value) : res value :=
  do s <- AsSet v; Ok (MakeNumber (Z.of_nat (List.length s))).

(* ModuleSeq: NOT Seq(S) — the code enumerates the permutations of the members with Heap's
   algorithm (known finding seq-enumerated); modelled as the code runs: `elems` is the mutable
   slice, `acc` the builder *)
Definition swap (l : list value) (i j : nat) : list value :=
  list_set_v (list_set_v l i (nth j l VDefault)) j (nth i l VDefault).

Fixpoint generatePermutations (k : nat) (st : list value * list value) : list value * list value :=
  match k with
  | O => st
  | S k' =>
      match k' with
      | O => (fst st, set_add (snd st) (VTup (fst st)))          (* k == 1: store a new tuple *)
      | S _ =>
          fold_left (fun st' i =>
                       let elems := fst st' in
                       let elems' := if Nat.even k then swap elems i k' else swap elems 0 k' in
                       generatePermutations k' (elems', snd st'))
                    (seq 0 k') (generatePermutations k' st)
      end
  end.

Definition ModuleSeq (v : value) : res value :=
  do elems <- AsSet v;
  match elems with
  | [] => Ok (build_set [VTup []])
  | _ => Ok (VSet (snd (generatePermutations (List.length elems) (elems, []))))
  end.

(* ModuleSelectSeq: panic("implement me") — a plain string, not an ErrTLAType (known finding) *)
Definition ModuleSelectSeq (a b : value) : res value := Panic.

Definition ModuleLen (v : value) : res value :=
  do t <- AsTuple v; Ok (MakeNumber (Z.of_nat (List.length t))).
Definition ModuleOSymbol (lhs rhs : value) : res value :=
  do l <- AsTuple lhs; do r <- AsTuple rhs; Ok (VTup (fold_left (fun acc e => acc ++ [e]) r l)).
Definition ModuleAppend (lhs rhs : value) : res value :=
  do l <- AsTuple lhs; Ok (VTup (l ++ [rhs])).
Definition ModuleHead (v : value) : res value :=
  do t <- AsTuple v; match t with [] => TypeErr | x :: _ => Ok x end.
Definition ModuleTail (v : value) : res value :=
  do t <- AsTuple v; match t with [] => TypeErr | _ :: r => Ok (VTup r) end.
Definition ModuleSubSeq (v m n : value) : res value :=
  do t <- AsTuple v; do from <- AsNumber m; do to <- AsNumber n;
  if to <? from then Ok (VTup [])
  else do _ <- require ((1 <=? from) && (to <=? Z.of_nat (List.length t)));
       Ok (VTup (firstn (Z.to_nat to - Z.to_nat (from - 1)) (skipn (Z.to_nat (from - 1)) t))).

Definition ModuleColonGreaterThanSymbol (lhs rhs : value) : res value := Ok (VFun [(lhs, rhs)]).
Definition ModuleDoubleAtSignSymbol (lhs rhs : value) : res value :=
  do l <- AsFunction lhs; do r <- AsFunction rhs;
  Ok (VFun (fold_left (fun acc p => fun_add acc (fst p) (snd p)) l r)).
Definition ModuleDomainSymbol (v : value) : res value :=
  do f <- AsFunction v; Ok (build_set (map fst f)).

(* ------------------------------------------------------------------ value.go *)
Definition ApplyFunction (v arg : value) : res value :=
  match v with
  | VTup data =>
      do idx <- AsNumber arg;
      do _ <- require ((1 <=? idx) && (idx <=? Z.of_nat (List.length data)));
      match nth_error data (Z.to_nat (idx - 1)) with Some x => Ok x | None => Panic end
  | VFun data => match fun_get data arg with Some x => Ok x | None => TypeErr end
  | _ => TypeErr
  end.

Definition SelectElement (v : value) (idx : nat) : res value :=
  do s <- AsSet v; match nth_error s idx with Some x => Ok x | None => TypeErr end.

Definition MakeRecordV (pairs : list (value * value)) : res value := Ok (MakeRecord pairs).

(* ------------------------------------------------------------------ closures *)
(* Go closures passed to the higher-order builtins: functions that may panic. *)
Definition predT := list value -> res bool.
Definition bodyT := list value -> res value.

(* the helper of QuantifiedUniversal / QuantifiedExistential / SetComprehension / MakeFunction /
   CrossProduct: enumerate the product of the sets, innermost set fastest, in iteration order *)
Fixpoint product (sets : list (list value)) : list (list value) :=
  match sets with
  | [] => [[]]
  | s :: rest => flat_map (fun e => map (fun tl => e :: tl) (product rest)) s
  end.

Fixpoint as_sets (vs : list value) : res (list (list value)) :=
  match vs with
  | [] => Ok []
  | v :: r => do s <- AsSet v; do rs <- as_sets r; Ok (s :: rs)
  end.

(* stops at the first tuple on which the predicate is false *)
Fixpoint forall_loop (p : predT) (combos : list (list value)) : res bool :=
  match combos with
  | [] => Ok true
  | c :: rest => do b <- p c; if b then forall_loop p rest else Ok false
  end.

Fixpoint exists_loop (p : predT) (combos : list (list value)) : res bool :=
  match combos with
  | [] => Ok false
  | c :: rest => do b <- p c; if b then Ok true else exists_loop p rest
  end.

Definition QuantifiedUniversal (setVals : list value) (p : predT) : res value :=
  do sets <- as_sets setVals; do b <- forall_loop p (product sets); Ok (MakeBool b).
Definition QuantifiedExistential (setVals : list value) (p : predT) : res value :=
  do sets <- as_sets setVals; do b <- exists_loop p (product sets); Ok (MakeBool b).

Fixpoint refine_loop (p : predT) (s : list value) (acc : list value) : res (list value) :=
  match s with
  | [] => Ok acc
  | e :: rest => do b <- p [e]; refine_loop p rest (if b then set_add acc e else acc)
  end.

Definition SetRefinement (setVal : value) (p : predT) : res value :=
  do s <- AsSet setVal; do acc <- refine_loop p s []; Ok (VSet acc).

Fixpoint compr_loop (b : bodyT) (combos : list (list value)) (acc : list value) : res (list value) :=
  match combos with
  | [] => Ok acc
  | c :: rest => do v <- b c; compr_loop b rest (set_add acc v)
  end.

Definition SetComprehension (setVals : list value) (b : bodyT) : res value :=
  do sets <- as_sets setVals; do acc <- compr_loop b (product sets) []; Ok (VSet acc).

Definition CrossProduct (vs : list value) : res value :=
  do sets <- as_sets vs; Ok (build_set (map VTup (product sets))).

Fixpoint mkfun_loop (one : bool) (b : bodyT) (combos : list (list value)) (acc : list (value * value))
  : res (list (value * value)) :=
  match combos with
  | [] => Ok acc
  | c :: rest =>
      do v <- b c;
      let key := if one then hd VDefault c else VTup c in
      mkfun_loop one b rest (fun_add acc key v)
  end.

Definition MakeFunction (setVals : list value) (b : bodyT) : res value :=
  do _ <- require (negb (Nat.eqb (List.length setVals) 0));
  do sets <- as_sets setVals;
  do acc <- mkfun_loop (Nat.eqb (List.length setVals) 1) b (product sets) [];
  Ok (VFun acc).

(* recordSet := {[]}; for each (key, set): every accumulated record extended by every value *)
Fixpoint recordset_loop (pairs : list (value * value)) (acc : list value) : res (list value) :=
  match pairs with
  | [] => Ok acc
  | (key, vs) :: rest =>
      do fieldValues <- AsSet vs;
      do next <- (fix over (accs : list value) (out : list value) : res (list value) :=
                    match accs with
                    | [] => Ok out
                    | a :: accs' =>
                        do accFn <- AsFunction a;
                        over accs' (fold_left (fun o val => set_add o (VFun (fun_add accFn key val))) fieldValues out)
                    end) acc [];
      recordset_loop rest next
  end.

Definition MakeRecordSet (pairs : list (value * value)) : res value :=
  do acc <- recordset_loop pairs [VFun []]; Ok (VSet acc).

Definition MakeFunctionSet (from to : value) : res value :=
  do fromSet <- AsSet from; do _ <- AsSet to;
  MakeRecordSet (map (fun k => (k, to)) fromSet).

Fixpoint choose_loop (p : predT) (s : list value) : res value :=
  match s with
  | [] => TypeErr
  | e :: rest => do b <- p [e]; if b then Ok e else choose_loop p rest
  end.

Definition Choose (setVal : value) (p : predT) : res value :=
  do s <- AsSet setVal; choose_loop p s.

(* FunctionSubstitution: keysHelper *)
Fixpoint list_set {A} (l : list A) (n : nat) (x : A) : list A :=
  match l, n with
  | [], _ => []
  | _ :: r, O => x :: r
  | y :: r, S n' => y :: list_set r n' x
  end.

Fixpoint keysHelper (source : value) (keys : list value) (valf : value -> res value) : res value :=
  match keys with
  | [] => valf source
  | k :: rest =>
      match source with
      | VFun sourceFn =>
          match fun_get sourceFn k with
          | None => TypeErr
          | Some val => do nv <- keysHelper val rest valf; Ok (VFun (fun_add sourceFn k nv))
          end
      | VTup sourceTuple =>
          do idx <- AsNumber k;
          do _ <- require ((1 <=? idx) && (idx <=? Z.of_nat (List.length sourceTuple)));
          match nth_error sourceTuple (Z.to_nat (idx - 1)) with
          | None => Panic
          | Some val => do nv <- keysHelper val rest valf; Ok (VTup (list_set sourceTuple (Z.to_nat (idx - 1)) nv))
          end
      | _ => TypeErr
      end
  end.

Fixpoint FunctionSubstitution (source : value) (subs : list (list value * (value -> res value))) : res value :=
  match subs with
  | [] => Ok source
  | (keys, valf) :: rest => do s <- keysHelper source keys valf; FunctionSubstitution s rest
  end.

(* ------------------------------------------------------------------ the closure library of the check *)
Inductive pcl := PTrue | PFalse | PIsNum | PGt (c : value) | PEq (c : value) | PNeq (c : value)
               | PIn (c : value) | PLt2 | PEq2 | PAsBool | PTupLt.
Inductive bcl := BId | BConst (c : value) | BTuple | BPlus (c : value) | BSingle | BIsNum
               | BMod (c : value) | BLast | BTupSwap.

Definition arg0 (a : list value) : value := hd VDefault a.
Definition arg1 (a : list value) : value := hd VDefault (tl a).

Definition pred_of (p : pcl) : predT := fun a =>
  match p with
  | PTrue => Ok true
  | PFalse => Ok false
  | PIsNum => Ok (match arg0 a with VNum _ => true | _ => false end)
  | PGt c => do v <- ModuleGreaterThanSymbol (arg0 a) c; AsBool v
  | PEq c => do v <- ModuleEqualsSymbol (arg0 a) c; AsBool v
  | PNeq c => do v <- ModuleNotEqualsSymbol (arg0 a) c; AsBool v
  | PIn c => do v <- ModuleInSymbol (arg0 a) c; AsBool v
  | PLt2 => do v <- ModuleLessThanSymbol (arg0 a) (arg1 a); AsBool v
  | PEq2 => do v <- ModuleEqualsSymbol (arg0 a) (arg1 a); AsBool v
  | PAsBool => AsBool (arg0 a)
  | PTupLt =>          (* \A <<x, y>> \in S : x < y  as emitted: args[0].ApplyFunction(MakeNumber(i)) *)
      do x <- ApplyFunction (arg0 a) (MakeNumber 1);
      do y <- ApplyFunction (arg0 a) (MakeNumber 2);
      do v <- ModuleLessThanSymbol x y; AsBool v
  end.

Definition body_of (b : bcl) : bodyT := fun a =>
  match b with
  | BId => Ok (arg0 a)
  | BConst c => Ok c
  | BTuple => Ok (VTup a)
  | BPlus c => ModulePlusSymbol (arg0 a) c
  | BSingle => Ok (build_set [arg0 a])
  | BIsNum => Ok (VBool (match arg0 a with VNum _ => true | _ => false end))
  | BMod c => ModulePercentSymbol (arg0 a) c
  | BLast => Ok (last a VDefault)
  | BTupSwap =>
      do x <- ApplyFunction (arg0 a) (MakeNumber 1);
      do y <- ApplyFunction (arg0 a) (MakeNumber 2);
      Ok (VTup [y; x])
  end.

(* ------------------------------------------------------------------ correspondence check *)
Inductive call :=
| CAssert | CToString | CEq | CNeq | CNot | CEquiv | CAnd | COr | CImplies | CIf
| CPlus | CMinus | CTimes | CPow | CLe | CGe | CLt | CGt | CDotDot | CDiv | CMod | CNeg
| CIn | CNotIn | CIntersect | CUnion | CSubsetEq | CSetMinus | CSUBSET | CUNION | CIsFiniteSet | CCardinality
| CLen | CConcat | CAppend | CHead | CTail | CSubSeq | CColonGt | CAtAt | CDomain | CApply | CSelectElement
| CMakeSet | CMakeTuple | CMakeRecord | CMakeRecordSet | CMakeFunctionSet | CCrossProduct
| CForall (p : pcl) | CExists (p : pcl) | CSetRefinement (p : pcl) | CSetComprehension (b : bcl)
| CMakeFunction (b : bcl) | CChoose (p : pcl) | CExcept (subs : list (list value * bcl))
| CSeq | CSelectSeq.

Fixpoint pairs_of (l : list value) : list (value * value) :=
  match l with
  | k :: v :: r => (k, v) :: pairs_of r
  | _ => []
  end.

Definition a0 (a : list value) := nth 0 a VDefault.
Definition a1 (a : list value) := nth 1 a VDefault.
Definition a2 (a : list value) := nth 2 a VDefault.

Definition run_call (c : call) (a : list value) : res value :=
  match c with
  | CAssert => ModuleAssert (a0 a) (a1 a)
  | CToString => ModuleToString (a0 a)
  | CEq => ModuleEqualsSymbol (a0 a) (a1 a)
  | CNeq => ModuleNotEqualsSymbol (a0 a) (a1 a)
  | CNot => ModuleLogicalNotSymbol (a0 a)
  | CEquiv => ModuleEquivSymbol (a0 a) (a1 a)
  | CAnd => LogicalAnd (a0 a) (a1 a)
  | COr => LogicalOr (a0 a) (a1 a)
  | CImplies => LogicalImplies (a0 a) (a1 a)
  | CIf => IfThenElse (a0 a) (a1 a) (a2 a)
  | CPlus => ModulePlusSymbol (a0 a) (a1 a)
  | CMinus => ModuleMinusSymbol (a0 a) (a1 a)
  | CTimes => ModuleAsteriskSymbol (a0 a) (a1 a)
  | CPow => ModuleSuperscriptSymbol (a0 a) (a1 a)
  | CLe => ModuleLessThanOrEqualSymbol (a0 a) (a1 a)
  | CGe => ModuleGreaterThanOrEqualSymbol (a0 a) (a1 a)
  | CLt => ModuleLessThanSymbol (a0 a) (a1 a)
  | CGt => ModuleGreaterThanSymbol (a0 a) (a1 a)
  | CDotDot => ModuleDotDotSymbol (a0 a) (a1 a)
  | CDiv => ModuleDivSymbol (a0 a) (a1 a)
  | CMod => ModulePercentSymbol (a0 a) (a1 a)
  | CNeg => ModuleNegationSymbol (a0 a)
  | CIn => ModuleInSymbol (a0 a) (a1 a)
  | CNotIn => ModuleNotInSymbol (a0 a) (a1 a)
  | CIntersect => ModuleIntersectSymbol (a0 a) (a1 a)
  | CUnion => ModuleUnionSymbol (a0 a) (a1 a)
  | CSubsetEq => ModuleSubsetOrEqualSymbol (a0 a) (a1 a)
  | CSetMinus => ModuleBackslashSymbol (a0 a) (a1 a)
  | CSUBSET => ModulePrefixSubsetSymbol (a0 a)
  | CUNION => ModulePrefixUnionSymbol (a0 a)
  | CIsFiniteSet => ModuleIsFiniteSet (a0 a)
  | CCardinality => ModuleCardinality (a0 a)
  | CLen => ModuleLen (a0 a)
  | CConcat => ModuleOSymbol (a0 a) (a1 a)
  | CAppend => ModuleAppend (a0 a) (a1 a)
  | CHead => ModuleHead (a0 a)
  | CTail => ModuleTail (a0 a)
  | CSubSeq => ModuleSubSeq (a0 a) (a1 a) (a2 a)
  | CColonGt => ModuleColonGreaterThanSymbol (a0 a) (a1 a)
  | CAtAt => ModuleDoubleAtSignSymbol (a0 a) (a1 a)
  | CDomain => ModuleDomainSymbol (a0 a)
  | CApply => ApplyFunction (a0 a) (a1 a)
  | CSelectElement => do i <- AsNumber (a1 a); if i <? 0 then (do _ <- AsSet (a0 a); TypeErr) else SelectElement (a0 a) (Z.to_nat i)
  | CMakeSet => Ok (MakeSet a)
  | CMakeTuple => Ok (MakeTuple a)
  | CMakeRecord => MakeRecordV (pairs_of a)
  | CMakeRecordSet => MakeRecordSet (pairs_of a)
  | CMakeFunctionSet => MakeFunctionSet (a0 a) (a1 a)
  | CCrossProduct => CrossProduct a
  | CForall p => QuantifiedUniversal a (pred_of p)
  | CExists p => QuantifiedExistential a (pred_of p)
  | CSetRefinement p => SetRefinement (a0 a) (pred_of p)
  | CSetComprehension b => SetComprehension a (body_of b)
  | CMakeFunction b => MakeFunction a (body_of b)
  | CChoose p => Choose (a0 a) (pred_of p)
  | CSeq => ModuleSeq (a0 a)
  | CSelectSeq => ModuleSelectSeq (a0 a) (a1 a)
  | CExcept subs => FunctionSubstitution (a0 a) (map (fun s => (fst s, fun anchor => body_of (snd s) [anchor])) subs)
  end.

(* observed outcome of the Go call: the value as dumped (iteration order), or the error class *)
Inductive observed := OVal (v : value) | OTypeErr | OPanic | OHang.

(* The arguments handed to the model are the arguments as the runtime holds them (dumped in
   iteration order by the harness), so order-dependent results (Choose, SelectElement, ToString,
   which predicate application fails first) are reproduced exactly.  The model fixes one iteration
   order for the containers it builds itself, the runtime's HAMT another: outcomes are compared up
   to canon (sets / function graphs as sorted lists). *)
Definition agree (m : res value) (o : observed) : bool :=
  match m, o with
  | Ok v, OVal w => veqb (canon v) (canon w)
  | TypeErr, OTypeErr => true
  | Panic, OPanic => true
  | Hang, OHang => true
  | _, _ => false
  end.

Definition check_call (c : call) (a : list value) (o : observed) : bool := agree (run_call c a) o.

Fixpoint mismatches_from (i : nat) (cases : list (call * list value * observed)) : list nat :=
  match cases with
  | [] => []
  | (c, a, o) :: rest =>
      let m := mismatches_from (S i) rest in
      if check_call c a o then m else i :: m
  end.
