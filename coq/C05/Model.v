(* C05 — executable model of distsys/tla/value.go (Equal, Hash, String, builders, causal
   wrapper), distsys/tla/vclock.go (as far as values are concerned) and
   distsys/hashmap/hashmap.go, over representation values (Base/Value.v).
   Model only: no proofs here.

   Conventions.
   * A set / function is the list of its members in the iteration order of the Go
     immutable.Map; `m.Get(k)` is "the first stored entry e with Equal(e.key, k)" (argument
     order as in immutable.mapArrayNode.indexOf: h.Equal(stored, key)).  That a HAMT lookup,
     which first navigates by Hash(k), finds the same entry is exactly what the theorems
     Hash_Equal / ValueHasher_lawful provide (trusted: immutable.Map is a correct persistent
     map for every lawful hasher).
   * uint32 arithmetic is arithmetic on N modulo 2^32; fnv1a (github.com/segmentio/fasthash
     v1.0.3, fnv1a/hash32.go) is modelled, not imported.  Its 8/4/2/1-unrolled byte loop is a
     left fold over the bytes.
   * The code modelled is the tree after the two `fix:` commits recorded in
     known_findings/C05.json (tuple elements compared with Value.Equal; Value.Equal looks
     through a causal wrapper around defaultInitValue). *)
From PGV Require Export Base.Value.
From Coq Require Import Ascii String.
Open Scope N_scope.

(* ------------------------------------------------------------------ helpers *)
Section Helpers.
  Context {A B : Type}.

  Section F2.
    Context (f : A -> B -> bool).
    (* the lock-step loop `for !it1.Done() && !it2.Done()` *)
    Fixpoint forall2b (l : list A) (l' : list B) : bool :=
      match l, l' with
      | x :: r, y :: r' => f x y && forall2b r r'
      | _, _ => true
      end.
  End F2.

  Section FT.
    Context (p : A -> bool) (k : A -> bool).
    (* `e, ok := m.Get(..); ok && k(e)` : continue with the first entry satisfying p *)
    Fixpoint first_then (l : list A) : bool :=
      match l with
      | [] => false
      | x :: l' => if p x then k x else first_then l'
      end.
  End FT.
End Helpers.

Definition len_eqb {A B} (l : list A) (l' : list B) : bool :=
  Nat.eqb (List.length l) (List.length l').

Fixpoint bytes_eqb (s t : list N) : bool :=
  match s, t with
  | [], [] => true
  | a :: s', b :: t' => (a =? b) && bytes_eqb s' t'
  | _, _ => false
  end.

(* ------------------------------------------------------------------ Equal *)
(* `Equal a b` is a.Equal(b).  `EqualR a b` is b.Equal(a): the same code with the receiver in
   second position, needed because the loops of valueSet/valueFunction.Equal call
   Equal(stored member of the OTHER value, member of this one); the pair is structurally
   recursive on the first argument.  Proofs.v: EqualR a b = Equal b a. *)
Fixpoint Equal (a b : value) {struct a} : bool :=
  match a, b with
  | VDefault, VDefault => true                       (* Value.Equal: both data == nil *)
  | VBool x, VBool y => Bool.eqb x y
  | VNum x, VNum y => (x =? y)%Z
  | VStr x, VStr y => bytes_eqb x y
  | VSet xs, VSet ys =>
      len_eqb xs ys
      && forallb (fun k => existsb (fun y => EqualR k y) ys) xs      (* oC.Get(k), k in c *)
      && forallb (fun k => existsb (fun x => Equal x k) xs) ys       (* c.Get(k), k in oC *)
  | VTup xs, VTup ys =>
      len_eqb xs ys && forall2b (fun x y => Equal x y) xs ys
  | VFun f, VFun g =>
      len_eqb f g
      && forallb (fun p => match p with (k, v) =>
           first_then (fun q => match q with (k', _) => EqualR k k' end)   (* otherFunction.Get(key) *)
                      (fun q => match q with (_, v') => Equal v v' end) g   (* value.Equal(otherValue) *)
         end) f
  | _, _ => false
  end
with EqualR (a b : value) {struct a} : bool :=
  match a, b with
  | VDefault, VDefault => true
  | VBool x, VBool y => Bool.eqb y x
  | VNum x, VNum y => (y =? x)%Z
  | VStr x, VStr y => bytes_eqb y x
  | VSet xs, VSet ys =>
      len_eqb ys xs
      && forallb (fun k => existsb (fun x => Equal x k) xs) ys
      && forallb (fun k => existsb (fun y => EqualR k y) ys) xs
  | VTup xs, VTup ys =>
      len_eqb ys xs && forall2b (fun x y => EqualR x y) xs ys
  | VFun f, VFun g =>
      len_eqb g f
      && forallb (fun q => match q with (k', v') =>
           first_then (fun p => match p with (k, _) => Equal k k' end)
                      (fun p => match p with (_, v) => EqualR v v' end) f
         end) g
  | _, _ => false
  end.

(* what the builders guarantee, stated with the runtime's own equality (computable) *)
Fixpoint pairwise_ne {A} (eq : A -> A -> bool) (l : list A) : bool :=
  match l with
  | [] => true
  | x :: l' => negb (existsb (fun y => eq x y) l') && pairwise_ne eq l'
  end.

Fixpoint rep_okb (v : value) : bool :=
  match v with
  | VSet xs => forallb rep_okb xs && pairwise_ne Equal xs
  | VTup xs => forallb rep_okb xs
  | VFun kvs => forallb (fun p => match p with (k, v) => rep_okb k && rep_okb v end) kvs
                && pairwise_ne Equal (map fst kvs)
  | _ => true
  end.

(* ------------------------------------------------------------------ Hash (fnv1a, 32 bit) *)
Definition M32 : N := 4294967296.
Definition offset32 : N := 2166136261.
Definition prime32 : N := 16777619.

Definition add_byte (h b : N) : N := (N.lxor h b * prime32) mod M32.

(* fnv1a.AddUint32: the four bytes of u, most significant first *)
Definition AddUint32 (h u : N) : N :=
  let h := add_byte h (N.land (N.shiftr u 24) 255) in
  let h := add_byte h (N.land (N.shiftr u 16) 255) in
  let h := add_byte h (N.land (N.shiftr u 8) 255) in
  add_byte h (N.land u 255).

Definition HashUint32 (u : N) : N := AddUint32 offset32 u.
Definition HashString32 (s : list N) : N := fold_left add_byte s offset32.

(* uint32(int32 z) *)
Definition u32_of_Z (z : Z) : N := Z.to_N (z mod 4294967296)%Z.

Definition field_hash (hk hv : N) : N := AddUint32 (AddUint32 offset32 hk) hv.   (* RecordField.Hash *)

Fixpoint Hash (v : value) : N :=
  match v with
  | VDefault => 0
  | VBool b => HashUint32 (if b then 1 else 0)
  | VNum z => HashUint32 (u32_of_Z z)
  | VStr s => HashString32 s
  | VSet xs => HashUint32 (fold_left (fun h x => N.lxor h (Hash x)) xs 0)
  | VTup xs => fold_left (fun h x => AddUint32 h (Hash x)) xs offset32
  | VFun kvs => HashUint32 (fold_left (fun h p => match p with (k, v) =>
                                         N.lxor h (field_hash (Hash k) (Hash v)) end) kvs 0)
  end.

(* ------------------------------------------------------------------ builders *)
(* immutable.MapBuilder.Set on a set: replace the first Equal member (key and all), else append.
   (The position at which the real HAMT iterates the member is not modelled; every theorem
   holds for every order.) *)
Fixpoint set_add (l : list value) (x : value) : list value :=
  match l with
  | [] => [x]
  | y :: l' => if Equal y x then x :: l' else y :: set_add l' x
  end.

Fixpoint fun_add (l : list (value * value)) (k v : value) : list (value * value) :=
  match l with
  | [] => [(k, v)]
  | (k', v') :: l' => if Equal k' k then (k, v) :: l' else (k', v') :: fun_add l' k v
  end.

Definition MakeSet (members : list value) : value := VSet (fold_left set_add members []).
Definition MakeTuple (members : list value) : value := VTup members.
Definition MakeRecord (pairs : list (value * value)) : value :=
  VFun (fold_left (fun l p => fun_add l (fst p) (snd p)) pairs []).

(* a value built only with the public constructors (what the generator of the check sends) *)
Fixpoint build (v : value) : value :=
  match v with
  | VSet xs => MakeSet (map build xs)
  | VTup xs => MakeTuple (map build xs)
  | VFun kvs => MakeRecord (map (fun p => match p with (k, v) => (build k, build v) end) kvs)
  | _ => v
  end.

(* ------------------------------------------------------------------ String *)
Definition bytes_of_string (s : string) : list N :=
  map (fun a => N_of_ascii a) (list_ascii_of_string s).

Fixpoint digits_fuel (fuel : nat) (n : N) (acc : list N) : list N :=
  match fuel with
  | O => acc
  | S f => let acc' := (48 + n mod 10) :: acc in
           if n / 10 =? 0 then acc' else digits_fuel f (n / 10) acc'
  end.

(* strconv.FormatInt(int64(z), 10) *)
Definition print_Z (z : Z) : list N :=
  let n := Z.abs_N z in
  let ds := digits_fuel (S (N.to_nat (N.log2 n))) n [] in
  if (z <? 0)%Z then 45 :: ds else ds.

(* strconv.Quote restricted to printable ASCII (0x20..0x7e): only the double quote (34) and
   the backslash (92) are escaped, each by a preceding backslash.
   Other bytes are outside the statement (and outside this model: they are passed through). *)
Definition quote_byte (b : N) : list N :=
  if (b =? 34) || (b =? 92) then [92; b] else [b].

Definition print_str (s : list N) : list N := 34 :: flat_map quote_byte s ++ [34].

Fixpoint join (sep : list N) (parts : list (list N)) : list N :=
  match parts with
  | [] => []
  | [p] => p
  | p :: rest => p ++ sep ++ join sep rest
  end.

Fixpoint print (v : value) : list N :=
  match v with
  | VDefault => bytes_of_string "defaultInitValue"
  | VBool true => bytes_of_string "TRUE"
  | VBool false => bytes_of_string "FALSE"
  | VNum z => print_Z z
  | VStr s => print_str s
  | VSet xs => bytes_of_string "{" ++ join (bytes_of_string ", ") (map print xs) ++ bytes_of_string "}"
  | VTup xs => bytes_of_string "<<" ++ join (bytes_of_string ", ") (map print xs) ++ bytes_of_string ">>"
  | VFun [] => bytes_of_string "[x \in {} |-> x]"
  | VFun kvs =>
      bytes_of_string "(" ++
      join (bytes_of_string " @@ ")
           (map (fun p => match p with (k, v) =>
                   bytes_of_string "(" ++ print k ++ bytes_of_string ") :> (" ++ print v ++ bytes_of_string ")"
                 end) kvs)
      ++ bytes_of_string ")"
  end.

Definition printable (b : N) : bool := (32 <=? b) && (b <=? 126).

Fixpoint printable_val (v : value) : bool :=
  match v with
  | VStr s => forallb printable s
  | VSet xs => forallb printable_val xs
  | VTup xs => forallb printable_val xs
  | VFun kvs => forallb (fun p => match p with (k, v) => printable_val k && printable_val v end) kvs
  | _ => true
  end.

(* ------------------------------------------------------------------ reading the printed form back *)
(* The printed form is a TLA+ constant expression.  `print_tokens` is the printer at token level,
   `render` turns tokens into bytes (Proofs: print v = render (print_tokens v)); `lex` and
   `parse_tokens` are a lexer and a recursive-descent parser for that syntax. *)
Inductive token : Type :=
| TLBrace | TRBrace | TLTup | TRTup | TLParen | TRParen | TComma | TMapsto | TAtAt
| TEmptyFun | TTrue | TFalse | TDefault | TNum (z : Z) | TStr (s : list N).

Fixpoint tjoin (sep : list token) (parts : list (list token)) : list token :=
  match parts with
  | [] => []
  | [p] => p
  | p :: rest => p ++ sep ++ tjoin sep rest
  end.

Fixpoint print_tokens (v : value) : list token :=
  match v with
  | VDefault => [TDefault]
  | VBool true => [TTrue]
  | VBool false => [TFalse]
  | VNum z => [TNum z]
  | VStr s => [TStr s]
  | VSet xs => TLBrace :: tjoin [TComma] (map print_tokens xs) ++ [TRBrace]
  | VTup xs => TLTup :: tjoin [TComma] (map print_tokens xs) ++ [TRTup]
  | VFun [] => [TEmptyFun]
  | VFun kvs =>
      TLParen ::
      tjoin [TAtAt] (map (fun p => match p with (k, v) =>
                        TLParen :: print_tokens k ++ [TRParen; TMapsto; TLParen] ++ print_tokens v ++ [TRParen]
                      end) kvs)
      ++ [TRParen]
  end.

Definition render_token (t : token) : list N :=
  match t with
  | TLBrace => bytes_of_string "{" | TRBrace => bytes_of_string "}"
  | TLTup => bytes_of_string "<<" | TRTup => bytes_of_string ">>"
  | TLParen => bytes_of_string "(" | TRParen => bytes_of_string ")"
  | TComma => bytes_of_string ", " | TMapsto => bytes_of_string " :> " | TAtAt => bytes_of_string " @@ "
  | TEmptyFun => bytes_of_string "[x \in {} |-> x]"
  | TTrue => bytes_of_string "TRUE" | TFalse => bytes_of_string "FALSE"
  | TDefault => bytes_of_string "defaultInitValue"
  | TNum z => print_Z z
  | TStr s => print_str s
  end.

Definition render (ts : list token) : list N := flat_map render_token ts.

(* ---- parser on tokens (fuel: one unit per value or list cell) ---- *)
Definition is_rbrace (c : token) : bool := match c with TRBrace => true | _ => false end.
Definition is_rtup (c : token) : bool := match c with TRTup => true | _ => false end.

Section ParseLoops.
  Context (pv : list token -> option (value * list token)).     (* the parser of one value *)

  (* one or more values separated by TComma, up to the closing token *)
  Fixpoint parse_seq (g : nat) (ts : list token) (close : token -> bool) : option (list value * list token) :=
    match g with
    | O => None
    | S g' =>
        match pv ts with
        | Some (x, TComma :: r) =>
            match parse_seq g' r close with Some (xs, r') => Some (x :: xs, r') | None => None end
        | Some (x, c :: r) => if close c then Some ([x], r) else None
        | _ => None
        end
    end.

  (* one or more bindings  (k) :> (v)  separated by TAtAt, up to the closing parenthesis *)
  Fixpoint parse_bindings (g : nat) (ts : list token) : option (list (value * value) * list token) :=
    match g with
    | O => None
    | S g' =>
        match ts with
        | TLParen :: r1 =>
            match pv r1 with
            | Some (k, TRParen :: TMapsto :: TLParen :: r2) =>
                match pv r2 with
                | Some (v, TRParen :: TAtAt :: r3) =>
                    match parse_bindings g' r3 with Some (kvs, r') => Some ((k, v) :: kvs, r') | None => None end
                | Some (v, TRParen :: TRParen :: r3) => Some ([(k, v)], r3)
                | _ => None
                end
            | _ => None
            end
        | _ => None
        end
    end.
End ParseLoops.

Fixpoint parse_val (fuel : nat) (ts : list token) : option (value * list token) :=
  match fuel with
  | O => None
  | S f =>
      match ts with
      | TDefault :: r => Some (VDefault, r)
      | TTrue :: r => Some (VBool true, r)
      | TFalse :: r => Some (VBool false, r)
      | TNum z :: r => Some (VNum z, r)
      | TStr s :: r => Some (VStr s, r)
      | TEmptyFun :: r => Some (VFun [], r)
      | TLBrace :: r =>
          match r with
          | TRBrace :: r' => Some (VSet [], r')
          | _ => match parse_seq (parse_val f) f r is_rbrace with
                 | Some (xs, r') => Some (VSet xs, r') | None => None end
          end
      | TLTup :: r =>
          match r with
          | TRTup :: r' => Some (VTup [], r')
          | _ => match parse_seq (parse_val f) f r is_rtup with
                 | Some (xs, r') => Some (VTup xs, r') | None => None end
          end
      | TLParen :: r =>
          match parse_bindings (parse_val f) f r with Some (kvs, r') => Some (VFun kvs, r') | None => None end
      | _ => None
      end
  end.

Definition parse_tokens (ts : list token) : option value :=
  match parse_val (S (List.length ts)) ts with
  | Some (v, []) => Some v
  | _ => None
  end.

(* ---- lexer on bytes ---- *)
Fixpoint strip_prefix (p l : list N) : option (list N) :=
  match p, l with
  | [], _ => Some l
  | a :: p', b :: l' => if a =? b then strip_prefix p' l' else None
  | _ :: _, [] => None
  end.

Definition is_digit (b : N) : bool := (48 <=? b) && (b <=? 57).

Fixpoint lex_digits (l : list N) (acc : N) : N * list N :=
  match l with
  | b :: r => if is_digit b then lex_digits r (acc * 10 + (b - 48)) else (acc, l)
  | [] => (acc, [])
  end.

(* the body of a quoted string: up to the closing quote; the escapes TLA+ knows *)
Fixpoint lex_string (l : list N) (acc : list N) : option (list N * list N) :=
  match l with
  | [] => None
  | 34 :: r => Some (rev acc, r)
  | 92 :: e :: r =>
      if (e =? 34) || (e =? 92) then lex_string r (e :: acc)
      else if e =? 116 then lex_string r (9 :: acc)
      else if e =? 110 then lex_string r (10 :: acc)
      else if e =? 102 then lex_string r (12 :: acc)
      else if e =? 114 then lex_string r (13 :: acc)
      else None
  | b :: r => lex_string r (b :: acc)
  end.

Definition keywords : list (list N * token) :=
  [ (bytes_of_string "defaultInitValue", TDefault); (bytes_of_string "TRUE", TTrue);
    (bytes_of_string "FALSE", TFalse); (bytes_of_string "[x \in {} |-> x]", TEmptyFun);
    (bytes_of_string "<<", TLTup); (bytes_of_string ">>", TRTup);
    (bytes_of_string "{", TLBrace); (bytes_of_string "}", TRBrace);
    (bytes_of_string "(", TLParen); (bytes_of_string ")", TRParen);
    (bytes_of_string ", ", TComma); (bytes_of_string " :> ", TMapsto); (bytes_of_string " @@ ", TAtAt) ].

Fixpoint lex_keyword (kws : list (list N * token)) (l : list N) : option (token * list N) :=
  match kws with
  | [] => None
  | (p, t) :: rest => match strip_prefix p l with Some r => Some (t, r) | None => lex_keyword rest l end
  end.

Fixpoint lex (fuel : nat) (l : list N) : option (list token) :=
  match fuel with
  | O => None
  | S f =>
      match l with
      | [] => Some []
      | b :: r =>
          match lex_keyword keywords l with
          | Some (t, r') => match lex f r' with Some ts => Some (t :: ts) | None => None end
          | None =>
              if b =? 34 then
                match lex_string r [] with
                | Some (s, r') => match lex f r' with Some ts => Some (TStr s :: ts) | None => None end
                | None => None
                end
              else if is_digit b then
                let '(n, r') := lex_digits l 0 in
                match lex f r' with Some ts => Some (TNum (Z.of_N n) :: ts) | None => None end
              else if b =? 45 then
                match r with
                | d :: _ => if is_digit d then
                              let '(n, r') := lex_digits r 0 in
                              match lex f r' with Some ts => Some (TNum (- Z.of_N n) :: ts) | None => None end
                            else None
                | [] => None
                end
              else None
          end
      end
  end.

Definition parse (l : list N) : option value :=
  match lex (S (List.length l)) l with
  | Some ts => parse_tokens ts
  | None => None
  end.

(* ------------------------------------------------------------------ causal wrapper *)
(* Values as the runtime may hold them when tracing is on: any node may sit under a
   valueCausalWrapped{Value, clock}.  The wrapper embeds Value, so Hash, Equal, String, Is*, As*
   are the promoted methods of the inner Value.  `cclock` is the VClock's map from
   <<archetype, self>> to a counter, in iteration order. *)
Inductive cval : Type :=
| CDefault | CBool (b : bool) | CNum (z : Z) | CStr (s : list N)
| CSet (xs : list cval) | CTup (xs : list cval) | CFun (kvs : list (cval * cval))
| CWrap (clock : list (cval * Z)) (v : cval).

(* StripVClock applied everywhere: the TLA+ value a (possibly wrapped) value denotes *)
Fixpoint strip (c : cval) : value :=
  match c with
  | CDefault => VDefault | CBool b => VBool b | CNum z => VNum z | CStr s => VStr s
  | CSet xs => VSet (map strip xs)
  | CTup xs => VTup (map strip xs)
  | CFun kvs => VFun (map (fun p => match p with (k, v) => (strip k, strip v) end) kvs)
  | CWrap _ v => strip v
  end.

(* the impl reached through Value.data and the promoted methods: top-level wrappers removed *)
Fixpoint peel (c : cval) : cval :=
  match c with CWrap _ v => peel v | _ => c end.

(* a.Equal(b) / b.Equal(a) on possibly wrapped values, written as the code runs:
   every Is*/As* call on `other` and the dispatch on `v.data` go through `peel`. *)
Fixpoint EqualC (a b : cval) {struct a} : bool :=
  match a with
  | CWrap _ a' => EqualC a' b                        (* promoted Value.Equal of the embedded Value *)
  | CDefault => match peel b with CDefault => true | _ => false end
  | CBool x => match peel b with CBool y => Bool.eqb x y | _ => false end
  | CNum x => match peel b with CNum y => (x =? y)%Z | _ => false end
  | CStr x => match peel b with CStr y => bytes_eqb x y | _ => false end
  | CSet xs => match peel b with
               | CSet ys => len_eqb xs ys
                            && forallb (fun k => existsb (fun y => EqualCR k y) ys) xs
                            && forallb (fun k => existsb (fun x => EqualC x k) xs) ys
               | _ => false end
  | CTup xs => match peel b with
               | CTup ys => len_eqb xs ys && forall2b (fun x y => EqualC x y) xs ys
               | _ => false end
  | CFun f => match peel b with
              | CFun g => len_eqb f g
                  && forallb (fun p => match p with (k, v) =>
                       first_then (fun q => match q with (k', _) => EqualCR k k' end)
                                  (fun q => match q with (_, v') => EqualC v v' end) g
                     end) f
              | _ => false end
  end
with EqualCR (a b : cval) {struct a} : bool :=
  match a with
  | CWrap _ a' => EqualCR a' b
  | CDefault => match peel b with CDefault => true | _ => false end
  | CBool x => match peel b with CBool y => Bool.eqb y x | _ => false end
  | CNum x => match peel b with CNum y => (y =? x)%Z | _ => false end
  | CStr x => match peel b with CStr y => bytes_eqb y x | _ => false end
  | CSet xs => match peel b with
               | CSet ys => len_eqb ys xs
                            && forallb (fun k => existsb (fun x => EqualC x k) xs) ys
                            && forallb (fun k => existsb (fun y => EqualCR k y) ys) xs
               | _ => false end
  | CTup xs => match peel b with
               | CTup ys => len_eqb ys xs && forall2b (fun x y => EqualCR x y) xs ys
               | _ => false end
  | CFun f => match peel b with
              | CFun g => len_eqb g f
                  && forallb (fun q => match q with (k', v') =>
                       first_then (fun p => match p with (k, _) => EqualC k k' end)
                                  (fun p => match p with (_, v) => EqualCR v v' end) f
                     end) g
              | _ => false end
  end.

Fixpoint HashC (c : cval) : N :=
  match c with
  | CWrap _ v => HashC v
  | CDefault => 0
  | CBool b => HashUint32 (if b then 1 else 0)
  | CNum z => HashUint32 (u32_of_Z z)
  | CStr s => HashString32 s
  | CSet xs => HashUint32 (fold_left (fun h x => N.lxor h (HashC x)) xs 0)
  | CTup xs => fold_left (fun h x => AddUint32 h (HashC x)) xs offset32
  | CFun kvs => HashUint32 (fold_left (fun h p => match p with (k, v) =>
                                          N.lxor h (field_hash (HashC k) (HashC v)) end) kvs 0)
  end.

(* VClock.Merge on association lists keyed by (stripped) value equality; WrapCausal *)
Fixpoint clock_get (clk : list (cval * Z)) (k : cval) : option Z :=
  match clk with
  | [] => None
  | (k', n) :: r => if EqualC k' k then Some n else clock_get r k
  end.

Fixpoint clock_set (clk : list (cval * Z)) (k : cval) (n : Z) : list (cval * Z) :=
  match clk with
  | [] => [(k, n)]
  | (k', n') :: r => if EqualC k' k then (k, n) :: r else (k', n') :: clock_set r k n
  end.

Definition clock_merge (c1 c2 : list (cval * Z)) : list (cval * Z) :=
  let '(self, other) := if Nat.ltb (List.length c1) (List.length c2) then (c2, c1) else (c1, c2) in
  fold_left (fun acc p => match p with (k, n1) =>
               let n2 := match clock_get acc k with Some n => n | None => 0%Z end in
               if (n2 <? n1)%Z then clock_set acc k n1 else acc end) other self.

Definition WrapCausal (v : cval) (clk : list (cval * Z)) : cval :=
  match v with
  | CWrap clk0 v0 => CWrap (clock_merge clk clk0) v0
  | _ => CWrap clk v
  end.

(* ------------------------------------------------------------------ gob wire encoding *)
(* builder.Set on possibly wrapped values (what GobDecode does with every decoded member) *)
Fixpoint cset_add (l : list cval) (x : cval) : list cval :=
  match l with
  | [] => [x]
  | y :: l' => if EqualC y x then x :: l' else y :: cset_add l' x
  end.

Fixpoint cfun_add (l : list (cval * cval)) (k v : cval) : list (cval * cval) :=
  match l with
  | [] => [(k, v)]
  | (k', v') :: l' => if EqualC k' k then (k, v) :: l' else (k', v') :: cfun_add l' k v
  end.

(* what WrapCausal / the builders guarantee about a possibly wrapped value: no two Equal members
   of a set, keys of a function, keys of a vector clock *)
Fixpoint cokb (c : cval) : bool :=
  match c with
  | CSet xs => forallb cokb xs && pairwise_ne EqualC xs
  | CTup xs => forallb cokb xs
  | CFun kvs => forallb (fun p => match p with (k, v) => cokb k && cokb v end) kvs
                && pairwise_ne EqualC (map fst kvs)
  | CWrap clk v => forallb (fun p => match p with (k, _) => cokb k end) clk
                   && pairwise_ne EqualC (map fst clk) && cokb v
  | _ => true
  end.

Fixpoint cdepth (c : cval) : nat :=
  match c with
  | CSet xs => S (fold_right (fun x n => Nat.max (cdepth x) n) 0%nat xs)
  | CTup xs => S (fold_right (fun x n => Nat.max (cdepth x) n) 0%nat xs)
  | CFun kvs => S (fold_right (fun p n => match p with (k, v) => Nat.max (Nat.max (cdepth k) (cdepth v)) n end) 0%nat kvs)
  | CWrap clk v => S (Nat.max (cdepth v) (fold_right (fun p n => match p with (k, _) => Nat.max (cdepth k) n end) 0%nat clk))
  | _ => 1%nat
  end.

(* encoding/gob is not modelled: `bytes` is abstract, `ser` is what a fresh gob.Encoder writes for
   a sequence of Encode calls and `de` what a fresh gob.Decoder reads back, in terms of the items
   below (Proofs: the Section hypothesis is de (ser l) = Some l).
   An item is one Encode call: an interface value holding one of the registered concrete types
   (the struct types with their single exported field; the GobEncoder types with the bytes their
   GobEncode returned), a GobEncoder value (tla.Value, tla.VClock: its bytes), a RecordField
   struct (two GobEncoder fields), or a plain int. *)
Section Gob.
  Context {bytes : Type}.

  Inductive gitem : Type :=
  | GNilIface
  | GBoolT (b : bool) | GNumT (z : Z) | GStrT (s : list N)
  | GSetT (p : bytes) | GTupT (p : bytes) | GFunT (p : bytes) | GWrapT (p : bytes)
  | GValue (p : bytes)
  | GField (k v : bytes)
  | GInt (n : Z).

  Context (ser : list gitem -> bytes) (de : bytes -> option (list gitem)).

  (* Value.GobEncode: a fresh encoder, one Encode(&v.data); the GobEncode methods of valueSet,
     valueTuple, valueFunction (one Encode per member / RecordField), valueCausalWrapped
     (Encode(&v.clock); Encode(&v.Value)) and VClock (pair count, then key and counter per pair) *)
  Fixpoint enc_value (c : cval) : bytes :=
    ser [match c with
         | CDefault => GNilIface
         | CBool b => GBoolT b
         | CNum z => GNumT z
         | CStr s => GStrT s
         | CSet xs => GSetT (ser (map (fun x => GValue (enc_value x)) xs))
         | CTup xs => GTupT (ser (map (fun x => GValue (enc_value x)) xs))
         | CFun kvs => GFunT (ser (map (fun p => match p with (k, v) => GField (enc_value k) (enc_value v) end) kvs))
         | CWrap clk v =>
             GWrapT (ser [GValue (ser (GInt (Z.of_nat (List.length clk))
                                       :: flat_map (fun p => match p with (k, n) => [GValue (enc_value k); GInt n] end) clk));
                          GValue (enc_value v)])
         end].

  (* the loops of the GobDecode methods, given the decoder `d` of one tla.Value *)
  Section Loops.
    Context (d : bytes -> option cval).

    (* valueSet.GobDecode: `for { decoder.Decode(&elem) ... builder.Set(elem, true) }` until EOF *)
    Fixpoint dec_members (items : list gitem) (acc : list cval) : option (list cval) :=
      match items with
      | [] => Some acc
      | GValue p :: r => match d p with Some x => dec_members r (cset_add acc x) | None => None end
      | _ :: _ => None
      end.

    (* valueTuple.GobDecode: builder.Append(elem) *)
    Fixpoint dec_elems (items : list gitem) (acc : list cval) : option (list cval) :=
      match items with
      | [] => Some acc
      | GValue p :: r => match d p with Some x => dec_elems r (acc ++ [x]) | None => None end
      | _ :: _ => None
      end.

    (* valueFunction.GobDecode: decoder.Decode(&field); builder.Set(field.Key, field.Value) *)
    Fixpoint dec_fields (items : list gitem) (acc : list (cval * cval)) : option (list (cval * cval)) :=
      match items with
      | [] => Some acc
      | GField pk pv :: r =>
          match d pk, d pv with
          | Some k, Some v => dec_fields r (cfun_add acc k v)
          | _, _ => None
          end
      | _ :: _ => None
      end.

    (* VClock.GobDecode: `for i := 0; i < pairCount; i++ { Decode(&key); Decode(&value); builder.Set(key, value) }` *)
    Fixpoint dec_pairs (n : nat) (items : list gitem) (acc : list (cval * Z)) : option (list (cval * Z)) :=
      match n with
      | O => Some acc
      | S n' => match items with
                | GValue pk :: GInt m :: r =>
                    match d pk with Some k => dec_pairs n' r (clock_set acc k m) | None => None end
                | _ => None
                end
      end.
  End Loops.

  (* Value.GobDecode: decoder.Decode(&v.data), then the GobDecode method of the concrete type;
     `fuel` bounds the nesting depth *)
  Fixpoint dec_value (fuel : nat) (b : bytes) : option cval :=
    match fuel with
    | O => None
    | S f =>
        match de b with
        | Some (it :: _) =>
            match it with
            | GNilIface => Some CDefault
            | GBoolT x => Some (CBool x)
            | GNumT z => Some (CNum z)
            | GStrT s => Some (CStr s)
            | GSetT p => match de p with
                         | Some items => match dec_members (dec_value f) items [] with Some xs => Some (CSet xs) | None => None end
                         | None => None end
            | GTupT p => match de p with
                         | Some items => match dec_elems (dec_value f) items [] with Some xs => Some (CTup xs) | None => None end
                         | None => None end
            | GFunT p => match de p with
                         | Some items => match dec_fields (dec_value f) items [] with Some kvs => Some (CFun kvs) | None => None end
                         | None => None end
            | GWrapT p =>
                match de p with
                | Some (GValue pc :: GValue pv :: _) =>
                    match de pc with
                    | Some (GInt n :: items) =>
                        match dec_pairs (dec_value f) (Z.to_nat n) items [], dec_value f pv with
                        | Some clk, Some v => Some (CWrap clk v)
                        | _, _ => None
                        end
                    | _ => None
                    end
                | _ => None
                end
            | _ => None
            end
        | _ => None
        end
    end.
End Gob.

(* ------------------------------------------------------------------ hashmap.HashMap[V] *)
Section HashMap.
  Context {V : Type}.

  (* m map[uint32][]Entry[V] as an association list with one binding per hash; keys []tla.Value *)
  Record hmap := mkHmap { hm_m : list (N * list (value * V)); hm_keys : list value }.

  Definition hm_new : hmap := mkHmap [] [].

  Fixpoint bucket (m : list (N * list (value * V))) (h : N) : option (list (value * V)) :=
    match m with
    | [] => None
    | (h', es) :: m' => if h' =? h then Some es else bucket m' h
    end.

  Fixpoint put_bucket (m : list (N * list (value * V))) (h : N) (es : list (value * V)) :=
    match m with
    | [] => [(h, es)]
    | (h', es') :: m' => if h' =? h then (h, es) :: m' else (h', es') :: put_bucket m' h es
    end.

  (* for i := range h.m[hash] { if h.m[hash][i].Key.Equal(k) { h.m[hash][i].Value = v; return } } *)
  Fixpoint bucket_update (es : list (value * V)) (k : value) (v : V) : option (list (value * V)) :=
    match es with
    | [] => None
    | (k', v') :: es' =>
        if Equal k' k then Some ((k', v) :: es')
        else match bucket_update es' k v with Some r => Some ((k', v') :: r) | None => None end
    end.

  Definition hm_set (h : hmap) (k : value) (v : V) : hmap :=
    let hash := Hash k in
    match bucket (hm_m h) hash with
    | None => mkHmap (put_bucket (hm_m h) hash [(k, v)]) (hm_keys h ++ [k])
    | Some es =>
        match bucket_update es k v with
        | Some es' => mkHmap (put_bucket (hm_m h) hash es') (hm_keys h)
        | None => mkHmap (put_bucket (hm_m h) hash (es ++ [(k, v)])) (hm_keys h ++ [k])
        end
    end.

  Fixpoint bucket_get (es : list (value * V)) (k : value) : option V :=
    match es with
    | [] => None
    | (k', v') :: es' => if Equal k' k then Some v' else bucket_get es' k
    end.

  Definition hm_get (h : hmap) (k : value) : option V :=
    match bucket (hm_m h) (Hash k) with
    | None => None
    | Some es => bucket_get es k
    end.

  Definition hm_clear (h : hmap) : hmap := mkHmap [] [].

  Inductive hop := HSet (k : value) (v : V) | HClear.

  Definition hm_step (h : hmap) (o : hop) : hmap :=
    match o with HSet k v => hm_set h k v | HClear => hm_clear h end.

  Definition hm_run (ops : list hop) : hmap := fold_left hm_step ops hm_new.

  (* specification: an association map keyed by the denoted (canonical) value, in first-insertion order *)
  Fixpoint amap_get (m : list (value * V)) (k : value) : option V :=
    match m with
    | [] => None
    | (k', v) :: m' => if veqb k' k then Some v else amap_get m' k
    end.

  Fixpoint amap_set (m : list (value * V)) (k : value) (v : V) : list (value * V) :=
    match m with
    | [] => [(k, v)]
    | (k', v') :: m' => if veqb k' k then (k', v) :: m' else (k', v') :: amap_set m' k v
    end.

  Definition amap_step (m : list (value * V)) (o : hop) : list (value * V) :=
    match o with HSet k v => amap_set m (canon k) v | HClear => [] end.

  Definition amap_run (ops : list hop) : list (value * V) := fold_left amap_step ops [].
End HashMap.
Arguments hmap : clear implicits.
Arguments hop : clear implicits.

(* ------------------------------------------------------------------ correspondence check *)
(* One observed value of a case: what was sent to the constructors, what the runtime holds
   (iteration order as observed), and what Hash / String / a gob round trip returned.
   String() output is compared through a checksum (length, polynomial hash modulo 2^61-1) so
   that the long printed strings need not be parsed by Coq. *)
Inductive gobobs := GobSame | GobRep (c : cval) | GobFail.

Record obs := mkObs {
  o_in : option cval;       (* None: the constructor check is not made for this value *)
  o_rep : cval; o_hash : N;
  o_strlen : N; o_strsum : N;
  o_gob : gobobs; o_gob_hash : N }.

Definition str_sum (s : list N) : N :=
  fold_left (fun h b => (h * 257 + b + 1) mod 2305843009213693951) s 0.

Inductive hcall := CSetOp (i : nat) (p : Z) | CGetOp (i : nat) | CKeysOp | CClearOp
                 | CSetGOp (i : nat) (p : Z) | CGetGOp (i : nat).     (* the key as it came out of the gob decoder *)
Inductive hret := RNone | RGet (r : option Z) | RKeys (ks : list nat).   (* keys as indices into the case's values *)

Fixpoint list_eqb {A} (eq : A -> A -> bool) (l l' : list A) : bool :=
  match l, l' with
  | [], [] => true
  | x :: r, y :: r' => eq x y && list_eqb eq r r'
  | _, _ => false
  end.

Definition opt_eqb {A} (eq : A -> A -> bool) (a b : option A) : bool :=
  match a, b with
  | None, None => true
  | Some x, Some y => eq x y
  | _, _ => false
  end.

Fixpoint run_hcalls (reps greps : list value) (h : hmap Z) (ops : list (hcall * hret)) : bool :=
  match ops with
  | [] => true
  | (c, r) :: rest =>
      match c, r with
      | CSetOp i p, RNone => run_hcalls reps greps (hm_set h (nth i reps VDefault) p) rest
      | CGetOp i, RGet o => opt_eqb Z.eqb (hm_get h (nth i reps VDefault)) o && run_hcalls reps greps h rest
      | CSetGOp i p, RNone => run_hcalls reps greps (hm_set h (nth i greps VDefault) p) rest
      | CGetGOp i, RGet o => opt_eqb Z.eqb (hm_get h (nth i greps VDefault)) o && run_hcalls reps greps h rest
      (* Keys() returns the stored Values: named by index, +1000 for a decoded one *)
      | CKeysOp, RKeys ks => list_eqb veqb (hm_keys h)
                               (map (fun i => if Nat.ltb i 1000 then nth i reps VDefault else nth (i - 1000) greps VDefault) ks)
                             && run_hcalls reps greps h rest
      | CClearOp, RNone => run_hcalls reps greps (hm_clear h) rest
      | _, _ => false
      end
  end.

Definition gob_rep (o : obs) : cval := match o_gob o with GobRep g => g | _ => o_rep o end.

(* codes of the checks that fail on a case (empty = model and implementation agree) *)
Definition check_case (vs : list obs) (eqm geqm : list (list bool)) (ops : list (hcall * hret)) : list nat :=
  let reps := map o_rep vs in
  (if forallb (fun o => rep_okb (strip (o_rep o)) && cokb (o_rep o)) vs then [] else [1%nat]) ++
  (if forallb (fun o => match o_in o with
                        | Some i => veqb (canon (strip (o_rep o))) (canon (build (strip i)))
                        | None => true end) vs then [] else [2%nat]) ++
  (if list_eqb (list_eqb Bool.eqb) (map (fun a => map (fun b => EqualC a b) reps) reps) eqm
      && list_eqb (list_eqb Bool.eqb) (map (fun a => map (fun b => Equal (strip a) (strip b)) reps) reps) eqm
   then [] else [3%nat]) ++
  (if forallb (fun o => (HashC (o_rep o) =? o_hash o) && (Hash (strip (o_rep o)) =? o_hash o)) vs then [] else [4%nat]) ++
  (if forallb (fun o => negb (printable_val (strip (o_rep o)))
                        || (let s := print (strip (o_rep o)) in
                            (N.of_nat (List.length s) =? o_strlen o) && (str_sum s =? o_strsum o))) vs then [] else [5%nat]) ++
  (if forallb (fun o => match o_gob o with
                        | GobSame => o_gob_hash o =? o_hash o
                        | GobRep g => veqb (canon (strip g)) (canon (strip (o_rep o))) && rep_okb (strip g)
                                      && (HashC g =? o_gob_hash o)
                        | GobFail => false end) vs then [] else [6%nat]) ++
  (if run_hcalls (map strip reps) (map (fun o => strip (gob_rep o)) vs) hm_new ops then [] else [7%nat]) ++
  (* the printed form (equal to the implementation's String() by check 5) parses back to the value *)
  (if forallb (fun o => negb (printable_val (strip (o_rep o)))
                        || match parse (print (strip (o_rep o))) with
                           | Some v' => veqb v' (strip (o_rep o))
                           | None => false end) vs then [] else [8%nat]) ++
  (* decoded values compared with every original (only when observed) *)
  (match geqm with
   | [] => []
   | _ => if list_eqb (list_eqb Bool.eqb) (map (fun o => map (fun b => EqualC (gob_rep o) b) reps) vs) geqm then [] else [9%nat]
   end).

Definition case := (list obs * list (list bool) * list (list bool) * list (hcall * hret))%type.

Fixpoint mismatches_from (i : nat) (cases : list case) : list nat :=
  match cases with
  | [] => []
  | (vs, eqm, geqm, ops) :: rest =>
      map (fun c => (10 * i + c)%nat) (check_case vs eqm geqm ops) ++ mismatches_from (S i) rest
  end.
