(* C05 — lemmas about the model: Equal is canonical-form equality (hence an equivalence that
   ignores construction order), Hash respects it, the hash map refines an association map. *)
From PGV Require Import Base.Value Base.ValueFacts C05.Model.
From Coq Require Import Lia Permutation Sorted.

(* ------------------------------------------------------------------ list helpers *)
Lemma forallb_ext_in {A} (f g : A -> bool) l :
  (forall x, In x l -> f x = g x) -> forallb f l = forallb g l.
Proof.
  induction l as [|a l IH]; cbn; intros H; [reflexivity|].
  rewrite H by auto. rewrite IH; auto.
Qed.

Lemma existsb_ext_in {A} (f g : A -> bool) l :
  (forall x, In x l -> f x = g x) -> existsb f l = existsb g l.
Proof.
  induction l as [|a l IH]; cbn; intros H; [reflexivity|].
  rewrite H by auto. rewrite IH; auto.
Qed.

Lemma first_then_ext_in {A} (p p' k k' : A -> bool) l :
  (forall x, In x l -> p x = p' x) -> (forall x, In x l -> k x = k' x) ->
  first_then p k l = first_then p' k' l.
Proof.
  induction l as [|a l IH]; cbn; intros H1 H2; [reflexivity|].
  rewrite H1, H2 by auto. rewrite IH; auto.
Qed.

Lemma forall2b_flip {A B} (f : A -> B -> bool) (g : B -> A -> bool) xs :
  (forall x, In x xs -> forall y, f x y = g y x) ->
  forall ys, forall2b f xs ys = forall2b g ys xs.
Proof.
  induction xs as [|x xs IH]; intros H [|y ys]; cbn; try reflexivity.
  rewrite H by (cbn; auto). rewrite IH; auto. intros; apply H; cbn; auto.
Qed.

Lemma forall2b_ext_in {A B} (f g : A -> B -> bool) xs :
  (forall x, In x xs -> forall y, f x y = g x y) ->
  forall ys, forall2b f xs ys = forall2b g xs ys.
Proof.
  induction xs as [|x xs IH]; intros H [|y ys]; cbn; try reflexivity.
  rewrite H by (cbn; auto). rewrite IH; auto. intros; apply H; cbn; auto.
Qed.

Lemma len_eqb_sym {A B} (l : list A) (l' : list B) : len_eqb l l' = len_eqb l' l.
Proof. unfold len_eqb. apply Nat.eqb_sym. Qed.

Lemma len_eqb_true {A B} (l : list A) (l' : list B) : len_eqb l l' = true <-> List.length l = List.length l'.
Proof. unfold len_eqb. apply Nat.eqb_eq. Qed.

Lemma bytes_eqb_eq s t : bytes_eqb s t = true <-> s = t.
Proof.
  revert t. induction s as [|a s IH]; intros [|b t]; cbn; try (split; congruence).
  rewrite andb_true_iff, N.eqb_eq, IH. split; [intros [-> ->]; auto|intros [= -> ->]; auto].
Qed.

Lemma bytes_eqb_sym s t : bytes_eqb s t = bytes_eqb t s.
Proof.
  revert t. induction s as [|a s IH]; intros [|b t]; cbn; try reflexivity.
  rewrite N.eqb_sym, IH. reflexivity.
Qed.

Lemma eqb_sym (x y : bool) : Bool.eqb x y = Bool.eqb y x.
Proof. destruct x, y; reflexivity. Qed.

Lemma first_then_true {A} (p k : A -> bool) l :
  first_then p k l = true -> exists e, In e l /\ p e = true /\ k e = true.
Proof.
  induction l as [|a l IH]; cbn; [discriminate|].
  destruct (p a) eqn:E.
  - intros H. exists a. auto.
  - intros H. destruct (IH H) as (e & ? & ? & ?). exists e. auto.
Qed.

Lemma first_then_intro {A} (p k : A -> bool) l e :
  In e l -> p e = true -> k e = true ->
  (forall e', In e' l -> p e' = true -> e' = e) ->
  first_then p k l = true.
Proof.
  induction l as [|a l IH]; cbn; [tauto|].
  intros Hin Hp Hk Hu. destruct (p a) eqn:E.
  - rewrite (Hu a (or_introl eq_refl) E). exact Hk.
  - destruct Hin as [->|Hin]; [congruence|]. apply IH; auto.
Qed.

Lemma NoDup_map_inj_in {A B} (h : A -> B) l x y :
  NoDup (map h l) -> In x l -> In y l -> h x = h y -> x = y.
Proof.
  induction l as [|a l IH]; cbn; [tauto|].
  intros Hn Hx Hy E. inversion Hn as [|? ? Hna Hn']; subst.
  destruct Hx as [->|Hx], Hy as [->|Hy]; auto.
  - exfalso. apply Hna. rewrite E. apply in_map. auto.
  - exfalso. apply Hna. rewrite <- E. apply in_map. auto.
Qed.

Lemma NoDup_map_fst_pairs {A B C} (h : A -> C) (h2 : B -> C) (l : list (A * B)) :
  NoDup (map h (map fst l)) -> NoDup (map (fun p => (h (fst p), h2 (snd p))) l).
Proof.
  induction l as [|[a b] l IH]; cbn; intros H; [constructor|].
  inversion H as [|? ? Hn H']; subst. constructor; auto.
  intros Hin. apply Hn. apply in_map_iff in Hin as ([a' b'] & [= E1 E2] & Hin').
  cbn in *. rewrite <- E1. apply in_map. apply in_map_iff. exists (a', b'). auto.
Qed.

(* ------------------------------------------------------------------ EqualR is Equal with the arguments swapped *)
Lemma EqualR_Equal_both : forall a b, EqualR a b = Equal b a /\ Equal a b = EqualR b a.
Proof.
  induction a as [| x | x | x | xs IH | xs IH | kvs IH] using value_ind'; intros b; destruct b;
    cbn; try (split; reflexivity).
  - rewrite All_In in IH. split.
    + f_equal; [f_equal|].
      * apply forallb_ext_in. intros k _. apply existsb_ext_in. intros x Hx. apply IH; auto.
      * apply forallb_ext_in. intros k Hk. apply existsb_ext_in. intros y _. apply IH; auto.
    + f_equal; [f_equal|].
      * apply forallb_ext_in. intros k Hk. apply existsb_ext_in. intros y _. apply IH; auto.
      * apply forallb_ext_in. intros k _. apply existsb_ext_in. intros x Hx. apply IH; auto.
  - rewrite All_In in IH. split.
    + f_equal. apply forall2b_flip. intros x Hx y. apply IH; auto.
    + f_equal. apply forall2b_flip. intros x Hx y. apply IH; auto.
  - rewrite All_In in IH. split.
    + f_equal. apply forallb_ext_in. intros [k' v'] _.
      apply first_then_ext_in; intros [k v] Hp; specialize (IH _ Hp); cbn in IH; destruct IH as [Hk Hv].
      * apply Hk.
      * apply Hv.
    + f_equal. apply forallb_ext_in. intros [k v] Hp. specialize (IH _ Hp); cbn in IH; destruct IH as [Hk Hv].
      apply first_then_ext_in; intros [k' v'] _.
      * apply Hk.
      * apply Hv.
Qed.

Lemma EqualR_Equal a b : EqualR a b = Equal b a.
Proof. apply EqualR_Equal_both. Qed.

(* the code of each Equal method, in terms of Equal alone *)
Lemma Equal_set xs ys :
  Equal (VSet xs) (VSet ys) =
  len_eqb xs ys && forallb (fun k => existsb (fun y => Equal y k) ys) xs
                && forallb (fun k => existsb (fun x => Equal x k) xs) ys.
Proof.
  cbn. f_equal. f_equal. apply forallb_ext_in. intros k _. apply existsb_ext_in. intros y _.
  apply EqualR_Equal.
Qed.

Lemma Equal_tup xs ys :
  Equal (VTup xs) (VTup ys) = len_eqb xs ys && forall2b Equal xs ys.
Proof. reflexivity. Qed.

Definition fun_lookup_eq (g : list (value * value)) (p : value * value) : bool :=
  first_then (fun q => Equal (fst q) (fst p)) (fun q => Equal (snd p) (snd q)) g.

Lemma Equal_fun f g :
  Equal (VFun f) (VFun g) = len_eqb f g && forallb (fun_lookup_eq g) f.
Proof.
  cbn. f_equal. apply forallb_ext_in. intros [k v] _. unfold fun_lookup_eq.
  apply first_then_ext_in; intros [k' v'] _; cbn; [apply EqualR_Equal|reflexivity].
Qed.

(* ------------------------------------------------------------------ the three container cases, abstractly *)
Lemma set_case (xs ys : list value) :
  NoDup (map canon xs) -> NoDup (map canon ys) ->
  (forall x y, In x xs -> In y ys -> (Equal x y = true <-> canon x = canon y)) ->
  (forall x y, In x xs -> In y ys -> (Equal y x = true <-> canon y = canon x)) ->
  (len_eqb xs ys && forallb (fun k => existsb (fun y => Equal y k) ys) xs
                 && forallb (fun k => existsb (fun x => Equal x k) xs) ys = true
   <-> (forall c, In c (map canon xs) <-> In c (map canon ys))).
Proof.
  intros Nx Ny H1 H2. rewrite !andb_true_iff, !forallb_forall, len_eqb_true. split.
  - intros [[_ Hxs] Hys] c. rewrite !in_map_iff. split.
    + intros (x & <- & Hx). specialize (Hxs x Hx). apply existsb_exists in Hxs as (y & Hy & E).
      apply H2 in E; auto. exists y; auto.
    + intros (y & <- & Hy). specialize (Hys y Hy). apply existsb_exists in Hys as (x & Hx & E).
      apply H1 in E; auto. exists x; auto.
  - intros Hc. split; [split|].
    + rewrite <- (map_length canon xs), <- (map_length canon ys).
      apply Nat.le_antisymm; apply NoDup_incl_length; auto; intros c; apply Hc.
    + intros x Hx. apply existsb_exists.
      assert (In (canon x) (map canon ys)) as Hin by (apply Hc, in_map, Hx).
      apply in_map_iff in Hin as (y & E & Hy). exists y. split; auto. apply H2; auto.
    + intros y Hy. apply existsb_exists.
      assert (In (canon y) (map canon xs)) as Hin by (apply Hc, in_map, Hy).
      apply in_map_iff in Hin as (x & E & Hx). exists x. split; auto. apply H1; auto.
Qed.

Lemma tup_case (eq : value -> value -> bool) (xs ys : list value) :
  (forall x y, In x xs -> In y ys -> (eq x y = true <-> canon x = canon y)) ->
  (len_eqb xs ys && forall2b eq xs ys = true <-> map canon xs = map canon ys).
Proof.
  revert ys. induction xs as [|x xs IH]; intros [|y ys] H; cbn; try (split; congruence).
  unfold len_eqb in *. cbn.
  specialize (IH ys (fun a b Ha Hb => H a b (or_intror Ha) (or_intror Hb))).
  rewrite andb_true_iff in *. rewrite andb_true_iff.
  pose proof (H x y (or_introl eq_refl) (or_introl eq_refl)) as Hxy.
  split.
  - intros [Hl [E Hr]]. f_equal; [apply Hxy; auto|apply IH; auto].
  - intros [= E1 E2]. apply IH in E2 as [? ?]. split; auto. split; auto. apply Hxy; auto.
Qed.

Definition ckv := canon_kv canon.

Lemma fun_case (f g : list (value * value))
      (eqk eqv : value -> value -> bool) :
  NoDup (map canon (map fst f)) -> NoDup (map canon (map fst g)) ->
  (forall p q, In p f -> In q g -> (eqk (fst q) (fst p) = true <-> canon (fst q) = canon (fst p))) ->
  (forall p q, In p f -> In q g -> (eqv (snd p) (snd q) = true <-> canon (snd p) = canon (snd q))) ->
  (len_eqb f g && forallb (fun p => first_then (fun q => eqk (fst q) (fst p)) (fun q => eqv (snd p) (snd q)) g) f = true
   <-> (forall c, In c (map ckv f) <-> In c (map ckv g))).
Proof.
  intros Nf Ng Hk Hv.
  assert (Nf' : NoDup (map ckv f)).
  { erewrite map_ext; [apply (NoDup_map_fst_pairs canon canon f Nf)|]. intros []; reflexivity. }
  assert (Ng' : NoDup (map ckv g)).
  { erewrite map_ext; [apply (NoDup_map_fst_pairs canon canon g Ng)|]. intros []; reflexivity. }
  rewrite andb_true_iff, forallb_forall, len_eqb_true. split.
  - intros [Hl Hf].
    assert (Hincl : incl (map ckv f) (map ckv g)).
    { intros c Hc. apply in_map_iff in Hc as (p & <- & Hp).
      specialize (Hf p Hp). apply first_then_true in Hf as (q & Hq & E1 & E2).
      apply Hk in E1; auto. apply Hv in E2; auto. apply in_map_iff. exists q. split; auto.
      destruct p, q; cbn in *. congruence. }
    intros c. split; [apply Hincl|].
    apply NoDup_length_incl; auto. rewrite !map_length. lia.
  - intros Hc. split.
    + rewrite <- (map_length ckv f), <- (map_length ckv g).
      apply Nat.le_antisymm; apply NoDup_incl_length; auto; intros c; apply Hc.
    + intros p Hp.
      assert (In (ckv p) (map ckv g)) as Hin by (apply Hc, in_map, Hp).
      apply in_map_iff in Hin as (q & E & Hq).
      assert (canon (fst q) = canon (fst p) /\ canon (snd q) = canon (snd p)) as [Ek Ev].
      { destruct p, q; cbn in *. unfold ckv in E. cbn in E. split; congruence. }
      apply (first_then_intro _ _ g q); auto.
      * apply Hk; auto.
      * apply Hv; auto.
      * intros q' Hq' E'. apply Hk in E'; auto.
        apply (NoDup_map_inj_in (fun r => canon (fst r)) g); auto.
        -- rewrite <- map_map. exact Ng.
        -- cbn. congruence.
Qed.

(* ------------------------------------------------------------------ Equal_spec *)
Lemma rep_ok_set xs : rep_ok (VSet xs) <-> All rep_ok xs /\ NoDup (map canon xs).
Proof. reflexivity. Qed.
Lemma rep_ok_fun kvs : rep_ok (VFun kvs) <-> All (kvP rep_ok) kvs /\ NoDup (map canon (map fst kvs)).
Proof. reflexivity. Qed.

Lemma Equal_spec_both : forall a b, rep_ok a -> rep_ok b ->
  (Equal a b = true <-> canon a = canon b) /\ (Equal b a = true <-> canon b = canon a).
Proof.
  induction a as [| x | x | x | xs IH | xs IH | kvs IH] using value_ind'; intros b Ra Rb; destruct b;
    try (cbn; split; split; congruence).
  - cbn. rewrite !eqb_true_iff. split; split; congruence.
  - cbn. rewrite !Z.eqb_eq. split; split; congruence.
  - cbn. rewrite !bytes_eqb_eq. split; split; congruence.
  - (* sets *)
    rename xs0 into ys. rewrite All_In in IH. destruct Ra as [Rxs Nx], Rb as [Rys Ny].
    rewrite All_In in Rxs, Rys.
    rewrite !Equal_set, !canon_set_eq. split.
    + apply set_case; auto; intros x y Hx Hy.
      * exact (proj1 (IH x Hx y (Rxs x Hx) (Rys y Hy))).
      * exact (proj2 (IH x Hx y (Rxs x Hx) (Rys y Hy))).
    + rewrite len_eqb_sym.
      rewrite <- andb_assoc, (andb_comm (forallb _ ys)), andb_assoc.
      rewrite (set_case xs ys); auto.
      * split; intros H c; specialize (H c); tauto.
      * intros x y Hx Hy. exact (proj1 (IH x Hx y (Rxs x Hx) (Rys y Hy))).
      * intros x y Hx Hy. exact (proj2 (IH x Hx y (Rxs x Hx) (Rys y Hy))).
  - (* tuples *)
    rename xs0 into ys. rewrite All_In in IH. cbn in Ra, Rb. rewrite All_In in Ra, Rb.
    rewrite !Equal_tup, !canon_tup_eq. split.
    + apply tup_case. intros x y Hx Hy. exact (proj1 (IH x Hx y (Ra x Hx) (Rb y Hy))).
    + rewrite len_eqb_sym.
      rewrite (forall2b_flip Equal (fun x y => Equal y x) ys) by reflexivity.
      rewrite (tup_case (fun x y => Equal y x) xs ys).
      * split; congruence.
      * intros x y Hx Hy. destruct (IH x Hx y (Ra x Hx) (Rb y Hy)) as [_ H2].
        rewrite H2. split; congruence.
  - (* functions *)
    rename kvs0 into g. rewrite All_In in IH. destruct Ra as [Rf Nf], Rb as [Rg Ng].
    rewrite All_In in Rf, Rg.
    assert (Rf' : forall p, In p kvs -> rep_ok (fst p) /\ rep_ok (snd p)) by (intros p Hp; apply kvP_iff; auto).
    assert (Rg' : forall p, In p g -> rep_ok (fst p) /\ rep_ok (snd p)) by (intros p Hp; apply kvP_iff; auto).
    assert (IH' : forall p, In p kvs -> (forall b, rep_ok b ->
              (Equal (fst p) b = true <-> canon (fst p) = canon b) /\ (Equal b (fst p) = true <-> canon b = canon (fst p)))
              /\ (forall b, rep_ok b ->
              (Equal (snd p) b = true <-> canon (snd p) = canon b) /\ (Equal b (snd p) = true <-> canon b = canon (snd p)))).
    { intros p Hp. specialize (IH p Hp). apply kvP_iff in IH. destruct IH as [I1 I2].
      destruct (Rf' p Hp). split; intros b Hb; [apply I1|apply I2]; auto. }
    rewrite !Equal_fun, !canon_fun_eq. unfold fun_lookup_eq. split.
    + apply (fun_case kvs g Equal Equal); auto.
      * intros p q Hp Hq. apply (proj1 (IH' p Hp)). apply Rg'; auto.
      * intros p q Hp Hq. apply (proj2 (IH' p Hp)). apply Rg'; auto.
    + rewrite (fun_case g kvs Equal Equal); auto.
      * unfold ckv. split; intros H c; specialize (H c); tauto.
      * intros q p Hq Hp. apply (proj1 (IH' p Hp)). apply Rg'; auto.
      * intros q p Hq Hp. apply (proj2 (IH' p Hp)). apply Rg'; auto.
Qed.

Theorem Equal_spec_lemma a b : rep_ok a -> rep_ok b -> (Equal a b = true <-> canon a = canon b).
Proof. intros Ra Rb. apply Equal_spec_both; auto. Qed.

(* ------------------------------------------------------------------ equivalence *)
Lemma Equal_refl a : rep_ok a -> Equal a a = true.
Proof. intros R. apply Equal_spec_lemma; auto. Qed.

Lemma Equal_sym a b : rep_ok a -> rep_ok b -> Equal a b = Equal b a.
Proof.
  intros Ra Rb. destruct (Equal a b) eqn:E1, (Equal b a) eqn:E2; auto.
  - apply Equal_spec_lemma in E1; auto. symmetry in E1. apply Equal_spec_lemma in E1; auto. congruence.
  - apply Equal_spec_lemma in E2; auto. symmetry in E2. apply Equal_spec_lemma in E2; auto. congruence.
Qed.

Lemma Equal_trans a b c : rep_ok a -> rep_ok b -> rep_ok c ->
  Equal a b = true -> Equal b c = true -> Equal a c = true.
Proof.
  intros Ra Rb Rc H1 H2. apply Equal_spec_lemma in H1, H2; auto.
  apply Equal_spec_lemma; auto. congruence.
Qed.

(* ------------------------------------------------------------------ rep_okb decides rep_ok *)
Lemma pairwise_ne_NoDup xs :
  (forall x, In x xs -> rep_ok x) ->
  (pairwise_ne Equal xs = true <-> NoDup (map canon xs)).
Proof.
  induction xs as [|x xs IH]; cbn; intros R.
  - split; [constructor|reflexivity].
  - rewrite andb_true_iff, negb_true_iff, IH by auto. split.
    + intros [Hx Hn]. constructor; auto. intros Hin. apply in_map_iff in Hin as (y & E & Hy).
      assert (existsb (fun y => Equal x y) xs = true); [|congruence].
      apply existsb_exists. exists y. split; auto. apply Equal_spec_lemma; auto.
    + intros Hn. inversion Hn as [|? ? Hx Hn']; subst. split; auto.
      destruct (existsb (fun y => Equal x y) xs) eqn:E; auto.
      apply existsb_exists in E as (y & Hy & E). apply Equal_spec_lemma in E; auto.
      exfalso. apply Hx. rewrite E. apply in_map. auto.
Qed.

Lemma forallb_All {A} (f : A -> bool) (P : A -> Prop) l :
  (forall x, In x l -> (f x = true <-> P x)) -> (forallb f l = true <-> All P l).
Proof.
  intros H. rewrite forallb_forall, All_In. split; intros G x Hx; apply H; auto.
Qed.

Lemma rep_okb_spec : forall v, rep_okb v = true <-> rep_ok v.
Proof.
  induction v as [| x | x | x | xs IH | xs IH | kvs IH] using value_ind'; cbn; try tauto.
  - rewrite All_In in IH. rewrite andb_true_iff, (forallb_All rep_okb rep_ok) by auto.
    split.
    + intros [Ha Hp]. split; auto. apply pairwise_ne_NoDup; auto. apply All_In; auto.
    + intros [Ha Hn]. split; auto. apply pairwise_ne_NoDup; auto. apply All_In; auto.
  - rewrite All_In in IH. apply forallb_All; auto.
  - rewrite All_In in IH. rewrite andb_true_iff.
    rewrite (forallb_All _ (kvP rep_ok)).
    + split.
      * intros [Ha Hp]. split; auto. apply pairwise_ne_NoDup; auto.
        intros k Hk. apply in_map_iff in Hk as ([k' v'] & <- & Hp'). rewrite All_In in Ha.
        specialize (Ha _ Hp'). cbn in *. tauto.
      * intros [Ha Hn]. split; auto. apply pairwise_ne_NoDup; auto.
        intros k Hk. apply in_map_iff in Hk as ([k' v'] & <- & Hp'). rewrite All_In in Ha.
        specialize (Ha _ Hp'). cbn in *. tauto.
    + intros [k v] Hp. specialize (IH _ Hp). cbn in *. rewrite andb_true_iff. tauto.
Qed.

(* ------------------------------------------------------------------ Hash respects Equal *)
Lemma fold_lxor_map {A} (h : A -> N) l a :
  fold_left (fun acc x => N.lxor acc (h x)) l a = fold_left N.lxor (map h l) a.
Proof. revert a. induction l; cbn; auto. Qed.

Lemma fold_lxor_perm l1 l2 : Permutation l1 l2 -> forall a, fold_left N.lxor l1 a = fold_left N.lxor l2 a.
Proof.
  induction 1; intros a; cbn; auto.
  - f_equal. rewrite !N.lxor_assoc. f_equal. apply N.lxor_comm.
  - rewrite IHPermutation1. apply IHPermutation2.
Qed.

Lemma fold_add_map {A} (h : A -> N) l a :
  fold_left (fun acc x => AddUint32 acc (h x)) l a = fold_left AddUint32 (map h l) a.
Proof. revert a. induction l; cbn; auto. Qed.

Definition kv_hash (p : value * value) : N := field_hash (Hash (fst p)) (Hash (snd p)).

Lemma Hash_set xs : Hash (VSet xs) = HashUint32 (fold_left N.lxor (map Hash xs) 0%N).
Proof. cbn. rewrite fold_lxor_map. reflexivity. Qed.

Lemma Hash_tup xs : Hash (VTup xs) = fold_left AddUint32 (map Hash xs) offset32.
Proof. cbn. rewrite fold_add_map. reflexivity. Qed.

Lemma Hash_fun kvs : Hash (VFun kvs) = HashUint32 (fold_left N.lxor (map kv_hash kvs) 0%N).
Proof.
  cbn. f_equal. rewrite <- fold_lxor_map.
  generalize 0%N. induction kvs as [|[k v] l IH]; intros a; cbn; auto.
Qed.

Lemma Hash_canon : forall v, rep_ok v -> Hash (canon v) = Hash v.
Proof.
  induction v as [| x | x | x | xs IH | xs IH | kvs IH] using value_ind'; intros R; try reflexivity.
  - destruct R as [Ra Nd]. rewrite All_In in IH, Ra.
    change (canon (VSet xs)) with (VSet (sort_dedup vcmp (map canon xs))).
    rewrite !Hash_set. f_equal.
    rewrite (fold_lxor_perm _ (map Hash (map canon xs))).
    + rewrite map_map. f_equal. apply map_ext_in. auto.
    + apply Permutation_map, vsort_perm, Nd.
  - cbn in R. rewrite All_In in IH, R.
    change (canon (VTup xs)) with (VTup (map canon xs)).
    rewrite !Hash_tup. f_equal. rewrite map_map. apply map_ext_in. auto.
  - destruct R as [Ra Nd]. rewrite All_In in IH, Ra.
    change (canon (VFun kvs)) with (VFun (sort_dedup kv_cmp (map (canon_kv canon) kvs))).
    rewrite !Hash_fun. f_equal.
    rewrite (fold_lxor_perm _ (map kv_hash (map (canon_kv canon) kvs))).
    + rewrite map_map. f_equal. apply map_ext_in. intros [k v] Hp.
      specialize (IH _ Hp). specialize (Ra _ Hp). cbn in *. unfold kv_hash. cbn.
      destruct IH as [I1 I2], Ra as [R1 R2]. rewrite I1, I2; auto.
    + apply Permutation_map, kvsort_perm.
      erewrite map_ext; [apply (NoDup_map_fst_pairs canon canon kvs Nd)|]. intros []; reflexivity.
Qed.

Theorem Hash_Equal_lemma a b : rep_ok a -> rep_ok b -> Equal a b = true -> Hash a = Hash b.
Proof.
  intros Ra Rb E. apply Equal_spec_lemma in E; auto.
  rewrite <- (Hash_canon a Ra), <- (Hash_canon b Rb). congruence.
Qed.

(* ------------------------------------------------------------------ hashmap.HashMap refines an association map *)
Lemma veqb_sym a b : veqb a b = veqb b a.
Proof.
  destruct (veqb a b) eqn:E1, (veqb b a) eqn:E2; auto.
  - apply veqb_eq in E1. subst. rewrite veqb_refl in E2. discriminate.
  - apply veqb_eq in E2. subst. rewrite veqb_refl in E1. discriminate.
Qed.

Lemma NoDup_app_single {A} (l : list A) x : NoDup l -> ~ In x l -> NoDup (l ++ [x]).
Proof.
  induction 1 as [|a l Ha Hn IH]; cbn; intros Hx.
  - constructor; auto. constructor.
  - constructor.
    + intros Hin. apply in_app_or in Hin as [?|[->|[]]]; auto.
    + apply IH. tauto.
Qed.

Section HashMapProofs.
  Context {V : Type}.
  Notation entries := (list (value * V)).

  Lemma bucket_put (m : list (N * entries)) h es h' :
    bucket (put_bucket m h es) h' = if (h =? h')%N then Some es else bucket m h'.
  Proof.
    induction m as [|[h0 es0] m IH]; cbn.
    - destruct (h =? h')%N; reflexivity.
    - destruct (h0 =? h)%N eqn:E0; cbn.
      + apply N.eqb_eq in E0. subst h0. destruct (h =? h')%N; reflexivity.
      + destruct (h0 =? h')%N eqn:E1.
        * apply N.eqb_eq in E1. subst h0. rewrite N.eqb_sym in E0. rewrite E0. reflexivity.
        * apply IH.
  Qed.

  (* association map facts *)
  Lemma amap_get_set (m : entries) c v c' :
    amap_get (amap_set m c v) c' = if veqb c c' then Some v else amap_get m c'.
  Proof.
    induction m as [|[k0 v0] m IH]; cbn.
    - reflexivity.
    - destruct (veqb k0 c) eqn:E; cbn.
      + apply veqb_eq in E. subst k0. destruct (veqb c c'); reflexivity.
      + rewrite IH. destruct (veqb k0 c') eqn:E'; auto.
        apply veqb_eq in E'. subst k0. rewrite veqb_sym, E. reflexivity.
  Qed.

  Lemma amap_get_None (m : entries) c : amap_get m c = None <-> ~ In c (map fst m).
  Proof.
    induction m as [|[k0 v0] m IH]; cbn; [tauto|].
    destruct (veqb k0 c) eqn:E.
    - apply veqb_eq in E. split; [discriminate|tauto].
    - rewrite IH. split; [|tauto]. intros H [->|H']; auto. rewrite veqb_refl in E. discriminate.
  Qed.

  Lemma amap_set_absent (m : entries) c v : amap_get m c = None -> amap_set m c v = m ++ [(c, v)].
  Proof.
    induction m as [|[k0 v0] m IH]; cbn; auto.
    destruct (veqb k0 c); [discriminate|]. intros H. rewrite IH; auto.
  Qed.

  Lemma amap_set_present_fst (m : entries) c v : amap_get m c <> None -> map fst (amap_set m c v) = map fst m.
  Proof.
    induction m as [|[k0 v0] m IH]; cbn; [congruence|].
    destruct (veqb k0 c); cbn; auto. intros H. rewrite IH; auto.
  Qed.

  (* bucket facts *)
  Lemma bucket_update_None (es : entries) k v :
    bucket_update es k v = None <-> bucket_get es k = None.
  Proof.
    induction es as [|[k0 v0] es IH]; cbn; [tauto|].
    destruct (Equal k0 k); [split; discriminate|].
    destruct (bucket_update es k v); [split; [discriminate|]|tauto].
    intros H. apply IH in H. discriminate.
  Qed.

  Lemma bucket_update_same (es es' : entries) k v k' :
    bucket_update es k v = Some es' ->
    (forall e, In e (map fst es) -> Equal e k' = Equal e k) ->
    bucket_get es' k' = Some v.
  Proof.
    revert es'. induction es as [|[k0 v0] es IH]; cbn; intros es' H He; [discriminate|].
    destruct (Equal k0 k) eqn:E.
    - inversion H; subst. cbn. rewrite (He k0 (or_introl eq_refl)), E. reflexivity.
    - destruct (bucket_update es k v) eqn:U; [|discriminate]. inversion H; subst. cbn.
      rewrite (He k0 (or_introl eq_refl)), E. apply IH; auto.
  Qed.

  Lemma bucket_update_other (es es' : entries) k v k' :
    bucket_update es k v = Some es' ->
    (forall e, In e (map fst es) -> Equal e k = true -> Equal e k' = false) ->
    bucket_get es' k' = bucket_get es k'.
  Proof.
    revert es'. induction es as [|[k0 v0] es IH]; cbn; intros es' H He; [discriminate|].
    destruct (Equal k0 k) eqn:E.
    - inversion H; subst. cbn. rewrite (He k0 (or_introl eq_refl) E). reflexivity.
    - destruct (bucket_update es k v) eqn:U; [|discriminate]. inversion H; subst. cbn.
      destruct (Equal k0 k'); auto.
  Qed.

  Lemma bucket_update_keys (es es' : entries) k v :
    bucket_update es k v = Some es' -> map fst es' = map fst es.
  Proof.
    revert es'. induction es as [|[k0 v0] es IH]; cbn; intros es' H; [discriminate|].
    destruct (Equal k0 k).
    - inversion H; subst. reflexivity.
    - destruct (bucket_update es k v); [|discriminate]. inversion H; subst. cbn. f_equal. auto.
  Qed.

  Lemma bucket_get_app (es : entries) k v k' :
    bucket_get (es ++ [(k, v)]) k' =
    match bucket_get es k' with Some x => Some x | None => if Equal k k' then Some v else None end.
  Proof.
    induction es as [|[k0 v0] es IH]; cbn; [reflexivity|].
    destruct (Equal k0 k'); auto.
  Qed.

  Lemma bucket_get_None (es : entries) k :
    bucket_get es k = None <-> (forall e, In e (map fst es) -> Equal e k = false).
  Proof.
    induction es as [|[k0 v0] es IH]; cbn; [split; [intros _ e []|auto]|].
    destruct (Equal k0 k) eqn:E.
    - split; [discriminate|]. intros H. rewrite (H k0) in E; auto. discriminate.
    - rewrite IH. split; [intros H e [<-|He]; auto|auto].
  Qed.

  (* the invariant *)
  Definition key_ok (es : entries) (hash : N) : Prop :=
    forall e, In e (map fst es) -> Hash e = hash /\ rep_ok e.

  Definition hm_inv (h : hmap V) (m : entries) : Prop :=
    (forall hash es, bucket (hm_m h) hash = Some es -> key_ok es hash) /\
    (forall k, rep_ok k -> hm_get h k = amap_get m (canon k)) /\
    map canon (hm_keys h) = map fst m /\
    NoDup (map fst m).

  Lemma hm_inv_new : hm_inv hm_new [].
  Proof.
    split; [|split; [|split]]; cbn; auto.
    - intros hash es; discriminate.
    - constructor.
  Qed.

  Lemma Equal_iff_canon a b : rep_ok a -> rep_ok b -> Equal a b = true <-> canon a = canon b.
  Proof. apply Equal_spec_lemma. Qed.

  Lemma Equal_false_canon a b : rep_ok a -> rep_ok b -> Equal a b = false <-> canon a <> canon b.
  Proof.
    intros Ra Rb. pose proof (Equal_spec_lemma a b Ra Rb). destruct (Equal a b); split; intros; try congruence.
    - exfalso. apply H0, H; auto.
    - intros E. apply H in E. discriminate.
  Qed.

  Lemma Hash_canon_eq a b : rep_ok a -> rep_ok b -> canon a = canon b -> Hash a = Hash b.
  Proof. intros Ra Rb E. rewrite <- (Hash_canon a Ra), <- (Hash_canon b Rb). congruence. Qed.

  Lemma veqb_false a b : veqb a b = false <-> a <> b.
  Proof. pose proof (veqb_eq a b). destruct (veqb a b); split; intros; try congruence. exfalso. apply H0, H; auto. intros E. apply H in E. discriminate. Qed.

  Lemma hm_inv_set h m k v : rep_ok k -> hm_inv h m -> hm_inv (hm_set h k v) (amap_set m (canon k) v).
  Proof.
    intros Rk (IA & IB & IC & ID).
    pose proof (IB k Rk) as Bk. unfold hm_get in Bk.
    unfold hm_set. destruct (bucket (hm_m h) (Hash k)) as [es|] eqn:Bu.
    - pose proof (IA _ _ Bu) as Kes.
      destruct (bucket_update es k v) as [es'|] eqn:U.
      + (* existing key: value replaced *)
        assert (Hpres : amap_get m (canon k) <> None).
        { rewrite <- Bk. intros Hn. apply (proj2 (bucket_update_None es k v)) in Hn. congruence. }
        split; [|split; [|split]]; cbn.
        * intros hash es0. rewrite bucket_put. destruct (Hash k =? hash)%N eqn:E.
          -- apply N.eqb_eq in E. subst hash. intros [= <-]. unfold key_ok.
             rewrite (bucket_update_keys _ _ _ _ U). apply Kes.
          -- apply IA.
        * intros k' Rk'. unfold hm_get. cbn. rewrite bucket_put, amap_get_set.
          destruct (veqb (canon k) (canon k')) eqn:Ec.
          -- apply veqb_eq in Ec. rewrite (Hash_canon_eq k k') by auto. rewrite N.eqb_refl.
             apply (bucket_update_same es es' k v k'); auto.
             intros e He. destruct (Kes e He) as [_ Re].
             destruct (Equal e k) eqn:E1.
             ++ apply Equal_iff_canon; auto. apply Equal_iff_canon in E1; auto. congruence.
             ++ apply Equal_false_canon; auto. apply Equal_false_canon in E1; auto. congruence.
          -- apply veqb_false in Ec. destruct (Hash k =? Hash k')%N eqn:Eh.
             ++ apply N.eqb_eq in Eh. rewrite (bucket_update_other es es' k v k'); auto.
                ** specialize (IB k' Rk'). unfold hm_get in IB. rewrite <- Eh, Bu in IB. exact IB.
                ** intros e He E1. destruct (Kes e He) as [_ Re].
                   apply Equal_false_canon; auto. apply Equal_iff_canon in E1; auto. congruence.
             ++ apply (IB k' Rk').
        * rewrite amap_set_present_fst; auto.
        * rewrite amap_set_present_fst; auto.
      + (* new key in an existing bucket *)
        apply (proj1 (bucket_update_None es k v)) in U. rewrite U in Bk. symmetry in Bk.
        rewrite (amap_set_absent _ _ _ Bk).
        split; [|split; [|split]]; cbn.
        * intros hash es0. rewrite bucket_put. destruct (Hash k =? hash)%N eqn:E.
          -- apply N.eqb_eq in E. subst hash. intros [= <-]. unfold key_ok.
             rewrite map_app. intros e He. apply in_app_or in He as [He|[<-|[]]]; auto.
          -- apply IA.
        * intros k' Rk'. unfold hm_get. cbn. rewrite bucket_put.
          rewrite <- (amap_set_absent _ _ _ Bk), amap_get_set.
          destruct (veqb (canon k) (canon k')) eqn:Ec.
          -- apply veqb_eq in Ec. rewrite (Hash_canon_eq k k') by auto. rewrite N.eqb_refl.
             rewrite bucket_get_app.
             assert (bucket_get es k' = None) as ->.
             { apply bucket_get_None. intros e He. destruct (Kes e He) as [_ Re].
               rewrite bucket_get_None in U. specialize (U e He).
               apply Equal_false_canon; auto. apply Equal_false_canon in U; auto. congruence. }
             assert (Equal k k' = true) as -> by (apply Equal_iff_canon; auto). reflexivity.
          -- apply veqb_false in Ec. destruct (Hash k =? Hash k')%N eqn:Eh.
             ++ apply N.eqb_eq in Eh. rewrite bucket_get_app.
                assert (Equal k k' = false) as -> by (apply Equal_false_canon; auto).
                specialize (IB k' Rk'). unfold hm_get in IB. rewrite <- Eh, Bu in IB. rewrite <- IB.
                destruct (bucket_get es k'); reflexivity.
             ++ apply (IB k' Rk').
        * rewrite !map_app. cbn. congruence.
        * rewrite map_app. cbn. apply NoDup_app_single; auto. apply amap_get_None; auto.
    - (* new bucket *)
      symmetry in Bk. rewrite (amap_set_absent _ _ _ Bk).
      split; [|split; [|split]]; cbn.
      * intros hash es0. rewrite bucket_put. destruct (Hash k =? hash)%N eqn:E.
        -- apply N.eqb_eq in E. subst hash. intros [= <-]. intros e [<-|[]]. auto.
        -- apply IA.
      * intros k' Rk'. unfold hm_get. cbn. rewrite bucket_put.
        rewrite <- (amap_set_absent _ _ _ Bk), amap_get_set.
        destruct (veqb (canon k) (canon k')) eqn:Ec.
        -- apply veqb_eq in Ec. rewrite (Hash_canon_eq k k') by auto. rewrite N.eqb_refl. cbn.
           assert (Equal k k' = true) as -> by (apply Equal_iff_canon; auto). reflexivity.
        -- apply veqb_false in Ec. destruct (Hash k =? Hash k')%N eqn:Eh.
           ++ apply N.eqb_eq in Eh. cbn.
              assert (Equal k k' = false) as -> by (apply Equal_false_canon; auto).
              specialize (IB k' Rk'). unfold hm_get in IB. rewrite <- Eh, Bu in IB. exact IB.
           ++ apply (IB k' Rk').
      * rewrite !map_app. cbn. congruence.
      * rewrite map_app. cbn. apply NoDup_app_single; auto. apply amap_get_None; auto.
  Qed.

  Definition hop_ok (o : hop V) : Prop := match o with HSet k _ => rep_ok k | HClear => True end.

  Lemma hm_inv_run ops : Forall hop_ok ops -> forall h m, hm_inv h m ->
    hm_inv (fold_left hm_step ops h) (fold_left amap_step ops m).
  Proof.
    induction 1 as [|o ops Ho Hops IH]; intros h m I; cbn; auto.
    apply IH. destruct o as [k v|]; cbn.
    - apply hm_inv_set; auto.
    - apply hm_inv_new.
  Qed.

  Theorem hashmap_refines_lemma (ops : list (hop V)) :
    Forall hop_ok ops ->
    (forall k, rep_ok k -> hm_get (hm_run ops) k = amap_get (amap_run ops) (canon k)) /\
    map canon (hm_keys (hm_run ops)) = map fst (amap_run ops) /\
    NoDup (map fst (amap_run ops)).
  Proof.
    intros H. destruct (hm_inv_run ops H hm_new [] hm_inv_new) as (_ & B & C & D). auto.
  Qed.
End HashMapProofs.

(* ------------------------------------------------------------------ the causal wrapper is transparent *)
Section cval_ind_nested.
  Context (P : cval -> Prop).
  Context (HD : P CDefault) (HB : forall b, P (CBool b)) (HN : forall z, P (CNum z))
          (HS : forall s, P (CStr s))
          (HSet : forall xs, All P xs -> P (CSet xs))
          (HTup : forall xs, All P xs -> P (CTup xs))
          (HFun : forall kvs, All (kvP P) kvs -> P (CFun kvs))
          (HW : forall clk v, P v -> P (CWrap clk v)).

  Fixpoint cval_ind' (c : cval) : P c :=
    match c with
    | CDefault => HD
    | CBool b => HB b
    | CNum z => HN z
    | CStr s => HS s
    | CSet xs =>
        HSet xs ((fix go (l : list cval) : All P l :=
                    match l with [] => I | x :: l' => conj (cval_ind' x) (go l') end) xs)
    | CTup xs =>
        HTup xs ((fix go (l : list cval) : All P l :=
                    match l with [] => I | x :: l' => conj (cval_ind' x) (go l') end) xs)
    | CFun kvs =>
        HFun kvs ((fix go (l : list (cval * cval)) : All (kvP P) l :=
                     match l with
                     | [] => I
                     | (k, v) :: l' => conj (conj (cval_ind' k) (cval_ind' v)) (go l')
                     end) kvs)
    | CWrap clk v => HW clk v (cval_ind' v)
    end.
End cval_ind_nested.

Lemma strip_peel c : strip (peel c) = strip c.
Proof. induction c using cval_ind'; cbn; auto. Qed.

Lemma peel_nowrap c : match peel c with CWrap _ _ => False | _ => True end.
Proof. induction c using cval_ind'; cbn; auto. Qed.

Lemma forallb_map {A B} (f : B -> bool) (g : A -> B) l : forallb f (map g l) = forallb (fun x => f (g x)) l.
Proof. induction l; cbn; congruence. Qed.
Lemma existsb_map {A B} (f : B -> bool) (g : A -> B) l : existsb f (map g l) = existsb (fun x => f (g x)) l.
Proof. induction l; cbn; congruence. Qed.
Lemma first_then_map {A B} (p k : B -> bool) (g : A -> B) l :
  first_then p k (map g l) = first_then (fun x => p (g x)) (fun x => k (g x)) l.
Proof. induction l; cbn; auto. rewrite IHl. reflexivity. Qed.
Lemma forall2b_map {A B A' B'} (f : A' -> B' -> bool) (g : A -> A') (g' : B -> B') l l' :
  forall2b f (map g l) (map g' l') = forall2b (fun x y => f (g x) (g' y)) l l'.
Proof. revert l'. induction l; intros [|y l']; cbn; auto. rewrite IHl. reflexivity. Qed.
Lemma len_eqb_map {A B A' B'} (g : A -> A') (g' : B -> B') (l : list A) (l' : list B) :
  len_eqb (map g l) (map g' l') = len_eqb l l'.
Proof. unfold len_eqb. rewrite !map_length. reflexivity. Qed.

Definition strip_kv (p : cval * cval) : value * value := match p with (k, v) => (strip k, strip v) end.

Lemma EqualC_strip_both : forall a b,
  EqualC a b = Equal (strip a) (strip b) /\ EqualCR a b = EqualR (strip a) (strip b).
Proof.
  induction a as [| x | x | x | xs IH | xs IH | kvs IH | clk a IH] using cval_ind'; intros b;
    [ | | | | | | | cbn; apply IH ];
    rewrite <- (strip_peel b); pose proof (peel_nowrap b) as Hn; cbn [EqualC EqualCR];
    destruct (peel b) as [| y | y | y | ys | ys | g | ? ?] eqn:Pb; try contradiction;
    try (cbn; split; reflexivity).
  - (* sets *)
    rewrite All_In in IH. cbn [strip]. cbn [Equal EqualR].
    rewrite !len_eqb_map, !forallb_map. split.
    + f_equal; [f_equal|].
      * apply forallb_ext_in. intros k Hk. rewrite existsb_map. apply existsb_ext_in. intros y _. apply IH; auto.
      * apply forallb_ext_in. intros k _. rewrite existsb_map. apply existsb_ext_in. intros x Hx. apply IH; auto.
    + f_equal; [f_equal|].
      * apply forallb_ext_in. intros k _. rewrite existsb_map. apply existsb_ext_in. intros x Hx. apply IH; auto.
      * apply forallb_ext_in. intros k Hk. rewrite existsb_map. apply existsb_ext_in. intros y _. apply IH; auto.
  - (* tuples *)
    rewrite All_In in IH. cbn [strip]. cbn [Equal EqualR].
    rewrite !len_eqb_map, !forall2b_map. split.
    + f_equal. apply forall2b_ext_in. intros x Hx y. apply IH; auto.
    + f_equal. apply forall2b_ext_in. intros x Hx y. apply IH; auto.
  - (* functions *)
    rewrite All_In in IH. cbn [strip]. cbn [Equal EqualR].
    change (map (fun p : cval * cval => let (k, v) := p in (strip k, strip v))) with (map strip_kv).
    rewrite !len_eqb_map, !forallb_map. split.
    + f_equal. apply forallb_ext_in. intros [k v] Hp. cbn. rewrite first_then_map.
      specialize (IH _ Hp). cbn in IH. destruct IH as [Ik Iv].
      apply first_then_ext_in; intros [k' v'] _; cbn; [apply Ik|apply Iv].
    + f_equal. apply forallb_ext_in. intros [k' v'] _. cbn. rewrite first_then_map.
      apply first_then_ext_in; intros [k v] Hp; cbn; specialize (IH _ Hp); cbn in IH; destruct IH as [Ik Iv];
        [apply Ik|apply Iv].
Qed.

Theorem EqualC_transparent_lemma a b : EqualC a b = Equal (strip a) (strip b).
Proof. apply EqualC_strip_both. Qed.

Definition kv_hashC (p : cval * cval) : N := field_hash (HashC (fst p)) (HashC (snd p)).

Lemma HashC_fun kvs : HashC (CFun kvs) = HashUint32 (fold_left N.lxor (map kv_hashC kvs) 0%N).
Proof.
  cbn [HashC]. f_equal. rewrite <- fold_lxor_map.
  generalize 0%N. induction kvs as [|[k v] l IH]; intros a; cbn [fold_left]; auto.
Qed.

Theorem HashC_transparent_lemma : forall c, HashC c = Hash (strip c).
Proof.
  induction c as [| x | x | x | xs IH | xs IH | kvs IH | clk a IH] using cval_ind';
    cbn [HashC strip]; try reflexivity; auto.
  - rewrite Hash_set. f_equal. rewrite All_In in IH. rewrite fold_lxor_map, map_map. f_equal. apply map_ext_in. auto.
  - rewrite Hash_tup. rewrite All_In in IH. rewrite fold_add_map, map_map. f_equal. apply map_ext_in. auto.
  - change (HashC (CFun kvs) = Hash (VFun (map strip_kv kvs))).
    rewrite HashC_fun, Hash_fun. f_equal. rewrite All_In in IH. rewrite map_map. f_equal. apply map_ext_in.
    intros [k v] Hp. specialize (IH _ Hp). cbn in IH. destruct IH as [Ik Iv].
    unfold kv_hashC, kv_hash. cbn [fst snd strip_kv]. rewrite Ik, Iv. reflexivity.
Qed.

(* ------------------------------------------------------------------ the builders establish rep_ok *)
Lemma set_has_In l x :
  (forall y, In y l -> rep_ok y) -> rep_ok x ->
  (existsb (fun y => Equal y x) l = true <-> In (canon x) (map canon l)).
Proof.
  intros Rl Rx. rewrite existsb_exists, in_map_iff. split.
  - intros (y & Hy & E). exists y. split; auto. symmetry. apply Equal_spec_lemma; auto.
    rewrite Equal_sym; auto.
  - intros (y & E & Hy). exists y. split; auto. apply Equal_spec_lemma; auto.
Qed.

Lemma set_add_In l x y : In y (set_add l x) -> In y l \/ y = x.
Proof.
  induction l as [|z l IH]; cbn.
  - intros [<-|[]]. auto.
  - destruct (Equal z x).
    + intros [<-|H]; auto.
    + intros [<-|H]; auto. destruct (IH H); auto.
Qed.

Lemma set_add_canon l x :
  (forall y, In y l -> rep_ok y) -> rep_ok x ->
  map canon (set_add l x) =
  if existsb (fun y => Equal y x) l then map canon l else map canon l ++ [canon x].
Proof.
  intros Rl Rx. induction l as [|z l IH]; cbn; [reflexivity|].
  destruct (Equal z x) eqn:E; cbn.
  - f_equal. symmetry. apply Equal_spec_lemma; auto. apply Rl. cbn; auto.
  - rewrite IH by (intros; apply Rl; cbn; auto).
    destruct (existsb (fun y => Equal y x) l); reflexivity.
Qed.

Lemma set_add_rep l x :
  (forall y, In y l -> rep_ok y) -> rep_ok x -> NoDup (map canon l) ->
  (forall y, In y (set_add l x) -> rep_ok y) /\ NoDup (map canon (set_add l x)) /\
  (forall c, In c (map canon (set_add l x)) <-> In c (map canon l) \/ c = canon x).
Proof.
  intros Rl Rx Nd. split; [|split].
  - intros y Hy. apply set_add_In in Hy as [Hy| ->]; auto.
  - rewrite set_add_canon by auto. destruct (existsb (fun y => Equal y x) l) eqn:E; auto.
    apply NoDup_app_single; auto. intros Hin. apply set_has_In in Hin; auto. congruence.
  - intros c. rewrite set_add_canon by auto. destruct (existsb (fun y => Equal y x) l) eqn:E.
    + apply set_has_In in E; auto. split; [auto|]. intros [H| ->]; auto.
    + rewrite in_app_iff. cbn. intuition.
Qed.

Lemma fold_set_add_rep xs : forall acc,
  (forall y, In y acc -> rep_ok y) -> (forall y, In y xs -> rep_ok y) -> NoDup (map canon acc) ->
  (forall y, In y (fold_left set_add xs acc) -> In y acc \/ In y xs) /\
  (forall y, In y (fold_left set_add xs acc) -> rep_ok y) /\
  NoDup (map canon (fold_left set_add xs acc)) /\
  (forall c, In c (map canon (fold_left set_add xs acc)) <-> In c (map canon acc) \/ In c (map canon xs)).
Proof.
  induction xs as [|x xs IH]; intros acc Ra Rx Nd; cbn.
  - repeat split; auto. intros [H|[]]; auto.
  - destruct (set_add_rep acc x Ra (Rx x (or_introl eq_refl)) Nd) as (R1 & N1 & M1).
    destruct (IH (set_add acc x) R1 (fun y Hy => Rx y (or_intror Hy)) N1) as (I2 & R2 & N2 & M2).
    repeat split; auto.
    + intros y Hy. apply I2 in Hy as [Hy|Hy]; auto. apply set_add_In in Hy as [Hy| ->]; auto.
    + intros Hc. apply M2 in Hc as [Hc|Hc]; auto. apply M1 in Hc as [Hc| ->]; auto.
    + intros [Hc|[<-|Hc]]; apply M2; auto; left; apply M1; auto.
Qed.

Lemma MakeSet_ok xs : (forall y, In y xs -> rep_ok y) ->
  rep_ok (MakeSet xs) /\ canon (MakeSet xs) = canon (VSet xs).
Proof.
  intros Rx. unfold MakeSet.
  destruct (fold_set_add_rep xs [] (fun y H => match H with end) Rx (NoDup_nil _)) as (I & R & N & M).
  split.
  - split; [apply All_In; auto|auto].
  - apply canon_set_eq. intros c. rewrite M. cbn. tauto.
Qed.

(* ------------------------------------------------------------------ fun_add (MapBuilder.Set on a function) *)
Lemma fun_add_In l k v p : In p (fun_add l k v) -> In p l \/ p = (k, v).
Proof.
  induction l as [|[k' v'] l IH]; cbn.
  - intros [<-|[]]. auto.
  - destruct (Equal k' k).
    + intros [<-|H]; auto.
    + intros [<-|H]; auto. destruct (IH H); auto.
Qed.

Lemma fun_add_keys l k v :
  (forall y, In y (map fst l) -> rep_ok y) -> rep_ok k ->
  map canon (map fst (fun_add l k v)) =
  if existsb (fun y => Equal y k) (map fst l) then map canon (map fst l) else map canon (map fst l) ++ [canon k].
Proof.
  intros Rl Rk. induction l as [|[k' v'] l IH]; cbn; [reflexivity|].
  destruct (Equal k' k) eqn:E; cbn.
  - f_equal. symmetry. apply Equal_spec_lemma; auto. apply Rl. cbn; auto.
  - rewrite IH by (intros; apply Rl; cbn; auto).
    destruct (existsb (fun y => Equal y k) (map fst l)); reflexivity.
Qed.

Definition ckvp (p : value * value) : value * value := (canon (fst p), canon (snd p)).

Lemma fun_add_pairs l k v :
  (forall y, In y (map fst l) -> rep_ok y) -> rep_ok k -> NoDup (map canon (map fst l)) ->
  forall p, In p (map ckvp (fun_add l k v)) <->
            (In p (map ckvp l) /\ fst p <> canon k) \/ p = (canon k, canon v).
Proof.
  intros Rl Rk Nd. induction l as [|[k' v'] l IH]; intros p; cbn.
  - split; [intros [<-|[]]; auto|intros [[[] _]| ->]; auto].
  - inversion Nd as [|? ? Hn Nd']; subst. cbn in Rl.
    assert (Rk' : rep_ok k') by (apply Rl; auto).
    destruct (Equal k' k) eqn:E; cbn.
    + apply Equal_spec_lemma in E; auto. unfold ckvp at 1. cbn [fst snd]. split.
      * intros [<-|Hin]; auto. left. split; auto. intros Hc. apply Hn.
        apply in_map_iff in Hin as ([a b] & <- & Hab). cbn in Hc. rewrite E, <- Hc.
        apply in_map. apply in_map_iff. exists (a, b). auto.
      * intros [[[<-|Hin] Hne]| ->]; auto. cbn in Hne. congruence.
    + assert (Hne : canon k' <> canon k).
      { intros Hc. apply Equal_spec_lemma in Hc; auto. congruence. }
      rewrite IH by auto. unfold ckvp at 1 3. cbn [fst snd]. split.
      * intros [<-|[[Hin Hp]| ->]]; auto.
      * intros [[[<-|Hin] Hp]| ->]; auto.
Qed.

Lemma fun_add_rep l k v :
  (forall p, In p l -> rep_ok (fst p) /\ rep_ok (snd p)) -> rep_ok k -> rep_ok v -> NoDup (map canon (map fst l)) ->
  (forall p, In p (fun_add l k v) -> rep_ok (fst p) /\ rep_ok (snd p)) /\
  NoDup (map canon (map fst (fun_add l k v))).
Proof.
  intros Rl Rk Rv Nd.
  assert (Rkeys : forall y, In y (map fst l) -> rep_ok y).
  { intros y Hy. apply in_map_iff in Hy as (p & <- & Hp). apply Rl; auto. }
  split.
  - intros p Hp. apply fun_add_In in Hp as [Hp| ->]; auto.
  - rewrite fun_add_keys by auto. destruct (existsb (fun y => Equal y k) (map fst l)) eqn:E; auto.
    apply NoDup_app_single; auto. intros Hin. apply set_has_In in Hin; auto. congruence.
Qed.

(* folding a list of bindings with pairwise different keys into an accumulator: the list wins *)
Lemma fold_fun_add l : forall acc,
  (forall p, In p l -> rep_ok (fst p) /\ rep_ok (snd p)) ->
  (forall p, In p acc -> rep_ok (fst p) /\ rep_ok (snd p)) ->
  NoDup (map canon (map fst l)) -> NoDup (map canon (map fst acc)) ->
  let res := fold_left (fun a p => fun_add a (fst p) (snd p)) l acc in
  (forall p, In p res -> In p acc \/ In p l) /\
  NoDup (map canon (map fst res)) /\
  (forall p, In p (map ckvp res) <->
             In p (map ckvp l) \/ (In p (map ckvp acc) /\ ~ In (fst p) (map canon (map fst l)))).
Proof.
  induction l as [|[k v] l IH]; intros acc Rl Ra Nl Na; cbn [fold_left].
  - cbn. repeat split; auto. + intros [[]|[H _]]; auto. 
  - inversion Nl as [|? ? Hn Nl']; subst. cbn [fst snd].
    destruct (Rl (k, v) (or_introl eq_refl)) as [Rk Rv]. cbn in Rk, Rv.
    assert (Rkeys : forall y, In y (map fst acc) -> rep_ok y).
    { intros y Hy. apply in_map_iff in Hy as (p & <- & Hp). apply Ra; auto. }
    destruct (fun_add_rep acc k v Ra Rk Rv Na) as [Ra' Na'].
    pose proof (fun_add_pairs acc k v Rkeys Rk Na) as Mp.
    destruct (IH (fun_add acc k v) (fun p Hp => Rl p (or_intror Hp)) Ra' Nl' Na') as (I1 & I2 & I3).
    split; [|split; [exact I2|]].
    + intros p Hp. apply I1 in Hp as [Hp|Hp]; [|right; right; auto].
      apply fun_add_In in Hp as [Hp| ->]; auto. right. left. reflexivity.
    + intros p. rewrite I3, Mp. cbn [map In fst snd]. unfold ckvp at 3. cbn [fst snd]. split.
      * intros [Hin|[[[Hin Hne]| ->] Hnl]]; auto.
        right. split; auto. intros [Hc|Hc]; auto.
      * intros [[<-|Hin]|[Hin Hnl]].
        -- right. split; [right; reflexivity|exact Hn].
        -- left. exact Hin.
        -- right. split; [left; split; [exact Hin|]|].
           ++ intros Hc. apply Hnl. left. symmetry. exact Hc.
           ++ intros Hc. apply Hnl. right. exact Hc.
Qed.

(* ------------------------------------------------------------------ gob round trip *)
Section cval_ind_clock.
  Context (P : cval -> Prop).
  Context (HD : P CDefault) (HB : forall b, P (CBool b)) (HN : forall z, P (CNum z))
          (HS : forall s, P (CStr s))
          (HSet : forall xs, All P xs -> P (CSet xs))
          (HTup : forall xs, All P xs -> P (CTup xs))
          (HFun : forall kvs, All (kvP P) kvs -> P (CFun kvs))
          (HW : forall clk v, All (fun p => P (fst p)) clk -> P v -> P (CWrap clk v)).

  Fixpoint cval_ind2 (c : cval) : P c :=
    match c with
    | CDefault => HD
    | CBool b => HB b
    | CNum z => HN z
    | CStr s => HS s
    | CSet xs =>
        HSet xs ((fix go (l : list cval) : All P l :=
                    match l with [] => I | x :: l' => conj (cval_ind2 x) (go l') end) xs)
    | CTup xs =>
        HTup xs ((fix go (l : list cval) : All P l :=
                    match l with [] => I | x :: l' => conj (cval_ind2 x) (go l') end) xs)
    | CFun kvs =>
        HFun kvs ((fix go (l : list (cval * cval)) : All (kvP P) l :=
                     match l with
                     | [] => I
                     | (k, v) :: l' => conj (conj (cval_ind2 k) (cval_ind2 v)) (go l')
                     end) kvs)
    | CWrap clk v =>
        HW clk v ((fix go (l : list (cval * Z)) : All (fun p => P (fst p)) l :=
                     match l with
                     | [] => I
                     | (k, n) :: l' => conj (cval_ind2 k) (go l')
                     end) clk) (cval_ind2 v)
    end.
End cval_ind_clock.

Lemma pairwise_ne_mid {A} (eq : A -> A -> bool) l1 x l2 :
  pairwise_ne eq (l1 ++ x :: l2) = true -> forall y, In y l1 -> eq y x = false.
Proof.
  induction l1 as [|z l1 IH]; cbn; [tauto|].
  rewrite andb_true_iff, negb_true_iff. intros [Hz Hr] y [->|Hy]; [|auto].
  destruct (eq y x) eqn:E; auto.
  assert (existsb (fun w => eq y w) (l1 ++ x :: l2) = true); [|congruence].
  apply existsb_exists. exists x. split; auto. apply in_or_app. right. cbn; auto.
Qed.

Lemma cset_add_fresh l x : (forall y, In y l -> EqualC y x = false) -> cset_add l x = l ++ [x].
Proof.
  induction l as [|z l IH]; cbn; intros H; [reflexivity|].
  rewrite (H z (or_introl eq_refl)). f_equal. apply IH. auto.
Qed.

Lemma cfun_add_fresh l k v : (forall y, In y (map fst l) -> EqualC y k = false) -> cfun_add l k v = l ++ [(k, v)].
Proof.
  induction l as [|[k' v'] l IH]; cbn; intros H; [reflexivity|].
  rewrite (H k' (or_introl eq_refl)). f_equal. apply IH. auto.
Qed.

Lemma clock_set_fresh l k n : (forall y, In y (map fst l) -> EqualC y k = false) -> clock_set l k n = l ++ [(k, n)].
Proof.
  induction l as [|[k' v'] l IH]; cbn; intros H; [reflexivity|].
  rewrite (H k' (or_introl eq_refl)). f_equal. apply IH. auto.
Qed.

Lemma fold_max_le {A} (h : A -> nat) l x : In x l -> (h x <= fold_right (fun y n => Nat.max (h y) n) 0 l)%nat.
Proof. induction l as [|z l IH]; cbn; [tauto|]. intros [<-|H]; [lia|]. specialize (IH H). lia. Qed.

Section GobProofs.
  Context {bytes : Type} (ser : list (@gitem bytes) -> bytes) (de : bytes -> option (list (@gitem bytes))).
  (* the assumption about encoding/gob: what an Encoder wrote, a Decoder reads back *)
  Hypothesis de_ser : forall l, de (ser l) = Some l.

  Notation enc := (enc_value ser).
  Notation dec := (dec_value de).

  Lemma dec_members_ok d xs : forall acc,
    (forall x, In x xs -> d (enc x) = Some x) -> pairwise_ne EqualC (acc ++ xs) = true ->
    dec_members d (map (fun x => GValue (enc x)) xs) acc = Some (acc ++ xs).
  Proof.
    induction xs as [|x xs IH]; intros acc Hd Hp; cbn.
    - rewrite app_nil_r. reflexivity.
    - rewrite (Hd x (or_introl eq_refl)).
      rewrite cset_add_fresh by (apply (pairwise_ne_mid _ _ _ _ Hp)).
      rewrite IH; [rewrite <- app_assoc; reflexivity|intros; apply Hd; cbn; auto|rewrite <- app_assoc; exact Hp].
  Qed.

  Lemma dec_elems_ok d xs : forall acc,
    (forall x, In x xs -> d (enc x) = Some x) ->
    dec_elems d (map (fun x => GValue (enc x)) xs) acc = Some (acc ++ xs).
  Proof.
    induction xs as [|x xs IH]; intros acc Hd; cbn.
    - rewrite app_nil_r. reflexivity.
    - rewrite (Hd x (or_introl eq_refl)). rewrite IH by (intros; apply Hd; cbn; auto). rewrite <- app_assoc. reflexivity.
  Qed.

  Lemma dec_fields_ok d kvs : forall acc,
    (forall p, In p kvs -> d (enc (fst p)) = Some (fst p) /\ d (enc (snd p)) = Some (snd p)) ->
    pairwise_ne EqualC (map fst (acc ++ kvs)) = true ->
    dec_fields d (map (fun p => match p with (k, v) => GField (enc k) (enc v) end) kvs) acc = Some (acc ++ kvs).
  Proof.
    induction kvs as [|[k v] kvs IH]; intros acc Hd Hp; cbn.
    - rewrite app_nil_r. reflexivity.
    - destruct (Hd (k, v) (or_introl eq_refl)) as [E1 E2]. cbn in E1, E2. rewrite E1, E2.
      rewrite map_app in Hp. cbn in Hp.
      rewrite cfun_add_fresh by (apply (pairwise_ne_mid _ _ _ _ Hp)).
      rewrite IH; [rewrite <- app_assoc; reflexivity|intros; apply Hd; cbn; auto|].
      rewrite <- app_assoc, map_app. exact Hp.
  Qed.

  Lemma dec_pairs_ok d clk : forall acc,
    (forall p, In p clk -> d (enc (fst p)) = Some (fst p)) ->
    pairwise_ne EqualC (map fst (acc ++ clk)) = true ->
    dec_pairs d (List.length clk)
      (flat_map (fun p => match p with (k, n) => [GValue (enc k); GInt n] end) clk) acc = Some (acc ++ clk).
  Proof.
    induction clk as [|[k n] clk IH]; intros acc Hd Hp; cbn.
    - rewrite app_nil_r. reflexivity.
    - pose proof (Hd (k, n) (or_introl eq_refl)) as E1. cbn in E1. rewrite E1.
      rewrite map_app in Hp. cbn in Hp.
      rewrite clock_set_fresh by (apply (pairwise_ne_mid _ _ _ _ Hp)).
      rewrite IH; [rewrite <- app_assoc; reflexivity|intros; apply Hd; cbn; auto|].
      rewrite <- app_assoc, map_app. exact Hp.
  Qed.

  Lemma gob_roundtrip_fuel : forall c, cokb c = true -> forall f, (cdepth c <= f)%nat -> dec f (enc c) = Some c.
  Proof.
    induction c as [| x | x | x | xs IH | xs IH | kvs IH | clk v IHc IHv] using cval_ind2;
      intros Hok f Hf; (destruct f as [|f]; [cbn in Hf; lia|]); cbn [dec_value enc_value]; rewrite de_ser; try reflexivity.
    - (* set *)
      rewrite de_ser. cbn in Hok. apply andb_true_iff in Hok as [Hall Hp]. rewrite forallb_forall in Hall.
      rewrite All_In in IH. rewrite (dec_members_ok _ xs []); auto.
      intros x Hx. apply IH; auto. cbn in Hf. pose proof (fold_max_le cdepth xs x Hx). lia.
    - (* tuple *)
      rewrite de_ser. cbn in Hok. rewrite forallb_forall in Hok.
      rewrite All_In in IH. rewrite (dec_elems_ok _ xs []); auto.
      intros x Hx. apply IH; auto. cbn in Hf. pose proof (fold_max_le cdepth xs x Hx). lia.
    - (* function *)
      rewrite de_ser. cbn in Hok. apply andb_true_iff in Hok as [Hall Hp]. rewrite forallb_forall in Hall.
      rewrite All_In in IH. rewrite (dec_fields_ok _ kvs []); auto.
      intros [k v] Hp'. specialize (IH _ Hp'). specialize (Hall _ Hp'). cbn in IH, Hall.
      apply andb_true_iff in Hall as [Hk Hv]. destruct IH as [Ik Iv].
      assert (Nat.max (cdepth k) (cdepth v) <= f)%nat.
      { cbn in Hf. pose proof (fold_max_le (fun p : cval * cval => Nat.max (cdepth (fst p)) (cdepth (snd p))) kvs (k, v) Hp') as Hm.
        cbn in Hm.
        assert (E : fold_right (fun (p : cval * cval) (n : nat) => let (k0, v0) := p in Nat.max (Nat.max (cdepth k0) (cdepth v0)) n) 0%nat kvs
                    = fold_right (fun y n => Nat.max (Nat.max (cdepth (fst y)) (cdepth (snd y))) n) 0%nat kvs).
        { clear. induction kvs as [|[a b] l IHl]; cbn; auto. }
        rewrite E in Hf. lia. }
      cbn. split; [apply Ik|apply Iv]; auto; lia.
    - (* causal wrapper *)
      rewrite !de_ser. rewrite Nat2Z.id.
      cbn in Hok. apply andb_true_iff in Hok as [Hok Hv]. apply andb_true_iff in Hok as [Hall Hp].
      rewrite forallb_forall in Hall. rewrite All_In in IHc.
      assert (Hd : (cdepth v <= f)%nat /\ forall p, In p clk -> (cdepth (fst p) <= f)%nat).
      { cbn in Hf. split; [lia|]. intros p Hp'.
        pose proof (fold_max_le (fun p : cval * Z => cdepth (fst p)) clk p Hp') as Hm. cbn in Hm.
        assert (E : fold_right (fun (p : cval * Z) (n : nat) => let (k0, _) := p in Nat.max (cdepth k0) n) 0%nat clk
                    = fold_right (fun y n => Nat.max (cdepth (fst y)) n) 0%nat clk).
        { clear. induction clk as [|[a b] l IHl]; cbn; auto. }
        rewrite E in Hf. lia. }
      destruct Hd as [Hdv Hdc].
      rewrite (dec_pairs_ok _ clk []); auto.
      + rewrite IHv by auto. reflexivity.
      + intros [k n] Hp'. cbn. apply (IHc (k, n) Hp'); [exact (Hall _ Hp')|exact (Hdc _ Hp')].
  Qed.

  (* gob round trip: a value sent through a gob encoder/decoder pair decodes to the same value —
     in particular to an Equal one denoting the same TLA+ value — with its causal clocks *)
  Theorem gob_roundtrip_lemma : forall c, cokb c = true ->
    exists c', dec (cdepth c) (enc c) = Some c' /\ c' = c /\
               canon (strip c') = canon (strip c) /\ EqualC c c' = Equal (strip c) (strip c).
  Proof.
    intros c Hok. exists c. split; [apply gob_roundtrip_fuel; auto|]. split; auto. split; auto.
    apply EqualC_transparent_lemma.
  Qed.
End GobProofs.

(* cokb c guarantees that the stripped value is a proper representation *)
Lemma cokb_rep_ok : forall c, cokb c = true -> rep_okb (strip c) = true.
Proof.
  assert (PW : forall xs, pairwise_ne EqualC xs = pairwise_ne Equal (map strip xs)).
  { induction xs as [|x xs IH]; cbn; auto. rewrite IH. f_equal. f_equal. rewrite existsb_map.
    apply existsb_ext_in. intros y _. apply EqualC_transparent_lemma. }
  induction c as [| x | x | x | xs IH | xs IH | kvs IH | clk v IH] using cval_ind'; cbn; auto.
  - rewrite All_In in IH. rewrite !andb_true_iff, !forallb_forall. intros [Ha Hp]. split.
    + intros y Hy. apply in_map_iff in Hy as (x & <- & Hx). auto.
    + rewrite <- PW. exact Hp.
  - rewrite All_In in IH. rewrite !forallb_forall. intros Ha y Hy. apply in_map_iff in Hy as (x & <- & Hx). auto.
  - rewrite All_In in IH. rewrite !andb_true_iff, !forallb_forall. intros [Ha Hp]. split.
    + intros [k' v'] Hy. apply in_map_iff in Hy as ([k v] & [= <- <-] & Hx).
      specialize (IH _ Hx). specialize (Ha _ Hx). cbn in *. apply andb_true_iff in Ha as [Hk Hv].
      apply andb_true_iff. destruct IH. split; auto.
    + rewrite map_map. rewrite PW in Hp. rewrite map_map in Hp.
      erewrite map_ext; [exact Hp|]. intros [k v]; reflexivity.
  - rewrite !andb_true_iff. intros [_ Hv]. auto.
Qed.
