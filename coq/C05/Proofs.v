(* C05 — lemmas about the model. *)
From PGV Require Import Base.Value C05.Model.
From Coq Require Import Lia.

Lemma Equal_default_refl : Equal VDefault VDefault = true.
Proof. reflexivity. Qed.
