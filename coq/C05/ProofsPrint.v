(* C05 — the printed form reads back: token-level printer/parser round trip, and the byte-level
   printer is the rendering of the token-level one. *)
From PGV Require Import Base.Value Base.ValueFacts C05.Model.
From Coq Require Import Lia.
Open Scope nat_scope.

(* ------------------------------------------------------------------ print v = render (print_tokens v) *)
Lemma render_app a b : render (a ++ b) = render a ++ render b.
Proof. unfold render. apply flat_map_app. Qed.

Lemma render_tjoin sep parts : render (tjoin sep parts) = join (render sep) (map render parts).
Proof.
  induction parts as [|p parts IH]; cbn; [reflexivity|].
  destruct parts as [|q parts]; [reflexivity|].
  rewrite !render_app, IH. reflexivity.
Qed.

Lemma print_render : forall v, print v = render (print_tokens v).
Proof.
  induction v as [| b | z | s | xs IH | xs IH | kvs IH] using value_ind'.
  - reflexivity.
  - destruct b; reflexivity.
  - cbn. rewrite app_nil_r. reflexivity.
  - cbn [print print_tokens render flat_map render_token]. rewrite app_nil_r. reflexivity.
  - cbn [print print_tokens]. rewrite All_In in IH.
    change (TLBrace :: tjoin [TComma] (map print_tokens xs) ++ [TRBrace])
      with ([TLBrace] ++ tjoin [TComma] (map print_tokens xs) ++ [TRBrace]).
    rewrite !render_app, render_tjoin, map_map. f_equal. f_equal. f_equal. apply map_ext_in. auto.
  - cbn [print print_tokens]. rewrite All_In in IH.
    change (TLTup :: tjoin [TComma] (map print_tokens xs) ++ [TRTup])
      with ([TLTup] ++ tjoin [TComma] (map print_tokens xs) ++ [TRTup]).
    rewrite !render_app, render_tjoin, map_map. f_equal. f_equal. f_equal. apply map_ext_in. auto.
  - destruct kvs as [|p kvs]; [reflexivity|]. rewrite All_In in IH.
    cbn [print print_tokens]. set (l := p :: kvs) in *.
    match goal with |- _ = render (TLParen :: ?x ++ [TRParen]) =>
      change (TLParen :: x ++ [TRParen]) with ([TLParen] ++ x ++ [TRParen]) end.
    rewrite !render_app, render_tjoin, map_map. f_equal. f_equal. f_equal. apply map_ext_in.
    intros [k v] Hp. specialize (IH _ Hp). cbn in IH. destruct IH as [Ik Iv].
    change (TLParen :: print_tokens k ++ [TRParen; TMapsto; TLParen] ++ print_tokens v ++ [TRParen])
      with ([TLParen] ++ print_tokens k ++ [TRParen; TMapsto; TLParen] ++ print_tokens v ++ [TRParen]).
    rewrite !render_app, <- Ik, <- Iv. reflexivity.
Qed.

(* ------------------------------------------------------------------ parse_val inverts print_tokens *)
Definition starts_value (t : token) : Prop :=
  match t with
  | TDefault | TTrue | TFalse | TNum _ | TStr _ | TEmptyFun | TLBrace | TLTup | TLParen => True
  | _ => False
  end.

Lemma print_tokens_head v : exists t r, print_tokens v = t :: r /\ starts_value t.
Proof.
  destruct v as [| b | z | s | xs | xs | kvs]; cbn; try (eexists; eexists; split; [reflexivity|exact I]).
  - destruct b; eexists; eexists; split; try reflexivity; exact I.
  - destruct kvs; eexists; eexists; split; try reflexivity; exact I.
Qed.

Section SeqLemma.
  Context (pv : list token -> option (value * list token)).

  Lemma parse_seq_ok (close : token -> bool) (ct : token) x xs : forall g rest,
    (forall y, In y (x :: xs) -> forall rest, pv (print_tokens y ++ rest) = Some (y, rest)) ->
    close ct = true -> ct <> TComma -> (List.length (x :: xs) <= g)%nat ->
    parse_seq pv g (tjoin [TComma] (map print_tokens (x :: xs)) ++ ct :: rest) close = Some (x :: xs, rest).
  Proof.
    revert x. induction xs as [|y ys IH]; intros x g rest Hpv Hc Hn Hg.
    - destruct g as [|g]; [cbn in Hg; lia|]. cbn [map tjoin parse_seq].
      rewrite (Hpv x (or_introl eq_refl)). destruct ct; try congruence; rewrite Hc; reflexivity.
    - destruct g as [|g]; [cbn in Hg; lia|].
      change (tjoin [TComma] (map print_tokens (x :: y :: ys)))
        with (print_tokens x ++ [TComma] ++ tjoin [TComma] (map print_tokens (y :: ys))).
      rewrite <- !app_assoc. cbn [parse_seq]. rewrite (Hpv x (or_introl eq_refl)). cbn [app].
      rewrite IH; auto.
      + intros z Hz. apply Hpv. right. exact Hz.
      + cbn in Hg |- *. lia.
  Qed.

  Definition binding_tokens (p : value * value) : list token :=
    match p with (k, v) =>
      TLParen :: print_tokens k ++ [TRParen; TMapsto; TLParen] ++ print_tokens v ++ [TRParen] end.

  Lemma parse_bindings_ok p kvs : forall g rest,
    (forall q, In q (p :: kvs) -> (forall rest, pv (print_tokens (fst q) ++ rest) = Some (fst q, rest)) /\
                                  (forall rest, pv (print_tokens (snd q) ++ rest) = Some (snd q, rest))) ->
    (List.length (p :: kvs) <= g)%nat ->
    parse_bindings pv g (tjoin [TAtAt] (map binding_tokens (p :: kvs)) ++ TRParen :: rest) = Some (p :: kvs, rest).
  Proof.
    revert p. induction kvs as [|q kvs IH]; intros [k v] g rest Hpv Hg.
    - destruct g as [|g]; [cbn in Hg; lia|]. cbn [map tjoin binding_tokens parse_bindings].
      destruct (Hpv (k, v) (or_introl eq_refl)) as [Hk Hv]. cbn [fst snd] in Hk, Hv.
      cbn [app]. rewrite <- !app_assoc. rewrite Hk. cbn [app]. rewrite <- !app_assoc. rewrite Hv. reflexivity.
    - destruct g as [|g]; [cbn in Hg; lia|].
      change (tjoin [TAtAt] (map binding_tokens ((k, v) :: q :: kvs)))
        with (binding_tokens (k, v) ++ [TAtAt] ++ tjoin [TAtAt] (map binding_tokens (q :: kvs))).
      destruct (Hpv (k, v) (or_introl eq_refl)) as [Hk Hv]. cbn [fst snd] in Hk, Hv.
      cbn [binding_tokens parse_bindings app]. rewrite <- !app_assoc. rewrite Hk. cbn [app].
      rewrite <- !app_assoc. rewrite Hv. cbn [app].
      rewrite IH; auto.
      + intros z Hz. apply Hpv. right. exact Hz.
      + cbn in Hg |- *. lia.
  Qed.
End SeqLemma.

Lemma vsize_ge_len xs : (List.length xs <= fold_right (fun x n => vsize x + n) 0 xs)%nat.
Proof.
  induction xs as [|x xs IH]; cbn; [lia|]. assert (1 <= vsize x)%nat by (destruct x; cbn; lia). lia.
Qed.

Lemma vsize_elem xs x : In x xs -> (vsize x <= fold_right (fun x n => vsize x + n) 0 xs)%nat.
Proof. induction xs as [|y xs IH]; cbn; [tauto|]. intros [<-|H]; [lia|]. specialize (IH H). lia. Qed.

Lemma vsize_pos v : (1 <= vsize v)%nat.
Proof. destruct v; cbn; lia. Qed.

Definition kvsize (kvs : list (value * value)) : nat :=
  fold_right (fun p n => match p with (k, v) => vsize k + vsize v + n end) 0%nat kvs.

Lemma kvsize_ge_len kvs : (List.length kvs <= kvsize kvs)%nat.
Proof.
  induction kvs as [|[k v] kvs IH]; [cbn; lia|].
  change (kvsize ((k, v) :: kvs)) with (vsize k + vsize v + kvsize kvs). cbn [List.length].
  pose proof (vsize_pos k). lia.
Qed.

Lemma kvsize_elem kvs k v : In (k, v) kvs -> (vsize k + vsize v <= kvsize kvs)%nat.
Proof.
  induction kvs as [|[k' v'] kvs IH]; [cbn; tauto|].
  change (kvsize ((k', v') :: kvs)) with (vsize k' + vsize v' + kvsize kvs).
  intros [[= -> ->]|H]; [lia|]. specialize (IH H). lia.
Qed.

Lemma parse_print_tokens_fuel : forall v f rest,
  (vsize v <= f)%nat -> parse_val f (print_tokens v ++ rest) = Some (v, rest).
Proof.
  induction v as [| b | z | s | xs IH | xs IH | kvs IH] using value_ind'; intros f rest Hf;
    (destruct f as [|f]; [pose proof (vsize_pos VDefault); cbn in Hf; lia|]).
  - reflexivity.
  - destruct b; reflexivity.
  - reflexivity.
  - reflexivity.
  - (* set *)
    destruct xs as [|x xs]; [reflexivity|]. rewrite All_In in IH.
    cbn [print_tokens]. cbn [app parse_val].
    destruct (print_tokens_head x) as (t & r & Et & Hs).
    assert (Hshape : exists t' r', tjoin [TComma] (map print_tokens (x :: xs)) ++ [TRBrace] ++ rest = t' :: r' /\ starts_value t').
    { destruct xs; cbn [map tjoin]; rewrite Et; cbn; eauto. }
    rewrite <- app_assoc.
    destruct Hshape as (t' & r' & E' & Hs').
    assert (Hgo : parse_seq (parse_val f) f (tjoin [TComma] (map print_tokens (x :: xs)) ++ TRBrace :: rest) is_rbrace
                  = Some (x :: xs, rest)).
    { apply (parse_seq_ok (parse_val f) is_rbrace TRBrace); try reflexivity; try discriminate.
      - intros y Hy rest'. apply IH; auto.
        change (vsize (VSet (x :: xs))) with (S (fold_right (fun x n => vsize x + n) 0 (x :: xs))) in Hf.
        pose proof (vsize_elem (x :: xs) y Hy). lia.
      - change (vsize (VSet (x :: xs))) with (S (fold_right (fun x n => vsize x + n) 0 (x :: xs))) in Hf.
        pose proof (vsize_ge_len (x :: xs)). lia. }
    change ([TRBrace] ++ rest) with (TRBrace :: rest) in *.
    rewrite E' in *. destruct t'; try contradiction; rewrite Hgo; reflexivity.
  - (* tuple *)
    destruct xs as [|x xs]; [reflexivity|]. rewrite All_In in IH.
    cbn [print_tokens]. cbn [app parse_val].
    destruct (print_tokens_head x) as (t & r & Et & Hs).
    assert (Hshape : exists t' r', tjoin [TComma] (map print_tokens (x :: xs)) ++ [TRTup] ++ rest = t' :: r' /\ starts_value t').
    { destruct xs; cbn [map tjoin]; rewrite Et; cbn; eauto. }
    rewrite <- app_assoc.
    destruct Hshape as (t' & r' & E' & Hs').
    assert (Hgo : parse_seq (parse_val f) f (tjoin [TComma] (map print_tokens (x :: xs)) ++ TRTup :: rest) is_rtup
                  = Some (x :: xs, rest)).
    { apply (parse_seq_ok (parse_val f) is_rtup TRTup); try reflexivity; try discriminate.
      - intros y Hy rest'. apply IH; auto.
        change (vsize (VTup (x :: xs))) with (S (fold_right (fun x n => vsize x + n) 0 (x :: xs))) in Hf.
        pose proof (vsize_elem (x :: xs) y Hy). lia.
      - change (vsize (VTup (x :: xs))) with (S (fold_right (fun x n => vsize x + n) 0 (x :: xs))) in Hf.
        pose proof (vsize_ge_len (x :: xs)). lia. }
    change ([TRTup] ++ rest) with (TRTup :: rest) in *.
    rewrite E' in *. destruct t'; try contradiction; rewrite Hgo; reflexivity.
  - (* function *)
    destruct kvs as [|p kvs]; [reflexivity|]. rewrite All_In in IH.
    cbn [print_tokens]. cbn [app parse_val]. rewrite <- app_assoc.
    match goal with |- context [map ?g (p :: kvs)] =>
      replace (map g (p :: kvs)) with (map binding_tokens (p :: kvs)) by (apply map_ext; intros [? ?]; reflexivity) end.
    change ([TRParen] ++ rest) with (TRParen :: rest).
    rewrite (parse_bindings_ok (parse_val f) p kvs f rest); [reflexivity| |].
    + intros [k v] Hq. specialize (IH _ Hq). cbn in IH. destruct IH as [Ik Iv].
      assert (vsize k + vsize v <= f)%nat.
      { change (vsize (VFun (p :: kvs))) with (S (kvsize (p :: kvs))) in Hf.
        pose proof (kvsize_elem (p :: kvs) k v Hq). lia. }
      cbn [fst snd]. split; intros rest'; [apply Ik|apply Iv]; lia.
    + change (vsize (VFun (p :: kvs))) with (S (kvsize (p :: kvs))) in Hf.
      pose proof (kvsize_ge_len (p :: kvs)). lia.
Qed.

Lemma print_tokens_len_ge v : (vsize v <= List.length (print_tokens v))%nat.
Proof.
  induction v as [| b | z | s | xs IH | xs IH | kvs IH] using value_ind'; try (cbn; lia).
  - destruct b; cbn; lia.
  - rewrite All_In in IH. cbn [print_tokens vsize]. cbn [List.length]. rewrite app_length. cbn [List.length].
    assert (fold_right (fun x n => vsize x + n) 0 xs <= List.length (tjoin [TComma] (map print_tokens xs)))%nat; [|lia].
    induction xs as [|x xs IHx]; cbn; [lia|].
    assert (Hx := IH x (or_introl eq_refl)).
    assert (Hr := IHx (fun y Hy => IH y (or_intror Hy))).
    destruct xs; cbn in *; rewrite ?app_length; cbn; lia.
  - rewrite All_In in IH. cbn [print_tokens vsize]. cbn [List.length]. rewrite app_length. cbn [List.length].
    assert (fold_right (fun x n => vsize x + n) 0 xs <= List.length (tjoin [TComma] (map print_tokens xs)))%nat; [|lia].
    induction xs as [|x xs IHx]; cbn; [lia|].
    assert (Hx := IH x (or_introl eq_refl)).
    assert (Hr := IHx (fun y Hy => IH y (or_intror Hy))).
    destruct xs; cbn in *; rewrite ?app_length; cbn; lia.
  - destruct kvs as [|p kvs]; [cbn; lia|]. rewrite All_In in IH.
    cbn [print_tokens]. change (vsize (VFun (p :: kvs))) with (S (kvsize (p :: kvs))).
    cbn [List.length]. rewrite app_length. cbn [List.length].
    match goal with |- context [map ?g (p :: kvs)] =>
      replace (map g (p :: kvs)) with (map binding_tokens (p :: kvs)) by (apply map_ext; intros [? ?]; reflexivity) end.
    assert (kvsize (p :: kvs) <= List.length (tjoin [TAtAt] (map binding_tokens (p :: kvs))))%nat; [|lia].
    generalize (p :: kvs) IH. clear. intros l IH.
    induction l as [|[k v] l IHl]; cbn; [lia|].
    destruct (IH (k, v) (or_introl eq_refl)) as [Hk Hv]. cbn in Hk, Hv.
    assert (Hr := IHl (fun y Hy => IH y (or_intror Hy))).
    destruct l; cbn in *; rewrite ?app_length; cbn; rewrite ?app_length; cbn; lia.
Qed.

Theorem parse_print_tokens_lemma : forall v, parse_tokens (print_tokens v) = Some v.
Proof.
  intros v. unfold parse_tokens.
  rewrite <- (app_nil_r (print_tokens v)) at 2.
  rewrite parse_print_tokens_fuel; [reflexivity|].
  pose proof (print_tokens_len_ge v). lia.
Qed.

(* byte level, conditional on the lexer recovering the tokens (exercised on every case of the
   correspondence check, not proved in general) *)
Theorem print_parse_partial_lemma : forall v,
  lex (S (List.length (print v))) (print v) = Some (print_tokens v) -> parse (print v) = Some v.
Proof.
  intros v H. unfold parse. rewrite H. apply parse_print_tokens_lemma.
Qed.
