(* C05 — the printed form reads back: token-level printer/parser round trip, and the byte-level
   printer is the rendering of the token-level one. *)
From PGV Require Import Base.Value Base.ValueFacts C05.Model.
From Coq Require Import Lia ZArith.
Open Scope nat_scope.

(* ------------------------------------------------------------------ print v = render (print_tokens v) *)
Lemma render_app a b : render (a ++ b) = render a ++ render b.
Proof. unfold render. apply flat_map_app. Qed.

Lemma render_tjoin sep parts : render (tjoin sep parts) = join (render sep) (map render parts).
Proof.
  induction parts as [|p parts IH]; cbn; [reflexivity|].
  destruct parts as [|q parts]; [reflexivity|].
  rewrite !render_app, IH. reflexivity.
Qed.

Lemma print_render : forall v, print v = render (print_tokens v).
Proof.
  induction v as [| b | z | s | xs IH | xs IH | kvs IH] using value_ind'.
  - reflexivity.
  - destruct b; reflexivity.
  - cbn. rewrite app_nil_r. reflexivity.
  - cbn [print print_tokens render flat_map render_token]. rewrite app_nil_r. reflexivity.
  - cbn [print print_tokens]. rewrite All_In in IH.
    change (TLBrace :: tjoin [TComma] (map print_tokens xs) ++ [TRBrace])
      with ([TLBrace] ++ tjoin [TComma] (map print_tokens xs) ++ [TRBrace]).
    rewrite !render_app, render_tjoin, map_map. f_equal. f_equal. f_equal. apply map_ext_in. auto.
  - cbn [print print_tokens]. rewrite All_In in IH.
    change (TLTup :: tjoin [TComma] (map print_tokens xs) ++ [TRTup])
      with ([TLTup] ++ tjoin [TComma] (map print_tokens xs) ++ [TRTup]).
    rewrite !render_app, render_tjoin, map_map. f_equal. f_equal. f_equal. apply map_ext_in. auto.
  - destruct kvs as [|p kvs]; [reflexivity|]. rewrite All_In in IH.
    cbn [print print_tokens]. set (l := p :: kvs) in *.
    match goal with |- _ = render (TLParen :: ?x ++ [TRParen]) =>
      change (TLParen :: x ++ [TRParen]) with ([TLParen] ++ x ++ [TRParen]) end.
    rewrite !render_app, render_tjoin, map_map. f_equal. f_equal. f_equal. apply map_ext_in.
    intros [k v] Hp. specialize (IH _ Hp). cbn in IH. destruct IH as [Ik Iv].
    change (TLParen :: print_tokens k ++ [TRParen; TMapsto; TLParen] ++ print_tokens v ++ [TRParen])
      with ([TLParen] ++ print_tokens k ++ [TRParen; TMapsto; TLParen] ++ print_tokens v ++ [TRParen]).
    rewrite !render_app, <- Ik, <- Iv. reflexivity.
Qed.

(* ------------------------------------------------------------------ parse_val inverts print_tokens *)
Definition starts_value (t : token) : Prop :=
  match t with
  | TDefault | TTrue | TFalse | TNum _ | TStr _ | TEmptyFun | TLBrace | TLTup | TLParen => True
  | _ => False
  end.

Lemma print_tokens_head v : exists t r, print_tokens v = t :: r /\ starts_value t.
Proof.
  destruct v as [| b | z | s | xs | xs | kvs]; cbn; try (eexists; eexists; split; [reflexivity|exact I]).
  - destruct b; eexists; eexists; split; try reflexivity; exact I.
  - destruct kvs; eexists; eexists; split; try reflexivity; exact I.
Qed.

Section SeqLemma.
  Context (pv : list token -> option (value * list token)).

  Lemma parse_seq_ok (close : token -> bool) (ct : token) x xs : forall g rest,
    (forall y, In y (x :: xs) -> forall rest, pv (print_tokens y ++ rest) = Some (y, rest)) ->
    close ct = true -> ct <> TComma -> (List.length (x :: xs) <= g)%nat ->
    parse_seq pv g (tjoin [TComma] (map print_tokens (x :: xs)) ++ ct :: rest) close = Some (x :: xs, rest).
  Proof.
    revert x. induction xs as [|y ys IH]; intros x g rest Hpv Hc Hn Hg.
    - destruct g as [|g]; [cbn in Hg; lia|]. cbn [map tjoin parse_seq].
      rewrite (Hpv x (or_introl eq_refl)). destruct ct; try congruence; rewrite Hc; reflexivity.
    - destruct g as [|g]; [cbn in Hg; lia|].
      change (tjoin [TComma] (map print_tokens (x :: y :: ys)))
        with (print_tokens x ++ [TComma] ++ tjoin [TComma] (map print_tokens (y :: ys))).
      rewrite <- !app_assoc. cbn [parse_seq]. rewrite (Hpv x (or_introl eq_refl)). cbn [app].
      rewrite IH; auto.
      + intros z Hz. apply Hpv. right. exact Hz.
      + cbn in Hg |- *. lia.
  Qed.

  Definition binding_tokens (p : value * value) : list token :=
    match p with (k, v) =>
      TLParen :: print_tokens k ++ [TRParen; TMapsto; TLParen] ++ print_tokens v ++ [TRParen] end.

  Lemma parse_bindings_ok p kvs : forall g rest,
    (forall q, In q (p :: kvs) -> (forall rest, pv (print_tokens (fst q) ++ rest) = Some (fst q, rest)) /\
                                  (forall rest, pv (print_tokens (snd q) ++ rest) = Some (snd q, rest))) ->
    (List.length (p :: kvs) <= g)%nat ->
    parse_bindings pv g (tjoin [TAtAt] (map binding_tokens (p :: kvs)) ++ TRParen :: rest) = Some (p :: kvs, rest).
  Proof.
    revert p. induction kvs as [|q kvs IH]; intros [k v] g rest Hpv Hg.
    - destruct g as [|g]; [cbn in Hg; lia|]. cbn [map tjoin binding_tokens parse_bindings].
      destruct (Hpv (k, v) (or_introl eq_refl)) as [Hk Hv]. cbn [fst snd] in Hk, Hv.
      cbn [app]. rewrite <- !app_assoc. rewrite Hk. cbn [app]. rewrite <- !app_assoc. rewrite Hv. reflexivity.
    - destruct g as [|g]; [cbn in Hg; lia|].
      change (tjoin [TAtAt] (map binding_tokens ((k, v) :: q :: kvs)))
        with (binding_tokens (k, v) ++ [TAtAt] ++ tjoin [TAtAt] (map binding_tokens (q :: kvs))).
      destruct (Hpv (k, v) (or_introl eq_refl)) as [Hk Hv]. cbn [fst snd] in Hk, Hv.
      cbn [binding_tokens parse_bindings app]. rewrite <- !app_assoc. rewrite Hk. cbn [app].
      rewrite <- !app_assoc. rewrite Hv. cbn [app].
      rewrite IH; auto.
      + intros z Hz. apply Hpv. right. exact Hz.
      + cbn in Hg |- *. lia.
  Qed.
End SeqLemma.

Lemma vsize_ge_len xs : (List.length xs <= fold_right (fun x n => vsize x + n) 0 xs)%nat.
Proof.
  induction xs as [|x xs IH]; cbn; [lia|]. assert (1 <= vsize x)%nat by (destruct x; cbn; lia). lia.
Qed.

Lemma vsize_elem xs x : In x xs -> (vsize x <= fold_right (fun x n => vsize x + n) 0 xs)%nat.
Proof. induction xs as [|y xs IH]; cbn; [tauto|]. intros [<-|H]; [lia|]. specialize (IH H). lia. Qed.

Lemma vsize_pos v : (1 <= vsize v)%nat.
Proof. destruct v; cbn; lia. Qed.

Definition kvsize (kvs : list (value * value)) : nat :=
  fold_right (fun p n => match p with (k, v) => vsize k + vsize v + n end) 0%nat kvs.

Lemma kvsize_ge_len kvs : (List.length kvs <= kvsize kvs)%nat.
Proof.
  induction kvs as [|[k v] kvs IH]; [cbn; lia|].
  change (kvsize ((k, v) :: kvs)) with (vsize k + vsize v + kvsize kvs). cbn [List.length].
  pose proof (vsize_pos k). lia.
Qed.

Lemma kvsize_elem kvs k v : In (k, v) kvs -> (vsize k + vsize v <= kvsize kvs)%nat.
Proof.
  induction kvs as [|[k' v'] kvs IH]; [cbn; tauto|].
  change (kvsize ((k', v') :: kvs)) with (vsize k' + vsize v' + kvsize kvs).
  intros [[= -> ->]|H]; [lia|]. specialize (IH H). lia.
Qed.

Lemma parse_print_tokens_fuel : forall v f rest,
  (vsize v <= f)%nat -> parse_val f (print_tokens v ++ rest) = Some (v, rest).
Proof.
  induction v as [| b | z | s | xs IH | xs IH | kvs IH] using value_ind'; intros f rest Hf;
    (destruct f as [|f]; [pose proof (vsize_pos VDefault); cbn in Hf; lia|]).
  - reflexivity.
  - destruct b; reflexivity.
  - reflexivity.
  - reflexivity.
  - (* set *)
    destruct xs as [|x xs]; [reflexivity|]. rewrite All_In in IH.
    cbn [print_tokens]. cbn [app parse_val].
    destruct (print_tokens_head x) as (t & r & Et & Hs).
    assert (Hshape : exists t' r', tjoin [TComma] (map print_tokens (x :: xs)) ++ [TRBrace] ++ rest = t' :: r' /\ starts_value t').
    { destruct xs; cbn [map tjoin]; rewrite Et; cbn; eauto. }
    rewrite <- app_assoc.
    destruct Hshape as (t' & r' & E' & Hs').
    assert (Hgo : parse_seq (parse_val f) f (tjoin [TComma] (map print_tokens (x :: xs)) ++ TRBrace :: rest) is_rbrace
                  = Some (x :: xs, rest)).
    { apply (parse_seq_ok (parse_val f) is_rbrace TRBrace); try reflexivity; try discriminate.
      - intros y Hy rest'. apply IH; auto.
        change (vsize (VSet (x :: xs))) with (S (fold_right (fun x n => vsize x + n) 0 (x :: xs))) in Hf.
        pose proof (vsize_elem (x :: xs) y Hy). lia.
      - change (vsize (VSet (x :: xs))) with (S (fold_right (fun x n => vsize x + n) 0 (x :: xs))) in Hf.
        pose proof (vsize_ge_len (x :: xs)). lia. }
    change ([TRBrace] ++ rest) with (TRBrace :: rest) in *.
    rewrite E' in *. destruct t'; try contradiction; rewrite Hgo; reflexivity.
  - (* tuple *)
    destruct xs as [|x xs]; [reflexivity|]. rewrite All_In in IH.
    cbn [print_tokens]. cbn [app parse_val].
    destruct (print_tokens_head x) as (t & r & Et & Hs).
    assert (Hshape : exists t' r', tjoin [TComma] (map print_tokens (x :: xs)) ++ [TRTup] ++ rest = t' :: r' /\ starts_value t').
    { destruct xs; cbn [map tjoin]; rewrite Et; cbn; eauto. }
    rewrite <- app_assoc.
    destruct Hshape as (t' & r' & E' & Hs').
    assert (Hgo : parse_seq (parse_val f) f (tjoin [TComma] (map print_tokens (x :: xs)) ++ TRTup :: rest) is_rtup
                  = Some (x :: xs, rest)).
    { apply (parse_seq_ok (parse_val f) is_rtup TRTup); try reflexivity; try discriminate.
      - intros y Hy rest'. apply IH; auto.
        change (vsize (VTup (x :: xs))) with (S (fold_right (fun x n => vsize x + n) 0 (x :: xs))) in Hf.
        pose proof (vsize_elem (x :: xs) y Hy). lia.
      - change (vsize (VTup (x :: xs))) with (S (fold_right (fun x n => vsize x + n) 0 (x :: xs))) in Hf.
        pose proof (vsize_ge_len (x :: xs)). lia. }
    change ([TRTup] ++ rest) with (TRTup :: rest) in *.
    rewrite E' in *. destruct t'; try contradiction; rewrite Hgo; reflexivity.
  - (* function *)
    destruct kvs as [|p kvs]; [reflexivity|]. rewrite All_In in IH.
    cbn [print_tokens]. cbn [app parse_val]. rewrite <- app_assoc.
    match goal with |- context [map ?g (p :: kvs)] =>
      replace (map g (p :: kvs)) with (map binding_tokens (p :: kvs)) by (apply map_ext; intros [? ?]; reflexivity) end.
    change ([TRParen] ++ rest) with (TRParen :: rest).
    rewrite (parse_bindings_ok (parse_val f) p kvs f rest); [reflexivity| |].
    + intros [k v] Hq. specialize (IH _ Hq). cbn in IH. destruct IH as [Ik Iv].
      assert (vsize k + vsize v <= f)%nat.
      { change (vsize (VFun (p :: kvs))) with (S (kvsize (p :: kvs))) in Hf.
        pose proof (kvsize_elem (p :: kvs) k v Hq). lia. }
      cbn [fst snd]. split; intros rest'; [apply Ik|apply Iv]; lia.
    + change (vsize (VFun (p :: kvs))) with (S (kvsize (p :: kvs))) in Hf.
      pose proof (kvsize_ge_len (p :: kvs)). lia.
Qed.

Lemma print_tokens_len_ge v : (vsize v <= List.length (print_tokens v))%nat.
Proof.
  induction v as [| b | z | s | xs IH | xs IH | kvs IH] using value_ind'; try (cbn; lia).
  - destruct b; cbn; lia.
  - rewrite All_In in IH. cbn [print_tokens vsize]. cbn [List.length]. rewrite app_length. cbn [List.length].
    assert (fold_right (fun x n => vsize x + n) 0 xs <= List.length (tjoin [TComma] (map print_tokens xs)))%nat; [|lia].
    induction xs as [|x xs IHx]; cbn; [lia|].
    assert (Hx := IH x (or_introl eq_refl)).
    assert (Hr := IHx (fun y Hy => IH y (or_intror Hy))).
    destruct xs; cbn in *; rewrite ?app_length; cbn; lia.
  - rewrite All_In in IH. cbn [print_tokens vsize]. cbn [List.length]. rewrite app_length. cbn [List.length].
    assert (fold_right (fun x n => vsize x + n) 0 xs <= List.length (tjoin [TComma] (map print_tokens xs)))%nat; [|lia].
    induction xs as [|x xs IHx]; cbn; [lia|].
    assert (Hx := IH x (or_introl eq_refl)).
    assert (Hr := IHx (fun y Hy => IH y (or_intror Hy))).
    destruct xs; cbn in *; rewrite ?app_length; cbn; lia.
  - destruct kvs as [|p kvs]; [cbn; lia|]. rewrite All_In in IH.
    cbn [print_tokens]. change (vsize (VFun (p :: kvs))) with (S (kvsize (p :: kvs))).
    cbn [List.length]. rewrite app_length. cbn [List.length].
    match goal with |- context [map ?g (p :: kvs)] =>
      replace (map g (p :: kvs)) with (map binding_tokens (p :: kvs)) by (apply map_ext; intros [? ?]; reflexivity) end.
    assert (kvsize (p :: kvs) <= List.length (tjoin [TAtAt] (map binding_tokens (p :: kvs))))%nat; [|lia].
    generalize (p :: kvs) IH. clear. intros l IH.
    induction l as [|[k v] l IHl]; cbn; [lia|].
    destruct (IH (k, v) (or_introl eq_refl)) as [Hk Hv]. cbn in Hk, Hv.
    assert (Hr := IHl (fun y Hy => IH y (or_intror Hy))).
    destruct l; cbn in *; rewrite ?app_length; cbn; rewrite ?app_length; cbn; lia.
Qed.

Theorem parse_print_tokens_lemma : forall v, parse_tokens (print_tokens v) = Some v.
Proof.
  intros v. unfold parse_tokens.
  rewrite <- (app_nil_r (print_tokens v)) at 2.
  rewrite parse_print_tokens_fuel; [reflexivity|].
  pose proof (print_tokens_len_ge v). lia.
Qed.

(* byte level, conditional on the lexer recovering the tokens (exercised on every case of the
   correspondence check, not proved in general) *)
Theorem print_parse_partial_lemma : forall v,
  lex (S (List.length (print v))) (print v) = Some (print_tokens v) -> parse (print v) = Some v.
Proof.
  intros v H. unfold parse. rewrite H. apply parse_print_tokens_lemma.
Qed.

(* ------------------------------------------------------------------ the lexer recovers the tokens *)
Open Scope N_scope.
Ltac Zify.zify_post_hook ::= Z.to_euclidean_division_equations.

(* ---- decimal numerals ---- *)
Definition dval (ds : list N) (a : N) : N := fold_left (fun a d => a * 10 + (d - 48)) ds a.

Definition nodigit_start (l : list N) : Prop := match l with b :: _ => is_digit b = false | [] => True end.

Lemma is_digit_spec b : is_digit b = true <-> 48 <= b <= 57.
Proof. unfold is_digit. rewrite andb_true_iff, !N.leb_le. tauto. Qed.

Lemma lex_digits_app ds rest a :
  Forall (fun d => is_digit d = true) ds -> nodigit_start rest ->
  lex_digits (ds ++ rest) a = (dval ds a, rest).
Proof.
  revert a. induction ds as [|d ds IH]; intros a Hd Hr; cbn [app lex_digits].
  - destruct rest as [|b r]; [reflexivity|]. cbn [nodigit_start] in Hr. cbn [lex_digits]. rewrite Hr. reflexivity.
  - inversion Hd as [|? ? H1 H2]; subst. rewrite H1. unfold dval. cbn [fold_left]. apply IH; auto.
Qed.

Lemma dval_app ds1 ds2 a : dval (ds1 ++ ds2) a = dval ds2 (dval ds1 a).
Proof. unfold dval. apply fold_left_app. Qed.

Lemma digits_fuel_spec f : forall n acc, n < 2 ^ N.of_nat f ->
  exists ds, digits_fuel f n acc = ds ++ acc /\ Forall (fun d => is_digit d = true) ds /\
             (f <> O -> ds <> []) /\ exists P, forall a, dval ds a = a * P + n.
Proof.
  induction f as [|f IH]; intros n acc Hn.
  - cbn in Hn. assert (n = 0) as -> by lia. exists []. split; [reflexivity|]. split; [constructor|]. split; [congruence|].
    exists 1. intros a. unfold dval. cbn [fold_left]. lia.
  - cbn [digits_fuel].
    assert (Hd : is_digit (48 + n mod 10) = true).
    { apply is_digit_spec. assert (n mod 10 < 10) by (apply N.mod_lt; lia). lia. }
    destruct (n / 10 =? 0) eqn:E.
    + apply N.eqb_eq in E. exists [48 + n mod 10]. split; [reflexivity|]. split; [constructor; auto|]. split; [congruence|].
      exists 10. intros a. unfold dval. cbn [fold_left].
      assert (n = 10 * (n / 10) + n mod 10) by (apply N.div_mod; lia). assert (n mod 10 < 10) by (apply N.mod_lt; lia). lia.
    + apply N.eqb_neq in E.
      assert (Hlt : n / 10 < 2 ^ N.of_nat f).
      { rewrite Nat2N.inj_succ, N.pow_succ_r' in Hn.
        apply N.div_lt_upper_bound; [lia|]. lia. }
      destruct (IH (n / 10) ((48 + n mod 10) :: acc) Hlt) as (ds & E1 & F1 & _ & P & HP).
      exists (ds ++ [48 + n mod 10]). rewrite E1, <- app_assoc. split; [reflexivity|]. split.
      * apply Forall_app. split; auto.
      * split; [intros _ Hc; apply app_eq_nil in Hc as [_ Hc]; discriminate|].
        exists (P * 10). intros a. rewrite dval_app, HP. unfold dval. cbn [fold_left].
        assert (n = 10 * (n / 10) + n mod 10) by (apply N.div_mod; lia). assert (n mod 10 < 10) by (apply N.mod_lt; lia). nia.
Qed.

Lemma print_N_digits n : exists ds,
  digits_fuel (S (N.to_nat (N.log2 n))) n [] = ds /\ Forall (fun d => is_digit d = true) ds /\ ds <> [] /\ dval ds 0 = n.
Proof.
  assert (Hn : n < 2 ^ N.of_nat (S (N.to_nat (N.log2 n)))).
  { rewrite Nat2N.inj_succ, N2Nat.id. destruct (N.eq_dec n 0) as [->|Hz]; [cbn; lia|].
    apply N.log2_spec. lia. }
  destruct (digits_fuel_spec _ n [] Hn) as (ds & E & F & Hne & P & HP).
  exists ds. rewrite E, app_nil_r. split; auto. split; auto. split; [apply Hne; discriminate|].
  rewrite HP. lia.
Qed.

(* ---- strings ---- *)
Lemma lex_string_other b l acc : b <> 34 -> b <> 92 -> lex_string (b :: l) acc = lex_string l (b :: acc).
Proof.
  intros H1 H2. destruct b as [|p]; [reflexivity|].
  repeat (destruct p as [p|p|]; cbn [lex_string]; try reflexivity; try (exfalso; lia)).
Qed.

Lemma lex_string_quote s : forall acc rest,
  lex_string (flat_map quote_byte s ++ 34 :: rest) acc = Some (rev acc ++ s, rest).
Proof.
  induction s as [|b s IH]; intros acc rest; cbn [flat_map app].
  - cbn. rewrite app_nil_r. reflexivity.
  - unfold quote_byte at 1. destruct ((b =? 34) || (b =? 92)) eqn:E.
    + cbn [app]. destruct (N.eq_dec b 34) as [->|H34].
      * cbn [lex_string N.eqb Pos.eqb orb]. rewrite IH. cbn [rev]. rewrite <- app_assoc. reflexivity.
      * assert (b = 92) as -> by (apply orb_true_iff in E as [E|E]; apply N.eqb_eq in E; congruence).
        cbn [lex_string N.eqb Pos.eqb orb]. rewrite IH. cbn [rev]. rewrite <- app_assoc. reflexivity.
    + apply orb_false_iff in E as [E1 E2]. apply N.eqb_neq in E1, E2. cbn [app].
      rewrite lex_string_other by auto.
      rewrite IH. cbn [rev]. rewrite <- app_assoc. reflexivity.
Qed.

(* ---- one token ---- *)
Definition is_kw (t : token) : bool := match t with TNum _ | TStr _ => false | _ => true end.

Definition cons_tok (t : token) (o : option (list token)) : option (list token) :=
  match o with Some ts => Some (t :: ts) | None => None end.

Lemma lex_step_kw t f R : is_kw t = true -> lex (S f) (render_token t ++ R) = cons_tok t (lex f R).
Proof. destruct t; try discriminate; intros _; reflexivity. Qed.

Lemma lex_step_str s f R : lex (S f) (render_token (TStr s) ++ R) = cons_tok (TStr s) (lex f R).
Proof.
  cbn [render_token]. unfold print_str. cbn [app]. rewrite <- app_assoc. cbn [app].
  cbn [lex]. change (lex_keyword keywords (34 :: flat_map quote_byte s ++ 34 :: R)) with (@None (token * list N)).
  cbn [N.eqb Pos.eqb]. rewrite lex_string_quote. reflexivity.
Qed.

Lemma digit_cases b : is_digit b = true ->
  b = 48 \/ b = 49 \/ b = 50 \/ b = 51 \/ b = 52 \/ b = 53 \/ b = 54 \/ b = 55 \/ b = 56 \/ b = 57.
Proof. intros H. apply is_digit_spec in H. lia. Qed.

Lemma lex_keyword_digit b l : is_digit b = true -> lex_keyword keywords (b :: l) = None.
Proof.
  intros H. apply digit_cases in H.
  destruct H as [->|[->|[->|[->|[->|[->|[->|[->|[->| ->]]]]]]]]]; reflexivity.
Qed.

Lemma lex_step_num z f R : nodigit_start R -> lex (S f) (render_token (TNum z) ++ R) = cons_tok (TNum z) (lex f R).
Proof.
  intros HR. cbn [render_token]. unfold print_Z.
  destruct (print_N_digits (Z.abs_N z)) as (ds & -> & Fd & Hne & Hv).
  destruct ds as [|d ds]; [congruence|]. inversion Fd as [|? ? Hd Fd']; subst.
  destruct (z <? 0)%Z eqn:Ez.
  - cbn [app lex]. change (lex_keyword keywords (45 :: (d :: ds) ++ R)) with (@None (token * list N)).
    cbn [N.eqb Pos.eqb is_digit N.leb N.compare Pos.compare Pos.compare_cont andb]. cbn [app]. rewrite Hd.
    change (d :: ds ++ R) with ((d :: ds) ++ R). rewrite lex_digits_app by auto. rewrite Hv.
    assert (- Z.of_N (Z.abs_N z) = z)%Z as -> by lia. reflexivity.
  - cbn [app lex]. rewrite lex_keyword_digit by auto.
    assert (d =? 34 = false) as -> by (apply N.eqb_neq; apply is_digit_spec in Hd; lia).
    rewrite Hd. change (d :: ds ++ R) with ((d :: ds) ++ R). rewrite lex_digits_app by auto. rewrite Hv.
    assert (Z.of_N (Z.abs_N z) = z)%Z as -> by lia. reflexivity.
Qed.

(* ---- token sequences in which a number is never directly followed by a number ---- *)
Definition next_ok (r : list token) : Prop := match r with TNum _ :: _ => False | _ => True end.

Fixpoint wsep (ts : list token) : Prop :=
  match ts with
  | [] => True
  | TNum _ :: r => next_ok r /\ wsep r
  | _ :: r => wsep r
  end.

Lemma nodigit_render ts : next_ok ts -> nodigit_start (render ts).
Proof.
  destruct ts as [|t ts]; [intros _; exact I|].
  destruct t; try contradiction; intros _; reflexivity.
Qed.

Lemma render_token_nonempty t : render_token t <> [].
Proof.
  destruct t; try discriminate.
  - cbn. unfold print_Z. destruct (print_N_digits (Z.abs_N z)) as (ds & -> & _ & Hne & _).
    destruct (z <? 0)%Z; [discriminate|exact Hne].
Qed.

Lemma render_length ts : (List.length ts <= List.length (render ts))%nat.
Proof.
  induction ts as [|t ts IH]; [cbn; lia|].
  change (render (t :: ts)) with (render_token t ++ render ts). rewrite app_length. cbn [List.length].
  pose proof (render_token_nonempty t). destruct (render_token t); [congruence|]. cbn [List.length]. lia.
Qed.

Lemma lex_render ts : forall f, wsep ts -> (List.length ts < f)%nat -> lex f (render ts) = Some ts.
Proof.
  induction ts as [|t ts IH]; intros f Hw Hf; (destruct f as [|f]; [lia|]).
  - reflexivity.
  - change (render (t :: ts)) with (render_token t ++ render ts).
    cbn [List.length] in Hf.
    assert (Hrest : wsep ts) by (destruct t; cbn in Hw; tauto).
    assert (IH' : lex f (render ts) = Some ts) by (apply IH; auto; lia).
    destruct t; try (rewrite lex_step_kw by reflexivity; rewrite IH'; reflexivity).
    + rewrite lex_step_num by (apply nodigit_render; cbn in Hw; tauto). rewrite IH'. reflexivity.
    + rewrite lex_step_str. rewrite IH'. reflexivity.
Qed.

(* ---- the printer's token sequences are of that kind ---- *)
Lemma wsep_tjoin_sets xs : forall r,
  (forall x, In x xs -> forall rest, wsep rest -> next_ok rest -> wsep (print_tokens x ++ rest)) ->
  wsep r -> next_ok r -> wsep (tjoin [TComma] (map print_tokens xs) ++ r).
Proof.
  induction xs as [|x xs IH]; intros r Hx Hr Hn; [exact Hr|].
  destruct xs as [|y ys].
  - cbn [map tjoin]. apply Hx; cbn; auto.
  - change (tjoin [TComma] (map print_tokens (x :: y :: ys)))
      with (print_tokens x ++ [TComma] ++ tjoin [TComma] (map print_tokens (y :: ys))).
    rewrite <- !app_assoc. apply Hx; [cbn; auto| |exact I].
    cbn [app wsep]. apply IH; auto. intros z Hz. apply Hx. right. exact Hz.
Qed.

Lemma wsep_tjoin_bindings kvs : forall r,
  (forall k v, In (k, v) kvs ->
     (forall rest, wsep rest -> next_ok rest -> wsep (print_tokens k ++ rest)) /\
     (forall rest, wsep rest -> next_ok rest -> wsep (print_tokens v ++ rest))) ->
  wsep r -> next_ok r -> wsep (tjoin [TAtAt] (map binding_tokens kvs) ++ r).
Proof.
  assert (B : forall k v r,
     (forall rest, wsep rest -> next_ok rest -> wsep (print_tokens k ++ rest)) ->
     (forall rest, wsep rest -> next_ok rest -> wsep (print_tokens v ++ rest)) ->
     wsep r -> wsep (binding_tokens (k, v) ++ r)).
  { intros k v r Hk Hv Hr. cbn [binding_tokens app wsep]. rewrite <- !app_assoc. apply Hk; [|exact I].
    cbn [app wsep]. rewrite <- app_assoc. apply Hv; [|exact I]. cbn [app wsep]. exact Hr. }
  induction kvs as [|[k v] kvs IH]; intros r Hx Hr Hn; [exact Hr|].
  destruct (Hx k v (or_introl eq_refl)) as [Hk Hv].
  destruct kvs as [|q kvs].
  - cbn [map tjoin]. apply B; auto.
  - change (tjoin [TAtAt] (map binding_tokens ((k, v) :: q :: kvs)))
      with (binding_tokens (k, v) ++ [TAtAt] ++ tjoin [TAtAt] (map binding_tokens (q :: kvs))).
    rewrite <- !app_assoc. apply B; auto. cbn [app wsep]. apply IH; auto.
    intros k' v' Hin. apply Hx. right. exact Hin.
Qed.

Lemma wsep_print_tokens : forall v rest, wsep rest -> next_ok rest -> wsep (print_tokens v ++ rest).
Proof.
  induction v as [| b | z | s | xs IH | xs IH | kvs IH] using value_ind'; intros rest Hr Hn.
  - exact Hr.
  - destruct b; exact Hr.
  - cbn. auto.
  - exact Hr.
  - rewrite All_In in IH. cbn [print_tokens app wsep]. rewrite <- app_assoc.
    apply wsep_tjoin_sets; auto. exact I.
  - rewrite All_In in IH. cbn [print_tokens app wsep]. rewrite <- app_assoc.
    apply wsep_tjoin_sets; auto. exact I.
  - destruct kvs as [|p kvs]; [exact Hr|]. rewrite All_In in IH.
    cbn [print_tokens app wsep]. rewrite <- app_assoc.
    match goal with |- context [map ?g (p :: kvs)] =>
      replace (map g (p :: kvs)) with (map binding_tokens (p :: kvs)) by (apply map_ext; intros [? ?]; reflexivity) end.
    apply wsep_tjoin_bindings; auto; [|exact I].
    intros k v Hin. specialize (IH _ Hin). cbn in IH. exact IH.
Qed.

(* (5) at byte level: the printed form of EVERY value reads back to exactly that value *)
Theorem print_parse_lemma : forall v, parse (print v) = Some v.
Proof.
  intros v. apply print_parse_partial_lemma. rewrite print_render.
  apply lex_render.
  - rewrite <- (app_nil_r (print_tokens v)). apply wsep_print_tokens; exact I.
  - pose proof (render_length (print_tokens v)). lia.
Qed.
