(* C14 — typed transition system of the generated primary-backup key-value store
   (DESIGN §4 C14 calls this file PB.v).

   Transcribed label by label from /repo/systems/pbkvs/pbkvs.tla (the PlusCal translation
   between BEGIN/END PLUSCAL TRANSLATION, i.e. with the mapping macros ReliableFIFOLink,
   NetworkToggle, PerfectFD, FileSystem, LeaderElection, NetworkBufferLength, Channel expanded),
   for ANY number of replicas and clients and any key/value strings.

   One event = one process executes one label atomically with a choice vector
   (branch of the label's first `either`, the `mayFail` either, the element taken by CHOOSE).
   A step returns
     Ok s'      the label commits
     Blocked    an `await` is false (the Go critical section aborts), a process is Done,
                or the dictated CHOOSE element is not in the set
     AssertFail a PlusCal `assert` fails (Go: ErrAssertionFailed)
     TypeErr    a field of a record that does not have it / an uninitialised local is accessed
                (TLA+ evaluation error; Go: ErrTLAType panic)

   This file contains definitions only (no proofs). *)
From Coq Require Import List Arith Bool String.
Import ListNotations.
Open Scope string_scope.
Open Scope nat_scope.

Definition node := nat.
Definition key := string.
Definition value := string.

Inductive mtyp := GET_REQ | GET_RESP | PUT_REQ | PUT_RESP | SYNC_REQ | SYNC_RESP.
Inductive srct := CLIENT_SRC | PRIMARY_SRC | BACKUP_SRC.
Inductive chan := REQ | RESP.   (* REQ_INDEX = 1, RESP_INDEX = 2 *)

(* message bodies that occur in the system *)
Inductive body :=
| BReq (k : key) (ov : option value)            (* client: [key |-> k, value |-> v] / [key |-> k] *)
| BPut (ver : nat) (okv : option (key * value)) (* lastPutBody: [versionNumber |-> n] / [versionNumber |-> n, key |-> k, value |-> v] *)
| BContent (c : value).                         (* [content |-> c] *)

Definition ACK_MSG_BODY := BContent "ack-body".

Record msg := mkMsg { m_from : node; m_to : node; m_body : body; m_src : srct; m_typ : mtyp; m_id : nat }.
Record cmsg := mkCmsg { cm_typ : mtyp; cm_body : body }.     (* element of clientInput *)
Record link := mkLink { queue : list msg; enabled : bool }.

Inductive rpc := ReplicaLoop | SyncPrimary | SndSyncReqLoop | RcvSyncRespLoop | RcvMsg | HandleBackup
               | HandlePrimary | SndReplicaReqLoop | RcvReplicaRespLoop | SndResp | FailLabel | RDone.
Inductive cpc := ClientLoop | SndReq | RcvResp | CDone.

(* locals of AReplica that live across labels.  repReq, repResp, resp, replica are assigned
   before every use inside one label and are not part of the model state. *)
Record rlocal := mkR {
  r_pc : rpc; r_req : option msg; r_respBody : option body; r_respTyp : option mtyp;
  r_idx : nat; r_replicaSet : list node; r_shouldSync : bool; r_lastPutBody : body }.
(* locals of AClient that live across labels (req, resp are label-local) *)
Record clocal := mkC { c_pc : cpc; c_msg : option cmsg; c_replica : node; c_idx : nat }.

(* linearizability history (ghost): invocation when clientLoop takes an input,
   response when rcvResp writes the output *)
Inductive hevent := HInv (c : node) (m : cmsg) | HRes (c : node) (v : value).

Record state := mkSt {
  net : node -> chan -> link;      (* network *)
  fdv : node -> bool;              (* fd *)
  fsv : node -> key -> value;      (* fs *)
  prim : node -> bool;             (* primary, as the characteristic function of the set *)
  cin : list cmsg;                 (* clientInput *)
  cout : option value;             (* clientOutput (None = defaultInitValue) *)
  rl : node -> rlocal;
  cl : node -> clocal;
  hist : list hevent }.            (* ghost, never read by a step *)

Record config := mkCfg { NR : nat; NC : nat; explore_fail : bool }.

Record choice := mkCh {
  ch_alt : bool;    (* take the second branch of the label's first `either` *)
  ch_fail : bool;   (* take the crash branch of mayFail *)
  ch_pick : node }. (* element returned by CHOOSE r \in replicaSet : TRUE *)

Inductive event := Ev (p : node) (c : choice).

Inductive outcome := Ok (s : state) | Blocked | AssertFail | TypeErr.

(* ------------------------------------------------------------------ equality tests *)
Definition mtyp_eqb (a b : mtyp) : bool :=
  match a, b with GET_REQ, GET_REQ | GET_RESP, GET_RESP | PUT_REQ, PUT_REQ | PUT_RESP, PUT_RESP
                | SYNC_REQ, SYNC_REQ | SYNC_RESP, SYNC_RESP => true | _, _ => false end.
Definition srct_eqb (a b : srct) : bool :=
  match a, b with CLIENT_SRC, CLIENT_SRC | PRIMARY_SRC, PRIMARY_SRC | BACKUP_SRC, BACKUP_SRC => true | _, _ => false end.
Definition chan_eqb (a b : chan) : bool :=
  match a, b with REQ, REQ | RESP, RESP => true | _, _ => false end.
Definition ostr_eqb (a b : option string) : bool :=
  match a, b with Some x, Some y => String.eqb x y | None, None => true | _, _ => false end.
Definition okv_eqb (a b : option (key * value)) : bool :=
  match a, b with Some (k, v), Some (k', v') => String.eqb k k' && String.eqb v v' | None, None => true | _, _ => false end.
Definition body_eqb (a b : body) : bool :=
  match a, b with
  | BReq k ov, BReq k' ov' => String.eqb k k' && ostr_eqb ov ov'
  | BPut n kv, BPut n' kv' => Nat.eqb n n' && okv_eqb kv kv'
  | BContent c, BContent c' => String.eqb c c'
  | _, _ => false end.

(* ------------------------------------------------------------------ record field access *)
Definition body_key (b : body) : option key :=
  match b with BReq k _ => Some k | BPut _ (Some (k, _)) => Some k | _ => None end.
Definition body_value (b : body) : option value :=
  match b with BReq _ (Some v) => Some v | BPut _ (Some (_, v)) => Some v | _ => None end.
Definition body_ver (b : body) : option nat :=
  match b with BPut n _ => Some n | _ => None end.
Definition body_content (b : body) : option value :=
  match b with BContent c => Some c | _ => None end.

Definition bindT {A} (o : option A) (k : A -> outcome) : outcome :=
  match o with Some a => k a | None => TypeErr end.
Notation "x <- e ;; k" := (bindT e (fun x => k)) (at level 61, e at next level, right associativity).

(* ------------------------------------------------------------------ state update *)
Definition updf {A} (f : node -> A) (x : node) (v : A) : node -> A :=
  fun y => if Nat.eqb y x then v else f y.
Definition upd_net (nt : node -> chan -> link) (n : node) (c : chan) (l : link) : node -> chan -> link :=
  fun n' c' => if Nat.eqb n' n && chan_eqb c' c then l else nt n' c'.
Definition upd_fs (f : node -> key -> value) (n : node) (k : key) (v : value) : node -> key -> value :=
  fun n' k' => if Nat.eqb n' n && String.eqb k' k then v else f n' k'.

Definition set_net (s : state) nt := mkSt nt (fdv s) (fsv s) (prim s) (cin s) (cout s) (rl s) (cl s) (hist s).
Definition set_fd (s : state) x := mkSt (net s) x (fsv s) (prim s) (cin s) (cout s) (rl s) (cl s) (hist s).
Definition set_fs (s : state) x := mkSt (net s) (fdv s) x (prim s) (cin s) (cout s) (rl s) (cl s) (hist s).
Definition set_prim (s : state) x := mkSt (net s) (fdv s) (fsv s) x (cin s) (cout s) (rl s) (cl s) (hist s).
Definition set_cin (s : state) x := mkSt (net s) (fdv s) (fsv s) (prim s) x (cout s) (rl s) (cl s) (hist s).
Definition set_cout (s : state) x := mkSt (net s) (fdv s) (fsv s) (prim s) (cin s) x (rl s) (cl s) (hist s).
Definition set_rl (s : state) (r : node) (x : rlocal) := mkSt (net s) (fdv s) (fsv s) (prim s) (cin s) (cout s) (updf (rl s) r x) (cl s) (hist s).
Definition set_cl (s : state) (c : node) (x : clocal) := mkSt (net s) (fdv s) (fsv s) (prim s) (cin s) (cout s) (rl s) (updf (cl s) c x) (hist s).
Definition add_hist (s : state) (e : hevent) := mkSt (net s) (fdv s) (fsv s) (prim s) (cin s) (cout s) (rl s) (cl s) (hist s ++ [e]).

Definition r_set_pc (l : rlocal) pc := mkR pc (r_req l) (r_respBody l) (r_respTyp l) (r_idx l) (r_replicaSet l) (r_shouldSync l) (r_lastPutBody l).
Definition r_set_req (l : rlocal) x := mkR (r_pc l) x (r_respBody l) (r_respTyp l) (r_idx l) (r_replicaSet l) (r_shouldSync l) (r_lastPutBody l).
Definition r_set_resp (l : rlocal) b t := mkR (r_pc l) (r_req l) b t (r_idx l) (r_replicaSet l) (r_shouldSync l) (r_lastPutBody l).
Definition r_set_idx (l : rlocal) x := mkR (r_pc l) (r_req l) (r_respBody l) (r_respTyp l) x (r_replicaSet l) (r_shouldSync l) (r_lastPutBody l).
Definition r_set_rs (l : rlocal) x := mkR (r_pc l) (r_req l) (r_respBody l) (r_respTyp l) (r_idx l) x (r_shouldSync l) (r_lastPutBody l).
Definition r_set_sync (l : rlocal) x := mkR (r_pc l) (r_req l) (r_respBody l) (r_respTyp l) (r_idx l) (r_replicaSet l) x (r_lastPutBody l).
Definition r_set_lpb (l : rlocal) x := mkR (r_pc l) (r_req l) (r_respBody l) (r_respTyp l) (r_idx l) (r_replicaSet l) (r_shouldSync l) x.

(* ------------------------------------------------------------------ constants and macros *)
Definition replicas (cfg : config) : list node := seq 1 (NR cfg).          (* REPLICA_SET *)
Definition is_replica (cfg : config) (p : node) : bool := (1 <=? p) && (p <=? NR cfg).
Definition is_client (cfg : config) (p : node) : bool := (NR cfg + 1 <=? p) && (p <=? NR cfg + NC cfg).
Definition others (cfg : config) (self : node) : list node :=                (* REPLICA_SET \ {self} *)
  filter (fun r => negb (Nat.eqb r self)) (replicas cfg).
Definition remove_node (x : node) (l : list node) : list node := filter (fun r => negb (Nat.eqb r x)) l.
Definition mem_node (x : node) (l : list node) : bool := existsb (Nat.eqb x) l.

(* LeaderElection read: the least element of `primary`, NULL = 0 if it is empty *)
Definition leader (cfg : config) (s : state) : node := hd 0 (filter (prim s) (replicas cfg)).

(* ReliableFIFOLink write: await enabled; append *)
Definition link_send (s : state) (n : node) (c : chan) (m : msg) : option state :=
  let l := net s n c in
  if enabled l then Some (set_net s (upd_net (net s) n c (mkLink (queue l ++ [m]) (enabled l)))) else None.

(* ReliableFIFOLink read: assert enabled; await Len > 0; take the head *)
Definition link_recv (s : state) (n : node) (c : chan) (k : msg -> state -> outcome) : outcome :=
  let l := net s n c in
  if negb (enabled l) then AssertFail else
  match queue l with
  | [] => Blocked
  | m :: q => k m (set_net s (upd_net (net s) n c (mkLink q (enabled l))))
  end.

(* NetworkToggle writes of mayFail's crash branch *)
Definition disable (s : state) (self : node) : state :=
  let n1 := upd_net (net s) self REQ (mkLink (queue (net s self REQ)) false) in
  let n2 := upd_net n1 self RESP (mkLink (queue (n1 self RESP)) false) in
  set_net s n2.

(* macro mayFail(self, netEnabled) followed by `goto next` on the skip branch *)
Definition may_fail (cfg : config) (ch : choice) (s : state) (self : node) (l : rlocal) (next : rpc) : outcome :=
  if explore_fail cfg && ch_fail ch
  then Ok (set_rl (disable s self) self (r_set_pc l FailLabel))
  else Ok (set_rl s self (r_set_pc l next)).

(* ------------------------------------------------------------------ AReplica labels *)
Definition step_replicaLoop cfg ch s self : outcome :=
  let l := rl s self in
  let l := r_set_idx (r_set_rs l (others cfg self)) 1 in
  may_fail cfg ch s self l SyncPrimary.

Definition step_syncPrimary cfg (ch : choice) s self : outcome :=
  let l := rl s self in
  if Nat.eqb (leader cfg s) self && r_shouldSync l
  then Ok (set_rl s self (r_set_pc (r_set_sync l false) SndSyncReqLoop))
  else Ok (set_rl s self (r_set_pc l RcvMsg)).

(* shared shape of sndSyncReqLoop / sndReplicaReqLoop *)
Definition step_sndLoop cfg ch s self (typ : mtyp) (id : nat) (here after : rpc) : outcome :=
  let l := rl s self in
  let idx := r_idx l in
  if idx <=? NR cfg then
    if negb (Nat.eqb idx self) then
      if negb (ch_alt ch) then
        let m := mkMsg self idx (r_lastPutBody l) PRIMARY_SRC typ id in
        match link_send s idx REQ m with
        | None => Blocked
        | Some s1 => may_fail cfg ch s1 self (r_set_idx l (idx + 1)) here
        end
      else
        if fdv s idx then may_fail cfg ch s self (r_set_idx l (idx + 1)) here else Blocked
    else may_fail cfg ch s self (r_set_idx l (idx + 1)) here
  else Ok (set_rl s self (r_set_pc l after)).

Definition step_sndSyncReqLoop cfg ch s self : outcome :=
  step_sndLoop cfg ch s self SYNC_REQ 3 SndSyncReqLoop RcvSyncRespLoop.

Definition step_rcvSyncRespLoop cfg ch s self : outcome :=
  let l := rl s self in
  match r_replicaSet l with
  | [] => Ok (set_rl s self (r_set_pc l RcvMsg))
  | _ :: _ =>
    if negb (ch_alt ch) then
      link_recv s self RESP (fun m s1 =>
        if negb (Nat.eqb (m_id m) 3 && Nat.eqb (m_to m) self && srct_eqb (m_src m) BACKUP_SRC
                 && mtyp_eqb (m_typ m) SYNC_RESP
                 && (mem_node (m_from m) (r_replicaSet l) || fdv s1 (m_from m)))
        then AssertFail else
        rv <- body_ver (m_body m) ;;
        lv <- body_ver (r_lastPutBody l) ;;
        if lv <? rv then
          k <- body_key (m_body m) ;;
          v <- body_value (m_body m) ;;
          let s2 := set_fs s1 (upd_fs (fsv s1) self k v) in
          let l2 := r_set_idx (r_set_rs (r_set_lpb l (m_body m)) (others cfg self)) 1 in
          Ok (set_rl s2 self (r_set_pc l2 SndSyncReqLoop))
        else
          Ok (set_rl s1 self (r_set_pc (r_set_rs l (remove_node (m_from m) (r_replicaSet l))) RcvSyncRespLoop)))
    else
      let r := ch_pick ch in
      if negb (mem_node r (r_replicaSet l)) then Blocked else
      if fdv s r && Nat.eqb (List.length (queue (net s self RESP))) 0
      then Ok (set_rl s self (r_set_pc (r_set_rs l (remove_node r (r_replicaSet l))) RcvSyncRespLoop))
      else Blocked
  end.

Definition step_rcvMsg cfg (ch : choice) s self : outcome :=
  let l := rl s self in
  if Nat.eqb (leader cfg s) self && r_shouldSync l
  then Ok (set_rl s self (r_set_pc l SyncPrimary))
  else
    link_recv s self REQ (fun m s1 =>
      if negb (Nat.eqb (m_to m) self) then AssertFail else
      let l1 := r_set_req l (Some m) in
      if Nat.eqb (leader cfg s1) self && srct_eqb (m_src m) CLIENT_SRC
      then Ok (set_rl s1 self (r_set_pc l1 HandlePrimary))
      else Ok (set_rl s1 self (r_set_pc l1 HandleBackup))).

Definition step_handleBackup (cfg : config) ch s self : outcome :=
  let l := rl s self in
  req <- r_req l ;;
  if negb (srct_eqb (m_src req) PRIMARY_SRC) then AssertFail else
  (* the if / else-if chain; continuation receives the state and locals after it *)
  let finish (s1 : state) (l1 : rlocal) : outcome :=
    rb <- r_respBody l1 ;;
    rt <- r_respTyp l1 ;;
    let resp := mkMsg self (m_from req) rb BACKUP_SRC rt (m_id req) in
    if negb (ch_alt ch) then
      match link_send s1 (m_to resp) RESP resp with
      | None => Blocked
      | Some s2 => Ok (set_rl s2 self (r_set_pc l1 ReplicaLoop))
      end
    else
      if fdv s1 (m_to resp) then Ok (set_rl s1 self (r_set_pc l1 ReplicaLoop)) else Blocked in
  match m_typ req with
  | GET_REQ =>
      k <- body_key (m_body req) ;;
      finish s (r_set_resp l (Some (BContent (fsv s self k))) (Some GET_RESP))
  | PUT_REQ =>
      k <- body_key (m_body req) ;;
      v <- body_value (m_body req) ;;
      let s1 := set_fs s (upd_fs (fsv s) self k v) in
      rv <- body_ver (m_body req) ;;
      lv <- body_ver (r_lastPutBody l) ;;
      if rv <? lv then AssertFail else
      finish s1 (r_set_sync (r_set_resp (r_set_lpb l (m_body req)) (Some ACK_MSG_BODY) (Some PUT_RESP)) true)
  | SYNC_REQ =>
      rv <- body_ver (m_body req) ;;
      lv <- body_ver (r_lastPutBody l) ;;
      if lv <? rv then
        k <- body_key (m_body req) ;;
        v <- body_value (m_body req) ;;
        let s1 := set_fs s (upd_fs (fsv s) self k v) in
        let l1 := r_set_lpb l (m_body req) in
        finish s1 (r_set_sync (r_set_resp l1 (Some (r_lastPutBody l1)) (Some SYNC_RESP)) true)
      else
        finish s (r_set_sync (r_set_resp l (Some (r_lastPutBody l)) (Some SYNC_RESP)) true)
  | _ => finish s l
  end.

Definition step_handlePrimary cfg (ch : choice) s self : outcome :=
  let l := rl s self in
  req <- r_req l ;;
  if negb (srct_eqb (m_src req) CLIENT_SRC) then AssertFail else
  match m_typ req with
  | GET_REQ =>
      k <- body_key (m_body req) ;;
      Ok (set_rl s self (r_set_pc (r_set_resp l (Some (BContent (fsv s self k))) (Some GET_RESP)) SndResp))
  | PUT_REQ =>
      k <- body_key (m_body req) ;;
      v <- body_value (m_body req) ;;
      let s1 := set_fs s (upd_fs (fsv s) self k v) in
      lv <- body_ver (r_lastPutBody l) ;;
      let l1 := r_set_lpb l (BPut (lv + 1) (Some (k, v))) in
      let l2 := r_set_resp l1 (Some ACK_MSG_BODY) (Some PUT_RESP) in
      let l3 := r_set_idx (r_set_rs l2 (others cfg self)) 1 in
      Ok (set_rl s1 self (r_set_pc l3 SndReplicaReqLoop))
  | _ => Ok (set_rl s self (r_set_pc l SndReplicaReqLoop))
  end.

Definition step_sndReplicaReqLoop cfg ch s self : outcome :=
  req <- r_req (rl s self) ;;
  step_sndLoop cfg ch s self PUT_REQ (m_id req) SndReplicaReqLoop RcvReplicaRespLoop.

Definition step_rcvReplicaRespLoop cfg ch s self : outcome :=
  let l := rl s self in
  match r_replicaSet l with
  | [] => Ok (set_rl s self (r_set_pc l SndResp))
  | _ :: _ =>
    if negb (ch_alt ch) then
      link_recv s self RESP (fun m s1 =>
        req <- r_req l ;;
        if negb ((mem_node (m_from m) (r_replicaSet l) || fdv s1 (m_from m))
                 && Nat.eqb (m_to m) self && body_eqb (m_body m) ACK_MSG_BODY
                 && srct_eqb (m_src m) BACKUP_SRC && mtyp_eqb (m_typ m) PUT_RESP
                 && Nat.eqb (m_id m) (m_id req))
        then AssertFail else
        may_fail cfg ch s1 self (r_set_rs l (remove_node (m_from m) (r_replicaSet l))) RcvReplicaRespLoop)
    else
      let r := ch_pick ch in
      if negb (mem_node r (r_replicaSet l)) then Blocked else
      if fdv s r && Nat.eqb (List.length (queue (net s self RESP))) 0
      then may_fail cfg ch s self (r_set_rs l (remove_node r (r_replicaSet l))) RcvReplicaRespLoop
      else Blocked
  end.

Definition step_sndResp (cfg : config) (ch : choice) s self : outcome :=
  let l := rl s self in
  req <- r_req l ;;
  rb <- r_respBody l ;;
  rt <- r_respTyp l ;;
  let resp := mkMsg self (m_from req) rb PRIMARY_SRC rt (m_id req) in
  match link_send s (m_to resp) RESP resp with
  | None => Blocked
  | Some s1 => Ok (set_rl s1 self (r_set_pc l ReplicaLoop))
  end.

Definition step_failLabel (cfg : config) (ch : choice) s self : outcome :=
  let s1 := set_fd s (updf (fdv s) self true) in
  let s2 := set_prim s1 (updf (prim s1) self false) in
  Ok (set_rl s2 self (r_set_pc (rl s self) RDone)).

Definition step_replica cfg ch s self : outcome :=
  match r_pc (rl s self) with
  | ReplicaLoop => step_replicaLoop cfg ch s self
  | SyncPrimary => step_syncPrimary cfg ch s self
  | SndSyncReqLoop => step_sndSyncReqLoop cfg ch s self
  | RcvSyncRespLoop => step_rcvSyncRespLoop cfg ch s self
  | RcvMsg => step_rcvMsg cfg ch s self
  | HandleBackup => step_handleBackup cfg ch s self
  | HandlePrimary => step_handlePrimary cfg ch s self
  | SndReplicaReqLoop => step_sndReplicaReqLoop cfg ch s self
  | RcvReplicaRespLoop => step_rcvReplicaRespLoop cfg ch s self
  | SndResp => step_sndResp cfg ch s self
  | FailLabel => step_failLabel cfg ch s self
  | RDone => Blocked
  end.

(* ------------------------------------------------------------------ AClient labels *)
Definition c_set_pc (l : clocal) pc := mkC pc (c_msg l) (c_replica l) (c_idx l).

Definition step_clientLoop (cfg : config) (ch : choice) s self : outcome :=
  let l := cl s self in
  match cin s with
  | [] => Blocked
  | m :: rest =>
      let s1 := set_cin s rest in
      Ok (add_hist (set_cl s1 self (mkC SndReq (Some m) (c_replica l) (c_idx l + 1))) (HInv self m))
  end.

Definition step_sndReq cfg ch s self : outcome :=
  let l := cl s self in
  let replica := leader cfg s in
  let l1 := mkC (c_pc l) (c_msg l) replica (c_idx l) in
  if negb (Nat.eqb replica 0) then
    if negb (ch_alt ch) then
      m <- c_msg l ;;
      let req := mkMsg self replica (cm_body m) CLIENT_SRC (cm_typ m) (c_idx l) in
      match link_send s replica REQ req with
      | None => Blocked
      | Some s1 => Ok (set_cl s1 self (c_set_pc l1 RcvResp))
      end
    else
      if fdv s replica then Ok (set_cl s self (c_set_pc l1 SndReq)) else Blocked
  else Ok (set_cl s self (c_set_pc l1 CDone)).

Definition step_rcvResp (cfg : config) ch s self : outcome :=
  let l := cl s self in
  if negb (ch_alt ch) then
    link_recv s self RESP (fun r s1 =>
      if negb (Nat.eqb (m_id r) (c_idx l)) then Ok (set_cl s1 self (c_set_pc l RcvResp)) else
      m <- c_msg l ;;
      match cm_typ m with
      | PUT_REQ =>
          if negb (Nat.eqb (m_to r) self && Nat.eqb (m_from r) (c_replica l) && body_eqb (m_body r) ACK_MSG_BODY
                   && srct_eqb (m_src r) PRIMARY_SRC && mtyp_eqb (m_typ r) PUT_RESP && Nat.eqb (m_id r) (c_idx l))
          then AssertFail else
          c <- body_content (m_body r) ;;
          Ok (add_hist (set_cl (set_cout s1 (Some c)) self (c_set_pc l ClientLoop)) (HRes self c))
      | GET_REQ =>
          if negb (Nat.eqb (m_to r) self && Nat.eqb (m_from r) (c_replica l)
                   && srct_eqb (m_src r) PRIMARY_SRC && mtyp_eqb (m_typ r) GET_RESP && Nat.eqb (m_id r) (c_idx l))
          then AssertFail else
          c <- body_content (m_body r) ;;
          Ok (add_hist (set_cl (set_cout s1 (Some c)) self (c_set_pc l ClientLoop)) (HRes self c))
      | _ => AssertFail
      end)
  else
    if fdv s (c_replica l) && Nat.eqb (List.length (queue (net s self RESP))) 0
    then Ok (set_cl s self (c_set_pc l SndReq)) else Blocked.

Definition step_client cfg ch s self : outcome :=
  match c_pc (cl s self) with
  | ClientLoop => step_clientLoop cfg ch s self
  | SndReq => step_sndReq cfg ch s self
  | RcvResp => step_rcvResp cfg ch s self
  | CDone => Blocked
  end.

(* ------------------------------------------------------------------ the system *)
Definition step (cfg : config) (s : state) (e : event) : outcome :=
  match e with Ev p ch =>
    if is_replica cfg p then step_replica cfg ch s p
    else if is_client cfg p then step_client cfg ch s p
    else Blocked
  end.

Definition rl_init : rlocal := mkR ReplicaLoop None None None 0 [] false (BPut 0 None).
Definition cl_init : clocal := mkC ClientLoop None 0 0.

Definition init (cfg : config) (input : list cmsg) : state :=
  mkSt (fun _ _ => mkLink [] true) (fun _ => false) (fun _ _ => "") (is_replica cfg)
       input None (fun _ => rl_init) (fun _ => cl_init) [].

(* an execution: every event commits *)
Fixpoint exec (cfg : config) (s : state) (evs : list event) : option state :=
  match evs with
  | [] => Some s
  | e :: evs' => match step cfg s e with Ok s' => exec cfg s' evs' | _ => None end
  end.

(* a schedule in which attempts that do not commit leave the state unchanged (what the Go runtime does
   with an aborted critical section; an archetype that failed an assertion simply stops) *)
Fixpoint run_skip (cfg : config) (s : state) (evs : list event) : state :=
  match evs with
  | [] => s
  | e :: evs' => match step cfg s e with Ok s' => run_skip cfg s' evs' | _ => run_skip cfg s evs' end
  end.

(* ------------------------------------------------------------------ the spec's invariant, verbatim
   IsAlive(r) == pc[r] # "failLabel" /\ pc[r] # "Done"
   Primary == the least alive replica
   ConsistencyOK == (AtLeastOneAlive /\ pc[Primary] = "sndResp") =>
                       \A r \in AliveReplicas: \A key \in KEY_SET: fs[Primary][key] = fs[r][key]
   (KEY_SET is every key: the generated code never consults KEY_SET.) *)
Definition is_alive (s : state) (r : node) : Prop :=
  r_pc (rl s r) <> FailLabel /\ r_pc (rl s r) <> RDone.
Definition in_replicas (cfg : config) (r : node) : Prop := 1 <= r <= NR cfg.
Definition is_Primary (cfg : config) (s : state) (p : node) : Prop :=
  in_replicas cfg p /\ is_alive s p /\ forall q, in_replicas cfg q -> is_alive s q -> p <= q.
Definition ConsistencyOK (cfg : config) (s : state) : Prop :=
  forall p, is_Primary cfg s p -> r_pc (rl s p) = SndResp ->
  forall r, in_replicas cfg r -> is_alive s r -> forall k, fsv s p k = fsv s r k.

(* boolean version over a finite key list, for the correspondence check *)
Definition alive_b (s : state) (r : node) : bool :=
  match r_pc (rl s r) with FailLabel | RDone => false | _ => true end.
Definition consistency_b (cfg : config) (keys : list key) (s : state) : bool :=
  match filter (alive_b s) (replicas cfg) with
  | [] => true
  | p :: rest =>
      match r_pc (rl s p) with
      | SndResp => forallb (fun r => forallb (fun k => String.eqb (fsv s p k) (fsv s r k)) keys) rest
      | _ => true
      end
  end.

(* ------------------------------------------------------------------ linearizability
   Sequential specification: a map key -> value, initially "" everywhere; Put(k,v) returns
   "ack-body", Get(k) returns the current value.  A history is linearizable iff the completed
   operations, plus any subset of the pending ones, can be ordered so that the order respects
   real time (an operation that responded before another was invoked comes first) and every
   completed operation returns what the sequential store returns. *)
Record op := mkOp { op_client : node; op_msg : cmsg; op_inv : nat; op_res : option (nat * value) }.
   (* op_inv / fst op_res: positions of the invocation / response event in the history *)

Definition kvstore := key -> value.
Definition kv_init : kvstore := fun _ => "".
(* result and next store of applying an operation sequentially; None: not a Get/Put *)
Definition kv_apply (st : kvstore) (m : cmsg) : option (value * kvstore) :=
  match cm_typ m, cm_body m with
  | GET_REQ, BReq k _ => Some (st k, st)
  | PUT_REQ, BReq k (Some v) => Some ("ack-body", fun k' => if String.eqb k' k then v else st k')
  | _, _ => None
  end.

(* operations of a history, in invocation order: an invocation opens an operation of its client, a response
   closes the client's open operation (histories of the system are well formed: per client, invocations and
   responses alternate) *)
Definition set_res (c : node) (t : nat) (v : value) (o : op) : op :=
  match op_res o with
  | None => if Nat.eqb (op_client o) c then mkOp (op_client o) (op_msg o) (op_inv o) (Some (t, v)) else o
  | Some _ => o
  end.
Definition ops_step (acc : list op * nat) (e : hevent) : list op * nat :=
  match e with
  | HInv c m => (List.app (fst acc) [mkOp c m (snd acc) None], S (snd acc))
  | HRes c v => (map (set_res c (snd acc) v) (fst acc), S (snd acc))
  end.
Definition ops_of (h : list hevent) : list op := fst (fold_left ops_step h ([], 0)).


(* o may be linearized next among the remaining operations `rest`: no remaining operation
   responded before o was invoked *)
Definition minimal (o : op) (rest : list op) : bool :=
  forallb (fun o' => match op_res o' with Some (t, _) => negb (t <? op_inv o) | None => true end) rest.

Fixpoint remove_nth {A} (n : nat) (l : list A) : list A :=
  match n, l with
  | _, [] => []
  | 0, _ :: t => t
  | S n', x :: t => x :: remove_nth n' t
  end.

(* Wing-Gong search.  fuel >= number of remaining operations suffices. *)
Fixpoint lin_search (fuel : nat) (st : kvstore) (rest : list op) : bool :=
  match fuel with
  | 0 => forallb (fun o => match op_res o with None => true | Some _ => false end) rest
  | S f =>
      forallb (fun o => match op_res o with None => true | Some _ => false end) rest
      || existsb (fun i =>
           match nth_error rest i with
           | None => false
           | Some o =>
               minimal o rest &&
               match kv_apply st (op_msg o) with
               | None => false
               | Some (v, st') =>
                   match op_res o with
                   | Some (_, v') => String.eqb v v' && lin_search f st' (remove_nth i rest)
                   | None => lin_search f st' (remove_nth i rest)   (* pending operation takes effect *)
                   end
               end
           end) (seq 0 (List.length rest))
  end.

Definition linearizable_b (h : list hevent) : bool :=
  let ops := ops_of h in lin_search (List.length ops) kv_init ops.

(* declarative definition *)
Fixpoint seq_ok (st : kvstore) (l : list op) : Prop :=
  match l with
  | [] => True
  | o :: l' =>
      match kv_apply st (op_msg o) with
      | None => False
      | Some (v, st') => (match op_res o with Some (_, v') => v = v' | None => True end) /\ seq_ok st' l'
      end
  end.
(* real-time order: if a responded before b was invoked then a is before b in l *)
Definition rt_before (a b : op) : Prop := match op_res a with Some (t, _) => t < op_inv b | None => False end.
Fixpoint respects_rt (l : list op) : Prop :=
  match l with
  | [] => True
  | o :: l' => (forall o', In o' l' -> ~ rt_before o' o) /\ respects_rt l'
  end.
Definition sublist_perm (l ops : list op) : Prop :=   (* l is a permutation of a sub-multiset of ops containing all completed ones *)
  NoDup (map op_inv l) /\ (forall o, In o l -> In o ops) /\
  (forall o, In o ops -> op_res o <> None -> In o l).
Definition linearizable (h : list hevent) : Prop :=
  exists l, sublist_perm l (ops_of h) /\ respects_rt l /\ seq_ok kv_init l.

(* inputs the clients may be given: Get(k) and Put(k,v) *)
Definition input_ok (m : cmsg) : Prop :=
  match cm_typ m, cm_body m with
  | GET_REQ, BReq _ None => True
  | PUT_REQ, BReq _ (Some _) => True
  | _, _ => False
  end.
