(* C14 — linearizability via a linearizing monitor (pure reasoning about histories).

   A monitor trace interleaves invocations, linearization points and responses; the monitor applies the
   operation to an abstract store at its linearization point and checks that the response carries the value
   computed there.  Theorem: the history (invocations / responses) of every trace the monitor accepts is linearizable. *)
From Coq Require Import List Arith Bool String Lia.
From PGV Require Import C14.Model.
Import ListNotations.
Open Scope list_scope.
Open Scope nat_scope.

(* ------------------------------------------------------------------ ops_of when the history grows *)
Definition ev_client (e : hevent) : node := match e with HInv c _ | HRes c _ => c end.

Lemma find_res_snoc_inv : forall c' h p c m, find_res c' p (h ++ [HInv c m]) = find_res c' p h.
Proof.
  intros c' h. induction h as [|e h IH]; intros p c m; cbn.
  - destruct (Nat.eqb c' c); reflexivity.
  - destruct e as [c2 m2|c2 v2]; destruct (Nat.eqb c' c2); auto.
Qed.

Lemma ops_from_snoc_inv : forall h pos c m,
  ops_from pos (h ++ [HInv c m]) = ops_from pos h ++ [mkOp c m (pos + List.length h) None].
Proof.
  induction h as [|e h IH]; intros pos c m; cbn.
  - rewrite Nat.add_0_r. reflexivity.
  - replace (pos + S (List.length h)) with (S pos + List.length h) by lia.
    destruct e as [c2 m2|c2 v2]; rewrite IH; cbn; [rewrite find_res_snoc_inv|]; reflexivity.
Qed.

(* no event of client c in h *)
Definition quiet_of (c : node) (h : list hevent) : Prop := forall e, In e h -> ev_client e <> c.

Lemma find_res_quiet : forall c h p, quiet_of c h -> find_res c p h = None.
Proof.
  intros c h. induction h as [|e h IH]; intros p Hq; cbn; [reflexivity|].
  assert (He : ev_client e <> c) by (apply Hq; left; reflexivity).
  destruct e as [c2 m2|c2 v2]; cbn in He; (destruct (Nat.eqb c c2) eqn:E; [apply Nat.eqb_eq in E; congruence|]);
    apply IH; intros e' Hin; apply Hq; right; exact Hin.
Qed.

Lemma find_res_snoc_res_quiet : forall c h p v, quiet_of c h ->
  find_res c p (h ++ [HRes c v]) = Some (p + List.length h, v).
Proof.
  intros c h. induction h as [|e h IH]; intros p v Hq; cbn.
  - rewrite Nat.eqb_refl, Nat.add_0_r. reflexivity.
  - assert (He : ev_client e <> c) by (apply Hq; left; reflexivity).
    destruct e as [c2 m2|c2 v2]; cbn in He; (destruct (Nat.eqb c c2) eqn:E; [apply Nat.eqb_eq in E; congruence|]);
      rewrite IH by (intros e' Hin; apply Hq; right; exact Hin); do 2 f_equal; lia.
Qed.

Lemma find_res_snoc_res_other : forall c' h p c v, c' <> c -> find_res c' p (h ++ [HRes c v]) = find_res c' p h.
Proof.
  intros c' h. induction h as [|e h IH]; intros p c v Hne; cbn.
  - apply Nat.eqb_neq in Hne. rewrite Hne. reflexivity.
  - destruct e as [c2 m2|c2 v2]; destruct (Nat.eqb c' c2); auto.
Qed.

Lemma find_res_snoc_some : forall c' h p e r, find_res c' p h = Some r -> find_res c' p (h ++ [e]) = Some r.
Proof.
  intros c' h. induction h as [|e0 h IH]; intros p e r H; cbn in *; [discriminate|].
  destruct e0 as [c2 m2|c2 v2]; destruct (Nat.eqb c' c2); try discriminate; auto.
Qed.

(* ------------------------------------------------------------------ the monitor *)
Inductive cstatus := CIdle | CInvoked (m : cmsg) | CLinearized (m : cmsg) (v : value).
Inductive ievent := IInv (c : node) (m : cmsg) | ILin (c : node) | IRes (c : node) (v : value).
Record mon := mkMon { mo_store : kvstore; mo_st : node -> cstatus }.

Definition mon_init : mon := mkMon kv_init (fun _ => CIdle).
Definition upd_st (f : node -> cstatus) (c : node) (x : cstatus) : node -> cstatus :=
  fun c' => if Nat.eqb c' c then x else f c'.

Definition mon_step (mo : mon) (e : ievent) : option mon :=
  match e with
  | IInv c m => match mo_st mo c with CIdle => Some (mkMon (mo_store mo) (upd_st (mo_st mo) c (CInvoked m))) | _ => None end
  | ILin c => match mo_st mo c with
              | CInvoked m => match kv_apply (mo_store mo) m with
                              | Some (v, st') => Some (mkMon st' (upd_st (mo_st mo) c (CLinearized m v)))
                              | None => None end
              | _ => None end
  | IRes c v => match mo_st mo c with
                | CLinearized m v' => if String.eqb v v' then Some (mkMon (mo_store mo) (upd_st (mo_st mo) c CIdle)) else None
                | _ => None end
  end.

Fixpoint mon_run (mo : mon) (t : list ievent) : option mon :=
  match t with
  | [] => Some mo
  | e :: t' => match mon_step mo e with Some mo' => mon_run mo' t' | None => None end
  end.

Definition proj_ev (e : ievent) : list hevent :=
  match e with IInv c m => [HInv c m] | ILin _ => [] | IRes c v => [HRes c v] end.
Definition proj (t : list ievent) : list hevent := flat_map proj_ev t.

Lemma mon_run_app : forall t1 t2 mo, mon_run mo (t1 ++ t2) =
  match mon_run mo t1 with Some mo' => mon_run mo' t2 | None => None end.
Proof.
  induction t1 as [|e t1 IH]; intros t2 mo; cbn; [reflexivity|].
  destruct (mon_step mo e); [apply IH | reflexivity].
Qed.

Lemma proj_app : forall t1 t2, proj (t1 ++ t2) = proj t1 ++ proj t2.
Proof. intros. unfold proj. apply flat_map_app. Qed.
