(* C14 — linearizability via a linearizing monitor (pure reasoning about histories).

   A monitor trace interleaves invocations, linearization points and responses; the monitor applies the
   operation to an abstract store at its linearization point and checks that the response carries the value
   computed there.  Theorem: the history (invocations / responses) of every trace the monitor accepts is linearizable. *)
From Coq Require Import List Arith Bool String Lia.
From PGV Require Import C14.Model.
Import ListNotations.
Open Scope list_scope.
Open Scope nat_scope.

(* ------------------------------------------------------------------ ops_of when the history grows *)
Definition ops_acc (h : list hevent) : list op * nat := fold_left ops_step h ([], 0).

Lemma ops_acc_snoc : forall h e, ops_acc (h ++ [e]) = ops_step (ops_acc h) e.
Proof. intros. unfold ops_acc. rewrite fold_left_app. reflexivity. Qed.

Lemma ops_of_acc : forall h, ops_of h = fst (ops_acc h).
Proof. reflexivity. Qed.

(* ------------------------------------------------------------------ the monitor *)
Inductive cstatus := CIdle | CInvoked (m : cmsg) | CLinearized (m : cmsg) (v : value).
Inductive ievent := IInv (c : node) (m : cmsg) | ILin (c : node) | IRes (c : node) (v : value).
Record mon := mkMon { mo_store : kvstore; mo_st : node -> cstatus }.

Definition mon_init : mon := mkMon kv_init (fun _ => CIdle).
Definition upd_st (f : node -> cstatus) (c : node) (x : cstatus) : node -> cstatus :=
  fun c' => if Nat.eqb c' c then x else f c'.

Definition mon_step (mo : mon) (e : ievent) : option mon :=
  match e with
  | IInv c m => match mo_st mo c with CIdle => Some (mkMon (mo_store mo) (upd_st (mo_st mo) c (CInvoked m))) | _ => None end
  | ILin c => match mo_st mo c with
              | CInvoked m => match kv_apply (mo_store mo) m with
                              | Some (v, st') => Some (mkMon st' (upd_st (mo_st mo) c (CLinearized m v)))
                              | None => None end
              | _ => None end
  | IRes c v => match mo_st mo c with
                | CLinearized m v' => if String.eqb v v' then Some (mkMon (mo_store mo) (upd_st (mo_st mo) c CIdle)) else None
                | _ => None end
  end.

Fixpoint mon_run (mo : mon) (t : list ievent) : option mon :=
  match t with
  | [] => Some mo
  | e :: t' => match mon_step mo e with Some mo' => mon_run mo' t' | None => None end
  end.

Definition proj_ev (e : ievent) : list hevent :=
  match e with IInv c m => [HInv c m] | ILin _ => [] | IRes c v => [HRes c v] end.
Definition proj (t : list ievent) : list hevent := flat_map proj_ev t.

Lemma mon_run_app : forall t1 t2 mo, mon_run mo (t1 ++ t2) =
  match mon_run mo t1 with Some mo' => mon_run mo' t2 | None => None end.
Proof.
  induction t1 as [|e t1 IH]; intros t2 mo; cbn; [reflexivity|].
  destruct (mon_step mo e); [apply IH | reflexivity].
Qed.

Lemma proj_app : forall t1 t2, proj (t1 ++ t2) = proj t1 ++ proj t2.
Proof. intros. unfold proj. apply flat_map_app. Qed.

(* ------------------------------------------------------------------ the monitor's histories are linearizable *)
(* replay of a linearization with the value computed for every operation *)
Fixpoint rp (st : kvstore) (lr : list (op * value)) (fin : kvstore) : Prop :=
  match lr with
  | [] => fin = st
  | (o, v) :: lr' => exists st', kv_apply st (op_msg o) = Some (v, st') /\
                                (forall t vr, op_res o = Some (t, vr) -> vr = v) /\ rp st' lr' fin
  end.

Lemma rp_snoc : forall lr st fin o v st', rp st lr fin -> kv_apply fin (op_msg o) = Some (v, st') ->
  (forall t vr, op_res o = Some (t, vr) -> vr = v) -> rp st (lr ++ [(o, v)]) st'.
Proof.
  induction lr as [|[o1 v1] lr IH]; intros st fin o v st' H Ha Hr; cbn in *.
  - subst fin. exists st'. auto.
  - destruct H as (st1 & H1 & H2 & H3). exists st1. split; [exact H1|]. split; [exact H2|]. eapply IH; eauto.
Qed.

Lemma rp_seq_ok : forall lr st fin, rp st lr fin -> seq_ok st (map fst lr).
Proof.
  induction lr as [|[o v] lr IH]; intros st fin H; cbn in *; [exact I|].
  destruct H as (st' & H1 & H2 & H3). rewrite H1. split; [|eapply IH; eauto].
  destruct (op_res o) as [[t vr]|] eqn:E; [|exact I]. symmetry. eapply H2. reflexivity.
Qed.

Lemma respects_rt_snoc : forall l o, respects_rt l -> (forall o1, In o1 l -> ~ rt_before o o1) -> respects_rt (l ++ [o]).
Proof.
  induction l as [|a l IH]; intros o H Ho; cbn in *.
  - split; [intros o' [] | exact I].
  - destruct H as [H1 H2]. split.
    + intros o' Hin. apply in_app_or in Hin. destruct Hin as [Hin|[<-|[]]]; [apply H1; exact Hin | apply Ho; left; reflexivity].
    + apply IH; [exact H2 | intros o1 Hin; apply Ho; right; exact Hin].
Qed.

Definition fres (c : node) (t : nat) (v : value) (p : op * value) : op * value := (set_res c t v (fst p), snd p).

Lemma set_res_client : forall c t v o, op_client (set_res c t v o) = op_client o.
Proof. intros. unfold set_res. destruct (op_res o); [reflexivity|]. destruct (Nat.eqb (op_client o) c); reflexivity. Qed.
Lemma set_res_msg : forall c t v o, op_msg (set_res c t v o) = op_msg o.
Proof. intros. unfold set_res. destruct (op_res o); [reflexivity|]. destruct (Nat.eqb (op_client o) c); reflexivity. Qed.
Lemma set_res_inv' : forall c t v o, op_inv (set_res c t v o) = op_inv o.
Proof. intros. unfold set_res. destruct (op_res o); [reflexivity|]. destruct (Nat.eqb (op_client o) c); reflexivity. Qed.
Lemma set_res_same : forall c t v o, op_res o <> None -> set_res c t v o = o.
Proof. intros c t v o H. unfold set_res. destruct (op_res o); [reflexivity | congruence]. Qed.
Lemma set_res_other : forall c t v o, op_client o <> c -> set_res c t v o = o.
Proof. intros c t v o H. unfold set_res. destruct (op_res o); [reflexivity|]. apply Nat.eqb_neq in H. rewrite H. reflexivity. Qed.
Lemma set_res_hit : forall c t v o, op_client o = c -> op_res o = None -> op_res (set_res c t v o) = Some (t, v).
Proof. intros c t v o H1 H2. unfold set_res. rewrite H2, H1, Nat.eqb_refl. reflexivity. Qed.

(* the invariant of the induction *)
Record J (mo : mon) (ops : list op) (pos : nat) (lr : list (op * value)) : Prop := {
  j_nd : NoDup (map op_inv ops);
  j_nd_l : NoDup (map op_inv (map fst lr));
  j_in : forall p, In p lr -> In (fst p) ops;
  j_done : forall o, In o ops -> op_res o <> None -> In o (map fst lr);
  j_rt : respects_rt (map fst lr);
  j_rp : rp kv_init lr (mo_store mo);
  j_pos : forall o, In o ops -> op_inv o < pos /\ (forall t v, op_res o = Some (t, v) -> t < pos);
  j_cl : forall c,
    match mo_st mo c with
    | CIdle => forall o, In o ops -> op_client o = c -> op_res o <> None
    | CInvoked m => exists o, In o ops /\ op_client o = c /\ op_res o = None /\ op_msg o = m /\ ~ In o (map fst lr) /\
                              forall o', In o' ops -> op_client o' = c -> op_res o' = None -> o' = o
    | CLinearized m v => exists o, In o ops /\ op_client o = c /\ op_res o = None /\ op_msg o = m /\ In (o, v) lr /\
                              forall o', In o' ops -> op_client o' = c -> op_res o' = None -> o' = o
    end }.

Lemma J_init : J mon_init [] 0 [].
Proof. constructor; cbn; try (constructor; fail); try easy. Qed.

Lemma upd_st_same : forall f c x, upd_st f c x c = x.
Proof. intros. unfold upd_st. rewrite Nat.eqb_refl. reflexivity. Qed.
Lemma upd_st_other : forall f c x c', c' <> c -> upd_st f c x c' = f c'.
Proof. intros. unfold upd_st. apply Nat.eqb_neq in H. rewrite H. reflexivity. Qed.

Lemma NoDup_snoc_nat : forall (l : list nat) x, NoDup l -> ~ In x l -> NoDup (l ++ [x]).
Proof.
  induction l as [|a l IH]; intros x Hnd Hni; cbn.
  - constructor; [intros []|constructor].
  - inversion Hnd; subst. constructor.
    + intros Hin. apply in_app_or in Hin. destruct Hin as [Hin|[->|[]]]; [tauto|]. apply Hni. left. reflexivity.
    + apply IH; [assumption|]. intros Hin. apply Hni. right. exact Hin.
Qed.

Lemma inv_unique : forall ops o1 o2, NoDup (map op_inv ops) -> In o1 ops -> In o2 ops -> op_inv o1 = op_inv o2 -> o1 = o2.
Proof.
  induction ops as [|a ops IH]; intros o1 o2 Hnd H1 H2 E; [destruct H1|].
  cbn in Hnd. inversion Hnd as [|? ? Hn Hnd']; subst.
  destruct H1 as [<-|H1]; destruct H2 as [<-|H2]; auto.
  - exfalso. apply Hn. rewrite E. apply in_map. exact H2.
  - exfalso. apply Hn. rewrite <- E. apply in_map. exact H1.
Qed.

(* ---- invocation *)
Lemma J_inv : forall mo ops pos lr c m,
  J mo ops pos lr -> mo_st mo c = CIdle ->
  J (mkMon (mo_store mo) (upd_st (mo_st mo) c (CInvoked m))) (ops ++ [mkOp c m pos None]) (S pos) lr.
Proof.
  intros mo ops pos lr c m Hj Hc. destruct Hj as [J1 J2 J3 J4 J5 J6 J7 J8].
  set (onew := mkOp c m pos None).
  assert (Hfresh : ~ In pos (map op_inv ops)).
  { intros Hin. apply in_map_iff in Hin. destruct Hin as (o & E & Hin). destruct (J7 o Hin) as [H _]. lia. }
  constructor; cbn [mo_store mo_st].
  - rewrite map_app. cbn. apply NoDup_snoc_nat; assumption.
  - exact J2.
  - intros p Hp. apply in_or_app. left. apply J3. exact Hp.
  - intros o Hin Hr. apply in_app_or in Hin. destruct Hin as [Hin|[<-|[]]]; [apply J4; assumption | cbn in Hr; congruence].
  - exact J5.
  - exact J6.
  - intros o Hin. apply in_app_or in Hin. destruct Hin as [Hin|[<-|[]]].
    + destruct (J7 o Hin) as [H1 H2]. split; [lia|]. intros t v E. specialize (H2 t v E). lia.
    + cbn. split; [lia | intros; discriminate].
  - intros c'. destruct (Nat.eq_dec c' c) as [->|Hne].
    + rewrite upd_st_same. exists onew. split; [apply in_or_app; right; left; reflexivity|].
      split; [reflexivity|]. split; [reflexivity|]. split; [reflexivity|]. split.
      * intros Hin. apply in_map_iff in Hin. destruct Hin as (p & E & Hp). apply J3 in Hp. rewrite E in Hp.
        apply Hfresh. change pos with (op_inv onew). apply in_map. exact Hp.
      * intros o' Hin Hc' Hr. apply in_app_or in Hin. destruct Hin as [Hin|[<-|[]]]; [|reflexivity].
        exfalso. pose proof (J8 c) as H. rewrite Hc in H. apply (H o' Hin Hc' Hr).
    + rewrite upd_st_other by exact Hne. pose proof (J8 c') as H. destruct (mo_st mo c') as [|m'|m' v'].
      * intros o Hin Hco. apply in_app_or in Hin. destruct Hin as [Hin|[<-|[]]]; [apply H; assumption | cbn in Hco; congruence].
      * destruct H as (o & H1 & H2 & H3 & H4 & H5 & H6). exists o. split; [apply in_or_app; left; exact H1|].
        repeat split; auto. intros o' Hin Hco Hr. apply in_app_or in Hin. destruct Hin as [Hin|[<-|[]]]; [apply H6; assumption | cbn in Hco; congruence].
      * destruct H as (o & H1 & H2 & H3 & H4 & H5 & H6). exists o. split; [apply in_or_app; left; exact H1|].
        repeat split; auto. intros o' Hin Hco Hr. apply in_app_or in Hin. destruct Hin as [Hin|[<-|[]]]; [apply H6; assumption | cbn in Hco; congruence].
Qed.

(* ---- linearization point *)
Lemma J_lin : forall mo ops pos lr c m v st',
  J mo ops pos lr -> mo_st mo c = CInvoked m -> kv_apply (mo_store mo) m = Some (v, st') ->
  exists lr', J (mkMon st' (upd_st (mo_st mo) c (CLinearized m v))) ops pos lr'.
Proof.
  intros mo ops pos lr c m v st' Hj Hc Ha. destruct Hj as [J1 J2 J3 J4 J5 J6 J7 J8].
  pose proof (J8 c) as H. rewrite Hc in H. destruct H as (o & H1 & H2 & H3 & H4 & H5 & H6).
  exists (lr ++ [(o, v)]).
  assert (Hninv : ~ In (op_inv o) (map op_inv (map fst lr))).
  { intros Hin. apply in_map_iff in Hin. destruct Hin as (o1 & E & Hin1). apply H5.
    assert (In o1 ops). { apply in_map_iff in Hin1. destruct Hin1 as (p & <- & Hp). apply J3. exact Hp. }
    rewrite <- (inv_unique ops o1 o J1 H H1 E). exact Hin1. }
  constructor; cbn [mo_store mo_st].
  - exact J1.
  - rewrite !map_app. cbn. apply NoDup_snoc_nat; assumption.
  - intros p Hp. apply in_app_or in Hp. destruct Hp as [Hp|[<-|[]]]; [apply J3; exact Hp | exact H1].
  - intros o1 Hin Hr. rewrite map_app. apply in_or_app. left. apply J4; assumption.
  - rewrite map_app. cbn. apply respects_rt_snoc; [exact J5|]. intros o1 _. unfold rt_before. rewrite H3. tauto.
  - eapply rp_snoc; [exact J6 | rewrite H4; exact Ha | intros t vr E; rewrite H3 in E; discriminate].
  - exact J7.
  - intros c'. destruct (Nat.eq_dec c' c) as [->|Hne].
    + rewrite upd_st_same. exists o. repeat split; auto. apply in_or_app. right. left. reflexivity.
    + rewrite upd_st_other by exact Hne. pose proof (J8 c') as H. destruct (mo_st mo c') as [|m'|m' v'].
      * exact H.
      * destruct H as (o1 & G1 & G2 & G3 & G4 & G5 & G6). exists o1. repeat split; auto.
        rewrite map_app. intros Hin. apply in_app_or in Hin. destruct Hin as [Hin|[E|[]]]; [tauto|].
        cbn in E. subst o1. congruence.
      * destruct H as (o1 & G1 & G2 & G3 & G4 & G5 & G6). exists o1. repeat split; auto. apply in_or_app. left. exact G5.
Qed.

(* ---- response *)
Lemma nodup_map_inj : forall A (g : A -> nat) (l : list A) a b, NoDup (map g l) -> In a l -> In b l -> g a = g b -> a = b.
Proof.
  induction l as [|x l IH]; intros a b Hnd H1 H2 E; [destruct H1|].
  cbn in Hnd. inversion Hnd as [|? ? Hn Hnd']; subst.
  destruct H1 as [<-|H1]; destruct H2 as [<-|H2]; auto.
  - exfalso. apply Hn. rewrite E. apply in_map. exact H2.
  - exfalso. apply Hn. rewrite <- E. apply in_map. exact H1.
Qed.

Lemma respects_rt_map : forall (f : op -> op) l pos,
  (forall o, op_inv (f o) = op_inv o) ->
  (forall o, In o l -> op_inv o < pos) ->
  (forall o t v, op_res (f o) = Some (t, v) -> op_res o = Some (t, v) \/ t = pos) ->
  respects_rt l -> respects_rt (map f l).
Proof.
  intros f l pos Hinv Hpos Hres. induction l as [|a l IH]; intros H; cbn in *; [exact I|].
  destruct H as [H1 H2]. split; [|apply IH; [intros o Ho; apply Hpos; right; exact Ho | exact H2]].
  intros o' Hin. apply in_map_iff in Hin. destruct Hin as (o0 & <- & Hin). unfold rt_before.
  destruct (op_res (f o0)) as [[t v]|] eqn:E; [|tauto]. rewrite Hinv.
  destruct (Hres o0 t v E) as [E0| ->].
  - specialize (H1 o0 Hin). unfold rt_before in H1. rewrite E0 in H1. exact H1.
  - assert (op_inv a < pos) by (apply Hpos; left; reflexivity). lia.
Qed.

Lemma J_res : forall mo ops pos lr c m v,
  J mo ops pos lr -> mo_st mo c = CLinearized m v ->
  J (mkMon (mo_store mo) (upd_st (mo_st mo) c CIdle)) (map (set_res c pos v) ops) (S pos) (map (fres c pos v) lr).
Proof.
  intros mo ops pos lr c m v Hj Hc. destruct Hj as [J1 J2 J3 J4 J5 J6 J7 J8].
  pose proof (J8 c) as H. rewrite Hc in H. destruct H as (o & H1 & H2 & H3 & H4 & H5 & H6).
  assert (Hfst : map fst (map (fres c pos v) lr) = map (set_res c pos v) (map fst lr)).
  { rewrite !map_map. reflexivity. }
  assert (Hinvs : forall l, map op_inv (map (set_res c pos v) l) = map op_inv l).
  { intros l. rewrite map_map. apply map_ext. intros a. apply set_res_inv'. }
  constructor; cbn [mo_store mo_st].
  - rewrite Hinvs. exact J1.
  - rewrite Hfst, Hinvs. exact J2.
  - intros p Hp. apply in_map_iff in Hp. destruct Hp as (p0 & <- & Hp0). cbn. apply in_map. apply J3. exact Hp0.
  - intros o' Hin Hr. rewrite Hfst. apply in_map_iff in Hin. destruct Hin as (o0 & <- & Hin0).
    apply in_map. destruct (op_res o0) as [r|] eqn:E0.
    + apply J4; [exact Hin0 | congruence].
    + destruct (Nat.eq_dec (op_client o0) c) as [Ec|Nc].
      * rewrite (H6 o0 Hin0 Ec E0). apply in_map_iff. exists (o, v). auto.
      * exfalso. rewrite (set_res_other c pos v o0 Nc) in Hr. congruence.
  - rewrite Hfst. apply (respects_rt_map _ _ pos); auto.
    + intros a. apply set_res_inv'.
    + intros a Ha. apply in_map_iff in Ha. destruct Ha as (p & <- & Hp). apply (J7 _ (J3 p Hp)).
    + intros a t v0 E. unfold set_res in E. destruct (op_res a) eqn:Ea; [left; rewrite <- E; rewrite Ea; reflexivity|].
      destruct (Nat.eqb (op_client a) c); cbn in E; [inversion E; auto | congruence].
  - (* replay: only the response of o changes, to the value computed at its linearization point *)
    assert (G : forall l st fin, (forall p, In p l -> In p lr) -> rp st l fin -> rp st (map (fres c pos v) l) fin).
    { induction l as [|[o1 v1] l IH]; intros st fin Hsub Hrp; cbn in *; [exact Hrp|].
      destruct Hrp as (st1 & R1 & R2 & R3). exists st1. rewrite set_res_msg. split; [exact R1|]. split.
      - intros t vr E. unfold set_res in E. destruct (op_res o1) eqn:E1.
        + apply (R2 t vr). rewrite <- E. rewrite E1. reflexivity.
        + destruct (Nat.eqb (op_client o1) c) eqn:Ec; cbn in E; [|congruence]. inversion E; subst vr.
          apply Nat.eqb_eq in Ec.
          assert (Hl : In (o1, v1) lr) by (apply Hsub; left; reflexivity).
          assert (Eo : o1 = o) by (apply H6; [apply (J3 _ Hl) | exact Ec | exact E1]). subst o1.
          assert (Ep : (o, v1) = (o, v)).
          { apply (nodup_map_inj _ (fun p => op_inv (fst p)) lr); auto. rewrite <- map_map. exact J2. }
          inversion Ep. reflexivity.
      - apply IH; [intros p Hp; apply Hsub; right; exact Hp | exact R3]. }
    apply G; auto.
  - intros o' Hin. apply in_map_iff in Hin. destruct Hin as (o0 & <- & Hin0). destruct (J7 o0 Hin0) as [P1 P2].
    rewrite set_res_inv'. split; [lia|]. intros t v0 E. unfold set_res in E. destruct (op_res o0) eqn:E0.
    + rewrite E0 in E. specialize (P2 t v0 E). lia.
    + destruct (Nat.eqb (op_client o0) c); cbn in E; [inversion E; lia | congruence].
  - intros c'. destruct (Nat.eq_dec c' c) as [->|Hne].
    + rewrite upd_st_same. intros o' Hin Hco. apply in_map_iff in Hin. destruct Hin as (o0 & <- & Hin0).
      rewrite set_res_client in Hco. destruct (op_res o0) eqn:E0.
      * rewrite set_res_same by congruence. congruence.
      * rewrite (set_res_hit c pos v o0 Hco E0). discriminate.
    + rewrite upd_st_other by exact Hne. pose proof (J8 c') as H. destruct (mo_st mo c') as [|m'|m' v'].
      * intros o' Hin Hco. apply in_map_iff in Hin. destruct Hin as (o0 & <- & Hin0). rewrite set_res_client in Hco.
        rewrite set_res_other by congruence. apply H; assumption.
      * destruct H as (o1 & G1 & G2 & G3 & G4 & G5 & G6).
        assert (Eo1 : set_res c pos v o1 = o1) by (apply set_res_other; congruence).
        exists o1. split; [rewrite <- Eo1; apply in_map; exact G1|]. repeat split; auto.
        -- rewrite Hfst. intros Hin. apply in_map_iff in Hin. destruct Hin as (o2 & E2 & Hin2). apply G5.
           assert (In o2 ops). { apply in_map_iff in Hin2. destruct Hin2 as (p & <- & Hp). apply J3. exact Hp. }
           assert (Eo2 : o2 = o1).
           { apply (inv_unique ops); auto. rewrite <- E2. symmetry. apply set_res_inv'. }
           rewrite <- Eo2. exact Hin2.
        -- intros o' Hin Hco Hr. apply in_map_iff in Hin. destruct Hin as (o0 & <- & Hin0). rewrite set_res_client in Hco.
           rewrite set_res_other in * by congruence. apply G6; assumption.
      * destruct H as (o1 & G1 & G2 & G3 & G4 & G5 & G6).
        assert (Eo1 : set_res c pos v o1 = o1) by (apply set_res_other; congruence).
        exists o1. split; [rewrite <- Eo1; apply in_map; exact G1|]. repeat split; auto.
        -- apply in_map_iff. exists (o1, v'). split; [unfold fres; cbn; rewrite Eo1; reflexivity | exact G5].
        -- intros o' Hin Hco Hr. apply in_map_iff in Hin. destruct Hin as (o0 & <- & Hin0). rewrite set_res_client in Hco.
           rewrite set_res_other in * by congruence. apply G6; assumption.
Qed.

(* ------------------------------------------------------------------ the theorem *)
Lemma mon_J : forall t mo, mon_run mon_init t = Some mo ->
  exists lr, J mo (fst (ops_acc (proj t))) (snd (ops_acc (proj t))) lr.
Proof.
  intros t. induction t as [|e t IH] using rev_ind; intros mo Hr.
  - cbn in Hr. inversion Hr; subst. exists []. apply J_init.
  - rewrite mon_run_app in Hr. destruct (mon_run mon_init t) as [mo0|] eqn:E0; [|discriminate].
    destruct (IH mo0 eq_refl) as (lr & Hj). cbn in Hr. destruct (mon_step mo0 e) as [mo1|] eqn:Es; [|discriminate].
    inversion Hr; subst mo1. clear Hr. rewrite proj_app. cbn [proj flat_map]. rewrite app_nil_r.
    destruct e as [c m|c|c v]; cbn [proj_ev]; cbn in Es.
    + destruct (mo_st mo0 c) eqn:Ec; try discriminate. inversion Es; subst mo.
      rewrite ops_acc_snoc. cbn [ops_step fst snd]. exists lr. apply J_inv; assumption.
    + rewrite app_nil_r. destruct (mo_st mo0 c) as [|m|m v] eqn:Ec; try discriminate.
      destruct (kv_apply (mo_store mo0) m) as [[v st']|] eqn:Ea; [|discriminate]. inversion Es; subst mo.
      eapply J_lin; eauto.
    + destruct (mo_st mo0 c) as [|m|m v'] eqn:Ec; try discriminate.
      destruct (String.eqb v v') eqn:Ev; [|discriminate]. apply String.eqb_eq in Ev. subst v'. inversion Es; subst mo.
      rewrite ops_acc_snoc. cbn [ops_step fst snd]. exists (map (fres c (snd (ops_acc (proj t))) v) lr).
      eapply J_res; eauto.
Qed.

Theorem mon_linearizable : forall t mo, mon_run mon_init t = Some mo -> linearizable (proj t).
Proof.
  intros t mo Hr. destruct (mon_J t mo Hr) as (lr & [J1 J2 J3 J4 J5 J6 J7 J8]).
  exists (map fst lr). split; [|split].
  - split; [exact J2|]. split.
    + intros o Hin. apply in_map_iff in Hin. destruct Hin as (p & <- & Hp). apply J3. exact Hp.
    + intros o Hin Hr0. apply J4; assumption.
  - exact J5.
  - eapply rp_seq_ok. exact J6.
Qed.
