(* C14 — linearizability: the checker linearizable_b is complete for the declarative definition
   (so a history it rejects is not linearizable), and the two refutation witnesses. *)
From Coq Require Import List Arith Bool String Lia.
From PGV Require Import C14.Model C14.Proofs C14.Witness.
Import ListNotations.
Open Scope nat_scope.

(* ------------------------------------------------------------------ remove_nth *)
Lemma remove_nth_length : forall A (l : list A) i x, nth_error l i = Some x ->
  List.length (remove_nth i l) = List.length l - 1.
Proof.
  intros A l. induction l as [|a l IH]; intros i x H; destruct i; cbn in *; try discriminate.
  - lia.
  - rewrite (IH i x H). apply nth_error_In in H. destruct l; [destruct H|cbn; lia].
Qed.

Lemma remove_nth_In : forall A (l : list A) i y, In y (remove_nth i l) -> In y l.
Proof.
  intros A l. induction l as [|a l IH]; intros i y H; destruct i; cbn in *; auto.
  destruct H as [H|H]; [left; exact H | right; eapply IH; exact H].
Qed.

Lemma remove_nth_keeps : forall A (l : list A) i x y, nth_error l i = Some x -> In y l -> y <> x ->
  In y (remove_nth i l).
Proof.
  intros A l. induction l as [|a l IH]; intros i x y Hn Hin Hne; destruct i; cbn in *; try discriminate.
  - inversion Hn; subst. destruct Hin as [H|H]; [congruence | exact H].
  - destruct Hin as [H|H]; [left; exact H | right; eapply IH; eauto].
Qed.

Lemma remove_nth_map : forall A B (f : A -> B) (l : list A) i, map f (remove_nth i l) = remove_nth i (map f l).
Proof.
  intros A B f l. induction l as [|a l IH]; intros i; destruct i; cbn; auto. rewrite IH. reflexivity.
Qed.

Lemma remove_nth_NoDup : forall A (l : list A) i, NoDup l -> NoDup (remove_nth i l).
Proof.
  intros A l. induction l as [|a l IH]; intros i H; destruct i; cbn; auto.
  - inversion H; assumption.
  - inversion H; subst. constructor; [|apply IH; assumption].
    intros Hin. apply remove_nth_In in Hin. contradiction.
Qed.

Lemma remove_nth_not_in : forall A (l : list A) i x, NoDup l -> nth_error l i = Some x -> ~ In x (remove_nth i l).
Proof.
  intros A l. induction l as [|a l IH]; intros i x Hnd Hn; destruct i; cbn in *; try discriminate.
  - inversion Hn; subst. inversion Hnd; assumption.
  - inversion Hnd; subst. intros [H|H].
    + subst. apply nth_error_In in Hn. contradiction.
    + eapply IH; eauto.
Qed.

(* ------------------------------------------------------------------ completeness of the search *)
Definition own_ok (o : op) : Prop := match op_res o with Some (t, _) => op_inv o < t | None => True end.

Lemma all_pending_true : forall rest, (forall o, In o rest -> op_res o = None) ->
  forallb (fun o => match op_res o with None => true | Some _ => false end) rest = true.
Proof.
  intros rest H. apply forallb_forall. intros o Ho. rewrite (H o Ho). reflexivity.
Qed.

Lemma lin_search_complete : forall l rest st fuel,
  NoDup (map op_inv rest) -> (forall o, In o rest -> own_ok o) ->
  NoDup (map op_inv l) -> (forall o, In o l -> In o rest) ->
  (forall o, In o rest -> op_res o <> None -> In o l) ->
  respects_rt l -> seq_ok st l -> List.length rest <= fuel ->
  lin_search fuel st rest = true.
Proof.
  induction l as [|o l' IH]; intros rest st fuel Hnd Hown Hndl Hsub Hall Hrt Hseq Hfuel.
  - assert (P : forall o, In o rest -> op_res o = None).
    { intros o Ho. destruct (op_res o) eqn:E; [|reflexivity]. exfalso. apply (Hall o Ho). congruence. }
    destruct fuel; cbn; rewrite (all_pending_true rest P); reflexivity.
  - assert (Ho : In o rest) by (apply Hsub; left; reflexivity).
    destruct (In_nth_error _ _ Ho) as [i Hi].
    assert (Hlt : i < List.length rest) by (apply nth_error_Some; congruence).
    destruct fuel as [|f]; [lia|]. cbn [lin_search]. apply orb_true_iff. right.
    apply existsb_exists. exists i. split; [apply in_seq; lia|]. rewrite Hi.
    cbn [seq_ok] in Hseq. destruct (kv_apply st (op_msg o)) as [[v st']|] eqn:Ek; [|contradiction].
    destruct Hseq as [Hv Hseq'].
    cbn [respects_rt] in Hrt. destruct Hrt as [Hrt1 Hrt'].
    inversion Hndl as [|? ? Hnotin Hndl']; subst.
    assert (Hmin : minimal o rest = true).
    { unfold minimal. apply forallb_forall. intros o' Ho'. destruct (op_res o') as [[t v']|] eqn:Er; [|reflexivity].
      apply negb_true_iff, Nat.ltb_ge.
      assert (Hin : In o' (o :: l')) by (apply Hall; [exact Ho' | congruence]).
      destruct Hin as [<-|Hin].
      - pose proof (Hown o Ho) as Hw. unfold own_ok in Hw. rewrite Er in Hw. lia.
      - pose proof (Hrt1 o' Hin) as Hn. unfold rt_before in Hn. rewrite Er in Hn. lia. }
    rewrite Hmin. cbn [andb].
    assert (Hrec : lin_search f st' (remove_nth i rest) = true).
    { apply (IH (remove_nth i rest) st' f); auto.
      - rewrite remove_nth_map. apply remove_nth_NoDup. exact Hnd.
      - intros o' Ho'. apply Hown. eapply remove_nth_In; exact Ho'.
      - intros o' Ho'. eapply remove_nth_keeps; [exact Hi | apply Hsub; right; exact Ho' |].
        intros ->. apply Hnotin. apply in_map. exact Ho'.
      - intros o' Ho' Hres. assert (Hin : In o' (o :: l')) by (apply Hall; [eapply remove_nth_In; exact Ho' | exact Hres]).
        destruct Hin as [<-|Hin]; [|exact Hin]. exfalso.
        assert (Hm : In (op_inv o) (remove_nth i (map op_inv rest))) by (rewrite <- remove_nth_map; apply in_map; exact Ho').
        revert Hm. apply remove_nth_not_in; [exact Hnd|]. rewrite nth_error_map, Hi. reflexivity.
      - rewrite (remove_nth_length _ _ _ _ Hi). lia. }
    destruct (op_res o) as [[t v']|]; [|exact Hrec].
    subst v'. rewrite String.eqb_refl. exact Hrec.
Qed.

(* operations extracted from a history have distinct invocation positions and respond after they are invoked *)
Definition ops_good (acc : list op * nat) : Prop :=
  NoDup (map op_inv (fst acc)) /\
  forall o, In o (fst acc) -> op_inv o < snd acc /\ own_ok o /\ (forall t v, op_res o = Some (t, v) -> t < snd acc).

Lemma set_res_inv : forall c t v o, op_inv (set_res c t v o) = op_inv o.
Proof. intros. unfold set_res. destruct (op_res o); [reflexivity|]. destruct (Nat.eqb (op_client o) c); reflexivity. Qed.

Lemma ops_step_good : forall acc e, ops_good acc -> ops_good (ops_step acc e).
Proof.
  intros [ops pos] e [Hnd Hall]. cbn [fst snd] in *. destruct e as [c m|c v]; unfold ops_good, ops_step; cbn [fst snd].
  - split.
    + rewrite map_app. cbn. apply NoDup_snoc; [exact Hnd|]. intros Hin. apply in_map_iff in Hin.
      destruct Hin as (o & Ho & Hin). destruct (Hall o Hin) as (H & _). lia.
    + intros o Hin. apply in_app_or in Hin. destruct Hin as [Hin|[<-|[]]].
      * destruct (Hall o Hin) as (H1 & H2 & H3). split; [lia|]. split; [exact H2|]. intros t v0 E. specialize (H3 t v0 E). lia.
      * cbn. split; [lia|]. split; [exact I | intros; discriminate].
  - split.
    + rewrite map_map. erewrite map_ext; [exact Hnd|]. intros o. apply set_res_inv.
    + intros o Hin. apply in_map_iff in Hin. destruct Hin as (o0 & <- & Hin). destruct (Hall o0 Hin) as (H1 & H2 & H3).
      rewrite set_res_inv. split; [lia|]. unfold set_res, own_ok in *. destruct (op_res o0) as [[t0 v0]|] eqn:E.
      * rewrite E. split; [exact H2|]. intros t v1 E1. inversion E1; subst. specialize (H3 t v1 eq_refl). lia.
      * destruct (Nat.eqb (op_client o0) c); cbn.
        -- split; [lia|]. intros t v1 E1. inversion E1; subst. lia.
        -- rewrite E. split; [exact I | intros; discriminate].
Qed.

Lemma ops_fold_good : forall h acc, ops_good acc -> ops_good (fold_left ops_step h acc).
Proof. induction h as [|e h IH]; intros acc H; cbn; [exact H | apply IH; apply ops_step_good; exact H]. Qed.

Lemma ops_of_good : forall h, ops_good (fold_left ops_step h ([], 0)).
Proof. intros h. apply ops_fold_good. split; [constructor | intros o []]. Qed.

Lemma lin_complete_lemma : forall h, linearizable h -> linearizable_b h = true.
Proof.
  intros h (l & (Hndl & Hsub & Hall) & Hrt & Hseq). unfold linearizable_b.
  destruct (ops_of_good h) as [Hnd0 Hall0].
  apply (lin_search_complete l); auto.
  intros o Ho. apply (Hall0 o Ho).
Qed.

(* ------------------------------------------------------------------ refutation witnesses *)
Lemma assert_wit_inputs_ok : Forall input_ok assert_wit_input.
Proof. repeat constructor. Qed.
Lemma lin_wit_inputs_ok : Forall input_ok lin_wit_input.
Proof. repeat constructor. Qed.

Lemma assertion_free_refuted_lemma :
  exists cfg input evs s e,
    NR cfg = 4 /\ Forall input_ok input /\
    exec cfg (init cfg input) evs = Some s /\ step cfg s e = AssertFail.
Proof.
  exists assert_wit_cfg, assert_wit_input, (removelast assert_wit_evs).
  destruct (exec assert_wit_cfg (init assert_wit_cfg assert_wit_input) (removelast assert_wit_evs)) as [s|] eqn:E.
  - exists s, (last assert_wit_evs (Ev 0 (mkCh false false 0))).
    split; [reflexivity|]. split; [exact assert_wit_inputs_ok|]. split; [reflexivity|].
    revert E.
    assert (H : match exec assert_wit_cfg (init assert_wit_cfg assert_wit_input) (removelast assert_wit_evs) with
                | Some s0 => match step assert_wit_cfg s0 (last assert_wit_evs (Ev 0 (mkCh false false 0))) with AssertFail => true | _ => false end
                | None => false end = true) by (vm_compute; reflexivity).
    intros E. rewrite E in H. clear E.
    destruct (step assert_wit_cfg s _); try (exfalso; discriminate H). reflexivity.
  - exfalso.
    assert (H : match exec assert_wit_cfg (init assert_wit_cfg assert_wit_input) (removelast assert_wit_evs) with
                | Some _ => true | None => false end = true) by (vm_compute; reflexivity).
    rewrite E in H. discriminate H.
Qed.

Lemma pb_linearizable_refuted_lemma :
  exists cfg input evs s,
    Forall input_ok input /\ exec cfg (init cfg input) evs = Some s /\ ~ linearizable (hist s).
Proof.
  exists lin_wit_cfg, lin_wit_input, lin_wit_evs.
  destruct (exec lin_wit_cfg (init lin_wit_cfg lin_wit_input) lin_wit_evs) as [s|] eqn:E.
  - exists s. split; [exact lin_wit_inputs_ok|]. split; [reflexivity|].
    intros Hl. apply lin_complete_lemma in Hl.
    assert (H : match exec lin_wit_cfg (init lin_wit_cfg lin_wit_input) lin_wit_evs with
                | Some s0 => linearizable_b (hist s0) | None => true end = false) by (vm_compute; reflexivity).
    rewrite E in H. clear E. rewrite Hl in H. discriminate H.
  - exfalso.
    assert (H : match exec lin_wit_cfg (init lin_wit_cfg lin_wit_input) lin_wit_evs with
                | Some _ => true | None => false end = true) by (vm_compute; reflexivity).
    rewrite E in H. discriminate H.
Qed.
