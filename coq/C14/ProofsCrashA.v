(* C14 — executions WITH crashes, any number of replicas: structural layer of the invariant
   (who is alive, who is the leader, which labels a replica can be at, what its queues contain). *)
From Coq Require Import List Arith Bool String Lia.
From PGV Require Import C14.Model C14.Proofs.
Import ListNotations.
Open Scope list_scope.
Open Scope nat_scope.

Ltac simp_st :=
  cbn [net fdv fsv prim cin cout rl cl hist set_net set_fd set_fs set_prim set_cin set_cout set_rl set_cl add_hist
       r_pc r_req r_respBody r_respTyp r_idx r_replicaSet r_shouldSync r_lastPutBody
       r_set_pc r_set_req r_set_resp r_set_idx r_set_rs r_set_sync r_set_lpb
       c_pc c_msg c_replica c_idx c_set_pc queue enabled
       m_from m_to m_body m_src m_typ m_id cm_typ cm_body] in *.

Ltac dif H :=
  match type of H with
  | (if ?c then _ else _) = _ => let E := fresh "E" in destruct c eqn:E
  end.

Ltac solve_ne := solve [ lia | left; lia | right; discriminate | left; congruence | congruence | assumption
                       | left; assumption | intro; subst; lia ].

Definition Kv (b : body) : nat := match b with BPut n _ => n | _ => 0 end.
Definition is_done (pc : rpc) : bool := match pc with RDone => true | _ => false end.
Definition pc_alive (pc : rpc) : bool := match pc with FailLabel | RDone => false | _ => true end.
Definition serving (pc : rpc) : Prop :=
  match pc with HandlePrimary | SndReplicaReqLoop | RcvReplicaRespLoop | SndResp => True | _ => False end.
Definition backup_pc (pc : rpc) : Prop :=
  match pc with ReplicaLoop | SyncPrimary | RcvMsg | HandleBackup => True | _ => False end.
Definition is_p (m : msg) : bool := srct_eqb (m_src m) PRIMARY_SRC.

Section CRA.
Variable cfg : config.

Definition isrep (r : node) : Prop := 1 <= r <= NR cfg.
Definition pcr (s : state) (r : node) : rpc := r_pc (rl s r).
Definition alive (s : state) (r : node) : Prop := isrep r /\ pc_alive (pcr s r) = true.
Definition K (s : state) (r : node) : nat := Kv (r_lastPutBody (rl s r)).
Definition ldr (s : state) : node := leader cfg s.

Definition creq (m : msg) : Prop :=
  m_src m = CLIENT_SRC /\ NR cfg < m_from m /\ input_ok (mkCmsg (m_typ m) (m_body m)).

(* a request sent by a (past or present) leader, pending at replica r; q is the current leader *)
Definition pmA (r q : node) (m : msg) : Prop :=
  m_src m = PRIMARY_SRC /\ (m_typ m = PUT_REQ \/ m_typ m = SYNC_REQ) /\
  1 <= m_from m /\ m_from m <= q /\ m_from m < r /\ exists ver c, m_body m = BPut ver c.

(* a message in the response queue of the leader q *)
Definition rmA (q : node) (m : msg) : Prop :=
  q < m_from m <= NR cfg /\
  ((m_typ m = SYNC_RESP /\ exists ver c, m_body m = BPut ver c) \/ m_typ m = PUT_RESP).

(* what must hold of the locals l of an alive replica r when q is the leader *)
Definition locA (s : state) (q r : node) (l : rlocal) : Prop :=
  (r <> q -> backup_pc (r_pc l)) /\
  (r_pc l = HandleBackup -> exists m, r_req l = Some m /\ pmA r q m) /\
  (serving (r_pc l) -> exists m, r_req l = Some m /\ creq m /\ r_shouldSync l = false /\
                                 Forall creq (queue (net s r REQ))) /\
  (r <> q -> 0 < Kv (r_lastPutBody l) -> r_shouldSync l = true) /\
  ((r_pc l = SyncPrimary \/ r_pc l = SndSyncReqLoop \/ (r_pc l = RcvMsg /\ r_shouldSync l = true)) ->
     r_replicaSet l = others cfg r /\ (r_pc l <> SndSyncReqLoop -> r_idx l = 1)) /\
  ((r_pc l = SndSyncReqLoop \/ r_pc l = SndReplicaReqLoop) -> 1 <= r_idx l) /\
  ((r_pc l = SndSyncReqLoop \/ r_pc l = RcvSyncRespLoop) -> r_shouldSync l = false) /\
  (exists ver c, r_lastPutBody l = BPut ver c).

(* what must hold of the queues of an alive replica r when q is the leader *)
Definition qA (s : state) (q r : node) : Prop :=
  (exists P C, queue (net s r REQ) = P ++ C /\ Forall (pmA r q) P /\ Forall creq C /\ (C <> [] -> r = q)) /\
  (r <> q -> queue (net s r RESP) = []) /\
  (r = q -> Forall (rmA q) (queue (net s r RESP))).

Record InvA (s : state) : Prop := {
  a_en_r : forall r c, isrep r -> enabled (net s r c) = pc_alive (pcr s r);
  a_en_c : forall n c, ~ isrep n -> enabled (net s n c) = true;
  a_fd : forall r, fdv s r = is_replica cfg r && is_done (pcr s r);
  a_prim : forall r, prim s r = is_replica cfg r && negb (is_done (pcr s r));
  a_cin : Forall input_ok (cin s);
  a_cmsg : forall c m, c_msg (cl s c) = Some m -> input_ok m;
  a_loc : forall r, alive s r -> locA s (ldr s) r (rl s r);
  a_q : forall r, alive s r -> qA s (ldr s) r }.

(* ------------------------------------------------------------------ the leader *)
Lemma isrep_iff : forall r, is_replica cfg r = true <-> isrep r.
Proof. intros. apply is_replica_true. Qed.

Lemma isrep_false : forall r, is_replica cfg r = false <-> ~ isrep r.
Proof. intros. rewrite <- isrep_iff. destruct (is_replica cfg r); split; congruence. Qed.

Lemma prim_true_iff : forall s r, InvA s -> (prim s r = true <-> isrep r /\ pcr s r <> RDone).
Proof.
  intros s r I. rewrite (a_prim s I), andb_true_iff, isrep_iff, negb_true_iff.
  destruct (pcr s r); cbn; split; intros [A B]; split; auto; congruence.
Qed.

Lemma ldr_nonzero : forall s, InvA s -> ldr s <> 0 ->
  isrep (ldr s) /\ pcr s (ldr s) <> RDone /\ forall r, isrep r -> r < ldr s -> pcr s r = RDone.
Proof.
  intros s I Hq. destruct (leader_spec cfg s (ldr s) eq_refl Hq) as (Hr & Hp & Hl).
  apply (prim_true_iff s _ I) in Hp. destruct Hp as [Hp1 Hp2]. repeat split; auto; try apply Hr.
  intros r Hr' Hlt. specialize (Hl r). assert (Hf : prim s r = false) by (apply Hl; unfold isrep in Hr'; lia).
  rewrite (a_prim s I) in Hf. apply isrep_iff in Hr'. rewrite Hr' in Hf. cbn in Hf.
  destruct (pcr s r); cbn in Hf; congruence.
Qed.

Lemma ldr_zero : forall s, InvA s -> ldr s = 0 -> forall r, isrep r -> pcr s r = RDone.
Proof.
  intros s I Hq r Hr. assert (Hf : prim s r = false).
  { apply (hd_filter_seq_zero (prim s) (NR cfg) 1); [lia | exact Hq | unfold isrep in Hr; lia]. }
  rewrite (a_prim s I) in Hf. apply isrep_iff in Hr. rewrite Hr in Hf. cbn in Hf.
  destruct (pcr s r); cbn in Hf; congruence.
Qed.

Lemma alive_ge_ldr : forall s r, InvA s -> alive s r -> ldr s <> 0 /\ ldr s <= r.
Proof.
  intros s r I [Hr Ha]. destruct (Nat.eq_dec (ldr s) 0) as [E|N].
  - rewrite (ldr_zero s I E r Hr) in Ha. discriminate.
  - split; [exact N|]. destruct (ldr_nonzero s I N) as (_ & _ & Hl).
    destruct (le_lt_dec (ldr s) r) as [H|H]; [exact H|]. rewrite (Hl r Hr H) in Ha. discriminate.
Qed.

Lemma alive_not_done : forall s r, alive s r -> pcr s r <> RDone /\ pcr s r <> FailLabel.
Proof. intros s r [_ H]. destruct (pcr s r); cbn in H; split; congruence. Qed.

Lemma ldr_is : forall s q, InvA s -> isrep q -> pcr s q <> RDone ->
  (forall r, isrep r -> r < q -> pcr s r = RDone) -> ldr s = q.
Proof.
  intros s q I Hq Hn Hl. apply leader_first; [exact Hq | apply (prim_true_iff s q I); split; assumption |].
  intros r Hr. assert (Hr' : isrep r) by (unfold isrep in *; lia).
  rewrite (a_prim s I). apply isrep_iff in Hr'. rewrite Hr'. rewrite (Hl r); [reflexivity | apply isrep_iff; exact Hr' | lia].
Qed.

(* the leader depends only on `prim` *)
Lemma ldr_prim_ext : forall s s', (forall r, prim s' r = prim s r) -> ldr s' = ldr s.
Proof.
  intros s s' H. unfold ldr, leader. f_equal. apply filter_ext. exact H.
Qed.


(* ------------------------------------------------------------------ small facts *)
Lemma pmA_mono : forall r q q' m, pmA r q m -> q <= q' -> pmA r q' m.
Proof. intros r q q' m (A & B & C & D & E & F) H. repeat split; auto. lia. Qed.

Lemma disable_queue : forall s p r c, queue (net (disable s p) r c) = queue (net s r c).
Proof.
  intros. unfold disable. simp_st.
  destruct (Nat.eq_dec r p) as [->|Hne].
  - destruct c.
    + rewrite upd_net_other by (right; discriminate). rewrite upd_net_same. reflexivity.
    + rewrite upd_net_same. simp_st. rewrite upd_net_other by (right; discriminate). reflexivity.
  - rewrite !upd_net_other by (left; exact Hne). reflexivity.
Qed.

Lemma disable_enabled : forall s p r c, enabled (net (disable s p) r c) = if Nat.eqb r p then false else enabled (net s r c).
Proof.
  intros. unfold disable. simp_st.
  destruct (Nat.eqb r p) eqn:E.
  - apply Nat.eqb_eq in E. subst r. destruct c.
    + rewrite upd_net_other by (right; discriminate). rewrite upd_net_same. reflexivity.
    + rewrite upd_net_same. reflexivity.
  - apply Nat.eqb_neq in E. rewrite !upd_net_other by (left; exact E). reflexivity.
Qed.

Lemma may_fail_cases : forall ch s p l next s',
  may_fail cfg ch s p l next = Ok s' ->
  s' = set_rl s p (r_set_pc l next) \/ s' = set_rl (disable s p) p (r_set_pc l FailLabel).
Proof.
  intros ch s p l next s' H. unfold may_fail in H.
  destruct (explore_fail cfg && ch_fail ch); inversion H; auto.
Qed.

Lemma alive_set_rl_other : forall s p l r, r <> p -> (alive (set_rl s p l) r <-> alive s r).
Proof. intros. unfold alive, pcr. simp_st. rewrite updf_other by assumption. tauto. Qed.

Lemma Forall_creq_filter_p : forall C, Forall creq C -> filter is_p C = [].
Proof.
  induction C as [|m C IH]; intros H; cbn; [reflexivity|]. inversion H as [|? ? Hm HC]; subst.
  destruct Hm as (Hs & _). unfold is_p. rewrite Hs. cbn. apply IH. exact HC.
Qed.

Lemma init_invA : forall input, Forall input_ok input -> InvA (init cfg input).
Proof.
  intros input Hin. constructor; cbn; auto; try easy.
  - intros r. destruct (is_replica cfg r); reflexivity.
  - intros r. destruct (is_replica cfg r); reflexivity.
  - intros r _. unfold locA. cbn. repeat split; try easy; try (intros [H|H]; discriminate H); try lia;
      try (destruct H as [H|[H|[H _]]]; discriminate H). eauto.
  - intros r _. unfold qA. cbn. repeat split; auto. exists [], []. cbn. repeat split; auto. congruence.
Qed.

(* ------------------------------------------------------------------ effect lemmas *)
(* only the locals of the alive replica p change, p stays alive *)
Lemma invA_set_rl : forall s p l', InvA s -> alive s p ->
  pc_alive (r_pc l') = true -> locA s (ldr s) p l' -> InvA (set_rl s p l').
Proof.
  intros s p l' I Ap Hal Hloc.
  assert (HL : ldr (set_rl s p l') = ldr s) by reflexivity.
  assert (Hpc : forall r, pc_alive (pcr (set_rl s p l') r) = pc_alive (pcr s r)).
  { intros r. unfold pcr. simp_st. unfold updf. destruct (Nat.eqb r p) eqn:E; [|reflexivity].
    apply Nat.eqb_eq in E; subst. rewrite Hal. symmetry. apply Ap. }
  assert (Hdn : forall r, is_done (pcr (set_rl s p l') r) = is_done (pcr s r)).
  { intros r. unfold pcr. simp_st. unfold updf. destruct (Nat.eqb r p) eqn:E; [|reflexivity].
    apply Nat.eqb_eq in E; subst. destruct Ap as [_ Ap]. unfold pcr in Ap.
    destruct (r_pc l'); cbn in Hal; try discriminate; destruct (r_pc (rl s p)); cbn in Ap; try discriminate; reflexivity. }
  assert (Hal' : forall r, alive (set_rl s p l') r <-> alive s r).
  { intros r. unfold alive. rewrite Hpc. tauto. }
  constructor; simp_st.
  - intros r c Hr. rewrite Hpc. apply (a_en_r s I r c Hr).
  - apply (a_en_c s I).
  - intros r. rewrite Hdn. apply (a_fd s I).
  - intros r. rewrite Hdn. apply (a_prim s I).
  - apply (a_cin s I).
  - apply (a_cmsg s I).
  - intros r Ar. rewrite HL. apply Hal' in Ar. unfold updf. destruct (Nat.eqb r p) eqn:E.
    + apply Nat.eqb_eq in E; subst. exact Hloc.
    + apply (a_loc s I r Ar).
  - intros r Ar. rewrite HL. apply Hal' in Ar. apply (a_q s I r Ar).
Qed.

(* the crash branch of mayFail, given the invariant of the state reached by the skip branch *)
Lemma invA_crash : forall s1 p lok lf, InvA (set_rl s1 p lok) -> isrep p -> r_pc lf = FailLabel ->
  pc_alive (r_pc lok) = true -> InvA (set_rl (disable s1 p) p lf).
Proof.
  intros s1 p lok lf I Hp Hf Hok.
  assert (HL : ldr (set_rl (disable s1 p) p lf) = ldr (set_rl s1 p lok)) by reflexivity.
  assert (Hrl : forall r, r <> p -> rl (set_rl (disable s1 p) p lf) r = rl (set_rl s1 p lok) r).
  { intros r Hr. simp_st. rewrite !updf_other by exact Hr. reflexivity. }
  assert (Hal : forall r, alive (set_rl (disable s1 p) p lf) r -> r <> p /\ alive (set_rl s1 p lok) r).
  { intros r [Hr Ha]. unfold pcr in Ha. simp_st. destruct (Nat.eq_dec r p) as [->|Hne].
    - rewrite updf_same, Hf in Ha. discriminate.
    - split; [exact Hne|]. split; [exact Hr|]. unfold pcr. simp_st. rewrite updf_other in * by exact Hne. exact Ha. }
  assert (Hdn : forall r, is_done (pcr (set_rl (disable s1 p) p lf) r) = is_done (pcr (set_rl s1 p lok) r)).
  { intros r. unfold pcr. simp_st. unfold updf. destruct (Nat.eqb r p); [|reflexivity].
    rewrite Hf. destruct (r_pc lok); cbn in Hok; try discriminate; reflexivity. }
  constructor.
  - intros r c Hr. change (net (set_rl (disable s1 p) p lf)) with (net (disable s1 p)). rewrite disable_enabled.
    unfold pcr. simp_st. unfold updf. destruct (Nat.eqb r p) eqn:E.
    + rewrite Hf. reflexivity.
    + pose proof (a_en_r _ I r c Hr) as H. unfold pcr in H. simp_st. unfold updf in H. rewrite E in H. exact H.
  - intros n c Hn. change (net (set_rl (disable s1 p) p lf)) with (net (disable s1 p)). rewrite disable_enabled.
    destruct (Nat.eqb n p) eqn:E.
    + apply Nat.eqb_eq in E; subst. contradiction.
    + apply (a_en_c _ I n c Hn).
  - intros r. rewrite Hdn. apply (a_fd _ I).
  - intros r. rewrite Hdn. apply (a_prim _ I).
  - apply (a_cin _ I).
  - apply (a_cmsg _ I).
  - intros r Ar. destruct (Hal r Ar) as [Hne Ar']. rewrite HL, Hrl by exact Hne.
    pose proof (a_loc _ I r Ar') as H. unfold locA in *. change (net (set_rl (disable s1 p) p lf)) with (net (disable s1 p)).
    rewrite disable_queue. exact H.
  - intros r Ar. destruct (Hal r Ar) as [Hne Ar']. rewrite HL.
    pose proof (a_q _ I r Ar') as H. unfold qA in *. change (net (set_rl (disable s1 p) p lf)) with (net (disable s1 p)).
    rewrite !disable_queue. exact H.
Qed.


(* a step that changes neither who is alive nor the leader *)
Lemma invA_same_roles : forall s s', InvA s ->
  (forall r c, enabled (net s' r c) = enabled (net s r c)) ->
  (forall r, fdv s' r = fdv s r) -> (forall r, prim s' r = prim s r) ->
  Forall input_ok (cin s') -> (forall c m, c_msg (cl s' c) = Some m -> input_ok m) ->
  (forall r, pc_alive (pcr s' r) = pc_alive (pcr s r)) -> (forall r, is_done (pcr s' r) = is_done (pcr s r)) ->
  (forall r, alive s r -> locA s' (ldr s) r (rl s' r) /\ qA s' (ldr s) r) -> InvA s'.
Proof.
  intros s s' I Hen Hfd Hpr Hcin Hcm Hpa Hdn Hall.
  assert (HL : ldr s' = ldr s) by (apply ldr_prim_ext; exact Hpr).
  assert (Hal : forall r, alive s' r <-> alive s r) by (intros r; unfold alive; rewrite Hpa; tauto).
  constructor.
  - intros r c Hr. rewrite Hen, Hpa. apply (a_en_r s I r c Hr).
  - intros n c Hn. rewrite Hen. apply (a_en_c s I n c Hn).
  - intros r. rewrite Hfd, Hdn. apply (a_fd s I).
  - intros r. rewrite Hpr, Hdn. apply (a_prim s I).
  - exact Hcin.
  - exact Hcm.
  - intros r Ar. rewrite HL. apply Hal in Ar. apply (Hall r Ar).
  - intros r Ar. rewrite HL. apply Hal in Ar. apply (Hall r Ar).
Qed.

Lemma locA_frame : forall s s' q r l, locA s q r l ->
  (serving (r_pc l) -> Forall creq (queue (net s r REQ)) -> Forall creq (queue (net s' r REQ))) ->
  locA s' q r l.
Proof.
  intros s s' q r l (A & B & C & D & E & F) H. unfold locA.
  split; [exact A|]. split; [exact B|]. split; [|split; [exact D|]; split; [exact E | exact F]].
  intros Hs. destruct (C Hs) as (m & H1 & H2 & H3 & H4). exists m.
  split; [exact H1|]. split; [exact H2|]. split; [exact H3|]. apply H; assumption.
Qed.

Lemma qA_frame : forall s s' q r, qA s q r ->
  queue (net s' r REQ) = queue (net s r REQ) -> queue (net s' r RESP) = queue (net s r RESP) -> qA s' q r.
Proof. intros s s' q r H H1 H2. unfold qA in *. rewrite H1, H2. exact H. Qed.

(* shape of the request queue after its head has been taken *)
Lemma shape_tail : forall r q (m : msg) rest,
  (exists P C, m :: rest = P ++ C /\ Forall (pmA r q) P /\ Forall creq C /\ (C <> [] -> r = q)) ->
  (exists P C, rest = P ++ C /\ Forall (pmA r q) P /\ Forall creq C /\ (C <> [] -> r = q)) /\
  (pmA r q m \/ (creq m /\ r = q /\ Forall creq rest)).
Proof.
  intros r q m rest (P & C & E & HP & HC & Hq). destruct P as [|p P'].
  - cbn in E. subst C. inversion HC as [|? ? Hm HC']; subst. split.
    + exists [], rest. cbn. split; [reflexivity|]. split; [constructor|]. split; [exact HC'|]. intros _. apply Hq. discriminate.
    + right. split; [exact Hm|]. split; [apply Hq; discriminate | exact HC'].
  - cbn in E. inversion E; subst. inversion HP as [|? ? Hm HP']; subst. split.
    + exists P', C. split; [reflexivity|]. split; [exact HP'|]. split; [exact HC | exact Hq].
    + left. exact Hm.
Qed.

Lemma pmA_not_creq : forall r q m, pmA r q m -> m_src m = PRIMARY_SRC.
Proof. intros r q m H. apply H. Qed.


(* InvA does not look at fs, clientOutput, hist *)
Lemma invA_proj_eq : forall s s1, InvA s ->
  net s1 = net s -> fdv s1 = fdv s -> prim s1 = prim s -> cin s1 = cin s -> cl s1 = cl s -> rl s1 = rl s -> InvA s1.
Proof.
  intros s s1 I H1 H2 H3 H4 H5 H6. destruct s, s1. cbn in *. subst.
  destruct I as [A1 A2 A3 A4 A5 A6 A7 A8]. constructor; auto.
Qed.

Ltac split_loc := unfold locA; split; [|split; [|split; [|split; [|split; [|split; [|split]]]]]].
Ltac loc_triv :=
  simp_st; auto;
  try (intros; cbn; exact Logic.I);
  try (cbn; match goal with |- False -> _ => intros [] end);
  try (let H := fresh in intros H; discriminate H);
  try (let H := fresh in intros [H|H]; discriminate H);
  try (let H := fresh in intros [H|[H|[H _]]]; discriminate H).

(* ------------------------------------------------------------------ labels of an alive replica *)
Section LABELS.
Variables (s : state) (p : node) (ch : choice) (s' : state).
Hypothesis I : InvA s.
Hypothesis Ap : alive s p.

Lemma p_isrep : isrep p. Proof. apply Ap. Qed.

Lemma invA_replicaLoop : pcr s p = ReplicaLoop -> step_replicaLoop cfg ch s p = Ok s' -> InvA s'.
Proof.
  intros Epc Hs. unfold step_replicaLoop in Hs.
  destruct (a_loc s I p Ap) as (L1 & L2 & L3 & L4 & L5 & L6 & L7 & L8). unfold pcr in Epc.
  assert (Iok : InvA (set_rl s p (r_set_pc (r_set_idx (r_set_rs (rl s p) (others cfg p)) 1) SyncPrimary))).
  { apply invA_set_rl; auto. split_loc; loc_triv. }
  apply may_fail_cases in Hs. destruct Hs as [-> | ->]; [exact Iok|].
  eapply invA_crash; [exact Iok | apply p_isrep | reflexivity | reflexivity].
Qed.

Lemma invA_syncPrimary : pcr s p = SyncPrimary -> step_syncPrimary cfg ch s p = Ok s' -> InvA s'.
Proof.
  intros Epc Hs. unfold step_syncPrimary in Hs.
  destruct (a_loc s I p Ap) as (L1 & L2 & L3 & L4 & L5 & L6 & L7 & L8). unfold pcr in Epc.
  destruct (L5 (or_introl Epc)) as [Hrs Hidx].
  destruct (Nat.eqb (leader cfg s) p && r_shouldSync (rl s p)) eqn:E; inversion Hs; subst s'; clear Hs.
  - apply andb_true_iff in E. destruct E as [E1 E2]. apply Nat.eqb_eq in E1.
    apply invA_set_rl; auto. split_loc; loc_triv.
    + intros H. exfalso. apply H. symmetry. exact E1.
    + intros _. rewrite Hidx; [lia | rewrite Epc; discriminate].
  - apply invA_set_rl; auto. split_loc; loc_triv.
    intros _. split; [exact Hrs|]. intros _. apply Hidx. rewrite Epc. discriminate.
Qed.


Lemma nonbackup_is_ldr : ~ backup_pc (pcr s p) -> p = ldr s.
Proof.
  intros H. destruct (Nat.eq_dec p (ldr s)) as [E|N]; [exact E|]. exfalso. apply H.
  apply (a_loc s I p Ap). exact N.
Qed.

Lemma enabled_alive : forall r c, isrep r -> enabled (net s r c) = true -> alive s r.
Proof. intros r c Hr He. split; [exact Hr|]. rewrite <- (a_en_r s I r c Hr). exact He. Qed.

(* the state after appending message m to the request queue of x *)
Definition send_req (x : node) (m : msg) : state :=
  set_net s (upd_net (net s) x REQ (mkLink (queue (net s x REQ) ++ [m]) (enabled (net s x REQ)))).

Lemma invA_sndLoop : forall typ id here after,
  (here = SndSyncReqLoop /\ after = RcvSyncRespLoop /\ typ = SYNC_REQ) \/
  (here = SndReplicaReqLoop /\ after = RcvReplicaRespLoop /\ typ = PUT_REQ) ->
  pcr s p = here -> step_sndLoop cfg ch s p typ id here after = Ok s' -> InvA s'.
Proof.
  intros typ id here after Hh Epc Hs. unfold pcr in Epc.
  destruct (a_loc s I p Ap) as (L1 & L2 & L3 & L4 & L5 & L6 & L7 & L8).
  assert (Hq : p = ldr s).
  { apply nonbackup_is_ldr. unfold pcr. rewrite Epc. destruct Hh as [(-> & _)|(-> & _)]; cbn; tauto. }
  assert (Hidx : 1 <= r_idx (rl s p)).
  { apply L6. rewrite Epc. destruct Hh as [(-> & _)|(-> & _)]; auto. }
  destruct L8 as (ver & c & HL).
  (* the skip-branch state for any intermediate state s1 that agrees with s on p's request queue *)
  assert (Floc : forall l', l' = r_set_pc (r_set_idx (rl s p) (r_idx (rl s p) + 1)) here \/ l' = r_set_pc (rl s p) after ->
                 locA s (ldr s) p l').
  { intros l' [-> | ->]; destruct Hh as [(-> & -> & _)|(-> & -> & _)]; split_loc; loc_triv;
      try (intros H; exfalso; apply H; exact Hq); try (rewrite Epc in *; auto; fail); try lia;
      try (eexists; eexists; exact HL).
    intros _. split; [apply L5; rewrite Epc; auto | intros H; exfalso; apply H; reflexivity]. }
  unfold step_sndLoop in Hs.
  destruct (r_idx (rl s p) <=? NR cfg) eqn:Ele.
  2:{ inversion Hs; subst s'. apply invA_set_rl; auto.
      - destruct Hh as [(_ & -> & _)|(_ & -> & _)]; reflexivity. }
  apply Nat.leb_le in Ele.
  assert (Hcr : forall s1 l1 next, may_fail cfg ch s1 p l1 next = Ok s' -> pc_alive next = true ->
                InvA (set_rl s1 p (r_set_pc l1 next)) -> InvA s').
  { intros s1 l1 next Hm Hok Iok. apply may_fail_cases in Hm. destruct Hm as [-> | ->]; [exact Iok|].
    eapply invA_crash; [exact Iok | apply p_isrep | reflexivity | exact Hok]. }
  assert (Hhere : pc_alive here = true) by (destruct Hh as [(-> & _)|(-> & _)]; reflexivity).
  destruct (negb (Nat.eqb (r_idx (rl s p)) p)) eqn:Eself.
  2:{ apply (Hcr _ _ _ Hs Hhere). apply invA_set_rl; auto. }
  apply negb_true_iff, Nat.eqb_neq in Eself.
  destruct (ch_alt ch); cbn [negb] in Hs.
  { destruct (fdv s (r_idx (rl s p))); [|discriminate].
    apply (Hcr _ _ _ Hs Hhere). apply invA_set_rl; auto. }
  unfold link_send in Hs. destruct (enabled (net s (r_idx (rl s p)) REQ)) eqn:Een; [|discriminate].
  set (x := r_idx (rl s p)) in *.
  assert (Hx : isrep x) by (unfold isrep; lia).
  assert (Ax : alive s x) by (eapply enabled_alive; eauto).
  assert (Hpx : p < x).
  { destruct (alive_ge_ldr s x I Ax) as [_ H]. rewrite <- Hq in H. lia. }
  apply (Hcr _ _ _ Hs Hhere).
  apply (invA_same_roles s); simp_st; try apply I; try reflexivity.
  - intros r c0. unfold upd_net. destruct (Nat.eqb r x && chan_eqb c0 REQ) eqn:E; [|reflexivity].
    apply andb_true_iff in E. destruct E as [E1 E2]. apply Nat.eqb_eq in E1. subst r. destruct c0; [|discriminate]. simp_st. rewrite Een. reflexivity.
  - intros r. unfold pcr. simp_st. unfold updf. destruct (Nat.eqb r p) eqn:E; [|reflexivity].
    apply Nat.eqb_eq in E. subst r. simp_st. rewrite Epc. reflexivity.
  - intros r. unfold pcr. simp_st. unfold updf. destruct (Nat.eqb r p) eqn:E; [|reflexivity].
    apply Nat.eqb_eq in E. subst r. simp_st. rewrite Epc. reflexivity.
  - intros r Ar. destruct (Nat.eq_dec r p) as [->|Hne].
    + rewrite updf_same. split.
      * eapply locA_frame; [apply Floc; left; reflexivity|]. simp_st. intros _ H.
        rewrite upd_net_other by (left; lia). exact H.
      * eapply qA_frame; [apply (a_q s I p Ap)| |]; simp_st; rewrite upd_net_other by (left; lia); reflexivity.
    + rewrite updf_other by exact Hne. destruct (Nat.eq_dec r x) as [->|Hnx].
      * split.
        -- eapply locA_frame; [apply (a_loc s I x Ax)|]. intros Hsv _. exfalso.
           assert (Hb : backup_pc (pcr s x)) by (apply (a_loc s I x Ax); rewrite <- Hq; lia).
           unfold pcr in Hb. destruct (r_pc (rl s x)); cbn in Hb, Hsv; contradiction.
        -- destruct (a_q s I x Ax) as (Sh & Rn & Rl). unfold qA. simp_st.
           rewrite upd_net_same, upd_net_other by (right; discriminate). simp_st.
           split; [|split; [exact Rn | exact Rl]].
           destruct Sh as (P & C & E & HP & HC & HCq).
           assert (C = []) by (destruct C; [reflexivity|]; exfalso; assert (x = ldr s) by (apply HCq; discriminate); lia).
           subst C. rewrite app_nil_r in E. exists (P ++ [mkMsg p x (r_lastPutBody (rl s p)) PRIMARY_SRC typ id]), [].
           rewrite E, app_nil_r. split; [reflexivity|]. split; [|split; [constructor | congruence]].
           apply Forall_app. split; [exact HP|]. constructor; [|constructor].
           unfold pmA. simp_st. split; [reflexivity|]. split; [destruct Hh as [(_ & _ & ->)|(_ & _ & ->)]; auto|].
           split; [destruct Ap as [[? ?] _]; lia|]. split; [lia|]. split; [exact Hpx|]. eauto.
      * split.
        -- eapply locA_frame; [apply (a_loc s I r Ar)|]. simp_st. intros _ H. rewrite upd_net_other by (left; exact Hnx). exact H.
        -- eapply qA_frame; [apply (a_q s I r Ar)| |]; simp_st; rewrite upd_net_other by (left; exact Hnx); reflexivity.
Qed.


(* the state after taking the head of p's queue c *)
Lemma invA_pop : forall c m rest l',
  queue (net s p c) = m :: rest ->
  pc_alive (r_pc l') = true ->
  (forall s1, queue (net s1 p REQ) = (match c with REQ => rest | RESP => queue (net s p REQ) end) -> locA s1 (ldr s) p l') ->
  (c = REQ -> (exists P C, rest = P ++ C /\ Forall (pmA p (ldr s)) P /\ Forall creq C /\ (C <> [] -> p = ldr s))) ->
  InvA (set_rl (set_net s (upd_net (net s) p c (mkLink rest true))) p l').
Proof.
  intros c m rest l' Eq Hal Hloc Hshape.
  assert (Hen : enabled (net s p c) = true).
  { rewrite (a_en_r s I p c p_isrep). apply Ap. }
  apply (invA_same_roles s); simp_st; try apply I; try reflexivity.
  - intros r c0. unfold upd_net. destruct (Nat.eqb r p && chan_eqb c0 c) eqn:E; [|reflexivity].
    apply andb_true_iff in E. destruct E as [E1 E2]. apply Nat.eqb_eq in E1. subst r.
    destruct c0, c; try discriminate; simp_st; rewrite Hen; reflexivity.
  - intros r. unfold pcr. simp_st. unfold updf. destruct (Nat.eqb r p) eqn:E; [|reflexivity].
    apply Nat.eqb_eq in E. subst r. rewrite Hal. symmetry. apply Ap.
  - intros r. unfold pcr. simp_st. unfold updf. destruct (Nat.eqb r p) eqn:E; [|reflexivity].
    apply Nat.eqb_eq in E. subst r. destruct Ap as [_ Ha]. unfold pcr in Ha.
    destruct (r_pc l'); cbn in Hal; try discriminate; destruct (r_pc (rl s p)); cbn in Ha; try discriminate; reflexivity.
  - intros r Ar. destruct (Nat.eq_dec r p) as [->|Hne].
    + rewrite updf_same. split.
      * apply Hloc. simp_st. destruct c; [rewrite upd_net_same; reflexivity | rewrite upd_net_other by (right; discriminate); reflexivity].
      * destruct (a_q s I p Ap) as (Sh & Rn & Rl). unfold qA. simp_st. destruct c.
        -- rewrite upd_net_same, upd_net_other by (right; discriminate). simp_st. split; [apply Hshape; reflexivity | split; assumption].
        -- rewrite upd_net_same, upd_net_other by (right; discriminate). simp_st. split; [exact Sh|]. rewrite Eq in *. split.
           ++ intros H. specialize (Rn H). discriminate.
           ++ intros H. specialize (Rl H). inversion Rl; assumption.
    + rewrite updf_other by exact Hne. split.
      * eapply locA_frame; [apply (a_loc s I r Ar)|]. simp_st. intros _ H. rewrite upd_net_other by (left; exact Hne). exact H.
      * eapply qA_frame; [apply (a_q s I r Ar)| |]; simp_st; rewrite upd_net_other by (left; exact Hne); reflexivity.
Qed.

Lemma invA_rcvSyncRespLoop : pcr s p = RcvSyncRespLoop -> step_rcvSyncRespLoop cfg ch s p = Ok s' -> InvA s'.
Proof.
  intros Epc Hs. unfold pcr in Epc.
  destruct (a_loc s I p Ap) as (L1 & L2 & L3 & L4 & L5 & L6 & L7 & L8).
  assert (Hq : p = ldr s).
  { apply nonbackup_is_ldr. unfold pcr. rewrite Epc. cbn. tauto. }
  assert (Hss : r_shouldSync (rl s p) = false) by (apply L7; rewrite Epc; auto).
  unfold step_rcvSyncRespLoop in Hs.
  destruct (r_replicaSet (rl s p)) as [|x0 S0] eqn:ES.
  { inversion Hs; subst s'. apply invA_set_rl; auto. split_loc; loc_triv.
    all: try (intros H; exfalso; apply H; exact Hq).
    all: try (intros [H|[H|[H H']]]; try discriminate H; congruence). }
  destruct (ch_alt ch); cbn [negb] in Hs.
  { dif Hs; [discriminate|]. dif Hs; [|discriminate]. inversion Hs; subst s'.
    apply invA_set_rl; auto. split_loc; loc_triv. all: try (intros H; exfalso; apply H; exact Hq). }
  unfold link_recv in Hs. dif Hs; [discriminate|].
  destruct (queue (net s p RESP)) as [|m rest] eqn:Eq; [discriminate|].
  dif Hs; [discriminate|].
  destruct (body_ver (m_body m)) as [rv|] eqn:Erv; cbn [bindT] in Hs; [|discriminate].
  destruct (body_ver (r_lastPutBody (rl s p))) as [lv|] eqn:Elv; cbn [bindT] in Hs; [|discriminate].
  assert (Hen : enabled (net s p RESP) = true) by (apply negb_false_iff in E; exact E).
  rewrite Hen in Hs.
  destruct (lv <? rv).
  - destruct (body_key (m_body m)) as [k|]; cbn [bindT] in Hs; [|discriminate].
    destruct (body_value (m_body m)) as [v|]; cbn [bindT] in Hs; [|discriminate].
    inversion Hs; subst s'; clear Hs.
    match goal with |- InvA (set_rl (set_fs ?s1 ?f) p ?l) =>
      change (set_rl (set_fs s1 f) p l) with (set_fs (set_rl s1 p l) f) end.
    assert (Ix : InvA (set_rl (set_net s (upd_net (net s) p RESP (mkLink rest true))) p
              (r_set_pc (r_set_idx (r_set_rs (r_set_lpb (rl s p) (m_body m)) (others cfg p)) 1) SndSyncReqLoop))).
    { eapply invA_pop; eauto; [|discriminate]. intros s1 _. split_loc; loc_triv.
      all: try (intros H; exfalso; apply H; exact Hq).
      all: try (intros _; split; [reflexivity | intros H; exfalso; apply H; reflexivity]).
      all: try (destruct (m_body m); cbn in Erv; try discriminate; eauto). }
    destruct Ix. constructor; auto.
  - inversion Hs; subst s'; clear Hs.
    eapply invA_pop; eauto; [|discriminate]. intros s1 _. split_loc; loc_triv.
    all: try (intros H; exfalso; apply H; exact Hq).
Qed.


Lemma invA_rcvMsg : pcr s p = RcvMsg -> step_rcvMsg cfg ch s p = Ok s' -> InvA s'.
Proof.
  intros Epc Hs. unfold pcr in Epc.
  destruct (a_loc s I p Ap) as (L1 & L2 & L3 & L4 & L5 & L6 & L7 & L8).
  unfold step_rcvMsg in Hs.
  destruct (Nat.eqb (leader cfg s) p && r_shouldSync (rl s p)) eqn:E.
  { inversion Hs; subst s'. apply andb_true_iff in E. destruct E as [E1 E2].
    apply invA_set_rl; auto. split_loc; loc_triv.
    intros _. destruct L5 as [H1 H2]; [right; right; split; assumption|]. split; [exact H1|]. intros _. apply H2. rewrite Epc. discriminate. }
  unfold link_recv in Hs. dif Hs; [discriminate|].
  destruct (queue (net s p REQ)) as [|m rest] eqn:Eq; [discriminate|].
  dif Hs; [discriminate|].
  change (leader cfg (set_net s (upd_net (net s) p REQ (mkLink rest (enabled (net s p REQ)))))) with (leader cfg s) in Hs.
  assert (Hen : enabled (net s p REQ) = true) by (apply negb_false_iff in E0; exact E0).
  rewrite Hen in Hs.
  destruct (a_q s I p Ap) as (Sh & _ & _). rewrite Eq in Sh.
  destruct (shape_tail _ _ _ _ Sh) as [Sh' Hm].
  destruct (Nat.eqb (leader cfg s) p && srct_eqb (m_src m) CLIENT_SRC) eqn:E2; inversion Hs; subst s'; clear Hs.
  - apply andb_true_iff in E2. destruct E2 as [E3 E4]. apply Nat.eqb_eq in E3.
    assert (Hc : creq m /\ Forall creq rest).
    { destruct Hm as [Hm | (Hm & _ & Hr)]; [|split; assumption]. exfalso. destruct Hm as (Hsrc & _). rewrite Hsrc in E4. discriminate. }
    destruct Hc as [Hc Hr].
    assert (Hss : r_shouldSync (rl s p) = false).
    { apply andb_false_iff in E. destruct E as [E|E]; [|exact E]. apply Nat.eqb_neq in E. congruence. }
    eapply invA_pop; eauto. intros s1 Hs1. split_loc; loc_triv.
    all: try (intros H; exfalso; apply H; symmetry; exact E3).
    intros _. exists m. split; [reflexivity|]. split; [exact Hc|]. split; [exact Hss|]. rewrite Hs1. exact Hr.
  - assert (Hp : pmA p (ldr s) m).
    { destruct Hm as [Hm | (Hm & Hpq & _)]; [exact Hm|]. exfalso.
      apply andb_false_iff in E2. destruct E2 as [E2|E2].
      - apply Nat.eqb_neq in E2. apply E2. symmetry. exact Hpq.
      - destruct Hm as (Hsrc & _). rewrite Hsrc in E2. discriminate. }
    eapply invA_pop; eauto. intros s1 Hs1. split_loc; loc_triv.
    intros _. exists m. split; [reflexivity | exact Hp].
Qed.


(* handleBackup: the common tail (response to the sender of the request, or skip it when the sender is detected dead) *)
Lemma invA_hb_finish : forall m l1 rb rt,
  pcr s p = HandleBackup -> pmA p (ldr s) m ->
  r_shouldSync l1 = true -> (exists ver c, r_lastPutBody l1 = BPut ver c) ->
  (rt = PUT_RESP \/ (rt = SYNC_RESP /\ exists ver c, rb = BPut ver c)) ->
  (if negb (ch_alt ch)
   then match link_send s (m_from m) RESP (mkMsg p (m_from m) rb BACKUP_SRC rt (m_id m)) with
        | None => Blocked
        | Some s2 => Ok (set_rl s2 p (r_set_pc l1 ReplicaLoop))
        end
   else if fdv s (m_from m) then Ok (set_rl s p (r_set_pc l1 ReplicaLoop)) else Blocked) = Ok s' ->
  InvA s'.
Proof.
  intros m l1 rb rt Epc Hpm Hss HL Hrt Hs. unfold pcr in Epc.
  assert (Hloc : forall s1, locA s1 (ldr s) p (r_set_pc l1 ReplicaLoop)).
  { intros s1. split_loc; loc_triv. }
  destruct (ch_alt ch); cbn [negb] in Hs.
  { destruct (fdv s (m_from m)); [|discriminate]. inversion Hs; subst s'. apply invA_set_rl; auto. }
  unfold link_send in Hs. destruct (enabled (net s (m_from m) RESP)) eqn:Een; [|discriminate].
  inversion Hs; subst s'; clear Hs.
  destruct Hpm as (Hsrc & Htyp & Hf1 & Hfq & Hfp & Hbody).
  set (x := m_from m) in *.
  assert (Hqr : isrep (ldr s)).
  { destruct (alive_ge_ldr s p I Ap) as [Hn _]. apply (ldr_nonzero s I Hn). }
  assert (Hx : isrep x) by (unfold isrep in *; lia).
  assert (Ax : alive s x) by (eapply enabled_alive; eauto).
  assert (Hxq : x = ldr s).
  { destruct (alive_ge_ldr s x I Ax) as [_ H]. lia. }
  apply (invA_same_roles s); simp_st; try apply I; try reflexivity.
  - intros r c0. unfold upd_net. destruct (Nat.eqb r x && chan_eqb c0 RESP) eqn:E; [|reflexivity].
    apply andb_true_iff in E. destruct E as [E1 E2]. apply Nat.eqb_eq in E1. subst r. destruct c0; [discriminate|]. simp_st. rewrite Een. reflexivity.
  - intros r. unfold pcr. simp_st. unfold updf. destruct (Nat.eqb r p) eqn:E; [|reflexivity].
    apply Nat.eqb_eq in E. subst r. simp_st. rewrite Epc. reflexivity.
  - intros r. unfold pcr. simp_st. unfold updf. destruct (Nat.eqb r p) eqn:E; [|reflexivity].
    apply Nat.eqb_eq in E. subst r. simp_st. rewrite Epc. reflexivity.
  - intros r Ar. destruct (Nat.eq_dec r p) as [->|Hne].
    + rewrite updf_same. split; [apply Hloc|].
      eapply qA_frame; [apply (a_q s I p Ap)| |]; simp_st; rewrite upd_net_other by solve_ne; reflexivity.
    + rewrite updf_other by exact Hne. destruct (Nat.eq_dec r x) as [->|Hnx].
      * split.
        -- eapply locA_frame; [apply (a_loc s I x Ax)|]. simp_st. intros _ H. rewrite upd_net_other by (right; discriminate). exact H.
        -- destruct (a_q s I x Ax) as (Sh & Rn & Rl). unfold qA. simp_st.
           rewrite upd_net_same, upd_net_other by (right; discriminate). simp_st.
           split; [exact Sh|]. split; [intros H; contradiction|]. intros _.
           apply Forall_app. split; [apply Rl; exact Hxq|]. constructor; [|constructor].
           unfold rmA. simp_st. split; [destruct Ap as [[? ?] _]; lia|].
           destruct Hrt as [-> | (-> & Hb)]; [right; reflexivity | left; split; [reflexivity | exact Hb]].
      * split.
        -- eapply locA_frame; [apply (a_loc s I r Ar)|]. simp_st. intros _ H. rewrite upd_net_other by (left; exact Hnx). exact H.
        -- eapply qA_frame; [apply (a_q s I r Ar)| |]; simp_st; rewrite upd_net_other by (left; exact Hnx); reflexivity.
Qed.

End LABELS.

Lemma invA_set_fs : forall s f, InvA s -> InvA (set_fs s f).
Proof. intros s f I. eapply invA_proj_eq; [exact I | reflexivity..]. Qed.

Lemma alive_set_fs : forall s f r, alive (set_fs s f) r <-> alive s r.
Proof. intros. unfold alive, pcr. simp_st. tauto. Qed.

Section LABELS2.
Variables (s : state) (p : node) (ch : choice) (s' : state).
Hypothesis I : InvA s.
Hypothesis Ap : alive s p.

Lemma invA_handleBackup : pcr s p = HandleBackup -> step_handleBackup cfg ch s p = Ok s' -> InvA s'.
Proof.
  intros Epc Hs.
  destruct (a_loc s I p Ap) as (L1 & L2 & L3 & L4 & L5 & L6 & L7 & L8).
  destruct (L2 Epc) as (m & Hreq & Hpm).
  unfold step_handleBackup in Hs. rewrite Hreq in Hs. cbn [bindT] in Hs.
  pose proof Hpm as (Hsrc & Htyp & Hf1 & Hfq & Hfp & ver & c & Hb).
  rewrite Hsrc in Hs. cbn [srct_eqb negb] in Hs.
  destruct Htyp as [Ht|Ht]; rewrite Ht, Hb in Hs; cbn [body_key body_value body_ver bindT] in Hs.
  - (* PUT_REQ *)
    destruct c as [[k v]|]; cbn [bindT] in Hs; [|discriminate].
    destruct (body_ver (r_lastPutBody (rl s p))) as [lv|]; cbn [bindT] in Hs; [|discriminate].
    dif Hs; [discriminate|]. cbn [r_respBody r_respTyp r_set_sync r_set_resp r_set_lpb bindT] in Hs.
    eapply (invA_hb_finish (set_fs s (upd_fs (fsv s) p k v)) p ch s'); try exact Hs.
    + apply invA_set_fs. exact I.
    + apply alive_set_fs. exact Ap.
    + exact Epc.
    + exact Hpm.
    + reflexivity.
    + simp_st. eauto.
    + left. reflexivity.
  - (* SYNC_REQ *)
    destruct (body_ver (r_lastPutBody (rl s p))) as [lv|]; cbn [bindT] in Hs; [|discriminate].
    destruct L8 as (ver0 & c0 & HL0).
    destruct (lv <? ver).
    + destruct c as [[k v]|]; cbn [bindT] in Hs; [|discriminate].
      cbn [r_respBody r_respTyp r_set_sync r_set_resp r_set_lpb r_lastPutBody bindT] in Hs.
      eapply (invA_hb_finish (set_fs s (upd_fs (fsv s) p k v)) p ch s'); try exact Hs.
      * apply invA_set_fs. exact I.
      * apply alive_set_fs. exact Ap.
      * exact Epc.
      * exact Hpm.
      * reflexivity.
      * simp_st. eauto.
      * right. split; [reflexivity | eauto].
    + cbn [r_respBody r_respTyp r_set_sync r_set_resp r_set_lpb r_lastPutBody bindT] in Hs.
      eapply (invA_hb_finish s p ch s'); try exact Hs; auto.
      * simp_st. eauto.
      * right. split; [reflexivity | eauto].
Qed.


Lemma creq_cases : forall m, creq m ->
  (m_typ m = GET_REQ /\ exists k, m_body m = BReq k None) \/
  (m_typ m = PUT_REQ /\ exists k v, m_body m = BReq k (Some v)).
Proof.
  intros m (_ & _ & H). unfold input_ok in H. simp_st.
  destruct (m_typ m); try contradiction; destruct (m_body m) as [k [v|]| |]; try contradiction; eauto.
Qed.

Lemma invA_handlePrimary : pcr s p = HandlePrimary -> step_handlePrimary cfg ch s p = Ok s' -> InvA s'.
Proof.
  intros Epc Hs. unfold pcr in Epc.
  destruct (a_loc s I p Ap) as (L1 & L2 & L3 & L4 & L5 & L6 & L7 & L8).
  assert (Hq : p = ldr s).
  { apply (nonbackup_is_ldr s p I Ap). unfold pcr. rewrite Epc. cbn. tauto. }
  destruct L3 as (m & Hreq & Hm & Hss & Hqc); [rewrite Epc; exact Logic.I|].
  unfold step_handlePrimary in Hs. rewrite Hreq in Hs. cbn [bindT] in Hs.
  pose proof Hm as (Hsrc & Hfrom & Hok). rewrite Hsrc in Hs. cbn [srct_eqb negb] in Hs.
  destruct (creq_cases m Hm) as [(Ht & k & Hb) | (Ht & k & v & Hb)]; rewrite Ht, Hb in Hs; cbn [body_key body_value bindT] in Hs.
  - inversion Hs; subst s'. apply invA_set_rl; auto. split_loc; loc_triv.
    all: try (intros H; exfalso; apply H; exact Hq).
    intros _. exists m. auto.
  - destruct (body_ver (r_lastPutBody (rl s p))) as [lv|]; cbn [bindT] in Hs; [|discriminate].
    inversion Hs; subst s'; clear Hs.
    match goal with |- InvA (set_rl (set_fs ?s1 ?f) p ?l) =>
      change (set_rl (set_fs s1 f) p l) with (set_fs (set_rl s1 p l) f) end.
    apply invA_set_fs. apply invA_set_rl; auto. split_loc; loc_triv.
    all: try (intros H; exfalso; apply H; exact Hq).
    all: try (intros _; exists m; auto; fail).
    eauto.
Qed.

Lemma invA_sndReplicaReqLoop : pcr s p = SndReplicaReqLoop -> step_sndReplicaReqLoop cfg ch s p = Ok s' -> InvA s'.
Proof.
  intros Epc Hs. unfold step_sndReplicaReqLoop in Hs.
  destruct (r_req (rl s p)) as [m|]; cbn [bindT] in Hs; [|discriminate].
  eapply (invA_sndLoop s p ch s' I Ap); [right; split; [reflexivity | split; reflexivity] | exact Epc | exact Hs].
Qed.

Lemma invA_sndSyncReqLoop : pcr s p = SndSyncReqLoop -> step_sndSyncReqLoop cfg ch s p = Ok s' -> InvA s'.
Proof.
  intros Epc Hs. unfold step_sndSyncReqLoop in Hs.
  eapply (invA_sndLoop s p ch s' I Ap); [left; split; [reflexivity | split; reflexivity] | exact Epc | exact Hs].
Qed.

Lemma invA_rcvReplicaRespLoop : pcr s p = RcvReplicaRespLoop -> step_rcvReplicaRespLoop cfg ch s p = Ok s' -> InvA s'.
Proof.
  intros Epc Hs. unfold pcr in Epc.
  destruct (a_loc s I p Ap) as (L1 & L2 & L3 & L4 & L5 & L6 & L7 & L8).
  assert (Hq : p = ldr s).
  { apply (nonbackup_is_ldr s p I Ap). unfold pcr. rewrite Epc. cbn. tauto. }
  destruct L3 as (m0 & Hreq & Hm & Hss & Hqc); [rewrite Epc; exact Logic.I|].
  assert (Hloc : forall s1 rs pc', queue (net s1 p REQ) = queue (net s p REQ) ->
                 pc' = RcvReplicaRespLoop \/ pc' = SndResp ->
                 locA s1 (ldr s) p (r_set_pc (r_set_rs (rl s p) rs) pc')).
  { intros s1 rs pc' Hs1 [-> | ->]; split_loc; loc_triv.
    all: try (intros H; exfalso; apply H; exact Hq).
    all: try (intros _; exists m0; rewrite Hs1; auto). }
  assert (Hcr : forall s1 l1 next, may_fail cfg ch s1 p l1 next = Ok s' -> pc_alive next = true ->
                InvA (set_rl s1 p (r_set_pc l1 next)) -> InvA s').
  { intros s1 l1 next Hm' Hok Iok. apply may_fail_cases in Hm'. destruct Hm' as [-> | ->]; [exact Iok|].
    eapply invA_crash; [exact Iok | apply Ap | reflexivity | exact Hok]. }
  unfold step_rcvReplicaRespLoop in Hs.
  destruct (r_replicaSet (rl s p)) as [|x0 S0] eqn:ES.
  { inversion Hs; subst s'. apply invA_set_rl; auto.
    replace (rl s p) with (r_set_rs (rl s p) []) at 2 by (destruct (rl s p); cbn in *; subst; reflexivity).
    apply Hloc; auto. }
  destruct (ch_alt ch); cbn [negb] in Hs.
  { dif Hs; [discriminate|]. dif Hs; [|discriminate].
    apply (Hcr _ _ _ Hs eq_refl). apply invA_set_rl; auto; try (apply Hloc; auto). }
  unfold link_recv in Hs. dif Hs; [discriminate|].
  destruct (queue (net s p RESP)) as [|m rest] eqn:Eq; [discriminate|].
  rewrite Hreq in Hs. cbn [bindT] in Hs. dif Hs; [discriminate|].
  assert (Hen : enabled (net s p RESP) = true) by (apply negb_false_iff in E; exact E).
  rewrite Hen in Hs.
  apply (Hcr _ _ _ Hs eq_refl).
  eapply invA_pop; eauto; try discriminate.
Qed.

Lemma invA_sndResp : pcr s p = SndResp -> step_sndResp cfg ch s p = Ok s' -> InvA s'.
Proof.
  intros Epc Hs. unfold pcr in Epc.
  destruct (a_loc s I p Ap) as (L1 & L2 & L3 & L4 & L5 & L6 & L7 & L8).
  destruct L3 as (m0 & Hreq & Hm & Hss & Hqc); [rewrite Epc; exact Logic.I|].
  unfold step_sndResp in Hs. rewrite Hreq in Hs. cbn [bindT] in Hs.
  destruct (r_respBody (rl s p)) as [rb|]; cbn [bindT] in Hs; [|discriminate].
  destruct (r_respTyp (rl s p)) as [rt|]; cbn [bindT] in Hs; [|discriminate].
  unfold link_send in Hs. simp_st. destruct (enabled (net s (m_from m0) RESP)) eqn:Een; [|discriminate].
  inversion Hs; subst s'; clear Hs.
  destruct Hm as (Hsrc & Hfrom & Hok).
  assert (Hnr : ~ isrep (m_from m0)) by (unfold isrep; lia).
  apply (invA_same_roles s); simp_st; try apply I; try reflexivity.
  - intros r c0. unfold upd_net. destruct (Nat.eqb r (m_from m0) && chan_eqb c0 RESP) eqn:E; [|reflexivity].
    apply andb_true_iff in E. destruct E as [E1 E2]. apply Nat.eqb_eq in E1. subst r. destruct c0; [discriminate|]. simp_st. rewrite Een. reflexivity.
  - intros r. unfold pcr. simp_st. unfold updf. destruct (Nat.eqb r p) eqn:E; [|reflexivity].
    apply Nat.eqb_eq in E. subst r. simp_st. rewrite Epc. reflexivity.
  - intros r. unfold pcr. simp_st. unfold updf. destruct (Nat.eqb r p) eqn:E; [|reflexivity].
    apply Nat.eqb_eq in E. subst r. simp_st. rewrite Epc. reflexivity.
  - intros r Ar. assert (Hrm : r <> m_from m0) by (intros ->; apply Hnr; apply Ar).
    destruct (Nat.eq_dec r p) as [->|Hne].
    + rewrite updf_same. split.
      * split_loc; loc_triv.
      * eapply qA_frame; [apply (a_q s I p Ap)| |]; simp_st; rewrite upd_net_other by (left; exact Hrm); reflexivity.
    + rewrite updf_other by exact Hne. split.
      * eapply locA_frame; [apply (a_loc s I r Ar)|]. simp_st. intros _ H. rewrite upd_net_other by (left; exact Hrm). exact H.
      * eapply qA_frame; [apply (a_q s I r Ar)| |]; simp_st; rewrite upd_net_other by (left; exact Hrm); reflexivity.
Qed.

End LABELS2.

(* ------------------------------------------------------------------ failLabel *)
Lemma invA_failLabel : forall s p ch s', InvA s -> isrep p -> pcr s p = FailLabel ->
  step_failLabel cfg ch s p = Ok s' -> InvA s'.
Proof.
  intros s p ch s' I Hp Epc Hs. unfold step_failLabel in Hs.
  assert (Es' : s' = set_rl (set_prim (set_fd s (updf (fdv s) p true)) (updf (prim (set_fd s (updf (fdv s) p true))) p false)) p
                    (r_set_pc (rl s p) RDone)) by (inversion Hs; reflexivity).
  clear Hs.
  unfold pcr in Epc.
  assert (Hnet : net s' = net s) by (subst s'; reflexivity).
  assert (Hcin : cin s' = cin s) by (subst s'; reflexivity).
  assert (Hcl : cl s' = cl s) by (subst s'; reflexivity).
  assert (Hfd : forall r, fdv s' r = if Nat.eqb r p then true else fdv s r).
  { intros r. subst s'. simp_st. unfold updf. destruct (Nat.eqb r p); reflexivity. }
  assert (Hrl' : forall r, r <> p -> rl s' r = rl s r).
  { intros r Hr. subst s'. simp_st. apply updf_other. exact Hr. }
  assert (Hpc : forall r, pcr s' r = if Nat.eqb r p then RDone else pcr s r).
  { intros r. subst s'. unfold pcr. simp_st. unfold updf. destruct (Nat.eqb r p); reflexivity. }
  assert (Hal : forall r, alive s' r <-> alive s r).
  { intros r. unfold alive. rewrite Hpc. destruct (Nat.eqb r p) eqn:E; [|tauto].
    apply Nat.eqb_eq in E. subst r. unfold pcr. rewrite Epc. cbn. tauto. }
  assert (Hnp : forall r, alive s r -> r <> p).
  { intros r [_ Ha] ->. unfold pcr in Ha. rewrite Epc in Ha. discriminate. }
  assert (Hprim : forall r, prim s' r = if Nat.eqb r p then false else prim s r).
  { intros r. subst s'. simp_st. unfold updf. destruct (Nat.eqb r p); reflexivity. }
  assert (Hrep : is_replica cfg p = true) by (apply isrep_iff; exact Hp).
  clear Es'.
  (* the new leader *)
  assert (HL : forall r, alive s r -> ldr s <= ldr s' /\ (ldr s' <> ldr s -> p = ldr s) /\ ldr s' <> 0).
  { intros r Ar. destruct (alive_ge_ldr s r I Ar) as [Hq0 Hqr].
    destruct (ldr_nonzero s I Hq0) as (Hq1 & Hq2 & Hq3).
    assert (Hr' : prim s' r = true).
    { rewrite Hprim. destruct (Nat.eqb r p) eqn:E; [apply Nat.eqb_eq in E; exfalso; exact (Hnp r Ar E)|].
      apply (prim_true_iff s r I). split; [apply Ar | apply (alive_not_done s r Ar)]. }
    destruct (Nat.eq_dec (ldr s') 0) as [E0|N0].
    { exfalso. assert (prim s' r = false); [|congruence].
      apply (hd_filter_seq_zero (prim s') (NR cfg) 1); [lia | exact E0 | destruct Ar as [[? ?] _]; lia]. }
    destruct (leader_spec cfg s' (ldr s') eq_refl N0) as (Hn1 & Hn2 & Hn3).
    rewrite Hprim in Hn2. destruct (Nat.eqb (ldr s') p) eqn:E; [discriminate|]. apply Nat.eqb_neq in E.
    assert (Hge : ldr s <= ldr s').
    { destruct (le_lt_dec (ldr s) (ldr s')) as [H|H]; [exact H|]. exfalso.
      assert (Hd : pcr s (ldr s') = RDone) by (apply Hq3; [unfold isrep; lia | exact H]).
      apply (prim_true_iff s _ I) in Hn2. destruct Hn2 as [_ Hn2]. contradiction. }
    split; [exact Hge|]. split; [|exact N0]. intros Hne.
    destruct (Nat.eq_dec p (ldr s)) as [Ep|Np]; [exact Ep|]. exfalso. apply Hne.
    unfold ldr at 1. apply leader_first; [exact Hq1 | |].
    - rewrite Hprim. destruct (Nat.eqb (ldr s) p) eqn:E2; [apply Nat.eqb_eq in E2; congruence|].
      apply (prim_true_iff s _ I). split; assumption.
    - intros r0 Hr0. rewrite Hprim. destruct (Nat.eqb r0 p); [reflexivity|].
      rewrite (a_prim s I). rewrite (Hq3 r0); [apply andb_false_r | unfold isrep in *; lia | lia]. }
  constructor.
  - intros r c Hr. rewrite Hnet, Hpc, (a_en_r s I r c Hr).
    destruct (Nat.eqb r p) eqn:E; [|reflexivity]. apply Nat.eqb_eq in E. subst r. unfold pcr. rewrite Epc. reflexivity.
  - intros n c Hn. rewrite Hnet. apply (a_en_c s I n c Hn).
  - intros r. rewrite Hpc, Hfd. destruct (Nat.eqb r p) eqn:E.
    + apply Nat.eqb_eq in E. subst r. rewrite Hrep. reflexivity.
    + apply (a_fd s I).
  - intros r. rewrite Hpc, Hprim. destruct (Nat.eqb r p) eqn:E.
    + apply Nat.eqb_eq in E. subst r. rewrite Hrep. reflexivity.
    + apply (a_prim s I).
  - rewrite Hcin. apply (a_cin s I).
  - rewrite Hcl. apply (a_cmsg s I).
  - intros r Ar. apply Hal in Ar. destruct (HL r Ar) as (Hge & Hch & Hn0).
    rewrite (Hrl' r (Hnp r Ar)). unfold locA. rewrite Hnet. destruct (a_loc s I r Ar) as (L1 & L2 & L3 & L4 & L5 & L6 & L7 & L8).
    assert (Hrq : r <> ldr s' -> r <> ldr s).
    { intros H1 H2. destruct (Nat.eq_dec (ldr s') (ldr s)) as [E|N]; [congruence|].
      apply (Hnp r Ar). rewrite H2. symmetry. apply Hch. exact N. }
    split_loc; auto.
    + intros H. destruct (L2 H) as (m & Hm1 & Hm2). exists m. split; [exact Hm1 | eapply pmA_mono; eauto].
  - intros r Ar. apply Hal in Ar. destruct (HL r Ar) as (Hge & Hch & Hn0).
    assert (Hrq : r <> ldr s' -> r <> ldr s).
    { intros H1 H2. destruct (Nat.eq_dec (ldr s') (ldr s)) as [E|N]; [congruence|].
      apply (Hnp r Ar). rewrite H2. symmetry. apply Hch. exact N. }
    destruct (a_q s I r Ar) as ((P & C & E & HP & HC & HCq) & Rn & Rl). unfold qA. rewrite Hnet.
    split; [|split].
    + exists P, C. split; [exact E|]. split; [|split; [exact HC|]].
      * eapply Forall_impl; [|exact HP]. intros m Hm. eapply pmA_mono; eauto.
      * intros Hc. specialize (HCq Hc). destruct (Nat.eq_dec (ldr s') (ldr s)) as [E2|N]; [congruence|].
        exfalso. apply (Hnp r Ar). rewrite HCq. symmetry. apply Hch. exact N.
    + intros H. apply Rn. apply Hrq. exact H.
    + intros H. destruct (Nat.eq_dec (ldr s') (ldr s)) as [E2|N].
      * rewrite E2. apply Rl. congruence.
      * rewrite Rn; [constructor|]. intros H2. apply (Hnp r Ar). rewrite H2. symmetry. apply Hch. exact N.
Qed.

(* ------------------------------------------------------------------ client steps *)
Lemma invA_client_step : forall s p ch s', InvA s -> NR cfg < p ->
  step_client cfg ch s p = Ok s' -> InvA s'.
Proof.
  intros s p ch s' I Hp Hs.
  assert (Hnr : ~ isrep p) by (unfold isrep; lia).
  (* all client steps: rl, fd, prim unchanged; net changes only at the leader's request queue (append of a
     well-formed client request) or at the client's own response queue *)
  assert (F : forall s1,
     (forall r c, enabled (net s1 r c) = enabled (net s r c)) ->
     fdv s1 = fdv s -> prim s1 = prim s -> rl s1 = rl s ->
     Forall input_ok (cin s1) -> (forall c m, c_msg (cl s1 c) = Some m -> input_ok m) ->
     (forall r, isrep r -> queue (net s1 r RESP) = queue (net s r RESP)) ->
     (forall r, isrep r -> queue (net s1 r REQ) = queue (net s r REQ) \/
                           (r = ldr s /\ exists m, creq m /\ queue (net s1 r REQ) = queue (net s r REQ) ++ [m])) ->
     InvA s1).
  { intros s1 Hen Hfd Hpr Hrl Hcin Hcm Hresp Hreq.
    apply (invA_same_roles s); auto; try (intros; rewrite ?Hfd, ?Hpr; reflexivity);
      try (intros r; unfold pcr; rewrite Hrl; reflexivity).
    intros r Ar. rewrite Hrl. assert (Hr : isrep r) by apply Ar. split.
    - eapply locA_frame; [apply (a_loc s I r Ar)|]. intros _ H.
      destruct (Hreq r Hr) as [E | (_ & m & Hm & E)]; rewrite E; [exact H|].
      apply Forall_app. split; [exact H | constructor; [exact Hm | constructor]].
    - destruct (a_q s I r Ar) as ((P & C & E & HP & HC & HCq) & Rn & Rl). unfold qA. rewrite (Hresp r Hr).
      split; [|split; assumption].
      destruct (Hreq r Hr) as [E1 | (Hrq & m & Hm & E1)]; rewrite E1.
      + exists P, C. auto.
      + exists P, (C ++ [m]). rewrite E, app_assoc. split; [reflexivity|]. split; [exact HP|].
        split; [apply Forall_app; split; [exact HC | constructor; [exact Hm | constructor]] | intros _; exact Hrq]. }
  unfold step_client in Hs. destruct (c_pc (cl s p)) eqn:Epc.
  - (* clientLoop *)
    unfold step_clientLoop in Hs. destruct (cin s) as [|m rest] eqn:Ecin; [discriminate|].
    inversion Hs; subst s'; clear Hs.
    pose proof (a_cin s I) as Hc. rewrite Ecin in Hc. inversion Hc; subst.
    apply F; simp_st; auto.
    intros c m0. unfold updf. destruct (Nat.eqb c p); simp_st; [|apply (a_cmsg s I)].
    intros E. inversion E; subst. assumption.
  - (* sndReq *)
    unfold step_sndReq in Hs.
    destruct (negb (Nat.eqb (leader cfg s) 0)) eqn:E0.
    2:{ inversion Hs; subst s'. apply F; simp_st; auto; try apply I.
        intros c m0. unfold updf. destruct (Nat.eqb c p); simp_st; apply (a_cmsg s I). }
    destruct (ch_alt ch); cbn [negb] in Hs.
    { destruct (fdv s (leader cfg s)); [|discriminate]. inversion Hs; subst s'. apply F; simp_st; auto; try apply I.
      intros c m0. unfold updf. destruct (Nat.eqb c p); simp_st; apply (a_cmsg s I). }
    destruct (c_msg (cl s p)) as [m|] eqn:Em; cbn [bindT] in Hs; [|discriminate].
    unfold link_send in Hs. destruct (enabled (net s (leader cfg s) REQ)) eqn:Een; [|discriminate].
    inversion Hs; subst s'; clear Hs.
    apply F; simp_st; auto; try apply I.
    + intros r c0. unfold upd_net. destruct (Nat.eqb r (leader cfg s) && chan_eqb c0 REQ) eqn:E; [|reflexivity].
      apply andb_true_iff in E. destruct E as [E1 E2]. apply Nat.eqb_eq in E1. subst r. destruct c0; [|discriminate]. simp_st. rewrite Een. reflexivity.
    + intros c m0. unfold updf. destruct (Nat.eqb c p); simp_st; [|apply (a_cmsg s I)].
      intros E. inversion E; subst m0. apply (a_cmsg s I p). exact Em.
    + intros r Hr. rewrite upd_net_other by (right; discriminate). reflexivity.
    + intros r Hr. destruct (Nat.eq_dec r (leader cfg s)) as [->|Hne].
      * right. split; [reflexivity|]. eexists. split; [|rewrite upd_net_same; reflexivity].
        unfold creq. simp_st. split; [reflexivity|]. split; [exact Hp|].
        pose proof (a_cmsg s I p m Em) as Hok. unfold input_ok in *. simp_st. exact Hok.
      * left. rewrite upd_net_other by (left; exact Hne). reflexivity.
  - (* rcvResp *)
    unfold step_rcvResp in Hs. destruct (ch_alt ch); cbn [negb] in Hs.
    { dif Hs; [|discriminate]. inversion Hs; subst s'. apply F; simp_st; auto; try apply I.
      intros c m0. unfold updf. destruct (Nat.eqb c p); simp_st; apply (a_cmsg s I). }
    unfold link_recv in Hs. dif Hs; [discriminate|].
    destruct (queue (net s p RESP)) as [|r q] eqn:Eq; [discriminate|].
    assert (Hen : enabled (net s p RESP) = true) by (apply negb_false_iff in E; exact E).
    rewrite Hen in Hs.
    assert (G : forall l o h, InvA (mkSt (upd_net (net s) p RESP (mkLink q true)) (fdv s) (fsv s) (prim s) (cin s) o (rl s)
                                         (updf (cl s) p (c_set_pc (cl s p) l)) h)).
    { intros l o h. apply F; simp_st; auto; try apply I.
      - intros r0 c0. unfold upd_net. destruct (Nat.eqb r0 p && chan_eqb c0 RESP) eqn:E1; [|reflexivity].
        apply andb_true_iff in E1. destruct E1 as [E1 E2]. apply Nat.eqb_eq in E1. subst r0. destruct c0; [discriminate|]. simp_st. rewrite Hen. reflexivity.
      - intros c m0. unfold updf. destruct (Nat.eqb c p); simp_st; apply (a_cmsg s I).
      - intros r0 Hr0. rewrite upd_net_other; [reflexivity|]. left. intros ->. contradiction.
      - intros r0 Hr0. left. rewrite upd_net_other; [reflexivity|]. right. discriminate. }
    dif Hs.
    + inversion Hs; subst s'. apply G.
    + destruct (c_msg (cl s p)) as [m|]; cbn [bindT] in Hs; [|discriminate].
      destruct (cm_typ m); try discriminate;
        (dif Hs; [discriminate|]);
        destruct (body_content (m_body r)); cbn [bindT] in Hs; try discriminate;
        inversion Hs; subst s'; apply G.
  - discriminate.
Qed.

(* ------------------------------------------------------------------ every step *)
Lemma invA_step : forall s e s', InvA s -> step cfg s e = Ok s' -> InvA s'.
Proof.
  intros s [p ch] s' I Hs. unfold step in Hs.
  destruct (is_replica cfg p) eqn:Er.
  - apply isrep_iff in Er. unfold step_replica in Hs.
    destruct (r_pc (rl s p)) eqn:Epc;
      try (assert (Ap : alive s p) by (split; [exact Er | unfold pcr; rewrite Epc; reflexivity])).
    + eapply invA_replicaLoop; eauto.
    + eapply invA_syncPrimary; eauto.
    + eapply invA_sndSyncReqLoop; eauto.
    + eapply invA_rcvSyncRespLoop; eauto.
    + eapply invA_rcvMsg; eauto.
    + eapply invA_handleBackup; eauto.
    + eapply invA_handlePrimary; eauto.
    + eapply invA_sndReplicaReqLoop; eauto.
    + eapply invA_rcvReplicaRespLoop; eauto.
    + eapply invA_sndResp; eauto.
    + eapply invA_failLabel; eauto.
    + discriminate.
  - destruct (is_client cfg p) eqn:Ec; [|discriminate].
    apply (invA_client_step s p ch s' I); [apply is_client_true in Ec; lia | exact Hs].
Qed.

Lemma invA_reachable : forall input s, Forall input_ok input -> reachable cfg input s -> InvA s.
Proof.
  intros input s Hin Hr. induction Hr.
  - apply init_invA. exact Hin.
  - eapply invA_step; eauto.
Qed.

End CRA.
