(* C14 — executions WITH crashes, any number of replicas: version / knowledge / phase layer of the invariant.

   Ghost witness w: the latest version number Mx that any live replica or visible message carries, its
   content cM, the store Fold before it was applied, and the content cO of version Mx-1.
   Every live replica is "new" (at Mx, store = Fold + cM) or "old" (at Mx-1, store = Fold). *)
From Coq Require Import List Arith Bool String Lia.
From PGV Require Import C14.Model C14.Proofs C14.ProofsCrashA.
Import ListNotations.
Open Scope list_scope.
Open Scope nat_scope.

Record wit := mkWit { Mx : nat; cM : option (key * value); Fold : key -> value; cO : option (key * value) }.

Definition app_c (c : option (key * value)) (F : key -> value) : key -> value :=
  match c with Some (k, v) => fun k' => if String.eqb k' k then v else F k' | None => F end.
Definition Fnew (w : wit) : key -> value := app_c (cM w) (Fold w).

Definition is_syncresp (b : node) (m : msg) : bool := Nat.eqb (m_from m) b && mtyp_eqb (m_typ m) SYNC_RESP.
Definition is_syncreq (q : node) (m : msg) : bool := Nat.eqb (m_from m) q && mtyp_eqb (m_typ m) SYNC_REQ.
Definition is_ack (b : node) (m : msg) : bool := Nat.eqb (m_from m) b && mtyp_eqb (m_typ m) PUT_RESP.
Definition is_put (q : node) (m : msg) : bool := Nat.eqb (m_from m) q && mtyp_eqb (m_typ m) PUT_REQ.
Definition from_b (b : node) (m : msg) : bool := Nat.eqb (m_from m) b.
Definition sync_typed (m : msg) : Prop := m_typ m = SYNC_RESP \/ m_typ m = SYNC_REQ.

Definition plain (pc : rpc) : Prop :=
  match pc with ReplicaLoop | SyncPrimary | RcvMsg | HandlePrimary | SndResp => True | _ => False end.

Section CRB.
Variable cfg : config.

Notation isrep := (isrep cfg).
Notation alive := (alive cfg).
Notation ldr := (ldr cfg).
Notation InvA := (InvA cfg).

(* requests of (past or present) leaders that replica r has still to handle, oldest first *)
Definition pend (s : state) (r : node) : list msg :=
  (match pcr s r, r_req (rl s r) with HandleBackup, Some m => [m] | _, _ => [] end)
  ++ filter is_p (queue (net s r REQ)).

Definition isnew (w : wit) (s : state) (r : node) : Prop :=
  r_lastPutBody (rl s r) = BPut (Mx w) (cM w) /\ forall k, fsv s r k = Fnew w k.
Definition isold (w : wit) (s : state) (r : node) : Prop :=
  1 <= Mx w /\ r_lastPutBody (rl s r) = BPut (Mx w - 1) (cO w) /\ forall k, fsv s r k = Fold w k.

Definition body_ok (w : wit) (B : body) : Prop :=
  exists ver c, B = BPut ver c /\ ver <= Mx w /\ (ver = Mx w -> c = cM w) /\ (ver + 1 = Mx w -> c = cO w).

Definition knows (w : wit) (s : state) (r : node) : Prop :=
  K s r = Mx w \/ exists m, In m (pend s r) /\ Kv (m_body m) = Mx w.

Record versions_ok (w : wit) (s : state) : Prop := {
  v_cM0 : Mx w = 0 -> cM w = None;
  v_cM1 : 1 <= Mx w -> exists k v, cM w = Some (k, v);
  v_cO : forall k v, cO w = Some (k, v) -> Fold w k = v;
  v_rep : forall r, alive s r -> isnew w s r \/ isold w s r;
  v_pend : forall r m, alive s r -> In m (pend s r) -> body_ok w (m_body m);
  v_resp : forall m, alive s (ldr s) -> In m (queue (net s (ldr s) RESP)) -> m_typ m = SYNC_RESP ->
             body_ok w (m_body m) /\ (alive s (m_from m) -> Kv (m_body m) <= K s (m_from m)) }.

Record prefix_ok (w : wit) (s : state) : Prop := {
  p_order : forall r1 r2, alive s r1 -> alive s r2 -> r1 < r2 -> knows w s r2 -> knows w s r1;
  p_resp : forall m, alive s (ldr s) -> In m (queue (net s (ldr s) RESP)) -> m_typ m = SYNC_RESP ->
             Kv (m_body m) = Mx w -> knows w s (ldr s);
  p_loop : alive s (ldr s) -> (pcr s (ldr s) = SndSyncReqLoop \/ pcr s (ldr s) = SndReplicaReqLoop) ->
             K s (ldr s) = Mx w ->
             forall r, alive s r -> ldr s < r < r_idx (rl s (ldr s)) -> knows w s r }.

(* tokens of the failover sync between the leader q and backup b, oldest first:
   b's SYNC_RESPs still in q's response queue, then q's SYNC_REQs b has still to handle *)
Definition sresps (s : state) (q b : node) : list msg := filter (is_syncresp b) (queue (net s q RESP)).
Definition sreqs (s : state) (q b : node) : list msg := filter (is_syncreq q) (pend s b).
Definition toks (s : state) (q b : node) : list msg := sresps s q b ++ sreqs s q b.
Definition acks (s : state) (q b : node) : list msg := filter (is_ack b) (queue (net s q RESP)).
Definition puts (s : state) (q b : node) : list msg := filter (is_put q) (pend s b).
(* everything in flight between q and b *)
Definition xs (s : state) (q b : node) : list msg :=
  filter (from_b b) (queue (net s q RESP)) ++ filter (from_b q) (pend s b).

Definition insync (s : state) (q : node) : Prop := pcr s q = SndSyncReqLoop \/ pcr s q = RcvSyncRespLoop.
Definition inrepl (s : state) (q : node) : Prop := pcr s q = SndReplicaReqLoop \/ pcr s q = RcvReplicaRespLoop.
Definition owedP (s : state) (q : node) : Prop := filter is_p (queue (net s q REQ)) <> [].
Definition owed (s : state) (q : node) : Prop :=
  owedP s q \/ pcr s q = HandleBackup \/ r_shouldSync (rl s q) = true.

Definition rsent (s : state) (q b : node) : Prop := pcr s q = RcvReplicaRespLoop \/ b < r_idx (rl s q).

(* status of the live backup b while the leader q replicates the put of version Mx *)
Definition rstat (w : wit) (s : state) (q b : node) : Prop :=
  exists Sy Pu, xs s q b = Sy ++ Pu /\ Forall sync_typed Sy /\
    ((~ rsent s q b /\ isold w s b /\ In b (r_replicaSet (rl s q)) /\ Pu = []) \/
     (rsent s q b /\ isold w s b /\ In b (r_replicaSet (rl s q)) /\
        exists m, Pu = [m] /\ m_typ m = PUT_REQ /\ m_body m = r_lastPutBody (rl s q)) \/
     (rsent s q b /\ isnew w s b /\ In b (r_replicaSet (rl s q)) /\ exists m, Pu = [m] /\ m_typ m = PUT_RESP) \/
     (rsent s q b /\ isnew w s b /\ ~ In b (r_replicaSet (rl s q)) /\ Sy = [] /\ Pu = [])).

Record phases_ok (w : wit) (s : state) : Prop := {
  ph_main : alive s (ldr s) -> ~ inrepl s (ldr s) ->
    forall b, alive s b -> b <> ldr s -> K s b < K s (ldr s) ->
      owed s (ldr s) \/
      (insync s (ldr s) /\ In b (r_replicaSet (rl s (ldr s))) /\ sresps s (ldr s) b = [] /\
       ((exists m, In m (sreqs s (ldr s) b) /\ Kv (m_body m) = K s (ldr s)) \/
        (pcr s (ldr s) = SndSyncReqLoop /\ r_idx (rl s (ldr s)) <= b)));
  ph_tok : alive s (ldr s) -> ~ inrepl s (ldr s) ->
    forall b, alive s b -> b <> ldr s ->
      match toks s (ldr s) b with
      | [] => True
      | t :: rest => Forall (fun m => K s (ldr s) <= Kv (m_body m)) rest /\
                     (Kv (m_body t) < K s (ldr s) ->
                        insync s (ldr s) /\ In b (r_replicaSet (rl s (ldr s))) /\ owedP s (ldr s))
      end;
  ph_count : alive s (ldr s) -> K s (ldr s) < Mx w ->
    forall b, alive s b -> b <> ldr s ->
      List.length (toks s (ldr s) b) <= 1 /\
      (toks s (ldr s) b <> [] ->
         insync s (ldr s) /\ In b (r_replicaSet (rl s (ldr s))) /\
         (pcr s (ldr s) = RcvSyncRespLoop \/ b < r_idx (rl s (ldr s))));
  ph_noack : alive s (ldr s) -> ~ inrepl s (ldr s) ->
    forall b, alive s b -> b <> ldr s -> acks s (ldr s) b = [] /\ puts s (ldr s) b = [];
  ph_repl : alive s (ldr s) -> inrepl s (ldr s) ->
    isnew w s (ldr s) /\
    (forall b m, alive s b -> b <> ldr s -> In m (pend s b) -> Kv (m_body m) = Mx w ->
                 m_from m = ldr s /\ m_typ m = PUT_REQ) /\
    (forall m, In m (queue (net s (ldr s) RESP)) -> m_typ m = SYNC_RESP -> Kv (m_body m) < Mx w) /\
    (forall b, alive s b -> b <> ldr s -> rstat w s (ldr s) b) }.

Record InvB (w : wit) (s : state) : Prop := {
  b_ver : versions_ok w s;
  b_pre : prefix_ok w s;
  b_ph : phases_ok w s }.


(* ------------------------------------------------------------------ basic facts *)
Lemma app_c_idem : forall c F k, app_c c (app_c c F) k = app_c c F k.
Proof.
  intros [[k0 v0]|] F k; cbn; [|reflexivity]. destruct (String.eqb k k0); reflexivity.
Qed.

Lemma app_c_fixed : forall k0 v0 F, F k0 = v0 -> forall k, app_c (Some (k0, v0)) F k = F k.
Proof.
  intros k0 v0 F H k. cbn. destruct (String.eqb k k0) eqn:E; [|reflexivity].
  apply String.eqb_eq in E. subst k. symmetry. exact H.
Qed.

Lemma app_c_upd : forall (f : node -> key -> value) p k0 v0 F,
  (forall k, f p k = F k) -> forall k, upd_fs f p k0 v0 p k = app_c (Some (k0, v0)) F k.
Proof. intros f p k0 v0 F H k. rewrite upd_fs_node. cbn. rewrite H. reflexivity. Qed.

Lemma isnew_K : forall w s r, isnew w s r -> K s r = Mx w.
Proof. intros w s r [H _]. unfold K. rewrite H. reflexivity. Qed.

Lemma isold_K : forall w s r, isold w s r -> K s r = Mx w - 1 /\ 1 <= Mx w.
Proof. intros w s r (H0 & H & _). unfold K. rewrite H. cbn. auto. Qed.

Lemma K_le_Mx : forall w s r, versions_ok w s -> alive s r -> K s r <= Mx w /\ Mx w <= K s r + 1.
Proof.
  intros w s r V A. destruct (v_rep w s V r A) as [H|H].
  - rewrite (isnew_K _ _ _ H). lia.
  - destruct (isold_K _ _ _ H). lia.
Qed.

Lemma K_Mx_isnew : forall w s r, versions_ok w s -> alive s r -> K s r = Mx w -> isnew w s r.
Proof.
  intros w s r V A E. destruct (v_rep w s V r A) as [H|H]; [exact H|].
  destruct (isold_K _ _ _ H). lia.
Qed.

Lemma K_lt_isold : forall w s r, versions_ok w s -> alive s r -> K s r < Mx w -> isold w s r.
Proof.
  intros w s r V A E. destruct (v_rep w s V r A) as [H|H]; [|exact H].
  rewrite (isnew_K _ _ _ H) in E. lia.
Qed.

Lemma body_ok_Kv : forall w B, body_ok w B -> Kv B <= Mx w.
Proof. intros w B (ver & c & -> & H & _). cbn. exact H. Qed.

(* pend only looks at the pc, the saved request and the request queue *)
Lemma pend_ext : forall s s' r,
  pcr s' r = pcr s r -> r_req (rl s' r) = r_req (rl s r) -> queue (net s' r REQ) = queue (net s r REQ) ->
  pend s' r = pend s r.
Proof. intros s s' r H1 H2 H3. unfold pend. rewrite H1, H2, H3. reflexivity. Qed.

Lemma pend_not_hb : forall s r, pcr s r <> HandleBackup -> pend s r = filter is_p (queue (net s r REQ)).
Proof.
  intros s r H. unfold pend. destruct (pcr s r); try reflexivity. contradiction.
Qed.

Lemma pend_hb : forall s r m, pcr s r = HandleBackup -> r_req (rl s r) = Some m ->
  pend s r = m :: filter is_p (queue (net s r REQ)).
Proof. intros s r m H1 H2. unfold pend. rewrite H1, H2. reflexivity. Qed.

Lemma filter_app_single : forall A (f : A -> bool) l x, filter f (l ++ [x]) = filter f l ++ (if f x then [x] else []).
Proof. intros. rewrite filter_app. cbn. destruct (f x); reflexivity. Qed.

Lemma pmA_is_p : forall r q m, pmA r q m -> is_p m = true.
Proof. intros r q m (H & _). unfold is_p. rewrite H. reflexivity. Qed.

Lemma creq_is_p : forall m, creq cfg m -> is_p m = false.
Proof. intros m (H & _). unfold is_p. rewrite H. reflexivity. Qed.


(* ------------------------------------------------------------------ frame lemmas *)
Section FRAME.
Variables (w : wit) (s s' : state).
Hypothesis Hpa : forall r, pc_alive (pcr s' r) = pc_alive (pcr s r).
Hypothesis Hldr : ldr s' = ldr s.
Hypothesis Hlpb : forall r, r_lastPutBody (rl s' r) = r_lastPutBody (rl s r).
Hypothesis Hfs : forall r k, fsv s' r k = fsv s r k.
Hypothesis Hpend : forall r, alive s r -> pend s' r = pend s r.
Hypothesis Hresp : queue (net s' (ldr s) RESP) = queue (net s (ldr s) RESP).

Lemma fr_alive : forall r, alive s' r <-> alive s r.
Proof. intros r. unfold ProofsCrashA.alive. rewrite Hpa. tauto. Qed.

Lemma fr_K : forall r, K s' r = K s r.
Proof. intros r. unfold K. rewrite Hlpb. reflexivity. Qed.

Lemma fr_isnew : forall r, isnew w s' r <-> isnew w s r.
Proof. intros r. unfold isnew. rewrite Hlpb. split; intros [A B]; split; auto; intros k; [rewrite <- Hfs | rewrite Hfs]; apply B. Qed.

Lemma fr_isold : forall r, isold w s' r <-> isold w s r.
Proof. intros r. unfold isold. rewrite Hlpb. split; intros (A & B & C); repeat split; auto; intros k; [rewrite <- Hfs | rewrite Hfs]; apply C. Qed.

Lemma fr_knows : forall r, alive s r -> (knows w s' r <-> knows w s r).
Proof. intros r A. unfold knows. rewrite fr_K, (Hpend r A). tauto. Qed.

Lemma fr_versions : versions_ok w s -> versions_ok w s'.
Proof.
  intros V. constructor; try apply V.
  - intros r A. apply fr_alive in A. rewrite fr_isnew, fr_isold. apply (v_rep w s V r A).
  - intros r m A Hm. apply fr_alive in A. rewrite (Hpend r A) in Hm. apply (v_pend w s V r m A Hm).
  - rewrite Hldr, Hresp. intros m A Hm Ht. apply fr_alive in A. destruct (v_resp w s V m A Hm Ht) as [B1 B2].
    split; [exact B1|]. intros A2. apply fr_alive in A2. rewrite fr_K. apply B2. exact A2.
Qed.

Lemma fr_prefix_order_resp : prefix_ok w s ->
  (forall r1 r2, alive s' r1 -> alive s' r2 -> r1 < r2 -> knows w s' r2 -> knows w s' r1) /\
  (forall m, alive s' (ldr s') -> In m (queue (net s' (ldr s') RESP)) -> m_typ m = SYNC_RESP ->
             Kv (m_body m) = Mx w -> knows w s' (ldr s')).
Proof.
  intros P. split.
  - intros r1 r2 A1 A2 Hlt Hk. apply fr_alive in A1. apply fr_alive in A2.
    apply (fr_knows r1 A1). apply (fr_knows r2 A2) in Hk. apply (p_order w s P r1 r2 A1 A2 Hlt Hk).
  - rewrite Hldr, Hresp. intros m A Hm Ht Hv. apply fr_alive in A. apply (fr_knows _ A).
    apply (p_resp w s P m A Hm Ht Hv).
Qed.

(* token lists *)
Lemma fr_sresps : forall b, sresps s' (ldr s) b = sresps s (ldr s) b.
Proof. intros b. unfold sresps. rewrite Hresp. reflexivity. Qed.
Lemma fr_acks : forall b, acks s' (ldr s) b = acks s (ldr s) b.
Proof. intros b. unfold acks. rewrite Hresp. reflexivity. Qed.
Lemma fr_sreqs : forall b, alive s b -> sreqs s' (ldr s) b = sreqs s (ldr s) b.
Proof. intros b A. unfold sreqs. rewrite (Hpend b A). reflexivity. Qed.
Lemma fr_puts : forall b, alive s b -> puts s' (ldr s) b = puts s (ldr s) b.
Proof. intros b A. unfold puts. rewrite (Hpend b A). reflexivity. Qed.
Lemma fr_toks : forall b, alive s b -> toks s' (ldr s) b = toks s (ldr s) b.
Proof. intros b A. unfold toks. rewrite fr_sresps, (fr_sreqs b A). reflexivity. Qed.
Lemma fr_xs : forall b, alive s b -> xs s' (ldr s) b = xs s (ldr s) b.
Proof. intros b A. unfold xs. rewrite Hresp, (Hpend b A). reflexivity. Qed.


(* the leader takes a request of a former leader out of its queue: plain label -> handleBackup *)
Lemma invB_frame_to_hb :
  plain (pcr s (ldr s)) -> pcr s' (ldr s) = HandleBackup ->
  InvB w s -> InvB w s'.
Proof.
  intros Hp Hp' [V P Ph].
  assert (N1 : ~ insync s (ldr s)) by (unfold insync; destruct (pcr s (ldr s)); cbn in Hp; intuition discriminate).
  assert (N1' : ~ insync s' (ldr s)) by (unfold insync; rewrite Hp'; intuition discriminate).
  assert (N2 : ~ inrepl s (ldr s)) by (unfold inrepl; destruct (pcr s (ldr s)); cbn in Hp; intuition discriminate).
  assert (N2' : ~ inrepl s' (ldr s)) by (unfold inrepl; rewrite Hp'; intuition discriminate).
  destruct (fr_prefix_order_resp P) as [P1 P2].
  constructor; [apply fr_versions; exact V | constructor; auto | constructor]; rewrite ?Hldr.
  - intros _ [H|H]; rewrite Hp' in H; discriminate H.
  - intros A _ b Ab Hb HK. left. right. left. exact Hp'.
  - intros A _ b Ab Hb. apply fr_alive in A. apply fr_alive in Ab.
    pose proof (ph_tok w s Ph A N2 b Ab Hb) as H. rewrite (fr_toks b Ab).
    destruct (toks s (ldr s) b) as [|t rest]; [exact Logic.I|]. destruct H as [H1 H2]. split.
    + eapply Forall_impl; [|exact H1]. intros m Hm. rewrite fr_K. exact Hm.
    + rewrite fr_K. intros Hlt. destruct (H2 Hlt) as (X1 & _). contradiction.
  - intros A HK b Ab Hb. apply fr_alive in A. apply fr_alive in Ab. rewrite fr_K in HK.
    rewrite (fr_toks b Ab). destruct (ph_count w s Ph A HK b Ab Hb) as [C1 C2].
    destruct (toks s (ldr s) b) as [|t rest]; [split; [cbn; lia | intros H; congruence]|].
    destruct C2 as (X1 & _); [discriminate | contradiction].
  - intros A _ b Ab Hb. apply fr_alive in A. apply fr_alive in Ab.
    rewrite fr_acks, (fr_puts b Ab). apply (ph_noack w s Ph A N2 b Ab Hb).
  - intros _ H. contradiction.
Qed.

Hypothesis Hreqp : filter is_p (queue (net s' (ldr s) REQ)) = filter is_p (queue (net s (ldr s) REQ)).

Lemma fr_owedP : owedP s' (ldr s) <-> owedP s (ldr s).
Proof. unfold owedP. rewrite Hreqp. tauto. Qed.

(* the leader's own locals are untouched *)
Lemma invB_frame_same : rl s' (ldr s) = rl s (ldr s) -> InvB w s -> InvB w s'.
Proof.
  intros Hrl [V P Ph].
  assert (Hpc : pcr s' (ldr s) = pcr s (ldr s)) by (unfold pcr; rewrite Hrl; reflexivity).
  assert (Hin : insync s' (ldr s) <-> insync s (ldr s)) by (unfold insync; rewrite Hpc; tauto).
  assert (Hir : inrepl s' (ldr s) <-> inrepl s (ldr s)) by (unfold inrepl; rewrite Hpc; tauto).
  assert (How : owed s' (ldr s) <-> owed s (ldr s)) by (unfold owed; rewrite fr_owedP, Hpc, Hrl; tauto).
  destruct (fr_prefix_order_resp P) as [P1 P2].
  constructor; [apply fr_versions; exact V | constructor; auto | constructor]; rewrite ?Hldr.
  - rewrite Hpc, Hrl, fr_K. intros A Hp HK r Ar Hr. apply fr_alive in A. apply fr_alive in Ar.
    apply (fr_knows r Ar). apply (p_loop w s P A Hp HK r Ar Hr).
  - intros A Hnr b Ab Hb HK. apply fr_alive in A. apply fr_alive in Ab. rewrite !fr_K in HK. rewrite Hir in Hnr.
    rewrite How, Hin, Hrl, fr_sresps, (fr_sreqs b Ab), fr_K, Hpc. apply (ph_main w s Ph A Hnr b Ab Hb HK).
  - intros A Hnr b Ab Hb. apply fr_alive in A. apply fr_alive in Ab. rewrite Hir in Hnr.
    pose proof (ph_tok w s Ph A Hnr b Ab Hb) as H. rewrite (fr_toks b Ab).
    destruct (toks s (ldr s) b) as [|t rest]; [exact Logic.I|]. destruct H as [H1 H2]. split.
    + eapply Forall_impl; [|exact H1]. intros m Hm. rewrite fr_K. exact Hm.
    + rewrite fr_K. intros Hlt. destruct (H2 Hlt) as (X1 & X2 & X3).
      split; [apply Hin; exact X1|]. split; [rewrite Hrl; exact X2 | apply fr_owedP; exact X3].
  - intros A HK b Ab Hb. apply fr_alive in A. apply fr_alive in Ab. rewrite fr_K in HK.
    rewrite (fr_toks b Ab), Hin, Hrl, Hpc. apply (ph_count w s Ph A HK b Ab Hb).
  - intros A Hnr b Ab Hb. apply fr_alive in A. apply fr_alive in Ab. rewrite Hir in Hnr.
    rewrite fr_acks, (fr_puts b Ab). apply (ph_noack w s Ph A Hnr b Ab Hb).
  - intros A Hr. apply fr_alive in A. rewrite Hir in Hr. destruct (ph_repl w s Ph A Hr) as (R1 & R2 & R3 & R4).
    split; [apply fr_isnew; exact R1|]. split; [|split].
    + intros b m Ab Hb Hm. apply fr_alive in Ab. rewrite (Hpend b Ab) in Hm. apply (R2 b m Ab Hb Hm).
    + rewrite Hresp. exact R3.
    + intros b Ab Hb. apply fr_alive in Ab. destruct (R4 b Ab Hb) as (Sy & Pu & E & HSy & Hst).
      exists Sy, Pu. rewrite (fr_xs b Ab). split; [exact E|]. split; [exact HSy|].
      unfold rsent in *. rewrite Hpc, Hrl, fr_isold, fr_isnew. exact Hst.
Qed.


(* the leader moves between labels outside sync / replication / handleBackup; shouldSync unchanged *)
Lemma invB_frame_plain :
  plain (pcr s (ldr s)) -> plain (pcr s' (ldr s)) ->
  r_shouldSync (rl s' (ldr s)) = r_shouldSync (rl s (ldr s)) ->
  InvB w s -> InvB w s'.
Proof.
  intros Hp Hp' Hss [V P Ph].
  assert (N1 : ~ insync s (ldr s)) by (unfold insync; destruct (pcr s (ldr s)); cbn in Hp; intuition discriminate).
  assert (N1' : ~ insync s' (ldr s)) by (unfold insync; destruct (pcr s' (ldr s)); cbn in Hp'; intuition discriminate).
  assert (N2 : ~ inrepl s (ldr s)) by (unfold inrepl; destruct (pcr s (ldr s)); cbn in Hp; intuition discriminate).
  assert (N2' : ~ inrepl s' (ldr s)) by (unfold inrepl; destruct (pcr s' (ldr s)); cbn in Hp'; intuition discriminate).
  assert (N3 : pcr s (ldr s) <> HandleBackup) by (destruct (pcr s (ldr s)); cbn in Hp; try contradiction; discriminate).
  assert (N3' : pcr s' (ldr s) <> HandleBackup) by (destruct (pcr s' (ldr s)); cbn in Hp'; try contradiction; discriminate).
  assert (How : owed s (ldr s) -> owed s' (ldr s)).
  { unfold owed. rewrite fr_owedP, Hss. intuition. }
  destruct (fr_prefix_order_resp P) as [P1 P2].
  constructor; [apply fr_versions; exact V | constructor; auto | constructor]; rewrite ?Hldr.
  - intros _ [H|H]; exfalso; destruct (pcr s' (ldr s)); cbn in Hp'; try contradiction; discriminate.
  - intros A _ b Ab Hb HK. apply fr_alive in A. apply fr_alive in Ab. rewrite !fr_K in HK.
    left. apply How. destruct (ph_main w s Ph A N2 b Ab Hb HK) as [H|(H & _)]; [exact H | contradiction].
  - intros A _ b Ab Hb. apply fr_alive in A. apply fr_alive in Ab.
    pose proof (ph_tok w s Ph A N2 b Ab Hb) as H. rewrite (fr_toks b Ab).
    destruct (toks s (ldr s) b) as [|t rest]; [exact Logic.I|]. destruct H as [H1 H2]. split.
    + eapply Forall_impl; [|exact H1]. intros m Hm. rewrite fr_K. exact Hm.
    + rewrite fr_K. intros Hlt. destruct (H2 Hlt) as (X1 & _). contradiction.
  - intros A HK b Ab Hb. apply fr_alive in A. apply fr_alive in Ab. rewrite fr_K in HK.
    rewrite (fr_toks b Ab). destruct (ph_count w s Ph A HK b Ab Hb) as [C1 C2].
    destruct (toks s (ldr s) b) as [|t rest]; [split; [cbn; lia | intros H; congruence]|].
    destruct C2 as (X1 & _); [discriminate | contradiction].
  - intros A _ b Ab Hb. apply fr_alive in A. apply fr_alive in Ab.
    rewrite fr_acks, (fr_puts b Ab). apply (ph_noack w s Ph A N2 b Ab Hb).
  - intros _ H. contradiction.
Qed.

End FRAME.


(* ------------------------------------------------------------------ replicas disappear (crash) *)
Section SHRINK.
Variables (w : wit) (s s' : state).
Hypothesis Hal : forall r, alive s' r -> alive s r.
Hypothesis Hldr : ldr s' = ldr s.
Hypothesis Hrl : forall r, alive s' r -> rl s' r = rl s r.
Hypothesis Hq : forall r c, alive s' r -> queue (net s' r c) = queue (net s r c).
Hypothesis Hfs : forall r k, alive s' r -> fsv s' r k = fsv s r k.

Lemma sh_pend : forall r, alive s' r -> pend s' r = pend s r.
Proof. intros r A. unfold pend, pcr. rewrite (Hrl r A), (Hq r REQ A). reflexivity. Qed.
Lemma sh_K : forall r, alive s' r -> K s' r = K s r.
Proof. intros r A. unfold K. rewrite (Hrl r A). reflexivity. Qed.
Lemma sh_isnew : forall r, alive s' r -> (isnew w s' r <-> isnew w s r).
Proof. intros r A. unfold isnew. rewrite (Hrl r A). split; intros [X Y]; split; auto; intros k; [rewrite <- (Hfs r k A) | rewrite (Hfs r k A)]; apply Y. Qed.
Lemma sh_isold : forall r, alive s' r -> (isold w s' r <-> isold w s r).
Proof. intros r A. unfold isold. rewrite (Hrl r A). split; intros (X & Y & Z); repeat split; auto; intros k; [rewrite <- (Hfs r k A) | rewrite (Hfs r k A)]; apply Z. Qed.
Lemma sh_knows : forall r, alive s' r -> (knows w s' r <-> knows w s r).
Proof. intros r A. unfold knows. rewrite (sh_K r A), (sh_pend r A). tauto. Qed.

Lemma invB_shrink : InvB w s -> InvB w s'.
Proof.
  intros [V P Ph].
  constructor; [constructor; try apply V | constructor | constructor]; rewrite ?Hldr.
  - intros r A. rewrite (sh_isnew r A), (sh_isold r A). apply (v_rep w s V r (Hal r A)).
  - intros r m A Hm. rewrite (sh_pend r A) in Hm. apply (v_pend w s V r m (Hal r A) Hm).
  - intros m A Hm Ht. rewrite (Hq _ RESP A) in Hm. destruct (v_resp w s V m (Hal _ A) Hm Ht) as [B1 B2].
    split; [exact B1|]. intros A2. rewrite (sh_K _ A2). apply B2. apply Hal. exact A2.
  - intros r1 r2 A1 A2 Hlt Hk. apply (sh_knows r1 A1). apply (sh_knows r2 A2) in Hk.
    apply (p_order w s P r1 r2 (Hal r1 A1) (Hal r2 A2) Hlt Hk).
  - intros m A Hm Ht Hv. rewrite (Hq _ RESP A) in Hm. apply (sh_knows _ A). apply (p_resp w s P m (Hal _ A) Hm Ht Hv).
  - intros A. unfold pcr. rewrite (Hrl _ A), (sh_K _ A). intros Hp HK r Ar Hr. apply (sh_knows r Ar).
    apply (p_loop w s P (Hal _ A) Hp HK r (Hal r Ar) Hr).
  - intros A Hnr b Ab Hb HK. rewrite (sh_K b Ab), (sh_K _ A) in HK.
    assert (Hnr' : ~ inrepl s (ldr s)) by (unfold inrepl, pcr in *; rewrite <- (Hrl _ A); exact Hnr).
    unfold owed, owedP, insync, sresps, sreqs, pcr. rewrite (Hrl _ A), (Hq _ REQ A), (Hq _ RESP A), (sh_pend b Ab), (sh_K _ A).
    apply (ph_main w s Ph (Hal _ A) Hnr' b (Hal b Ab) Hb HK).
  - intros A Hnr b Ab Hb.
    assert (Hnr' : ~ inrepl s (ldr s)) by (unfold inrepl, pcr in *; rewrite <- (Hrl _ A); exact Hnr).
    pose proof (ph_tok w s Ph (Hal _ A) Hnr' b (Hal b Ab) Hb) as H.
    unfold toks, sresps, sreqs, owedP, insync, pcr in *. rewrite (Hrl _ A), (Hq _ REQ A), (Hq _ RESP A), (sh_pend b Ab), (sh_K _ A).
    exact H.
  - intros A HK b Ab Hb. rewrite (sh_K _ A) in HK.
    pose proof (ph_count w s Ph (Hal _ A) HK b (Hal b Ab) Hb) as H.
    unfold toks, sresps, sreqs, insync, pcr in *. rewrite (Hrl _ A), (Hq _ RESP A), (sh_pend b Ab). exact H.
  - intros A Hnr b Ab Hb.
    assert (Hnr' : ~ inrepl s (ldr s)) by (unfold inrepl, pcr in *; rewrite <- (Hrl _ A); exact Hnr).
    unfold acks, puts. rewrite (Hq _ RESP A), (sh_pend b Ab). apply (ph_noack w s Ph (Hal _ A) Hnr' b (Hal b Ab) Hb).
  - intros A Hr.
    assert (Hr' : inrepl s (ldr s)) by (unfold inrepl, pcr in *; rewrite <- (Hrl _ A); exact Hr).
    destruct (ph_repl w s Ph (Hal _ A) Hr') as (R1 & R2 & R3 & R4).
    split; [apply (sh_isnew _ A); exact R1|]. split; [|split].
    + intros b m Ab Hb Hm. rewrite (sh_pend b Ab) in Hm. apply (R2 b m (Hal b Ab) Hb Hm).
    + rewrite (Hq _ RESP A). exact R3.
    + intros b Ab Hb. destruct (R4 b (Hal b Ab) Hb) as (Sy & Pu & E & HSy & Hst).
      exists Sy, Pu. unfold xs, rsent, pcr in *. rewrite (Hq _ RESP A), (sh_pend b Ab), (Hrl _ A), (sh_isold b Ab), (sh_isnew b Ab).
      auto.
Qed.

End SHRINK.


(* ------------------------------------------------------------------ steps *)
Lemma invB_crash : forall w s1 p lok lf, InvB w (set_rl s1 p lok) -> r_pc lf = FailLabel ->
  InvB w (set_rl (disable s1 p) p lf).
Proof.
  intros w s1 p lok lf IB Hf.
  assert (Hnp : forall r, alive (set_rl (disable s1 p) p lf) r -> r <> p).
  { intros r [_ Ha] ->. unfold pcr in Ha. simp_st. rewrite updf_same, Hf in Ha. discriminate. }
  apply (invB_shrink w (set_rl s1 p lok)); auto.
  - intros r A. pose proof (Hnp r A) as Hne. destruct A as [Hr Ha]. split; [exact Hr|].
    unfold pcr in *. simp_st. rewrite updf_other in * by exact Hne. exact Ha.
  - intros r A. simp_st. rewrite !updf_other by (apply Hnp; exact A). reflexivity.
  - intros r c A. change (net (set_rl (disable s1 p) p lf)) with (net (disable s1 p)).
    rewrite disable_queue. reflexivity.
Qed.

(* a step of the live replica p that only changes its own locals, keeps its lastPutBody and its pending
   requests, and (if p is the leader) stays among the plain labels with the same shouldSync *)
Lemma invB_local_step : forall w s p l',
  InvB w s -> alive s p ->
  pc_alive (r_pc l') = true ->
  r_lastPutBody l' = r_lastPutBody (rl s p) ->
  pend (set_rl s p l') p = pend s p ->
  (p <> ldr s \/ (plain (pcr s p) /\ plain (r_pc l') /\ r_shouldSync l' = r_shouldSync (rl s p))) ->
  InvB w (set_rl s p l').
Proof.
  intros w s p l' IB Ap Hal Hlpb Hpend Hcase.
  assert (Hpa : forall r, pc_alive (pcr (set_rl s p l') r) = pc_alive (pcr s r)).
  { intros r. unfold pcr. simp_st. unfold updf. destruct (Nat.eqb r p) eqn:E; [|reflexivity].
    apply Nat.eqb_eq in E. subst r. rewrite Hal. symmetry. apply Ap. }
  assert (Hl : forall r, r_lastPutBody (rl (set_rl s p l') r) = r_lastPutBody (rl s r)).
  { intros r. simp_st. unfold updf. destruct (Nat.eqb r p) eqn:E; [|reflexivity]. apply Nat.eqb_eq in E. subst r. exact Hlpb. }
  assert (Hp : forall r, alive s r -> pend (set_rl s p l') r = pend s r).
  { intros r _. destruct (Nat.eq_dec r p) as [->|Hne]; [exact Hpend|].
    apply pend_ext; unfold pcr; simp_st; rewrite ?updf_other by exact Hne; reflexivity. }
  destruct Hcase as [Hne | (P1 & P2 & P3)].
  - apply (invB_frame_same w s); auto. simp_st. apply updf_other. auto.
  - destruct (Nat.eq_dec p (ldr s)) as [E|Hne].
    + subst p. apply (invB_frame_plain w s); auto; unfold pcr; simp_st; rewrite updf_same; auto.
    + apply (invB_frame_same w s); auto. simp_st. apply updf_other. auto.
Qed.


Lemma pend_set_rl_nohb : forall s p l', pcr s p <> HandleBackup -> r_pc l' <> HandleBackup ->
  pend (set_rl s p l') p = pend s p.
Proof.
  intros s p l' H1 H2. rewrite !pend_not_hb; auto. unfold pcr. simp_st. rewrite updf_same. exact H2.
Qed.

(* ------------------------------------------------------------------ the live leader changes only its own locals
   (not lastPutBody, not the saved request), between labels other than handleBackup *)
Section LLOCAL.
Variables (w : wit) (s : state) (l' : rlocal).
Let q := ldr s.
Let s' := set_rl s q l'.
Hypothesis IA : InvA s.
Hypothesis IB : InvB w s.
Hypothesis Aq : alive s q.
Hypothesis Hal : pc_alive (r_pc l') = true.
Hypothesis Hlpb : r_lastPutBody l' = r_lastPutBody (rl s q).
Hypothesis Hn1 : pcr s q <> HandleBackup.
Hypothesis Hn2 : r_pc l' <> HandleBackup.

Lemma ll_pa : forall r, pc_alive (pcr s' r) = pc_alive (pcr s r).
Proof.
  intros r. unfold pcr, s'. simp_st. unfold updf. destruct (Nat.eqb r q) eqn:E; [|reflexivity].
  apply Nat.eqb_eq in E. subst r. rewrite Hal. symmetry. apply Aq.
Qed.
Lemma ll_ldr : ldr s' = ldr s. Proof. reflexivity. Qed.
Lemma ll_lpb : forall r, r_lastPutBody (rl s' r) = r_lastPutBody (rl s r).
Proof. intros r. unfold s'. simp_st. unfold updf. destruct (Nat.eqb r q) eqn:E; [|reflexivity]. apply Nat.eqb_eq in E. subst r. exact Hlpb. Qed.
Lemma ll_fs : forall r k, fsv s' r k = fsv s r k. Proof. reflexivity. Qed.
Lemma ll_pend : forall r, alive s r -> pend s' r = pend s r.
Proof.
  intros r _. destruct (Nat.eq_dec r q) as [->|Hne]; [apply pend_set_rl_nohb; assumption|].
  apply pend_ext; unfold pcr, s'; simp_st; rewrite ?updf_other by exact Hne; reflexivity.
Qed.
Lemma ll_resp : queue (net s' (ldr s) RESP) = queue (net s (ldr s) RESP). Proof. reflexivity. Qed.
Lemma ll_reqp : filter is_p (queue (net s' (ldr s) REQ)) = filter is_p (queue (net s (ldr s) REQ)). Proof. reflexivity. Qed.

Lemma ll_alive : forall r, alive s' r <-> alive s r.
Proof. apply fr_alive. exact ll_pa. Qed.
Lemma ll_K : forall r, K s' r = K s r.
Proof. apply fr_K. exact ll_lpb. Qed.
Lemma ll_toks : forall b, alive s b -> toks s' q b = toks s q b.
Proof. apply fr_toks; [exact ll_pend | exact ll_resp]. Qed.
Lemma ll_sresps : forall b, sresps s' q b = sresps s q b. Proof. reflexivity. Qed.
Lemma ll_sreqs : forall b, alive s b -> sreqs s' q b = sreqs s q b.
Proof. apply fr_sreqs. exact ll_pend. Qed.
Lemma ll_acks : forall b, acks s' q b = acks s q b. Proof. reflexivity. Qed.
Lemma ll_puts : forall b, alive s b -> puts s' q b = puts s q b.
Proof. apply fr_puts. exact ll_pend. Qed.
Lemma ll_xs : forall b, alive s b -> xs s' q b = xs s q b.
Proof. apply fr_xs; [exact ll_pend | exact ll_resp]. Qed.
Lemma ll_owedP : owedP s' q <-> owedP s q. Proof. unfold owedP. tauto. Qed.
Lemma ll_rl : rl s' q = l'. Proof. unfold s'. simp_st. apply updf_same. Qed.
Lemma ll_pcr : pcr s' q = r_pc l'. Proof. unfold pcr. rewrite ll_rl. reflexivity. Qed.
Lemma ll_isnew : forall r, isnew w s' r <-> isnew w s r.
Proof. apply fr_isnew; [exact ll_lpb | exact ll_fs]. Qed.
Lemma ll_isold : forall r, isold w s' r <-> isold w s r.
Proof. apply fr_isold; [exact ll_lpb | exact ll_fs]. Qed.
Lemma ll_knows : forall r, alive s r -> (knows w s' r <-> knows w s r).
Proof. apply fr_knows; [exact ll_lpb | exact ll_pend]. Qed.

Lemma ll_versions : versions_ok w s'.
Proof. apply (fr_versions w s s'); try reflexivity; [exact ll_pa | exact ll_lpb | exact ll_pend | apply IB]. Qed.

Lemma ll_prefix12 :
  (forall r1 r2, alive s' r1 -> alive s' r2 -> r1 < r2 -> knows w s' r2 -> knows w s' r1) /\
  (forall m, alive s' (ldr s') -> In m (queue (net s' (ldr s') RESP)) -> m_typ m = SYNC_RESP ->
             Kv (m_body m) = Mx w -> knows w s' (ldr s')).
Proof. apply (fr_prefix_order_resp w s s'); try reflexivity; [exact ll_pa | exact ll_lpb | exact ll_pend | apply IB]. Qed.

(* assembling InvB for s' from the three leader-dependent parts *)
Lemma ll_build :
  ((r_pc l' = SndSyncReqLoop \/ r_pc l' = SndReplicaReqLoop) -> K s q = Mx w ->
     forall r, alive s r -> q < r < r_idx l' -> knows w s r) ->
  phases_ok w s' -> InvB w s'.
Proof.
  intros HL HP. destruct ll_prefix12 as [P1 P2].
  constructor; [exact ll_versions | constructor; auto | exact HP].
  rewrite ll_ldr. fold q. rewrite ll_pcr, ll_rl, ll_K. intros _ Hp HK r Ar Hr. apply ll_alive in Ar.
  apply (ll_knows r Ar). apply HL; auto.
Qed.

End LLOCAL.

Lemma classic_owedP : forall s q, owedP s q \/ ~ owedP s q.
Proof. intros s q. unfold owedP. destruct (filter is_p (queue (net s q REQ))); [right; congruence | left; discriminate]. Qed.

(* a SYNC_RESP of a live backup that is behind the leader is stale *)
Lemma sresps_head_stale : forall w s b m rest, versions_ok w s -> alive s (ldr s) -> alive s b ->
  sresps s (ldr s) b = m :: rest -> Kv (m_body m) <= K s b.
Proof.
  intros w s b m rest V Aq Ab E.
  assert (Hin : In m (sresps s (ldr s) b)) by (rewrite E; left; reflexivity).
  unfold sresps in Hin. apply filter_In in Hin. destruct Hin as [Hin Hf].
  unfold is_syncresp in Hf. apply andb_true_iff in Hf. destruct Hf as [F1 F2]. apply Nat.eqb_eq in F1.
  assert (Ht : m_typ m = SYNC_RESP) by (destruct (m_typ m); cbn in F2; try discriminate; reflexivity).
  destruct (v_resp w s V m Aq Hin Ht) as [_ H]. rewrite F1 in H. apply H. exact Ab.
Qed.

(* outside the sync labels no token of a live backup is stale, and a backup that is behind has no answer outstanding *)
Lemma no_stale_outside_sync : forall w s b, InvB w s -> alive s (ldr s) -> ~ inrepl s (ldr s) -> ~ insync s (ldr s) ->
  alive s b -> b <> ldr s ->
  Forall (fun m => K s (ldr s) <= Kv (m_body m)) (toks s (ldr s) b) /\
  (K s b < K s (ldr s) -> sresps s (ldr s) b = []).
Proof.
  intros w s b [V P Ph] Aq Hnr Hns Ab Hb.
  pose proof (ph_tok w s Ph Aq Hnr b Ab Hb) as H.
  assert (F : Forall (fun m => K s (ldr s) <= Kv (m_body m)) (toks s (ldr s) b)).
  { destruct (toks s (ldr s) b) as [|t rest]; [constructor|]. destruct H as [H1 H2]. constructor; [|exact H1].
    destruct (le_lt_dec (K s (ldr s)) (Kv (m_body t))) as [L|L]; [exact L|]. destruct (H2 L) as (X & _). contradiction. }
  split; [exact F|]. intros HK.
  destruct (sresps s (ldr s) b) as [|m rest] eqn:E; [reflexivity|]. exfalso.
  pose proof (sresps_head_stale w s b m rest V Aq Ab E) as Hm.
  unfold toks in F. rewrite E in F. inversion F; subst. lia.
Qed.

Lemma invB_sync_start : forall w s, InvA s -> InvB w s -> alive s (ldr s) -> pcr s (ldr s) = SyncPrimary ->
  InvB w (set_rl s (ldr s) (r_set_pc (r_set_sync (rl s (ldr s)) false) SndSyncReqLoop)).
Proof.
  intros w s IA IB Aq Epc.
  destruct (a_loc cfg s IA _ Aq) as (L1 & L2 & L3 & L4 & L5 & L6 & L7 & L8).
  destruct L5 as [HS Hidx]; [left; exact Epc|]. specialize (Hidx ltac:(unfold pcr in Epc; rewrite Epc; discriminate)).
  assert (Hn1 : pcr s (ldr s) <> HandleBackup) by (rewrite Epc; discriminate).
  assert (N1 : ~ insync s (ldr s)) by (unfold insync; rewrite Epc; intuition discriminate).
  assert (N2 : ~ inrepl s (ldr s)) by (unfold inrepl; rewrite Epc; intuition discriminate).
  set (l' := r_set_pc (r_set_sync (rl s (ldr s)) false) SndSyncReqLoop).
  assert (Hn2 : r_pc l' <> HandleBackup) by discriminate.
  pose proof IB as [V P Ph].
  apply (ll_build w s l' IB Aq eq_refl eq_refl Hn1 Hn2).
  { intros _ _ r _ Hr. unfold l' in Hr. simp_st. lia. }
  assert (LA : forall r, alive (set_rl s (ldr s) l') r <-> alive s r) by (apply ll_alive; auto).
  assert (LK : forall r, K (set_rl s (ldr s) l') r = K s r) by (apply ll_K; auto).
  assert (LT : forall b, alive s b -> toks (set_rl s (ldr s) l') (ldr s) b = toks s (ldr s) b) by (apply ll_toks; auto).
  assert (LP : forall b, alive s b -> puts (set_rl s (ldr s) l') (ldr s) b = puts s (ldr s) b) by (apply ll_puts; auto).
  constructor; rewrite ll_ldr.
  - intros A _ b Ab Hb HK. apply LA in A. apply LA in Ab. rewrite !LK in HK.
    destruct (ph_main w s Ph Aq N2 b Ab Hb HK) as [[H|[H|H]]|(H & _)]; try contradiction.
    + left. left. exact H.
    + destruct (classic_owedP s (ldr s)) as [Ho|Ho]; [left; left; exact Ho|].
      right. unfold insync, pcr. rewrite ll_rl. unfold l'. simp_st.
      split; [left; reflexivity|]. split; [rewrite HS; apply in_others; destruct Ab as [[? ?] _]; auto|].
      split; [apply (no_stale_outside_sync w s b IB Aq N2 N1 Ab Hb); exact HK|].
      right. split; [reflexivity | rewrite Hidx; destruct Ab as [[? ?] _]; lia].
  - intros A _ b Ab Hb. apply LA in A. apply LA in Ab. rewrite (LT b Ab).
    destruct (no_stale_outside_sync w s b IB Aq N2 N1 Ab Hb) as [F _].
    destruct (toks s (ldr s) b) as [|t rest]; [exact Logic.I|]. inversion F; subst. rewrite LK. split; [assumption|].
    intros Hlt. lia.
  - intros A HK b Ab Hb. apply LA in A. apply LA in Ab. rewrite LK in HK.
    rewrite (LT b Ab).
    destruct (ph_count w s Ph Aq HK b Ab Hb) as [C1 C2].
    destruct (toks s (ldr s) b) as [|t rest]; [split; [cbn; lia | intros H; congruence]|].
    destruct C2 as (X & _); [discriminate | contradiction].
  - intros A _ b Ab Hb. apply LA in A. apply LA in Ab.
    rewrite (LP b Ab). apply (ph_noack w s Ph Aq N2 b Ab Hb).
  - intros _ [H|H]; unfold pcr in H; rewrite ll_rl in H; discriminate H.
Qed.

(* ------------------------------------------------------------------ the leader advances its send loop without sending
   (target is itself or a replica detected dead), or leaves the loop *)
Lemma invB_snd_advance : forall w s idx' pc',
  InvA s -> InvB w s -> alive s (ldr s) ->
  (pcr s (ldr s) = SndSyncReqLoop \/ pcr s (ldr s) = SndReplicaReqLoop) ->
  ((pc' = pcr s (ldr s) /\ idx' = r_idx (rl s (ldr s)) + 1 /\
    (r_idx (rl s (ldr s)) = ldr s \/ ~ alive s (r_idx (rl s (ldr s))))) \/
   (NR cfg < r_idx (rl s (ldr s)) /\ idx' = r_idx (rl s (ldr s)) /\
    ((pcr s (ldr s) = SndSyncReqLoop /\ pc' = RcvSyncRespLoop) \/
     (pcr s (ldr s) = SndReplicaReqLoop /\ pc' = RcvReplicaRespLoop)))) ->
  InvB w (set_rl s (ldr s) (r_set_pc (r_set_idx (rl s (ldr s)) idx') pc')).
Proof.
  intros w s idx' pc' IA IB Aq Hpc Hcase.
  set (q := ldr s) in *. set (l' := r_set_pc (r_set_idx (rl s q) idx') pc').
  assert (Hn1 : pcr s q <> HandleBackup) by (destruct Hpc as [H|H]; rewrite H; discriminate).
  assert (Hpc' : pc' = SndSyncReqLoop \/ pc' = SndReplicaReqLoop \/ pc' = RcvSyncRespLoop \/ pc' = RcvReplicaRespLoop).
  { destruct Hcase as [(-> & _)|(_ & _ & [(_ & ->)|(_ & ->)])]; auto. destruct Hpc as [-> | ->]; auto. }
  assert (Hn2 : r_pc l' <> HandleBackup) by (unfold l'; simp_st; destruct Hpc' as [->|[->|[->| ->]]]; discriminate).
  assert (Hal : pc_alive (r_pc l') = true) by (unfold l'; simp_st; destruct Hpc' as [->|[->|[->| ->]]]; reflexivity).
  pose proof IB as [V P Ph].
  assert (LA : forall r, alive (set_rl s q l') r <-> alive s r) by (apply ll_alive; auto).
  assert (LK : forall r, K (set_rl s q l') r = K s r) by (apply ll_K; auto).
  assert (LT : forall b, alive s b -> toks (set_rl s q l') q b = toks s q b) by (apply ll_toks; auto).
  assert (LP : forall b, alive s b -> puts (set_rl s q l') q b = puts s q b) by (apply ll_puts; auto).
  assert (LS : forall b, alive s b -> sreqs (set_rl s q l') q b = sreqs s q b) by (apply ll_sreqs; auto).
  assert (LX : forall b, alive s b -> xs (set_rl s q l') q b = xs s q b) by (apply ll_xs; auto).
  assert (LPe : forall b, alive s b -> pend (set_rl s q l') b = pend s b) by (apply ll_pend; auto).
  assert (Hrl : rl (set_rl s q l') q = l') by (apply ll_rl).
  assert (Hins : insync (set_rl s q l') q <-> insync s q).
  { unfold insync, pcr. rewrite Hrl. unfold l'. simp_st. fold (pcr s q).
    destruct Hcase as [(-> & _)|(_ & _ & [(E & ->)|(E & ->)])]; [tauto | rewrite E; tauto | rewrite E; intuition discriminate]. }
  assert (Hinr : inrepl (set_rl s q l') q <-> inrepl s q).
  { unfold inrepl, pcr. rewrite Hrl. unfold l'. simp_st. fold (pcr s q).
    destruct Hcase as [(-> & _)|(_ & _ & [(E & ->)|(E & ->)])]; [tauto | rewrite E; intuition discriminate | rewrite E; tauto]. }
  assert (How : owed (set_rl s q l') q <-> owed s q).
  { unfold owed, owedP, pcr. rewrite Hrl. unfold l'. simp_st. fold (pcr s q). intuition. }
  (* the replicas the loop has passed *)
  assert (Hpass : forall b, alive s b -> b <> q ->
            (r_idx (rl s q) <= b -> pc' = pcr s q -> idx' <= b) /\ (b < r_idx (rl s q) -> b < idx')).
  { intros b Ab Hb. destruct Hcase as [(_ & -> & Hx)|(_ & -> & _)]; [|split; auto].
    split; [|lia]. intros Hle _. assert (b <> r_idx (rl s q)); [|lia].
    intros ->. destruct Hx as [Hx|Hx]; [congruence | contradiction]. }
  apply (ll_build w s l' IB Aq Hal eq_refl Hn1 Hn2).
  { unfold l'. simp_st. intros Hp HK r Ar Hr.
    destruct Hcase as [(E1 & -> & Hx)|(_ & _ & [(_ & ->)|(_ & ->)])]; try (destruct Hp; discriminate).
    destruct (Nat.eq_dec r (r_idx (rl s q))) as [->|Hne].
    - exfalso. destruct Hx as [Hx|Hx]; [fold q in Hx; lia | contradiction].
    - apply (p_loop w s P Aq Hpc HK r Ar). fold q. lia. }
  constructor; rewrite ll_ldr; fold q.
  - intros A Hnr b Ab Hb HK. apply LA in A. apply LA in Ab. rewrite !LK in HK. rewrite Hinr in Hnr.
    rewrite How, Hins, Hrl, (LS b Ab), LK. change (sresps (set_rl s q l') q b) with (sresps s q b).
    destruct (ph_main w s Ph Aq Hnr b Ab Hb HK) as [H|(H1 & H2 & H3 & H4)]; [left; exact H|]. right.
    unfold l'. simp_st. split; [exact H1|]. split; [exact H2|]. split; [exact H3|].
    destruct H4 as [H4|[H4 H5]]; [left; exact H4|].
    destruct Hcase as [(E1 & E2 & Hx)|(Hgt & _ & _)].
    + right. split; [unfold pcr; simp_st; rewrite updf_same; simp_st; rewrite E1; exact H4|].
      apply (Hpass b Ab Hb); auto.
    + exfalso. fold q in H5. destruct Ab as [[? ?] _]. lia.
  - intros A Hnr b Ab Hb. apply LA in A. apply LA in Ab. rewrite Hinr in Hnr.
    pose proof (ph_tok w s Ph Aq Hnr b Ab Hb) as H. fold q in H. rewrite (LT b Ab), LK.
    destruct (toks s q b) as [|t rest]; [exact Logic.I|]. destruct H as [H1 H2]. split; [exact H1|].
    intros Hlt. destruct (H2 Hlt) as (X1 & X2 & X3). rewrite Hins, Hrl. unfold l'. simp_st. auto.
  - intros A HK b Ab Hb. apply LA in A. apply LA in Ab. rewrite LK in HK.
    destruct (ph_count w s Ph Aq HK b Ab Hb) as [C1 C2]. rewrite (LT b Ab). split; [exact C1|].
    intros Hne. destruct (C2 Hne) as (X1 & X2 & X3). rewrite Hins, Hrl. unfold pcr. rewrite Hrl. unfold l'. simp_st.
    split; [exact X1|]. split; [exact X2|].
    pose proof X1 as X1'. unfold insync in X1'. fold q in X1'.
    destruct X3 as [X3|X3].
    + exfalso. fold q in X3. destruct Hpc as [E|E]; rewrite E in X3; discriminate.
    + destruct Hcase as [(E1 & E2 & Hx)|(Hgt & E2 & [(_ & ->)|(E & _)])].
      * right. apply (Hpass b Ab Hb). exact X3.
      * left. reflexivity.
      * exfalso. destruct X1' as [X1'|X1']; rewrite E in X1'; discriminate.
  - intros A Hnr b Ab Hb. apply LA in A. apply LA in Ab. rewrite Hinr in Hnr.
    rewrite (LP b Ab). apply (ph_noack w s Ph Aq Hnr b Ab Hb).
  - intros A Hr. apply LA in A. rewrite Hinr in Hr. destruct (ph_repl w s Ph Aq Hr) as (R1 & R2 & R3 & R4).
    split; [apply ll_isnew; auto|]. split; [|split].
    + intros b m Ab Hb Hm. apply LA in Ab. rewrite (LPe b Ab) in Hm. apply (R2 b m Ab Hb Hm).
    + exact R3.
    + intros b Ab Hb. apply LA in Ab. destruct (R4 b Ab Hb) as (Sy & Pu & E & HSy & Hst).
      exists Sy, Pu. rewrite (LX b Ab). split; [exact E|]. split; [exact HSy|].
      assert (Hold : isold w (set_rl s q l') b <-> isold w s b) by (apply ll_isold; auto).
      assert (Hnew : isnew w (set_rl s q l') b <-> isnew w s b) by (apply ll_isnew; auto).
      assert (Hsent : rsent (set_rl s q l') q b <-> rsent s q b).
      { unfold rsent, pcr. rewrite Hrl. unfold l'. simp_st. fold (pcr s q).
        destruct Hr as [Er|Er]; [|exfalso; destruct Hpc as [E1|E1]; rewrite E1 in Er; discriminate].
        destruct Hcase as [(E1 & E2 & Hx)|(Hgt & E2 & [(E3 & _)|(_ & E3)])].
        - rewrite E1, E2. split; intros [H|H]; auto; right.
          + destruct (Nat.eq_dec b (r_idx (rl s q))) as [->|Hne]; [|lia]. exfalso. destruct Hx as [Hx|Hx]; [congruence | contradiction].
          + lia.
        - rewrite E3 in Er. discriminate.
        - rewrite E3, E2. split; intros _; [right; destruct Ab as [[? ?] _]; lia | left; reflexivity]. }
      rewrite Hsent, Hold, Hnew, Hrl. unfold l'. simp_st. exact Hst.
Qed.

(* ------------------------------------------------------------------ the leader sends lastPutBody to the next replica *)
Section SEND.
Variables (w : wit) (s : state) (typ : mtyp) (id : nat).
Let q := ldr s.
Let x := r_idx (rl s q).
Let m := mkMsg q x (r_lastPutBody (rl s q)) PRIMARY_SRC typ id.
Let l' := r_set_pc (r_set_idx (rl s q) (x + 1)) (pcr s q).
Let s' := set_rl (set_net s (upd_net (net s) x REQ (mkLink (queue (net s x REQ) ++ [m]) true))) q l'.
Hypothesis IA : InvA s.
Hypothesis IB : InvB w s.
Hypothesis Aq : alive s q.
Hypothesis Ax : alive s x.
Hypothesis Hqx : q < x.
Hypothesis Hpc : (pcr s q = SndSyncReqLoop /\ typ = SYNC_REQ) \/ (pcr s q = SndReplicaReqLoop /\ typ = PUT_REQ).

Lemma sd_pcr : pcr s' q = pcr s q.
Proof. unfold pcr, s'. simp_st. rewrite updf_same. reflexivity. Qed.
Lemma sd_rl : rl s' q = l'. Proof. unfold s'. simp_st. apply updf_same. Qed.
Lemma sd_rl_other : forall r, r <> q -> rl s' r = rl s r.
Proof. intros r H. unfold s'. simp_st. apply updf_other. exact H. Qed.
Lemma sd_pa : forall r, pc_alive (pcr s' r) = pc_alive (pcr s r).
Proof.
  intros r. destruct (Nat.eq_dec r q) as [->|Hne]; [rewrite sd_pcr; reflexivity|].
  unfold pcr. rewrite sd_rl_other by exact Hne. reflexivity.
Qed.
Lemma sd_alive : forall r, alive s' r <-> alive s r.
Proof. apply fr_alive. exact sd_pa. Qed.
Lemma sd_lpb : forall r, r_lastPutBody (rl s' r) = r_lastPutBody (rl s r).
Proof.
  intros r. destruct (Nat.eq_dec r q) as [->|Hne]; [rewrite sd_rl; reflexivity|].
  rewrite sd_rl_other by exact Hne. reflexivity.
Qed.
Lemma sd_K : forall r, K s' r = K s r. Proof. apply fr_K. exact sd_lpb. Qed.
Lemma sd_queue : forall r c, (r <> x \/ c <> REQ) -> queue (net s' r c) = queue (net s r c).
Proof. intros r c H. unfold s'. simp_st. rewrite upd_net_other by exact H. reflexivity. Qed.
Lemma sd_is_p : is_p m = true. Proof. reflexivity. Qed.
Lemma sd_hb : pcr s q <> HandleBackup. Proof. destruct Hpc as [[H _]|[H _]]; rewrite H; discriminate. Qed.
Lemma sd_pend_x : pend s' x = pend s x ++ [m].
Proof.
  assert (Hne : x <> q) by lia.
  unfold pend. unfold pcr at 1. rewrite (sd_rl_other x Hne). fold (pcr s x).
  unfold s'. simp_st. rewrite upd_net_same. simp_st. rewrite filter_app_single, sd_is_p, app_assoc. reflexivity.
Qed.
Lemma sd_pend_other : forall r, r <> x -> pend s' r = pend s r.
Proof.
  intros r Hne. destruct (Nat.eq_dec r q) as [->|Hnq].
  - rewrite !pend_not_hb; [|exact sd_hb | rewrite sd_pcr; exact sd_hb]. rewrite sd_queue by (left; exact Hne). reflexivity.
  - apply pend_ext; [unfold pcr; rewrite sd_rl_other by exact Hnq; reflexivity | rewrite sd_rl_other by exact Hnq; reflexivity | apply sd_queue; left; exact Hne].
Qed.
Lemma sd_pend_incl : forall r m0, In m0 (pend s r) -> In m0 (pend s' r).
Proof.
  intros r m0 H. destruct (Nat.eq_dec r x) as [->|Hne]; [rewrite sd_pend_x; apply in_or_app; left; exact H | rewrite sd_pend_other by exact Hne; exact H].
Qed.
Lemma sd_knows_mono : forall r, knows w s r -> knows w s' r.
Proof. intros r [H|(m0 & H1 & H2)]; [left; rewrite sd_K; exact H | right; exists m0; split; [apply sd_pend_incl; exact H1 | exact H2]]. Qed.
Lemma sd_knows_other : forall r, r <> x -> (knows w s' r <-> knows w s r).
Proof. intros r Hne. unfold knows. rewrite sd_K, (sd_pend_other r Hne). tauto. Qed.
Lemma sd_knows_x : knows w s' x <-> (knows w s x \/ K s q = Mx w).
Proof.
  unfold knows. rewrite sd_K, sd_pend_x. split.
  - intros [H|(m0 & H1 & H2)]; [left; left; exact H|]. apply in_app_or in H1. destruct H1 as [H1|[<-|[]]].
    + left. right. exists m0. auto.
    + right. exact H2.
  - intros [[H|(m0 & H1 & H2)]|H]; [left; exact H | right; exists m0; split; [apply in_or_app; left; exact H1 | exact H2]|].
    right. exists m. split; [apply in_or_app; right; left; reflexivity | exact H].
Qed.
Lemma sd_isnew : forall r, isnew w s' r <-> isnew w s r.
Proof. apply fr_isnew; [exact sd_lpb | reflexivity]. Qed.
Lemma sd_isold : forall r, isold w s' r <-> isold w s r.
Proof. apply fr_isold; [exact sd_lpb | reflexivity]. Qed.

Lemma sd_body_ok : body_ok w (r_lastPutBody (rl s q)).
Proof.
  destruct IB as [V _ _]. destruct (v_rep w s V q Aq) as [[H _]|(H0 & H & _)]; rewrite H.
  - exists (Mx w), (cM w). repeat split; auto. lia.
  - exists (Mx w - 1), (cO w). repeat split; auto; lia.
Qed.

Lemma sd_versions : versions_ok w s'.
Proof.
  destruct IB as [V P Ph]. constructor; try apply V.
  - intros r A. apply sd_alive in A. rewrite sd_isnew, sd_isold. apply (v_rep w s V r A).
  - intros r m0 A Hm. apply sd_alive in A. destruct (Nat.eq_dec r x) as [->|Hne].
    + rewrite sd_pend_x in Hm. apply in_app_or in Hm. destruct Hm as [Hm|[<-|[]]]; [apply (v_pend w s V x m0 A Hm) | exact sd_body_ok].
    + rewrite sd_pend_other in Hm by exact Hne. apply (v_pend w s V r m0 A Hm).
  - change (ldr s') with q. rewrite sd_queue by (right; discriminate). intros m0 A Hm Ht. apply sd_alive in A.
    destruct (v_resp w s V m0 A Hm Ht) as [B1 B2]. split; [exact B1|]. intros A2. apply sd_alive in A2. rewrite sd_K. apply B2. exact A2.
Qed.

Lemma sd_prefix : prefix_ok w s'.
Proof.
  destruct IB as [V P Ph]. constructor.
  - intros r1 r2 A1 A2 Hlt Hk. apply sd_alive in A1. apply sd_alive in A2.
    destruct (Nat.eq_dec r2 x) as [->|Hne].
    + apply sd_knows_x in Hk. destruct Hk as [Hk|Hk]; [apply sd_knows_mono; apply (p_order w s P r1 x A1 A2 Hlt Hk)|].
      destruct (alive_ge_ldr cfg s r1 IA A1) as [_ Hge]. fold q in Hge.
      destruct (Nat.eq_dec r1 q) as [->|Hnq]; [left; rewrite sd_K; exact Hk|].
      apply sd_knows_mono. apply (p_loop w s P Aq); [destruct Hpc as [[H _]|[H _]]; auto | exact Hk | exact A1 | fold q; fold x; lia].
    + apply (sd_knows_other r2 Hne) in Hk. apply sd_knows_mono. apply (p_order w s P r1 r2 A1 A2 Hlt Hk).
  - change (ldr s') with q. rewrite sd_queue by (right; discriminate). intros m0 A Hm Ht Hv. apply sd_alive in A.
    apply sd_knows_mono. apply (p_resp w s P m0 A Hm Ht Hv).
  - change (ldr s') with q. rewrite sd_pcr, sd_rl, sd_K. unfold l'. simp_st. intros A Hp HK r Ar Hr. apply sd_alive in Ar.
    destruct (Nat.eq_dec r x) as [->|Hne]; [apply sd_knows_x; right; exact HK|].
    apply sd_knows_mono. apply (p_loop w s P Aq Hp HK r Ar). fold q. fold x. lia.
Qed.

(* token lists *)
Lemma sd_sresps : forall b, sresps s' q b = sresps s q b.
Proof. intros b. unfold sresps. rewrite sd_queue by (right; discriminate). reflexivity. Qed.
Lemma sd_acks : forall b, acks s' q b = acks s q b.
Proof. intros b. unfold acks. rewrite sd_queue by (right; discriminate). reflexivity. Qed.
Lemma sd_sreqs_other : forall b, b <> x -> sreqs s' q b = sreqs s q b.
Proof. intros b H. unfold sreqs. rewrite sd_pend_other by exact H. reflexivity. Qed.
Lemma sd_puts_other : forall b, b <> x -> puts s' q b = puts s q b.
Proof. intros b H. unfold puts. rewrite sd_pend_other by exact H. reflexivity. Qed.
Lemma sd_xs_other : forall b, b <> x -> xs s' q b = xs s q b.
Proof. intros b H. unfold xs. rewrite sd_queue by (right; discriminate). rewrite sd_pend_other by exact H. reflexivity. Qed.
Lemma sd_xs_x : xs s' q x = xs s q x ++ [m].
Proof.
  unfold xs. rewrite sd_queue by (right; discriminate). rewrite sd_pend_x, filter_app_single.
  unfold from_b at 3. unfold m at 1. simp_st. rewrite Nat.eqb_refl, app_assoc. reflexivity.
Qed.
Lemma sd_owedP : owedP s' q <-> owedP s q.
Proof. unfold owedP. rewrite sd_queue by (left; lia). tauto. Qed.


Lemma sd_sreqs_x_sync : typ = SYNC_REQ -> sreqs s' q x = sreqs s q x ++ [m].
Proof.
  intros Ht. unfold sreqs. rewrite sd_pend_x, filter_app_single.
  assert (E : is_syncreq q m = true) by (unfold is_syncreq, m; simp_st; rewrite Nat.eqb_refl, Ht; reflexivity).
  rewrite E. reflexivity.
Qed.
Lemma sd_puts_x_sync : typ = SYNC_REQ -> puts s' q x = puts s q x.
Proof.
  intros Ht. unfold puts. rewrite sd_pend_x, filter_app_single.
  assert (E : is_put q m = false) by (unfold is_put, m; simp_st; rewrite Ht; apply andb_false_r).
  rewrite E, app_nil_r. reflexivity.
Qed.

Lemma sd_x_in_others : In x (others cfg q).
Proof. apply in_others. split; [apply Ax | lia]. Qed.

Lemma invB_send_sync : pcr s q = SndSyncReqLoop -> typ = SYNC_REQ -> InvB w s'.
Proof.
  intros Epc Ht. pose proof IB as [V P Ph].
  assert (N2 : ~ inrepl s q) by (unfold inrepl; rewrite Epc; intuition discriminate).
  assert (Hins : insync s' q) by (unfold insync; rewrite sd_pcr; left; exact Epc).
  assert (HS : r_replicaSet (rl s q) = others cfg q).
  { destruct (a_loc cfg s IA q Aq) as (_ & _ & _ & _ & L5 & _). apply L5. right. left. exact Epc. }
  assert (Hxq : x <> q) by lia.
  constructor; [exact sd_versions | exact sd_prefix | constructor]; change (ldr s') with q.
  - intros A _ b Ab Hb HK. apply sd_alive in Ab. rewrite !sd_K in HK.
    destruct (ph_main w s Ph Aq N2 b Ab Hb HK) as [H|(H1 & H2 & H3 & H4)].
    + left. unfold owed in *. rewrite sd_owedP, sd_pcr, sd_rl. unfold l'. simp_st. exact H.
    + right. split; [exact Hins|]. rewrite sd_rl, sd_sresps, sd_K, sd_pcr. unfold l'. simp_st.
      split; [exact H2|]. split; [exact H3|].
      destruct (Nat.eq_dec b x) as [->|Hne].
      * left. exists m. split; [rewrite (sd_sreqs_x_sync Ht); apply in_or_app; right; left; reflexivity | reflexivity].
      * rewrite (sd_sreqs_other b Hne). destruct H4 as [H4|[H4 H5]]; [left; exact H4|].
        right. split; [exact H4|]. fold q in H5. fold x in H5. lia.
  - intros A _ b Ab Hb. apply sd_alive in Ab.
    pose proof (ph_tok w s Ph Aq N2 b Ab Hb) as H. fold q in H. unfold toks in *. rewrite sd_sresps, sd_K.
    assert (G : insync s q /\ In b (r_replicaSet (rl s q)) /\ owedP s q ->
                insync s' q /\ In b (r_replicaSet (rl s' q)) /\ owedP s' q).
    { intros (X1 & X2 & X3). split; [exact Hins|]. rewrite sd_rl, sd_owedP. unfold l'. simp_st. auto. }
    destruct (Nat.eq_dec b x) as [->|Hne].
    + rewrite (sd_sreqs_x_sync Ht), app_assoc.
      destruct (sresps s q x ++ sreqs s q x) as [|t rest]; cbn [app].
      * split; [constructor|]. intros Hlt. unfold m in Hlt. simp_st. unfold K in Hlt. lia.
      * destruct H as [H1 H2]. split; [apply Forall_app; split; [exact H1 | constructor; [unfold m, K; simp_st; lia | constructor]]|].
        intros Hlt. apply G. apply H2. exact Hlt.
    + rewrite (sd_sreqs_other b Hne).
      destruct (sresps s q b ++ sreqs s q b) as [|t rest]; [exact Logic.I|]. destruct H as [H1 H2]. split; [exact H1|].
      intros Hlt. apply G. apply H2. exact Hlt.
  - intros A HK b Ab Hb. apply sd_alive in Ab. rewrite sd_K in HK.
    destruct (ph_count w s Ph Aq HK b Ab Hb) as [C1 C2]. fold q in C1, C2. unfold toks in *. rewrite sd_sresps.
    rewrite sd_rl, sd_pcr. unfold l'. simp_st.
    destruct (Nat.eq_dec b x) as [->|Hne].
    + rewrite (sd_sreqs_x_sync Ht), app_assoc.
      assert (E : sresps s q x ++ sreqs s q x = []).
      { destruct (sresps s q x ++ sreqs s q x) as [|t rest]; [reflexivity|]. exfalso.
        destruct C2 as (_ & _ & [X|X]); [discriminate | rewrite Epc in X; discriminate | fold x in X; lia]. }
      rewrite E. cbn. split; [lia|]. intros _. split; [exact Hins|]. split; [rewrite HS; exact sd_x_in_others | right; lia].
    + rewrite (sd_sreqs_other b Hne). split; [exact C1|]. intros Hn. destruct (C2 Hn) as (X1 & X2 & X3).
      split; [exact Hins|]. split; [exact X2|]. destruct X3 as [X3|X3]; [left; exact X3 | right; fold x in X3; lia].
  - intros A _ b Ab Hb. apply sd_alive in Ab. rewrite sd_acks.
    destruct (ph_noack w s Ph Aq N2 b Ab Hb) as [N1 N3]. split; [exact N1|].
    destruct (Nat.eq_dec b x) as [->|Hne]; [rewrite (sd_puts_x_sync Ht) | rewrite (sd_puts_other b Hne)]; exact N3.
  - intros _ [H|H]; rewrite sd_pcr, Epc in H; discriminate H.
Qed.


Lemma invB_send_put : pcr s q = SndReplicaReqLoop -> typ = PUT_REQ -> InvB w s'.
Proof.
  intros Epc Ht. pose proof IB as [V P Ph].
  assert (R : inrepl s q) by (left; exact Epc).
  assert (R' : inrepl s' q) by (unfold inrepl; rewrite sd_pcr; left; exact Epc).
  destruct (ph_repl w s Ph Aq R) as (R1 & R2 & R3 & R4).
  assert (HKq : K s q = Mx w) by (apply isnew_K; exact R1).
  assert (Hxq : x <> q) by lia.
  constructor; [exact sd_versions | exact sd_prefix | constructor]; change (ldr s') with q.
  - intros _ H. contradiction.
  - intros _ H. contradiction.
  - intros _ HK. rewrite sd_K in HK. lia.
  - intros _ H. contradiction.
  - intros _ _. split; [apply sd_isnew; exact R1|]. split; [|split].
    + intros b m0 Ab Hb Hm HK. apply sd_alive in Ab. destruct (Nat.eq_dec b x) as [->|Hne].
      * rewrite sd_pend_x in Hm. apply in_app_or in Hm. destruct Hm as [Hm|[<-|[]]]; [apply (R2 x m0 Ab Hb Hm HK)|].
        unfold m. simp_st. auto.
      * rewrite sd_pend_other in Hm by exact Hne. apply (R2 b m0 Ab Hb Hm HK).
    + rewrite sd_queue by (right; discriminate). exact R3.
    + intros b Ab Hb. apply sd_alive in Ab. destruct (R4 b Ab Hb) as (Sy & Pu & E & HSy & Hst). fold q in E, Hst.
      assert (Hrs : forall b0, rsent s' q b0 <-> (rsent s q b0 \/ b0 = x)).
      { intros b0. unfold rsent. rewrite sd_pcr, sd_rl, Epc. unfold l'. simp_st. fold x.
        split; [intros [H|H]; [discriminate | destruct (Nat.eq_dec b0 x); [right; assumption | left; right; lia]]|].
        intros [[H|H]|H]; [discriminate | right; lia | right; lia]. }
      destruct (Nat.eq_dec b x) as [->|Hne].
      * assert (Hns : ~ rsent s q x) by (unfold rsent; rewrite Epc; fold x; intros [H|H]; [discriminate | lia]).
        destruct Hst as [(S1 & S2 & S3 & S4)|[(S1 & _)|[(S1 & _)|(S1 & _)]]]; try contradiction.
        exists Sy, [m]. rewrite sd_xs_x, E, S4, app_nil_r. split; [reflexivity|]. split; [exact HSy|].
        right. left. rewrite Hrs, sd_isold, sd_rl. unfold l'. simp_st.
        split; [right; reflexivity|]. split; [exact S2|]. split; [exact S3|].
        exists m. unfold m. simp_st. auto.
      * exists Sy, Pu. rewrite (sd_xs_other b Hne). split; [exact E|]. split; [exact HSy|].
        assert (Hrs' : rsent s' q b <-> rsent s q b) by (rewrite Hrs; intuition).
        rewrite Hrs', sd_isold, sd_isnew, sd_rl. unfold l'. simp_st. exact Hst.
Qed.

End SEND.

Section BLABELS.
Variables (w : wit) (s : state) (p : node) (ch : choice) (s' : state).
Hypothesis IA : InvA s.
Hypothesis IB : InvB w s.
Hypothesis Ap : alive s p.

Lemma invB_may_fail : forall s1 l1 next, may_fail cfg ch s1 p l1 next = Ok s' ->
  InvB w (set_rl s1 p (r_set_pc l1 next)) -> InvB w s'.
Proof.
  intros s1 l1 next Hm Iok. apply (may_fail_cases cfg) in Hm. destruct Hm as [-> | ->]; [exact Iok|].
  eapply invB_crash; [exact Iok | reflexivity].
Qed.

Lemma invB_replicaLoop : pcr s p = ReplicaLoop -> step_replicaLoop cfg ch s p = Ok s' -> InvB w s'.
Proof.
  intros Epc Hs. unfold step_replicaLoop in Hs. apply (invB_may_fail _ _ _ Hs).
  apply invB_local_step; auto.
  - apply pend_set_rl_nohb; [rewrite Epc; discriminate | discriminate].
  - right. rewrite Epc. cbn. auto.
Qed.


Lemma invB_syncPrimary : pcr s p = SyncPrimary -> step_syncPrimary cfg ch s p = Ok s' -> InvB w s'.
Proof.
  intros Epc Hs. unfold step_syncPrimary in Hs.
  destruct (Nat.eqb (leader cfg s) p && r_shouldSync (rl s p)) eqn:E; inversion Hs; subst s'; clear Hs.
  - apply andb_true_iff in E. destruct E as [E1 E2]. apply Nat.eqb_eq in E1.
    assert (Hq : p = ldr s) by (symmetry; exact E1). subst p.
    apply invB_sync_start; auto.
  - apply invB_local_step; auto.
    + apply pend_set_rl_nohb; [rewrite Epc; discriminate | discriminate].
    + right. rewrite Epc. cbn. auto.
Qed.


End BLABELS.

Lemma fd_not_alive : forall s r, InvA s -> fdv s r = true -> ~ alive s r.
Proof.
  intros s r IA H [_ Ha]. rewrite (a_fd cfg s IA) in H. apply andb_true_iff in H. destruct H as [_ H].
  destruct (pcr s r); cbn in *; discriminate.
Qed.

Lemma invB_sndLoop : forall w s p ch s' typ id here after,
  InvA s -> InvB w s -> alive s p ->
  (here = SndSyncReqLoop /\ after = RcvSyncRespLoop /\ typ = SYNC_REQ) \/
  (here = SndReplicaReqLoop /\ after = RcvReplicaRespLoop /\ typ = PUT_REQ) ->
  pcr s p = here -> step_sndLoop cfg ch s p typ id here after = Ok s' -> InvB w s'.
Proof.
  intros w s p ch s' typ id here after IA IB Ap Hh Epc Hs.
  assert (Hq : p = ldr s).
  { apply (nonbackup_is_ldr cfg s p IA Ap). rewrite Epc. destruct Hh as [(-> & _)|(-> & _)]; cbn; tauto. }
  subst p.
  assert (Hpc : pcr s (ldr s) = SndSyncReqLoop \/ pcr s (ldr s) = SndReplicaReqLoop).
  { rewrite Epc. destruct Hh as [(-> & _)|(-> & _)]; auto. }
  assert (Hidx : 1 <= r_idx (rl s (ldr s))).
  { destruct (a_loc cfg s IA _ Ap) as (_ & _ & _ & _ & _ & L6 & _). apply L6. exact Hpc. }
  unfold step_sndLoop in Hs.
  destruct (r_idx (rl s (ldr s)) <=? NR cfg) eqn:Ele.
  2:{ apply Nat.leb_gt in Ele. inversion Hs; subst s'.
      replace (r_set_pc (rl s (ldr s)) after) with (r_set_pc (r_set_idx (rl s (ldr s)) (r_idx (rl s (ldr s)))) after)
        by (destruct (rl s (ldr s)); reflexivity).
      apply invB_snd_advance; auto. right. split; [exact Ele|]. split; [reflexivity|].
      rewrite Epc. destruct Hh as [(-> & -> & _)|(-> & -> & _)]; auto. }
  apply Nat.leb_le in Ele.
  destruct (negb (Nat.eqb (r_idx (rl s (ldr s))) (ldr s))) eqn:Eself.
  2:{ apply negb_false_iff, Nat.eqb_eq in Eself. apply (invB_may_fail w _ ch s' _ _ _ Hs).
      rewrite <- Epc. apply invB_snd_advance; auto. }
  apply negb_true_iff, Nat.eqb_neq in Eself.
  destruct (ch_alt ch); cbn [negb] in Hs.
  { destruct (fdv s (r_idx (rl s (ldr s)))) eqn:Efd; [|discriminate]. apply (invB_may_fail w _ ch s' _ _ _ Hs).
    rewrite <- Epc. apply invB_snd_advance; auto. left. split; [reflexivity|]. split; [reflexivity|].
    right. apply fd_not_alive; auto. }
  unfold link_send in Hs. destruct (enabled (net s (r_idx (rl s (ldr s))) REQ)) eqn:Een; [|discriminate].
  apply (invB_may_fail w _ ch s' _ _ _ Hs).
  assert (Hx : isrep (r_idx (rl s (ldr s)))) by (unfold ProofsCrashA.isrep; lia).
  assert (Ax : alive s (r_idx (rl s (ldr s)))) by (eapply enabled_alive; eauto).
  assert (Hlt : ldr s < r_idx (rl s (ldr s))).
  { destruct (alive_ge_ldr cfg s _ IA Ax) as [_ H]. lia. }
  rewrite <- Epc.
  destruct Hh as [(E1 & _ & E3)|(E1 & _ & E3)]; subst here.
  - apply invB_send_sync; auto.
  - apply invB_send_put; auto.
Qed.

Lemma invB_sndSyncReqLoop : forall w s p ch s', InvA s -> InvB w s -> alive s p ->
  pcr s p = SndSyncReqLoop -> step_sndSyncReqLoop cfg ch s p = Ok s' -> InvB w s'.
Proof.
  intros w s p ch s' IA IB Ap Epc Hs. unfold step_sndSyncReqLoop in Hs.
  eapply (invB_sndLoop w s p ch s' SYNC_REQ 3 SndSyncReqLoop RcvSyncRespLoop); eauto.
Qed.

Lemma invB_sndReplicaReqLoop : forall w s p ch s', InvA s -> InvB w s -> alive s p ->
  pcr s p = SndReplicaReqLoop -> step_sndReplicaReqLoop cfg ch s p = Ok s' -> InvB w s'.
Proof.
  intros w s p ch s' IA IB Ap Epc Hs. unfold step_sndReplicaReqLoop in Hs.
  destruct (r_req (rl s p)) as [m|]; cbn [bindT] in Hs; [|discriminate].
  eapply (invB_sndLoop w s p ch s' PUT_REQ (m_id m) SndReplicaReqLoop RcvReplicaRespLoop); eauto.
Qed.



(* ------------------------------------------------------------------ rcvMsg *)
Lemma invB_rcvMsg : forall w s p ch s', InvA s -> InvB w s -> alive s p ->
  pcr s p = RcvMsg -> step_rcvMsg cfg ch s p = Ok s' -> InvB w s'.
Proof.
  intros w s p ch s' IA IB Ap Epc Hs. unfold step_rcvMsg in Hs.
  destruct (Nat.eqb (leader cfg s) p && r_shouldSync (rl s p)) eqn:E.
  { inversion Hs; subst s'. apply invB_local_step; auto.
    - apply pend_set_rl_nohb; [rewrite Epc; discriminate | discriminate].
    - right. rewrite Epc. cbn. auto. }
  unfold link_recv in Hs. dif Hs; [discriminate|].
  destruct (queue (net s p REQ)) as [|m rest] eqn:Eq; [discriminate|].
  dif Hs; [discriminate|].
  change (leader cfg (set_net s (upd_net (net s) p REQ (mkLink rest (enabled (net s p REQ)))))) with (leader cfg s) in Hs.
  destruct (a_q cfg s IA p Ap) as (Sh & _ & _). rewrite Eq in Sh.
  destruct (shape_tail cfg _ _ _ _ Sh) as [Sh' Hm].
  (* facts common to both targets *)
  assert (F : forall l', r_lastPutBody l' = r_lastPutBody (rl s p) -> pc_alive (r_pc l') = true ->
     let s1 := set_rl (set_net s (upd_net (net s) p REQ (mkLink rest (enabled (net s p REQ))))) p l' in
     (forall r, pc_alive (pcr s1 r) = pc_alive (pcr s r)) /\ ldr s1 = ldr s /\
     (forall r, r_lastPutBody (rl s1 r) = r_lastPutBody (rl s r)) /\
     (forall r k, fsv s1 r k = fsv s r k) /\
     (forall r, r <> p -> pend s1 r = pend s r) /\
     queue (net s1 (ldr s) RESP) = queue (net s (ldr s) RESP) /\
     (p <> ldr s -> filter is_p (queue (net s1 (ldr s) REQ)) = filter is_p (queue (net s (ldr s) REQ))) /\
     (forall r, r <> p -> rl s1 r = rl s r)).
  { intros l' Hl Hal s1. unfold s1. repeat split; simp_st; auto.
    - intros r. unfold pcr. simp_st. unfold updf. destruct (Nat.eqb r p) eqn:E2; [|reflexivity].
      apply Nat.eqb_eq in E2. subst r. rewrite Hal. symmetry. apply Ap.
    - intros r. unfold updf. destruct (Nat.eqb r p) eqn:E2; [|reflexivity]. apply Nat.eqb_eq in E2. subst r. exact Hl.
    - intros r Hr. apply pend_ext; unfold pcr; simp_st; rewrite ?updf_other by exact Hr; try reflexivity.
      rewrite upd_net_other by (left; exact Hr). reflexivity.
    - rewrite upd_net_other by (right; discriminate). reflexivity.
    - intros Hne. rewrite upd_net_other by (left; auto). reflexivity.
    - intros r Hr. apply updf_other. exact Hr. }
  destruct (Nat.eqb (leader cfg s) p && srct_eqb (m_src m) CLIENT_SRC) eqn:E2; inversion Hs; subst s'; clear Hs.
  - (* handlePrimary: p is the leader, m a client request *)
    apply andb_true_iff in E2. destruct E2 as [E3 E4]. apply Nat.eqb_eq in E3.
    assert (Hq : p = ldr s) by (symmetry; exact E3). clear E3. subst p.
    assert (Hc : creq cfg m).
    { destruct Hm as [Hm | (Hm & _)]; [|exact Hm]. exfalso. destruct Hm as (Hsrc & _). rewrite Hsrc in E4. discriminate. }
    destruct (F (r_set_pc (r_set_req (rl s (ldr s)) (Some m)) HandlePrimary) eq_refl eq_refl) as (F1 & F2 & F3 & F4 & F5 & F6 & F7 & F8).
    apply (invB_frame_plain w s); auto.
    + intros r Ar. destruct (Nat.eq_dec r (ldr s)) as [->|Hne]; [|apply F5; exact Hne].
      rewrite !pend_not_hb; [|rewrite Epc; discriminate | unfold pcr; simp_st; rewrite updf_same; discriminate].
      simp_st. rewrite upd_net_same, Eq. simp_st. cbn [filter]. rewrite (creq_is_p m Hc). reflexivity.
    + simp_st. rewrite upd_net_same, Eq. simp_st. cbn [filter]. rewrite (creq_is_p m Hc). reflexivity.
    + rewrite Epc. exact Logic.I.
    + unfold pcr. simp_st. rewrite updf_same. exact Logic.I.
    + simp_st. rewrite updf_same. reflexivity.
  - (* handleBackup *)
    assert (Hp : pmA p (ldr s) m).
    { destruct Hm as [Hm | (Hm & Hpq & _)]; [exact Hm|]. exfalso.
      apply andb_false_iff in E2. destruct E2 as [E2|E2].
      - apply Nat.eqb_neq in E2. apply E2. symmetry. exact Hpq.
      - destruct Hm as (Hsrc & _). rewrite Hsrc in E2. discriminate. }
    destruct (F (r_set_pc (r_set_req (rl s p) (Some m)) HandleBackup) eq_refl eq_refl) as (F1 & F2 & F3 & F4 & F5 & F6 & F7 & F8).
    assert (Hpend : forall r, alive s r -> pend (set_rl (set_net s (upd_net (net s) p REQ (mkLink rest (enabled (net s p REQ))))) p
                                             (r_set_pc (r_set_req (rl s p) (Some m)) HandleBackup)) r = pend s r).
    { intros r Ar. destruct (Nat.eq_dec r p) as [->|Hne]; [|apply F5; exact Hne].
      rewrite (pend_hb _ p m); [|unfold pcr; simp_st; rewrite updf_same; reflexivity | simp_st; rewrite updf_same; reflexivity].
      rewrite pend_not_hb by (rewrite Epc; discriminate).
      simp_st. rewrite upd_net_same, Eq. simp_st. cbn [filter]. rewrite (pmA_is_p _ _ _ Hp). reflexivity. }
    destruct (Nat.eq_dec p (ldr s)) as [Hq|Hne].
    + subst p. apply (invB_frame_to_hb w s); auto.
      * rewrite Epc. exact Logic.I.
      * unfold pcr. simp_st. rewrite updf_same. reflexivity.
    + apply (invB_frame_same w s); auto.
Qed.

(* ------------------------------------------------------------------ sndResp *)
Lemma invB_sndResp : forall w s p ch s', InvA s -> InvB w s -> alive s p ->
  pcr s p = SndResp -> step_sndResp cfg ch s p = Ok s' -> InvB w s'.
Proof.
  intros w s p ch s' IA IB Ap Epc Hs.
  assert (Hq : p = ldr s).
  { apply (nonbackup_is_ldr cfg s p IA Ap). rewrite Epc. cbn. tauto. }
  subst p.
  destruct (a_loc cfg s IA _ Ap) as (_ & _ & L3 & _).
  destruct L3 as (m0 & Hreq & Hm & Hss & Hqc); [unfold pcr in Epc; rewrite Epc; exact Logic.I|].
  unfold step_sndResp in Hs. rewrite Hreq in Hs. cbn [bindT] in Hs.
  destruct (r_respBody (rl s (ldr s))) as [rb|]; cbn [bindT] in Hs; [|discriminate].
  destruct (r_respTyp (rl s (ldr s))) as [rt|]; cbn [bindT] in Hs; [|discriminate].
  unfold link_send in Hs. simp_st. destruct (enabled (net s (m_from m0) RESP)) eqn:Een; [|discriminate].
  inversion Hs; subst s'; clear Hs.
  destruct Hm as (Hsrc & Hfrom & Hok).
  assert (Hnq : forall r, isrep r -> r <> m_from m0) by (intros r [? ?] ->; lia).
  assert (Hqr : isrep (ldr s)) by apply Ap.
  apply (invB_frame_plain w s); auto; simp_st.
  - intros r. unfold pcr. simp_st. unfold updf. destruct (Nat.eqb r (ldr s)) eqn:E; [|reflexivity].
    apply Nat.eqb_eq in E. subst r. unfold pcr in Epc. simp_st. rewrite Epc. reflexivity.
  - intros r. unfold updf. destruct (Nat.eqb r (ldr s)) eqn:E; [|reflexivity]. apply Nat.eqb_eq in E. subst r. reflexivity.
  - intros r Ar. assert (Hr : r <> m_from m0) by (apply Hnq; apply Ar).
    destruct (Nat.eq_dec r (ldr s)) as [->|Hne].
    + rewrite !pend_not_hb; [|rewrite Epc; discriminate | unfold pcr; simp_st; rewrite updf_same; discriminate].
      simp_st. rewrite upd_net_other by (right; discriminate). reflexivity.
    + apply pend_ext; unfold pcr; simp_st; rewrite ?updf_other by exact Hne; try reflexivity.
      rewrite upd_net_other by (right; discriminate). reflexivity.
  - rewrite upd_net_other by (left; apply Hnq; exact Hqr). reflexivity.
  - rewrite upd_net_other by (right; discriminate). reflexivity.
  - rewrite Epc. exact Logic.I.
  - unfold pcr. simp_st. rewrite updf_same. exact Logic.I.
  - rewrite updf_same. reflexivity.
Qed.


(* ------------------------------------------------------------------ client steps *)
Lemma invB_client_step : forall w s p ch s', InvA s -> InvB w s -> NR cfg < p ->
  step_client cfg ch s p = Ok s' -> InvB w s'.
Proof.
  intros w s p ch s' IA IB Hp Hs.
  assert (Hnr : ~ isrep p) by (unfold ProofsCrashA.isrep; lia).
  assert (F : forall s1,
     prim s1 = prim s -> rl s1 = rl s -> fsv s1 = fsv s ->
     (forall r, isrep r -> queue (net s1 r RESP) = queue (net s r RESP)) ->
     (forall r, isrep r -> filter is_p (queue (net s1 r REQ)) = filter is_p (queue (net s r REQ))) ->
     InvB w s1).
  { intros s1 Hpr Hrl Hfs Hresp Hreq.
    assert (Hqr : forall r, alive s r -> isrep r) by (intros r [H _]; exact H).
    destruct (Nat.eq_dec (ldr s) 0) as [E0|N0].
    - (* nobody alive *)
      assert (Hna : forall r, ~ alive s r).
      { intros r A. destruct (alive_ge_ldr cfg s r IA A) as [H _]. contradiction. }
      assert (Hna1 : forall r, ~ alive s1 r).
      { intros r [A1 A2]. apply (Hna r). split; [exact A1|]. unfold pcr in *. rewrite Hrl in A2. exact A2. }
      destruct IB as [V P Ph].
      constructor; [constructor; try apply V | constructor | constructor]; intros; exfalso; eapply Hna1; eauto.
    - assert (Hq : isrep (ldr s)) by (apply (ldr_nonzero cfg s IA N0)).
      apply (invB_frame_same w s); auto; try (intros; unfold pcr; rewrite ?Hrl, ?Hfs; reflexivity).
      + apply ldr_prim_ext. intros r. rewrite Hpr. reflexivity.
      + intros r Ar. unfold pend, pcr. rewrite Hrl, (Hreq r (Hqr r Ar)). reflexivity. }
  unfold step_client in Hs. destruct (c_pc (cl s p)) eqn:Epc.
  - unfold step_clientLoop in Hs. destruct (cin s) as [|m rest]; [discriminate|].
    inversion Hs; subst s'. apply F; simp_st; auto.
  - unfold step_sndReq in Hs.
    destruct (negb (Nat.eqb (leader cfg s) 0)) eqn:E0.
    2:{ inversion Hs; subst s'. apply F; simp_st; auto. }
    destruct (ch_alt ch); cbn [negb] in Hs.
    { destruct (fdv s (leader cfg s)); [|discriminate]. inversion Hs; subst s'. apply F; simp_st; auto. }
    destruct (c_msg (cl s p)) as [m|] eqn:Em; cbn [bindT] in Hs; [|discriminate].
    unfold link_send in Hs. destruct (enabled (net s (leader cfg s) REQ)) eqn:Een; [|discriminate].
    inversion Hs; subst s'; clear Hs.
    apply F; simp_st; auto.
    + intros r Hr. rewrite upd_net_other by (right; discriminate). reflexivity.
    + intros r Hr. destruct (Nat.eq_dec r (leader cfg s)) as [->|Hne].
      * rewrite upd_net_same. simp_st. rewrite filter_app_single. unfold is_p at 2. simp_st. cbn. apply app_nil_r.
      * rewrite upd_net_other by (left; exact Hne). reflexivity.
  - unfold step_rcvResp in Hs. destruct (ch_alt ch); cbn [negb] in Hs.
    { dif Hs; [|discriminate]. inversion Hs; subst s'. apply F; simp_st; auto. }
    unfold link_recv in Hs. dif Hs; [discriminate|].
    destruct (queue (net s p RESP)) as [|r q] eqn:Eq; [discriminate|].
    assert (G : forall l o h, InvB w (mkSt (upd_net (net s) p RESP (mkLink q (enabled (net s p RESP)))) (fdv s) (fsv s) (prim s) (cin s) o (rl s)
                                         (updf (cl s) p (c_set_pc (cl s p) l)) h)).
    { intros l o h. apply F; simp_st; auto.
      - intros r0 Hr0. rewrite upd_net_other; [reflexivity|]. left. intros ->. contradiction.
      - intros r0 Hr0. rewrite upd_net_other; [reflexivity|]. right. discriminate. }
    dif Hs.
    + inversion Hs; subst s'. apply G.
    + destruct (c_msg (cl s p)) as [m|]; cbn [bindT] in Hs; [|discriminate].
      destruct (cm_typ m); try discriminate;
        (dif Hs; [discriminate|]);
        destruct (body_content (m_body r)); cbn [bindT] in Hs; try discriminate;
        inversion Hs; subst s'; apply G.
  - discriminate.
Qed.

End CRB.
