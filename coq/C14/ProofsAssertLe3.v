(* C14 — executions WITH crashes: what the messages in a replica's response queue look like (any number of replicas). *)
From Coq Require Import List Arith Bool String Lia.
From PGV Require Import C14.Model C14.Proofs C14.ProofsCrashA C14.ProofsCrashB C14.ProofsCrashC C14.ProofsAssertCrash C14.ProofsAssertClient.
Import ListNotations.
Open Scope list_scope.
Open Scope nat_scope.

(* requests of leaders: a SYNC_REQ has id 3; answers of backups: SYNC_RESP with id 3, or PUT_RESP with the ack body *)
Definition kreq (m : msg) : Prop := m_src m = PRIMARY_SRC -> m_typ m = SYNC_REQ -> m_id m = 3.
Definition kresp (m : msg) : Prop :=
  m_src m = BACKUP_SRC -> (m_typ m = SYNC_RESP /\ m_id m = 3) \/ (m_typ m = PUT_RESP /\ m_body m = ACK_MSG_BODY).
Definition KL (l : rlocal) : Prop := forall m, r_req l = Some m -> kreq m.
Definition KI (s : state) : Prop :=
  allqc REQ (fun _ => kreq) (net s) /\ allqc RESP (fun _ => kresp) (net s) /\ (forall r, KL (rl s r)).

Lemma KI_init : forall cfg input, KI (init cfg input).
Proof. intros. split; [intros n m []|]. split; [intros n m []|]. intros r m H. discriminate H. Qed.

Section KSTEP.
Variable cfg : config.

Ltac kfin Hq Hq2 :=
  (split; [fin_q | split; [fin_q|]]).

Lemma KI_replica_step : forall s p ch s', InvA cfg s -> KI s -> isrep cfg p -> step_replica cfg ch s p = Ok s' -> KI s'.
Proof.
  intros s p ch s' IA (Hq & Hq2 & Hr) Hp Hs. pose proof (Hr p) as B0. unfold KL in B0.
  unfold step_replica in Hs. destruct (r_pc (rl s p)) eqn:Epc.
  - unfold step_replicaLoop, may_fail in Hs. crush Hs; inversion Hs; subst s'; clear Hs; kfin Hq Hq2; simp_all; rewrite ?disable_rl;
      (apply allr_updf; [exact Hr|]); unfold KL; cbn_rl; exact B0.
  - unfold step_syncPrimary in Hs. crush Hs; inversion Hs; subst s'; clear Hs; kfin Hq Hq2; simp_all;
      (apply allr_updf; [exact Hr|]); unfold KL; cbn_rl; exact B0.
  - unfold step_sndSyncReqLoop, step_sndLoop, may_fail, link_send in Hs. crush Hs; inversion Hs; subst s'; clear Hs; sends; kfin Hq Hq2; simp_all; rewrite ?disable_rl;
      try solve [unfold kreq; cbn; reflexivity]; try solve [unfold kresp; cbn; intros X; discriminate X];
      (apply allr_updf; [exact Hr|]); unfold KL; cbn_rl; exact B0.
  - unfold step_rcvSyncRespLoop, link_recv, bindT in Hs. crush Hs; inversion Hs; subst s'; clear Hs; kfin Hq Hq2; simp_all;
      (apply allr_updf; [exact Hr|]); unfold KL; cbn_rl; exact B0.
  - unfold step_rcvMsg, link_recv in Hs. crush Hs; inversion Hs; subst s'; clear Hs; kfin Hq Hq2; simp_all;
      (apply allr_updf; [exact Hr|]); unfold KL; cbn_rl; try exact B0;
      intros m0 Em0; inversion Em0; subst m0;
      match goal with E : queue (net s p REQ) = ?m :: _ |- _ => apply (allqc_head REQ _ (net s) p m _ Hq E) end.
  - (* handleBackup *)
    assert (Ap : alive cfg s p) by (split; [exact Hp | unfold pcr; rewrite Epc; reflexivity]).
    destruct (a_loc cfg s IA p Ap) as (_ & L2 & _).
    destruct (L2 Epc) as (m & Hreq & Hpm). pose proof Hpm as (Hsrc & Htyp & _ & _ & _ & ver & c & Hb).
    pose proof (B0 m Hreq Hsrc) as Hk.
    unfold step_handleBackup in Hs. rewrite Hreq in Hs. cbn [bindT] in Hs. rewrite Hsrc in Hs. cbn [srct_eqb negb] in Hs.
    destruct Htyp as [Ht|Ht]; rewrite Ht, Hb in Hs; cbn [body_key body_value body_ver bindT] in Hs;
      cbn [r_respBody r_respTyp r_set_sync r_set_resp r_set_lpb r_lastPutBody bindT] in Hs;
      unfold link_send, bindT in Hs; crush Hs; inversion Hs; subst s'; clear Hs; sends; kfin Hq Hq2; simp_all;
      try solve [unfold kreq; cbn; intros X; discriminate X];
      try solve [unfold kresp; cbn; intros _; right; split; reflexivity];
      try solve [unfold kresp; cbn; intros _; left; split; [reflexivity | apply Hk; exact Ht]];
      (apply allr_updf; [exact Hr|]); unfold KL; cbn_rl; exact B0.
  - unfold step_handlePrimary, bindT in Hs. crush Hs; inversion Hs; subst s'; clear Hs; kfin Hq Hq2; simp_all;
      (apply allr_updf; [exact Hr|]); unfold KL; cbn_rl; intros mq Emq; apply B0; congruence.
  - unfold step_sndReplicaReqLoop, step_sndLoop, may_fail, link_send, bindT in Hs. crush Hs; inversion Hs; subst s'; clear Hs; sends; kfin Hq Hq2; simp_all; rewrite ?disable_rl;
      try solve [unfold kreq; cbn; intros _ X; discriminate X]; try solve [unfold kresp; cbn; intros X; discriminate X];
      (apply allr_updf; [exact Hr|]); unfold KL; cbn_rl; intros mq Emq; apply B0; congruence.
  - unfold step_rcvReplicaRespLoop, may_fail, link_recv, bindT in Hs. crush Hs; inversion Hs; subst s'; clear Hs; kfin Hq Hq2; simp_all; rewrite ?disable_rl;
      (apply allr_updf; [exact Hr|]); unfold KL; cbn_rl; intros mq Emq; apply B0; congruence.
  - unfold step_sndResp, link_send, bindT in Hs. crush Hs; inversion Hs; subst s'; clear Hs; sends; kfin Hq Hq2; simp_all;
      try solve [unfold kreq; cbn; intros _ X; discriminate X || (intros X; discriminate X)];
      try solve [unfold kresp; cbn; intros X; discriminate X];
      try solve [unfold kreq; cbn; intros X; discriminate X];
      (apply allr_updf; [exact Hr|]); unfold KL; cbn_rl; intros mq Emq; apply B0; congruence.
  - unfold step_failLabel in Hs. inversion Hs; subst s'; clear Hs. kfin Hq Hq2; simp_all.
    apply allr_updf; [exact Hr|]. unfold KL; cbn_rl. exact B0.
  - discriminate.
Qed.

Lemma KI_client_step : forall s c ch s', KI s -> step_client cfg ch s c = Ok s' -> KI s'.
Proof.
  intros s c ch s' (Hq & Hq2 & Hr) Hs.
  unfold step_client, step_clientLoop, step_sndReq, step_rcvResp, link_recv, link_send, bindT in Hs.
  crush Hs; inversion Hs; subst s'; clear Hs; sends; (split; [fin_q | split; [fin_q | exact Hr]]);
    try solve [unfold kreq; cbn; intros X; discriminate X].
Qed.

(* the response queue of a replica holds answers of backups only *)
Definition RB (s : state) : Prop := allqc RESP (fun n m => isrep cfg n -> m_src m = BACKUP_SRC) (net s).

Lemma RB_step : forall s e s', InvA cfg s -> RB s -> step cfg s e = Ok s' -> RB s'.
Proof.
  intros s [p ch] s' IA H Hs. unfold step in Hs. destruct (is_replica cfg p) eqn:Er.
  - apply (isrep_iff cfg) in Er. unfold step_replica in Hs. destruct (r_pc (rl s p)) eqn:Epc.
    + unfold step_replicaLoop, may_fail in Hs. crush Hs; inversion Hs; subst s'; clear Hs; unfold RB; fin_q.
    + unfold step_syncPrimary in Hs. crush Hs; inversion Hs; subst s'; clear Hs; unfold RB; fin_q.
    + unfold step_sndSyncReqLoop, step_sndLoop, may_fail, link_send in Hs. crush Hs; inversion Hs; subst s'; clear Hs; sends; unfold RB; fin_q.
    + unfold step_rcvSyncRespLoop, link_recv, bindT in Hs. crush Hs; inversion Hs; subst s'; clear Hs; unfold RB; fin_q.
    + unfold step_rcvMsg, link_recv in Hs. crush Hs; inversion Hs; subst s'; clear Hs; unfold RB; fin_q.
    + unfold step_handleBackup, link_send, bindT in Hs. crush Hs; inversion Hs; subst s'; clear Hs; sends; unfold RB; fin_q; cbn; reflexivity.
    + unfold step_handlePrimary, bindT in Hs. crush Hs; inversion Hs; subst s'; clear Hs; unfold RB; fin_q.
    + unfold step_sndReplicaReqLoop, step_sndLoop, may_fail, link_send, bindT in Hs. crush Hs; inversion Hs; subst s'; clear Hs; sends; unfold RB; fin_q.
    + unfold step_rcvReplicaRespLoop, may_fail, link_recv, bindT in Hs. crush Hs; inversion Hs; subst s'; clear Hs; unfold RB; fin_q.
    + (* sndResp: the answer goes to a client *)
      assert (Ap : alive cfg s p) by (split; [exact Er | unfold pcr; rewrite Epc; reflexivity]).
      destruct (a_loc cfg s IA p Ap) as (_ & _ & L3 & _). destruct L3 as (m & Hreq & (_ & Hfrom & _) & _); [rewrite Epc; exact Logic.I|].
      unfold step_sndResp, link_send, bindT in Hs. rewrite Hreq in Hs. crush Hs; inversion Hs; subst s'; clear Hs; sends; unfold RB; fin_q.
      cbn [m_to]. intros [_ X]. lia.
    + unfold step_failLabel in Hs. inversion Hs; subst s'; clear Hs. unfold RB; fin_q.
    + discriminate.
  - destruct (is_client cfg p); [|discriminate].
    unfold step_client, step_clientLoop, step_sndReq, step_rcvResp, link_recv, link_send, bindT in Hs.
    crush Hs; inversion Hs; subst s'; clear Hs; sends; unfold RB; fin_q.
Qed.

Lemma KI_step : forall s e s', InvA cfg s -> KI s -> step cfg s e = Ok s' -> KI s'.
Proof.
  intros s [p ch] s' IA HK Hs. unfold step in Hs. destruct (is_replica cfg p) eqn:Er.
  - apply (KI_replica_step s p ch s' IA HK); [apply (isrep_iff cfg); exact Er | exact Hs].
  - destruct (is_client cfg p); [|discriminate]. apply (KI_client_step s p ch s' HK Hs).
Qed.

Lemma KI_RB_reachable : forall input s, Forall input_ok input -> reachable cfg input s -> KI s /\ RB s.
Proof.
  intros input s Hin Hr. induction Hr.
  - split; [apply KI_init | intros n m []].
  - destruct IHHr as [A B]. pose proof (invA_reachable cfg input s Hin Hr) as IA.
    split; [eapply KI_step; eauto | eapply RB_step; eauto].
Qed.

End KSTEP.

Lemma response_messages_wellformed_lemma : forall cfg input evs s r m,
  Forall input_ok input -> exec cfg (init cfg input) evs = Some s -> is_replica cfg r = true ->
  In m (queue (net s r RESP)) ->
  m_to m = r /\ m_src m = BACKUP_SRC /\
  ((m_typ m = SYNC_RESP /\ m_id m = 3) \/ (m_typ m = PUT_RESP /\ m_body m = ACK_MSG_BODY)).
Proof.
  intros cfg input evs s r m Hin He Hr Hm.
  assert (Hre : reachable cfg input s) by (eapply exec_reachable; [apply reach_init | exact He]).
  destruct (KI_RB_reachable cfg input s Hin Hre) as ((_ & K2 & _) & B).
  split; [eapply queued_messages_addressed_lemma; eauto|].
  assert (Hs : m_src m = BACKUP_SRC) by (apply (B r m Hm); apply (isrep_iff cfg); exact Hr).
  split; [exact Hs | apply (K2 r m Hm Hs)].
Qed.
