(* C14 — linearizability of failure-free executions (no crash, hence no client retry): every execution is
   simulated by a trace of the linearizing monitor of ProofsHist.v whose linearization points are the
   primary's handlePrimary steps. *)
From Coq Require Import List Arith Bool String Lia.
From PGV Require Import C14.Model C14.Proofs C14.ProofsFF C14.ProofsHist.
Import ListNotations.
Open Scope list_scope.
Open Scope nat_scope.

Section LFF.
Variable cfg : config.
Hypothesis Hef : explore_fail cfg = false.
Hypothesis HNR : 1 <= NR cfg.

Notation Inv1 := (Inv1 cfg).

Definition reqmsg (c : node) (cm : cmsg) (idx : nat) : msg := mkMsg c 1 (cm_body cm) CLIENT_SRC (cm_typ cm) idx.
Definition nofrom (c : node) (l : list msg) : Prop := Forall (fun m => m_from m <> c) l.
Definition serving_c (s : state) (c : node) : Prop :=
  primary_has_req (r_pc (rl s 1)) /\ exists m, r_req (rl s 1) = Some m /\ m_from m = c.
Definition respmatch (cm : cmsg) (rb : body) (rt : mtyp) (v : value) : Prop :=
  (cm_typ cm = PUT_REQ /\ rb = ACK_MSG_BODY /\ rt = PUT_RESP /\ v = "ack-body"%string) \/
  (cm_typ cm = GET_REQ /\ rb = BContent v /\ rt = GET_RESP).
Definition after_lin (pc : rpc) : Prop :=
  match pc with SndReplicaReqLoop | RcvReplicaRespLoop | SndResp => True | _ => False end.

(* where the request / response of client c is, and what the monitor thinks of c *)
Definition cinv (s : state) (mo : mon) (c : node) : Prop :=
  let l := cl s c in
  match c_pc l with
  | ClientLoop => nofrom c (queue (net s 1 REQ)) /\ ~ serving_c s c /\ queue (net s c RESP) = [] /\ mo_st mo c = CIdle
  | SndReq => nofrom c (queue (net s 1 REQ)) /\ ~ serving_c s c /\ queue (net s c RESP) = [] /\
              exists cm, c_msg l = Some cm /\ mo_st mo c = CInvoked cm
  | RcvResp => exists cm, c_msg l = Some cm /\ c_replica l = 1 /\
      ((* the request is in the primary's queue *)
       ((exists A B, queue (net s 1 REQ) = A ++ reqmsg c cm (c_idx l) :: B /\ nofrom c A /\ nofrom c B) /\
        ~ serving_c s c /\ queue (net s c RESP) = [] /\ mo_st mo c = CInvoked cm) \/
       (* taken by the primary, not yet applied *)
       (nofrom c (queue (net s 1 REQ)) /\ r_req (rl s 1) = Some (reqmsg c cm (c_idx l)) /\ r_pc (rl s 1) = HandlePrimary /\
        queue (net s c RESP) = [] /\ mo_st mo c = CInvoked cm) \/
       (* applied (linearized), answer not yet sent *)
       (nofrom c (queue (net s 1 REQ)) /\ r_req (rl s 1) = Some (reqmsg c cm (c_idx l)) /\ after_lin (r_pc (rl s 1)) /\
        queue (net s c RESP) = [] /\
        exists v rb rt, mo_st mo c = CLinearized cm v /\ r_respBody (rl s 1) = Some rb /\ r_respTyp (rl s 1) = Some rt /\
                        respmatch cm rb rt v) \/
       (* answer on its way *)
       (nofrom c (queue (net s 1 REQ)) /\ ~ serving_c s c /\
        exists v rb rt, queue (net s c RESP) = [mkMsg 1 c rb PRIMARY_SRC rt (c_idx l)] /\
                        mo_st mo c = CLinearized cm v /\ respmatch cm rb rt v))
  | CDone => False
  end.

Definition Sim (s : state) : Prop :=
  exists t mo, mon_run mon_init t = Some mo /\ proj t = hist s /\
    (forall k, mo_store mo k = fsv s 1 k) /\
    (forall c, is_client cfg c = true -> cinv s mo c) /\
    (forall c, is_client cfg c = false -> mo_st mo c = CIdle) /\
    Forall (fun m => is_client cfg (m_from m) = true) (queue (net s 1 REQ)) /\
    (primary_has_req (r_pc (rl s 1)) -> exists m, r_req (rl s 1) = Some m /\ is_client cfg (m_from m) = true).

Lemma sim_init : forall input, Sim (init cfg input).
Proof.
  intros input. exists [], mon_init. cbn. split; [reflexivity|]. split; [reflexivity|]. split; [reflexivity|].
  split; [|split; [reflexivity|split; [constructor | intros []]]]. intros c0 _. unfold cinv. cbn. split; [constructor|]. split; [|auto].
  intros (H & _). exact H.
Qed.


(* ------------------------------------------------------------------ steps that do not touch what the simulation looks at *)
Lemma cinv_frame : forall s s' mo c,
  queue (net s' 1 REQ) = queue (net s 1 REQ) -> queue (net s' c RESP) = queue (net s c RESP) ->
  cl s' c = cl s c -> r_req (rl s' 1) = r_req (rl s 1) ->
  r_respBody (rl s' 1) = r_respBody (rl s 1) -> r_respTyp (rl s' 1) = r_respTyp (rl s 1) ->
  (primary_has_req (r_pc (rl s' 1)) <-> primary_has_req (r_pc (rl s 1))) ->
  (r_pc (rl s' 1) = HandlePrimary <-> r_pc (rl s 1) = HandlePrimary) ->
  (after_lin (r_pc (rl s' 1)) <-> after_lin (r_pc (rl s 1))) ->
  cinv s mo c -> cinv s' mo c.
Proof.
  intros s s' mo c Hq Hr Hcl Hreq Hrb Hrt H1 H2 H3 H.
  assert (Hsv : serving_c s' c <-> serving_c s c) by (unfold serving_c; rewrite Hreq; tauto).
  unfold cinv in *. rewrite Hcl, Hq, Hr. destruct (c_pc (cl s c)).
  - destruct H as (A & B & C & D). repeat split; auto. tauto.
  - destruct H as (A & B & C & D). repeat split; auto. tauto.
  - destruct H as (cm & E1 & E2 & H). exists cm. split; [exact E1|]. split; [exact E2|].
    rewrite Hreq, Hrb, Hrt.
    destruct H as [(X1 & X2 & X3)|[(X1 & X2 & X3 & X4)|[(X1 & X2 & X3 & X4)|(X1 & X2 & X3)]]].
    + left. split; [exact X1|]. split; [tauto | exact X3].
    + right. left. split; [exact X1|]. split; [exact X2|]. split; [tauto | exact X4].
    + right. right. left. split; [exact X1|]. split; [exact X2|]. split; [tauto | exact X4].
    + right. right. right. split; [exact X1|]. split; [tauto | exact X3].
  - exact H.
Qed.

Lemma sim_frame : forall s s',
  hist s' = hist s -> (forall k, fsv s' 1 k = fsv s 1 k) ->
  queue (net s' 1 REQ) = queue (net s 1 REQ) ->
  (forall c, is_client cfg c = true -> queue (net s' c RESP) = queue (net s c RESP)) ->
  (forall c, cl s' c = cl s c) -> r_req (rl s' 1) = r_req (rl s 1) ->
  r_respBody (rl s' 1) = r_respBody (rl s 1) -> r_respTyp (rl s' 1) = r_respTyp (rl s 1) ->
  (primary_has_req (r_pc (rl s' 1)) <-> primary_has_req (r_pc (rl s 1))) ->
  (r_pc (rl s' 1) = HandlePrimary <-> r_pc (rl s 1) = HandlePrimary) ->
  (after_lin (r_pc (rl s' 1)) <-> after_lin (r_pc (rl s 1))) ->
  Sim s -> Sim s'.
Proof.
  intros s s' Hh Hf Hq Hr Hcl Hreq Hrb Hrt H1 H2 H3 (t & mo & R1 & R2 & R3 & R4 & R5 & R6 & R7).
  exists t, mo. split; [exact R1|]. split; [rewrite Hh; exact R2|]. split; [intros k; rewrite Hf; apply R3|].
  split; [|split; [exact R5|split; [rewrite Hq; exact R6 | rewrite H1, Hreq; exact R7]]].
  intros c Hc. apply (cinv_frame s s'); auto.
Qed.


Ltac dif H :=
  match type of H with
  | (if ?c then _ else _) = _ => let E := fresh "E" in destruct c eqn:E
  end.

(* a backup's step *)
Lemma sim_backup_step : forall s p ch s', Inv1 s -> backup cfg p ->
  step_replica cfg ch s p = Ok s' -> Sim s -> Sim s'.
Proof.
  intros s p ch s' I Bp Hs HS.
  assert (Hne1 : p <> 1) by (unfold backup in Bp; lia).
  assert (Hl1 : Nat.eqb 1 p = false) by (apply Nat.eqb_neq; lia).
  pose proof (i_b_pc cfg s I p Bp) as Hpcok.
  assert (Hcl : forall c, is_client cfg c = true -> c <> p).
  { intros c Hc. apply is_client_true in Hc. unfold backup in Bp. lia. }
  unfold step_replica in Hs. destruct (r_pc (rl s p)) eqn:Epc; try (exfalso; exact Hpcok).
  - unfold step_replicaLoop in Hs. rewrite (may_fail_ff cfg Hef) in Hs. inversion Hs; subst s'.
    apply (sim_frame s); simp_st; auto; try reflexivity; rewrite ?updf_other by lia; tauto.
  - unfold step_syncPrimary in Hs. rewrite (leader_is_1 cfg HNR s I), Hl1 in Hs. cbn [andb] in Hs. inversion Hs; subst s'.
    apply (sim_frame s); simp_st; auto; try reflexivity; rewrite ?updf_other by lia; tauto.
  - unfold step_rcvMsg in Hs. rewrite (leader_is_1 cfg HNR s I), Hl1 in Hs. cbn [andb] in Hs.
    unfold link_recv in Hs. rewrite (i_en cfg s I) in Hs. cbn [negb] in Hs.
    destruct (queue (net s p REQ)) as [|m q] eqn:Eq; [discriminate|].
    dif Hs; [discriminate|].
    change (leader cfg (set_net s (upd_net (net s) p REQ (mkLink q true)))) with (leader cfg s) in Hs.
    rewrite (leader_is_1 cfg HNR s I), Hl1 in Hs. cbn [andb] in Hs. inversion Hs; subst s'; clear Hs.
    apply (sim_frame s); simp_st; auto; try reflexivity; rewrite ?updf_other by lia; try tauto.
    + rewrite upd_net_other by (left; lia). reflexivity.
    + intros c Hc. rewrite upd_net_other by (right; discriminate). reflexivity.
  - (* handleBackup: the request is the primary's PUT_REQ, the answer goes to the primary *)
    pose proof (i_phase cfg s I) as Hph.
    assert (Hm : exists L id, r_req (rl s p) = Some (putmsg p L id)).
    { unfold phase_inv in Hph. destruct (r_pc (rl s 1)) eqn:E1;
        try (exfalso; destruct Hph as [_ C]; destruct (C p Bp) as [[_ Q] _]; congruence).
      - destruct Hph as (_ & ver & k & v & req & _ & _ & _ & Hb). destruct (bstat_pc_hb _ _ _ _ _ _ _ _ (Hb p Bp) Epc) as (_ & _ & H & _). eauto.
      - destruct Hph as (ver & k & v & req & _ & _ & _ & Hb). destruct (bstat_pc_hb _ _ _ _ _ _ _ _ (Hb p Bp) Epc) as (_ & _ & H & _). eauto. }
    destruct Hm as (L & id & Hreq).
    unfold step_handleBackup in Hs. rewrite Hreq in Hs. cbn in Hs.
    destruct L as [k0 ov | ver okv | c0]; cbn in Hs; try discriminate.
    { destruct ov; cbn in Hs; discriminate. }
    destruct okv as [[k v]|]; cbn in Hs; [|discriminate].
    destruct (body_ver (r_lastPutBody (rl s p))) as [lv|]; cbn in Hs; [|discriminate].
    dif Hs; [discriminate|].
    destruct (ch_alt ch); cbn [negb] in Hs.
    { rewrite (i_fd cfg s I) in Hs. discriminate. }
    unfold link_send in Hs. simp_st. rewrite (i_en cfg s I) in Hs. inversion Hs; subst s'; clear Hs.
    apply (sim_frame s); simp_st; auto; try reflexivity; rewrite ?updf_other by lia; try tauto.
    + intros k0. apply upd_fs_other_node. lia.
    + intros c Hc. apply is_client_true in Hc. rewrite upd_net_other by (left; lia). reflexivity.
Qed.


(* the primary's steps that only move it along its own labels *)
Lemma sim_primary_frame_steps : forall s ch s', Inv1 s ->
  (r_pc (rl s 1) = ReplicaLoop \/ r_pc (rl s 1) = SyncPrimary \/ r_pc (rl s 1) = SndReplicaReqLoop \/ r_pc (rl s 1) = RcvReplicaRespLoop) ->
  step_replica cfg ch s 1 = Ok s' -> Sim s -> Sim s'.
Proof.
  intros s ch s' I Hpc Hs HS.
  assert (Hc1 : forall c, is_client cfg c = true -> c <> 1).
  { intros c Hc. apply is_client_true in Hc. lia. }
  unfold step_replica in Hs. destruct Hpc as [E|[E|[E|E]]]; rewrite E in Hs.
  - unfold step_replicaLoop in Hs. rewrite (may_fail_ff cfg Hef) in Hs. inversion Hs; subst s'.
    apply (sim_frame s); simp_st; auto; try reflexivity; rewrite ?updf_same; simp_st; rewrite ?E; cbn; try tauto;
      split; intros H; try discriminate H; try contradiction.
  - unfold step_syncPrimary in Hs. rewrite (i_p_sync cfg s I), andb_false_r in Hs. inversion Hs; subst s'.
    apply (sim_frame s); simp_st; auto; try reflexivity; rewrite ?updf_same; simp_st; rewrite ?E; cbn; try tauto;
      split; intros H; try discriminate H; try contradiction.
  - (* sndReplicaReqLoop *)
    unfold step_sndReplicaReqLoop in Hs. destruct (r_req (rl s 1)) as [req|] eqn:Ereq; cbn [bindT] in Hs; [|discriminate].
    unfold step_sndLoop in Hs.
    assert (F : forall s1 l', net s1 1 REQ = net s 1 REQ -> (forall c, is_client cfg c = true -> net s1 c RESP = net s c RESP) ->
                 fsv s1 = fsv s -> cl s1 = cl s -> hist s1 = hist s ->
                 r_req l' = r_req (rl s 1) -> r_respBody l' = r_respBody (rl s 1) -> r_respTyp l' = r_respTyp (rl s 1) ->
                 (r_pc l' = SndReplicaReqLoop \/ r_pc l' = RcvReplicaRespLoop) -> Sim (set_rl s1 1 l')).
    { intros s1 l' H1 H2 H3 H4 H5 H6 H7 H8 H9.
      apply (sim_frame s); simp_st; rewrite ?updf_same; auto; try (rewrite ?H1, ?H3, ?H4; reflexivity).
      - intros c Hc. rewrite (H2 c Hc). reflexivity.
      - rewrite E. destruct H9 as [-> | ->]; cbn; tauto.
      - rewrite E. destruct H9 as [-> | ->]; split; intros H; discriminate H.
      - rewrite E. destruct H9 as [-> | ->]; cbn; tauto. }
    destruct (r_idx (rl s 1) <=? NR cfg) eqn:Ele.
    2:{ inversion Hs; subst s'. apply F; simp_st; auto. }
    destruct (negb (Nat.eqb (r_idx (rl s 1)) 1)) eqn:Eself.
    2:{ rewrite (may_fail_ff cfg Hef) in Hs. inversion Hs; subst s'. apply F; simp_st; auto. }
    apply negb_true_iff, Nat.eqb_neq in Eself.
    destruct (ch_alt ch); cbn [negb] in Hs.
    { rewrite (i_fd cfg s I) in Hs. discriminate. }
    unfold link_send in Hs. rewrite (i_en cfg s I) in Hs. rewrite (may_fail_ff cfg Hef) in Hs. inversion Hs; subst s'; clear Hs.
    apply F; simp_st; auto.
    + rewrite upd_net_other by (left; auto). reflexivity.
    + intros c Hc. rewrite upd_net_other by (right; discriminate). reflexivity.
  - (* rcvReplicaRespLoop *)
    unfold step_rcvReplicaRespLoop in Hs.
    assert (F : forall s1 l', net s1 1 REQ = net s 1 REQ -> (forall c, is_client cfg c = true -> net s1 c RESP = net s c RESP) ->
                 fsv s1 = fsv s -> cl s1 = cl s -> hist s1 = hist s ->
                 r_req l' = r_req (rl s 1) -> r_respBody l' = r_respBody (rl s 1) -> r_respTyp l' = r_respTyp (rl s 1) ->
                 (r_pc l' = SndResp \/ r_pc l' = RcvReplicaRespLoop) -> Sim (set_rl s1 1 l')).
    { intros s1 l' H1 H2 H3 H4 H5 H6 H7 H8 H9.
      apply (sim_frame s); simp_st; rewrite ?updf_same; auto; try (rewrite ?H1, ?H3, ?H4; reflexivity).
      - intros c Hc. rewrite (H2 c Hc). reflexivity.
      - rewrite E. destruct H9 as [-> | ->]; cbn; tauto.
      - rewrite E. destruct H9 as [-> | ->]; split; intros H; discriminate H.
      - rewrite E. destruct H9 as [-> | ->]; cbn; tauto. }
    destruct (r_replicaSet (rl s 1)) as [|x0 S0] eqn:ES.
    { inversion Hs; subst s'. apply F; simp_st; auto. }
    destruct (ch_alt ch); cbn [negb] in Hs.
    { dif Hs; [discriminate|]. rewrite (i_fd cfg s I) in Hs. discriminate. }
    unfold link_recv in Hs. rewrite (i_en cfg s I) in Hs. cbn [negb] in Hs.
    destruct (queue (net s 1 RESP)) as [|m q] eqn:Eq; [discriminate|].
    destruct (r_req (rl s 1)) as [req|] eqn:Ereq; cbn [bindT] in Hs; [|discriminate].
    dif Hs; [discriminate|]. rewrite (may_fail_ff cfg Hef) in Hs. inversion Hs; subst s'; clear Hs.
    apply F; simp_st; auto.
    intros c Hc. rewrite upd_net_other by (left; apply Hc1; exact Hc). reflexivity.
Qed.


Lemma nofrom_head_split : forall c A (x m : msg) B q, A ++ x :: B = m :: q -> m_from m <> c -> m_from x = c -> nofrom c A ->
  exists A', A = m :: A' /\ q = A' ++ x :: B.
Proof.
  intros c A x m B q E Hm Hx HA. destruct A as [|a A'].
  - cbn in E. inversion E; subst. congruence.
  - cbn in E. inversion E; subst. exists A'. auto.
Qed.

(* ------------------------------------------------------------------ rcvMsg of the primary: a client request is taken *)
Lemma sim_rcvMsg_primary : forall s ch s', Inv1 s -> r_pc (rl s 1) = RcvMsg ->
  step_replica cfg ch s 1 = Ok s' -> Sim s -> Sim s'.
Proof.
  intros s ch s' I Epc Hs (t & mo & R1 & R2 & R3 & R4 & R5 & R6 & R7).
  unfold step_replica in Hs. rewrite Epc in Hs. unfold step_rcvMsg in Hs.
  rewrite (i_p_sync cfg s I), andb_false_r in Hs.
  unfold link_recv in Hs. rewrite (i_en cfg s I) in Hs. cbn [negb] in Hs.
  destruct (queue (net s 1 REQ)) as [|m q] eqn:Eq; [discriminate|].
  pose proof (i_q1 cfg s I) as Hq1. rewrite Eq in Hq1. inversion Hq1 as [|? ? Hm Hqc]; subst.
  dif Hs; [discriminate|].
  change (leader cfg (set_net s (upd_net (net s) 1 REQ (mkLink q true)))) with (leader cfg s) in Hs.
  rewrite (leader_is_1 cfg HNR s I) in Hs. destruct Hm as (Hsrc & Hfrom & Hok). rewrite Hsrc in Hs. cbn in Hs.
  inversion Hs; subst s'; clear Hs.
  inversion R6 as [|? ? Hmc R6']; subst.
  remember (m_from m) as c0 eqn:Ec0.
  assert (Nserv : forall c, ~ serving_c s c) by (intros c [H _]; rewrite Epc in H; exact H).
  (* the client whose request is at the head *)
  pose proof (R4 c0 Hmc) as Hc0. unfold cinv in Hc0. rewrite Eq in Hc0.
  assert (Hhead : exists cm, c_pc (cl s c0) = RcvResp /\ c_msg (cl s c0) = Some cm /\ c_replica (cl s c0) = 1 /\
                  m = reqmsg c0 cm (c_idx (cl s c0)) /\ nofrom c0 q /\ queue (net s c0 RESP) = [] /\ mo_st mo c0 = CInvoked cm).
  { destruct (c_pc (cl s c0)) eqn:Ecp.
    - destruct Hc0 as (H & _). inversion H; subst. congruence.
    - destruct Hc0 as (H & _). inversion H; subst. congruence.
    - destruct Hc0 as (cm & E1 & E2 & [((A & B & EA & HA & HB) & X2 & X3 & X4)|[(X1 & _)|[(X1 & _)|(X1 & _)]]]);
        try (inversion X1; subst; congruence).
      exists cm. destruct A as [|a A'].
      + cbn in EA. inversion EA; subst. repeat split; auto.
      + cbn in EA. inversion EA; subst. inversion HA; subst. congruence.
    - destruct Hc0. }
  destruct Hhead as (cm & Ecp & Ecm & Erep & Em & Hnf & Hresp & Hmo).
  exists t, mo. simp_st. split; [exact R1|]. split; [exact R2|]. split; [exact R3|].
  split; [|split; [exact R5|split]].
  - intros c Hc. pose proof (R4 c Hc) as Hcv. unfold cinv, serving_c in *. rewrite Eq in Hcv. simp_st.
    rewrite updf_same, upd_net_same. simp_st.
    assert (Hrq : queue (upd_net (net s) 1 REQ (mkLink q true) c RESP) = queue (net s c RESP)).
    { rewrite upd_net_other by (right; discriminate). reflexivity. }
    rewrite Hrq.
    destruct (Nat.eq_dec c c0) as [->|Hne].
    + rewrite Ecp. exists cm. split; [exact Ecm|]. split; [exact Erep|]. right. left.
      split; [exact Hnf|]. split; [rewrite Em; reflexivity|]. auto.
    + assert (Hnsv : ~ (True /\ exists m0, Some m = Some m0 /\ m_from m0 = c)).
      { intros (_ & m0 & E' & Hf). inversion E'; subst. apply Hne. reflexivity. }
      destruct (c_pc (cl s c)) eqn:Ecp'.
      * destruct Hcv as (A1 & A2 & A3 & A4). inversion A1; subst. repeat split; auto.
      * destruct Hcv as (A1 & A2 & A3 & A4). inversion A1; subst. repeat split; auto.
      * destruct Hcv as (cm' & E1 & E2 & H). exists cm'. split; [exact E1|]. split; [exact E2|].
        destruct H as [((A & B & EA & HA & HB) & X2 & X3 & X4)|[(X1 & X2 & X3 & _)|[(X1 & X2 & X3 & _)|(X1 & X2 & X3)]]].
        -- left. destruct (nofrom_head_split c A _ m B q (eq_sym EA)) as (A' & -> & ->); auto; [congruence|].
           inversion HA; subst. split; [exists A', B; auto|]. auto.
        -- rewrite Epc in X3. discriminate.
        -- rewrite Epc in X3. destruct X3.
        -- right. right. right. inversion X1; subst. split; [assumption|]. split; [exact Hnsv | exact X3].
      * destruct Hcv.
  - rewrite upd_net_same. exact R6'.
  - rewrite updf_same. simp_st. intros _. exists m. split; [reflexivity | rewrite <- Ec0; exact Hmc].
Qed.


(* a client other than the one being served is not affected by the primary's progress *)
Lemma cinv_other : forall s s' mo mo' c m,
  r_req (rl s 1) = Some m -> m_from m <> c -> r_req (rl s' 1) = Some m ->
  primary_has_req (r_pc (rl s 1)) ->
  queue (net s' 1 REQ) = queue (net s 1 REQ) -> queue (net s' c RESP) = queue (net s c RESP) ->
  cl s' c = cl s c -> mo_st mo' c = mo_st mo c ->
  cinv s mo c -> cinv s' mo' c.
Proof.
  intros s s' mo mo' c m Hreq Hne Hreq' Hhas Hq Hr Hcl Hmo H.
  assert (Hns : ~ serving_c s' c).
  { intros (_ & m0 & E & Hf). rewrite Hreq' in E. inversion E; subst. contradiction. }
  assert (Hreqne : forall cm idx, r_req (rl s 1) <> Some (reqmsg c cm idx)).
  { intros cm idx E. rewrite Hreq in E. inversion E; subst. apply Hne. reflexivity. }
  unfold cinv in *. rewrite Hcl, Hq, Hr, Hmo. destruct (c_pc (cl s c)).
  - destruct H as (A & B & C & D). auto.
  - destruct H as (A & B & C & D). auto.
  - destruct H as (cm & E1 & E2 & H). exists cm. split; [exact E1|]. split; [exact E2|].
    destruct H as [(X1 & X2 & X3)|[(X1 & X2 & _)|[(X1 & X2 & _)|(X1 & X2 & X3)]]].
    + left. auto.
    + exfalso. exact (Hreqne _ _ X2).
    + exfalso. exact (Hreqne _ _ X2).
    + right. right. right. auto.
  - exact H.
Qed.

(* ------------------------------------------------------------------ handlePrimary: the linearization point *)
Lemma sim_handlePrimary : forall s ch s', Inv1 s -> r_pc (rl s 1) = HandlePrimary ->
  step_replica cfg ch s 1 = Ok s' -> Sim s -> Sim s'.
Proof.
  intros s ch s' I Epc Hs (t & mo & R1 & R2 & R3 & R4 & R5 & R6 & R7).
  destruct R7 as (m & Hreq & Hmc); [rewrite Epc; exact Logic.I|].
  destruct (i_p_req cfg s I) as (m' & Hreq' & Hm); [rewrite Epc; exact Logic.I|].
  rewrite Hreq in Hreq'. inversion Hreq'; subst m'. clear Hreq'.
  remember (m_from m) as c0 eqn:Ec0.
  (* the served client is in the state "taken, not yet applied" *)
  pose proof (R4 c0 Hmc) as Hc0. unfold cinv in Hc0.
  assert (Hsv : serving_c s c0).
  { split; [rewrite Epc; exact Logic.I|]. exists m. auto. }
  assert (Hst : exists cm, c_pc (cl s c0) = RcvResp /\ c_msg (cl s c0) = Some cm /\ c_replica (cl s c0) = 1 /\
                 m = reqmsg c0 cm (c_idx (cl s c0)) /\ nofrom c0 (queue (net s 1 REQ)) /\
                 queue (net s c0 RESP) = [] /\ mo_st mo c0 = CInvoked cm).
  { destruct (c_pc (cl s c0)).
    - destruct Hc0 as (_ & H & _). contradiction.
    - destruct Hc0 as (_ & H & _). contradiction.
    - destruct Hc0 as (cm & E1 & E2 & [(_ & X2 & _)|[(X1 & X2 & X3 & X4 & X5)|[(_ & _ & X3 & _)|(_ & X2 & _)]]]); try contradiction.
      + exists cm. rewrite Hreq in X2. inversion X2. repeat split; auto.
      + rewrite Epc in X3. destruct X3.
    - destruct Hc0. }
  destruct Hst as (cm & Ecp & Ecm & Erep & Em & Hnf & Hresp & Hmo).
  unfold step_replica in Hs. rewrite Epc in Hs. unfold step_handlePrimary in Hs. rewrite Hreq in Hs. cbn [bindT] in Hs.
  pose proof Hm as (Hsrc & Hfrom & Hok). rewrite Hsrc in Hs. cbn [srct_eqb negb] in Hs.
  assert (Hcmt : cm_typ cm = m_typ m /\ cm_body cm = m_body m) by (rewrite Em; auto).
  destruct Hcmt as [Hcmt Hcmb].
  (* common construction of the new simulation witness *)
  assert (Build : forall v st' (s1 : state) l',
     kv_apply (mo_store mo) cm = Some (v, st') ->
     (forall k, st' k = fsv s1 1 k) ->
     net s1 = net s -> cl s1 = cl s -> hist s1 = hist s ->
     r_req l' = Some m -> after_lin (r_pc l') ->
     (exists rb rt, r_respBody l' = Some rb /\ r_respTyp l' = Some rt /\ respmatch cm rb rt v) ->
     Sim (set_rl s1 1 l')).
  { intros v st' s1 l' Ha Hst' Hnet Hcl Hh Hrq Hal (rb & rt & Hb1 & Hb2 & Hb3).
    exists (t ++ [ILin c0]), (mkMon st' (upd_st (mo_st mo) c0 (CLinearized cm v))).
    split. { rewrite mon_run_app, R1. cbn. rewrite Hmo, Ha. reflexivity. }
    split. { rewrite proj_app. cbn. rewrite app_nil_r. simp_st. rewrite Hh. exact R2. }
    split. { intros k. simp_st. apply Hst'. }
    assert (Hhas' : primary_has_req (r_pc l')) by (destruct (r_pc l'); cbn in *; auto).
    split; [|split; [|split]].
    - intros c Hc. destruct (Nat.eq_dec c c0) as [->|Hne].
      + unfold cinv. simp_st. rewrite Hcl, Hnet, updf_same, Ecp. exists cm. split; [exact Ecm|]. split; [exact Erep|].
        right. right. left. split; [exact Hnf|]. split; [rewrite Hrq, Em; reflexivity|]. split; [exact Hal|]. split; [exact Hresp|].
        exists v, rb, rt. cbn [mo_st]. rewrite upd_st_same. auto.
      + apply (cinv_other s _ mo _ c m); simp_st; rewrite ?updf_same, ?Hnet, ?Hcl; auto.
        * congruence.
        * rewrite Epc. exact Logic.I.
        * cbn [mo_st]. apply upd_st_other. exact Hne.
    - intros c Hc. cbn [mo_st]. rewrite upd_st_other; [apply R5; exact Hc|]. intros ->. congruence.
    - simp_st. rewrite Hnet. exact R6.
    - simp_st. rewrite updf_same. intros _. exists m. rewrite Ec0 in Hmc. auto. }
  destruct (creq_cases cfg m Hm) as [(Ht & k & Hb) | (Ht & k & v & Hb)]; rewrite Ht, Hb in Hs; cbn [body_key body_value bindT] in Hs.
  - (* Get *)
    inversion Hs; subst s'; clear Hs.
    apply (Build (mo_store mo k) (mo_store mo)); simp_st; auto.
    + unfold kv_apply. rewrite Hcmt, Hcmb, Ht, Hb. reflexivity.
    + exact Logic.I.
    + exists (BContent (fsv s 1 k)), GET_RESP. split; [reflexivity|]. split; [reflexivity|]. right.
      rewrite Hcmt, Ht, R3. auto.
  - (* Put *)
    destruct (body_ver (r_lastPutBody (rl s 1))) as [lv|]; cbn [bindT] in Hs; [|discriminate].
    inversion Hs; subst s'; clear Hs.
    apply (Build "ack-body"%string (fun k' => if String.eqb k' k then v else mo_store mo k')); simp_st; auto.
    + unfold kv_apply. rewrite Hcmt, Hcmb, Ht, Hb. reflexivity.
    + intros k0. rewrite upd_fs_node, R3. reflexivity.
    + exact Logic.I.
    + exists ACK_MSG_BODY, PUT_RESP. split; [reflexivity|]. split; [reflexivity|]. left. rewrite Hcmt, Ht. auto.
Qed.


(* ------------------------------------------------------------------ sndResp: the answer leaves the primary *)
Lemma sim_sndResp : forall s ch s', Inv1 s -> r_pc (rl s 1) = SndResp ->
  step_replica cfg ch s 1 = Ok s' -> Sim s -> Sim s'.
Proof.
  intros s ch s' I Epc Hs (t & mo & R1 & R2 & R3 & R4 & R5 & R6 & R7).
  destruct R7 as (m & Hreq & Hmc); [rewrite Epc; exact Logic.I|].
  remember (m_from m) as c0 eqn:Ec0.
  pose proof (R4 c0 Hmc) as Hc0. unfold cinv in Hc0.
  assert (Hsv : serving_c s c0).
  { split; [rewrite Epc; exact Logic.I|]. exists m. auto. }
  assert (Hst : exists cm v rb rt, c_pc (cl s c0) = RcvResp /\ c_msg (cl s c0) = Some cm /\ c_replica (cl s c0) = 1 /\
                 m = reqmsg c0 cm (c_idx (cl s c0)) /\ nofrom c0 (queue (net s 1 REQ)) /\
                 queue (net s c0 RESP) = [] /\ mo_st mo c0 = CLinearized cm v /\
                 r_respBody (rl s 1) = Some rb /\ r_respTyp (rl s 1) = Some rt /\ respmatch cm rb rt v).
  { destruct (c_pc (cl s c0)).
    - destruct Hc0 as (_ & H & _). contradiction.
    - destruct Hc0 as (_ & H & _). contradiction.
    - destruct Hc0 as (cm & E1 & E2 & [(_ & X2 & _)|[(_ & _ & X3 & _)|[(X1 & X2 & X3 & X4 & v & rb & rt & X5 & X6 & X7 & X8)|(_ & X2 & _)]]]); try contradiction.
      + rewrite Epc in X3. discriminate.
      + exists cm, v, rb, rt. rewrite Hreq in X2. inversion X2. repeat split; auto.
    - destruct Hc0. }
  destruct Hst as (cm & v & rb & rt & Ecp & Ecm & Erep & Em & Hnf & Hresp & Hmo & Hrb & Hrt & Hmatch).
  unfold step_replica in Hs. rewrite Epc in Hs. unfold step_sndResp in Hs. rewrite Hreq, Hrb, Hrt in Hs. cbn [bindT] in Hs.
  unfold link_send in Hs. simp_st. rewrite (i_en cfg s I) in Hs. inversion Hs; subst s'; clear Hs.
  rewrite <- Ec0 in *.
  assert (Hc01 : c0 <> 1) by (apply is_client_true in Hmc; lia).
  exists t, mo. simp_st. split; [exact R1|]. split; [exact R2|]. split; [exact R3|].
  split; [|split; [exact R5|split]].
  - intros c Hc. pose proof (R4 c Hc) as Hcv. unfold cinv, serving_c in *. simp_st.
    rewrite updf_same. simp_st. rewrite upd_net_other by (right; discriminate).
    destruct (Nat.eq_dec c c0) as [->|Hne].
    + rewrite Ecp, upd_net_same. simp_st. exists cm. split; [exact Ecm|]. split; [exact Erep|].
      right. right. right. split; [exact Hnf|]. split; [intros [[] _]|].
      exists v, rb, rt. rewrite Hresp. cbn [app]. rewrite Em. cbn [m_id reqmsg]. auto.
    + rewrite upd_net_other by (left; exact Hne).
      assert (Hreqne : forall cm' idx, r_req (rl s 1) <> Some (reqmsg c cm' idx)).
      { intros cm' idx E. rewrite Hreq in E. inversion E; subst. apply Hne. reflexivity. }
      destruct (c_pc (cl s c)).
      * destruct Hcv as (A1 & A2 & A3 & A4). repeat split; auto. intros [[] _].
      * destruct Hcv as (A1 & A2 & A3 & A4). repeat split; auto. intros [[] _].
      * destruct Hcv as (cm' & E1 & E2 & H). exists cm'. split; [exact E1|]. split; [exact E2|].
        destruct H as [(X1 & X2 & X3)|[(X1 & X2 & _)|[(X1 & X2 & _)|(X1 & X2 & X3)]]].
        -- left. split; [exact X1|]. split; [intros [[] _] | exact X3].
        -- exfalso. exact (Hreqne _ _ X2).
        -- exfalso. exact (Hreqne _ _ X2).
        -- right. right. right. split; [exact X1|]. split; [intros [[] _] | exact X3].
      * exact Hcv.
  - rewrite upd_net_other by (right; discriminate). exact R6.
  - rewrite updf_same. simp_st. intros [].
Qed.

(* ------------------------------------------------------------------ client steps *)
Lemma nofrom_app : forall c A B, nofrom c (A ++ B) <-> nofrom c A /\ nofrom c B.
Proof. intros. unfold nofrom. apply Forall_app. Qed.

Lemma sim_client_step : forall s p ch s', Inv1 s -> is_client cfg p = true ->
  step_client cfg ch s p = Ok s' -> Sim s -> Sim s'.
Proof.
  intros s p ch s' I Hp Hs (t & mo & R1 & R2 & R3 & R4 & R5 & R6 & R7).
  assert (Hp1 : p <> 1) by (apply is_client_true in Hp; lia).
  pose proof (R4 p Hp) as Hcp. unfold cinv in Hcp.
  unfold step_client in Hs. destruct (c_pc (cl s p)) eqn:Epc.
  - (* clientLoop: invocation *)
    unfold step_clientLoop in Hs. destruct (cin s) as [|cm rest] eqn:Ecin; [discriminate|].
    inversion Hs; subst s'; clear Hs. destruct Hcp as (A1 & A2 & A3 & A4).
    exists (t ++ [IInv p cm]), (mkMon (mo_store mo) (upd_st (mo_st mo) p (CInvoked cm))).
    split. { rewrite mon_run_app, R1. cbn. rewrite A4. reflexivity. }
    split. { rewrite proj_app. cbn. simp_st. rewrite R2. reflexivity. }
    split; [exact R3|]. split; [|split; [|split; [exact R6 | exact R7]]].
    + intros c Hc. destruct (Nat.eq_dec c p) as [->|Hne].
      * unfold cinv, serving_c. simp_st. rewrite updf_same. simp_st. split; [exact A1|]. split; [exact A2|]. split; [exact A3|].
        exists cm. cbn [mo_st]. rewrite upd_st_same. auto.
      * pose proof (R4 c Hc) as Hcv. unfold cinv, serving_c in *. simp_st. rewrite updf_other by exact Hne.
        cbn [mo_st]. rewrite upd_st_other by exact Hne. exact Hcv.
    + intros c Hc. cbn [mo_st]. rewrite upd_st_other; [apply R5; exact Hc|]. intros ->. congruence.
  - (* sndReq: the request goes to the primary *)
    unfold step_sndReq in Hs. rewrite (leader_is_1 cfg HNR s I) in Hs. cbn [Nat.eqb negb] in Hs.
    destruct (ch_alt ch); cbn [negb] in Hs.
    { rewrite (i_fd cfg s I) in Hs. discriminate. }
    destruct Hcp as (A1 & A2 & A3 & cm & A4 & A5). rewrite A4 in Hs. cbn [bindT] in Hs.
    unfold link_send in Hs. rewrite (i_en cfg s I) in Hs. inversion Hs; subst s'; clear Hs.
    exists t, mo. simp_st. split; [exact R1|]. split; [exact R2|]. split; [exact R3|].
    fold (reqmsg p cm (c_idx (cl s p))).
    split; [|split; [exact R5|split]].
    + intros c Hc. pose proof (R4 c Hc) as Hcv. unfold cinv, serving_c in *. simp_st.
      rewrite upd_net_same. simp_st. rewrite upd_net_other by (right; discriminate).
      destruct (Nat.eq_dec c p) as [->|Hne].
      * rewrite updf_same. simp_st. exists cm. split; [reflexivity|]. split; [reflexivity|]. left.
        split; [exists (queue (net s 1 REQ)), []; split; [reflexivity|split; [exact A1 | constructor]]|]. auto.
      * rewrite updf_other by exact Hne.
        assert (Hnew : nofrom c [reqmsg p cm (c_idx (cl s p))]) by (constructor; [cbn; auto | constructor]).
        destruct (c_pc (cl s c)).
        -- destruct Hcv as (B1 & B2 & B3 & B4). split; [apply nofrom_app; auto | auto].
        -- destruct Hcv as (B1 & B2 & B3 & B4). split; [apply nofrom_app; auto | auto].
        -- destruct Hcv as (cm' & E1 & E2 & H). exists cm'. split; [exact E1|]. split; [exact E2|].
           destruct H as [((A & B & EA & HA & HB) & X2 & X3)|[(X1 & X2)|[(X1 & X2)|(X1 & X2)]]].
           ++ left. split; [|auto]. exists A, (B ++ [reqmsg p cm (c_idx (cl s p))]). rewrite EA, <- app_assoc. cbn [app].
              split; [reflexivity|]. split; [exact HA | apply nofrom_app; auto].
           ++ right. left. split; [apply nofrom_app; auto | exact X2].
           ++ right. right. left. split; [apply nofrom_app; auto | exact X2].
           ++ right. right. right. split; [apply nofrom_app; auto | exact X2].
        -- exact Hcv.
    + rewrite upd_net_same. simp_st. apply Forall_app. split; [exact R6 | constructor; [exact Hp | constructor]].
    + exact R7.
  - (* rcvResp: response *)
    unfold step_rcvResp in Hs. destruct (ch_alt ch); cbn [negb] in Hs.
    { rewrite (i_fd cfg s I) in Hs. discriminate. }
    unfold link_recv in Hs. rewrite (i_en cfg s I) in Hs. cbn [negb] in Hs.
    destruct Hcp as (cm & E1 & E2 & H).
    destruct H as [(_ & _ & X3 & _)|[(_ & _ & _ & X3 & _)|[(_ & _ & _ & X3 & _)|(X1 & X2 & v & rb & rt & X3 & X4 & X5)]]];
      try (rewrite X3 in Hs; discriminate).
    rewrite X3 in Hs. simp_st. rewrite Nat.eqb_refl in Hs. cbn [negb] in Hs. rewrite E1 in Hs. cbn [bindT] in Hs.
    assert (Hout : s' = add_hist (set_cl (set_cout (set_net s (upd_net (net s) p RESP (mkLink [] true))) (Some v)) p
                                   (c_set_pc (cl s p) ClientLoop)) (HRes p v)).
    { destruct X5 as [(T1 & -> & -> & ->)|(T1 & -> & ->)]; rewrite T1 in Hs; simp_st.
      - rewrite !Nat.eqb_refl, E2 in Hs. cbn in Hs. inversion Hs. reflexivity.
      - rewrite !Nat.eqb_refl, E2 in Hs. cbn in Hs. inversion Hs. reflexivity. }
    subst s'. clear Hs.
    exists (t ++ [IRes p v]), (mkMon (mo_store mo) (upd_st (mo_st mo) p CIdle)).
    split. { rewrite mon_run_app, R1. cbn. rewrite X4, String.eqb_refl. reflexivity. }
    split. { rewrite proj_app. cbn. simp_st. rewrite R2. reflexivity. }
    split; [exact R3|]. split; [|split; [|split]].
    + intros c Hc. destruct (Nat.eq_dec c p) as [->|Hne].
      * unfold cinv, serving_c. simp_st. rewrite updf_same. simp_st.
        rewrite upd_net_other by (left; auto). rewrite upd_net_same. simp_st.
        split; [exact X1|]. split; [exact X2|]. split; [reflexivity|]. cbn [mo_st]. apply upd_st_same.
      * pose proof (R4 c Hc) as Hcv. unfold cinv, serving_c in *. simp_st. rewrite updf_other by exact Hne.
        rewrite upd_net_other by (right; discriminate). rewrite upd_net_other by (left; exact Hne).
        cbn [mo_st]. rewrite upd_st_other by exact Hne. exact Hcv.
    + intros c Hc. cbn [mo_st]. rewrite upd_st_other; [apply R5; exact Hc|]. intros ->. congruence.
    + simp_st. rewrite upd_net_other by (right; discriminate). exact R6.
    + exact R7.
  - discriminate.
Qed.


(* ------------------------------------------------------------------ every step *)
Lemma sim_step : forall s e s', Inv1 s -> Sim s -> step cfg s e = Ok s' -> Sim s'.
Proof.
  intros s [p ch] s' I HS Hs. unfold step in Hs.
  destruct (is_replica cfg p) eqn:Er.
  - destruct (replica_cases cfg HNR p Er) as [->|Bp]; [|eapply sim_backup_step; eauto].
    pose proof (i_p_pc cfg s I) as Hpc.
    destruct (r_pc (rl s 1)) eqn:Epc; cbn in Hpc; try contradiction.
    + eapply sim_primary_frame_steps; eauto.
    + eapply sim_primary_frame_steps; eauto.
    + eapply sim_rcvMsg_primary; eauto.
    + eapply sim_handlePrimary; eauto.
    + eapply sim_primary_frame_steps; eauto.
    + eapply sim_primary_frame_steps; eauto 6.
    + eapply sim_sndResp; eauto.
  - destruct (is_client cfg p) eqn:Ec; [|discriminate]. eapply sim_client_step; eauto.
Qed.

Lemma sim_reachable : forall input s, Forall input_ok input -> reachable cfg input s -> Inv1 s /\ Sim s.
Proof.
  intros input s Hin Hr. induction Hr.
  - split; [apply (init_inv1 cfg); exact Hin | apply sim_init].
  - destruct IHHr as [I HS]. split; [eapply (inv1_step cfg Hef HNR); eauto | eapply sim_step; eauto].
Qed.

End LFF.

(* NUM_REPLICAS > 0 is the spec's own ASSUME *)
Lemma linearizable_failure_free_lemma : forall cfg input evs s,
  explore_fail cfg = false -> 1 <= NR cfg -> Forall input_ok input ->
  exec cfg (init cfg input) evs = Some s -> linearizable (hist s).
Proof.
  intros cfg input evs s Hef HNR Hin He.
  assert (Hr : reachable cfg input s) by (eapply exec_reachable; [apply reach_init | exact He]).
  destruct (sim_reachable cfg Hef HNR input s Hin Hr) as [_ (t & mo & R1 & R2 & _)].
  rewrite <- R2. eapply mon_linearizable. exact R1.
Qed.
