(* C14 — basic lemmas about the typed primary-backup model (C14/Model.v). *)
From Coq Require Import List Arith Bool String Lia.
From PGV Require Import C14.Model.
Import ListNotations.
Open Scope nat_scope.

Lemma init_consistent_lemma : forall cfg input, ConsistencyOK cfg (init cfg input).
Proof.
  intros cfg input p _ _ r _ _ k. reflexivity.
Qed.

(* ------------------------------------------------------------------ sets as lists *)
Lemma in_replicas_iff : forall cfg r, In r (replicas cfg) <-> 1 <= r <= NR cfg.
Proof. intros. unfold replicas. rewrite in_seq. lia. Qed.

Lemma is_replica_true : forall cfg r, is_replica cfg r = true <-> 1 <= r <= NR cfg.
Proof.
  intros. unfold is_replica. rewrite andb_true_iff, !Nat.leb_le. tauto.
Qed.

Lemma is_client_true : forall cfg r, is_client cfg r = true <-> NR cfg + 1 <= r <= NR cfg + NC cfg.
Proof.
  intros. unfold is_client. rewrite andb_true_iff, !Nat.leb_le. tauto.
Qed.

Lemma in_others : forall cfg self r, In r (others cfg self) <-> (1 <= r <= NR cfg /\ r <> self).
Proof.
  intros. unfold others. rewrite filter_In, in_replicas_iff, negb_true_iff, Nat.eqb_neq. tauto.
Qed.

Lemma in_remove_node : forall x l r, In r (remove_node x l) <-> (In r l /\ r <> x).
Proof.
  intros. unfold remove_node. rewrite filter_In, negb_true_iff, Nat.eqb_neq. tauto.
Qed.

Lemma mem_node_true : forall x l, mem_node x l = true <-> In x l.
Proof.
  intros. unfold mem_node. rewrite existsb_exists. split.
  - intros (y & Hy & He). apply Nat.eqb_eq in He. subst. exact Hy.
  - intros H. exists x. split; [exact H | apply Nat.eqb_refl].
Qed.

Lemma mem_node_false : forall x l, mem_node x l = false <-> ~ In x l.
Proof.
  intros. rewrite <- mem_node_true. destruct (mem_node x l); split; congruence.
Qed.

(* the least element of `primary` *)
Lemma hd_filter_seq_least : forall (f : nat -> bool) n a p,
  hd 0 (filter f (seq a n)) = p -> p <> 0 ->
  a <= p < a + n /\ f p = true /\ forall q, a <= q < p -> f q = false.
Proof.
  intros f n. induction n as [|n IH]; intros a p Hh Hp; cbn in Hh.
  - congruence.
  - destruct (f a) eqn:Ef; cbn in Hh.
    + subst p. repeat split; try lia. exact Ef.
    + destruct (IH (S a) p Hh Hp) as (Hr & Hf & Hl). repeat split; try lia; try exact Hf.
      intros q Hq. destruct (Nat.eq_dec q a) as [->|Hne]; [exact Ef | apply Hl; lia].
Qed.

Lemma hd_filter_seq_zero : forall (f : nat -> bool) n a,
  0 < a -> hd 0 (filter f (seq a n)) = 0 -> forall q, a <= q < a + n -> f q = false.
Proof.
  intros f n. induction n as [|n IH]; intros a Ha Hh q Hq; [lia|].
  cbn in Hh. destruct (f a) eqn:Ef; cbn in Hh; [lia|].
  destruct (Nat.eq_dec q a) as [->|Hne]; [exact Ef | apply (IH (S a)); [lia | exact Hh | lia]].
Qed.

Lemma hd_filter_seq_first : forall (f : nat -> bool) n a p,
  a <= p < a + n -> f p = true -> (forall q, a <= q < p -> f q = false) ->
  hd 0 (filter f (seq a n)) = p.
Proof.
  intros f n. induction n as [|n IH]; intros a p Hr Hf Hl; [lia|].
  cbn. destruct (Nat.eq_dec p a) as [->|Hne].
  - rewrite Hf. reflexivity.
  - rewrite (Hl a) by lia. apply IH; [lia | exact Hf | intros; apply Hl; lia].
Qed.

Lemma leader_spec : forall cfg s p, leader cfg s = p -> p <> 0 ->
  1 <= p <= NR cfg /\ prim s p = true /\ forall q, 1 <= q < p -> prim s q = false.
Proof.
  intros cfg s p H Hp. unfold leader, replicas in H.
  destruct (hd_filter_seq_least _ _ _ _ H Hp) as (Hr & Hf & Hl). repeat split; try lia; assumption.
Qed.

Lemma leader_first : forall cfg s p, 1 <= p <= NR cfg -> prim s p = true ->
  (forall q, 1 <= q < p -> prim s q = false) -> leader cfg s = p.
Proof.
  intros. unfold leader, replicas. apply hd_filter_seq_first; [lia | assumption | assumption].
Qed.

(* ------------------------------------------------------------------ executions *)
Inductive reachable (cfg : config) (input : list cmsg) : state -> Prop :=
| reach_init : reachable cfg input (init cfg input)
| reach_step : forall s e s', reachable cfg input s -> step cfg s e = Ok s' -> reachable cfg input s'.

Lemma exec_reachable : forall cfg input evs s s',
  reachable cfg input s -> exec cfg s evs = Some s' -> reachable cfg input s'.
Proof.
  intros cfg input evs. induction evs as [|e evs IH]; intros s s' Hr He; cbn in He.
  - inversion He. subst. exact Hr.
  - destruct (step cfg s e) eqn:Es; try discriminate.
    eapply IH; [eapply reach_step; eassumption | exact He].
Qed.

Lemma run_skip_reachable : forall cfg input evs s,
  reachable cfg input s -> reachable cfg input (run_skip cfg s evs).
Proof.
  intros cfg input evs. induction evs as [|e evs IH]; intros s Hr; cbn.
  - exact Hr.
  - destruct (step cfg s e) eqn:Es; try (apply IH; exact Hr).
    apply IH. eapply reach_step; eassumption.
Qed.

(* update functions *)
Lemma updf_same : forall A (f : node -> A) x v, updf f x v x = v.
Proof. intros. unfold updf. rewrite Nat.eqb_refl. reflexivity. Qed.
Lemma updf_other : forall A (f : node -> A) x v y, y <> x -> updf f x v y = f y.
Proof. intros. unfold updf. apply Nat.eqb_neq in H. rewrite H. reflexivity. Qed.
Lemma upd_net_same : forall nt n c l, upd_net nt n c l n c = l.
Proof. intros. unfold upd_net. rewrite Nat.eqb_refl. destruct c; reflexivity. Qed.
Lemma upd_net_other : forall nt n c l n' c', (n' <> n \/ c' <> c) -> upd_net nt n c l n' c' = nt n' c'.
Proof.
  intros. unfold upd_net. destruct (Nat.eqb n' n) eqn:E; [|reflexivity].
  apply Nat.eqb_eq in E. destruct H as [H|H]; [congruence|].
  destruct c', c; cbn; congruence.
Qed.

Lemma NoDup_snoc : forall (l : list nat) x, NoDup l -> ~ In x l -> NoDup (l ++ [x]).
Proof.
  induction l as [|a l IH]; intros x Hnd Hni; cbn.
  - constructor; [intros []|constructor].
  - inversion Hnd; subst. constructor.
    + intros Hin. apply in_app_or in Hin. destruct Hin as [Hin|[->|[]]]; [tauto|]. apply Hni. left. reflexivity.
    + apply IH; [assumption|]. intros Hin. apply Hni. right. exact Hin.
Qed.

Lemma upd_fs_same : forall f n k v, upd_fs f n k v n k = v.
Proof. intros. unfold upd_fs. rewrite Nat.eqb_refl, String.eqb_refl. reflexivity. Qed.
Lemma upd_fs_other_node : forall f n k v n' k', n' <> n -> upd_fs f n k v n' k' = f n' k'.
Proof. intros. unfold upd_fs. apply Nat.eqb_neq in H. rewrite H. reflexivity. Qed.
Lemma upd_fs_node : forall f n k v k', upd_fs f n k v n k' = if String.eqb k' k then v else f n k'.
Proof. intros. unfold upd_fs. rewrite Nat.eqb_refl. reflexivity. Qed.
